(* Generic driver: one request (s-expression) per input line -> one answer per output line.
   Only glue: text <-> Model.sx. Big integers go through Zarith for parsing/printing only. *)
module BZ = Z
module SString = Stdlib.String
open Model

let rec pos_of_z (n : BZ.t) : positive =
  if BZ.equal n BZ.one then XH
  else if BZ.is_even n then XO (pos_of_z (BZ.shift_right n 1))
  else XI (pos_of_z (BZ.shift_right n 1))
let z_of_z (n : BZ.t) : z =
  if BZ.sign n = 0 then Z0 else if BZ.sign n > 0 then Zpos (pos_of_z n) else Zneg (pos_of_z (BZ.neg n))
let rec z_of_pos = function
  | XH -> BZ.one | XO p -> BZ.shift_left (z_of_pos p) 1 | XI p -> BZ.succ (BZ.shift_left (z_of_pos p) 1)
let z_to_z = function Z0 -> BZ.zero | Zpos p -> z_of_pos p | Zneg p -> BZ.neg (z_of_pos p)

let ascii_of_char c =
  let n = Char.code c in let b i = (n lsr i) land 1 = 1 in
  Ascii (b 0, b 1, b 2, b 3, b 4, b 5, b 6, b 7)
let char_of_ascii (Ascii (a,b,c,d,e,f,g,h)) =
  let v x i = if x then 1 lsl i else 0 in
  Char.chr (v a 0 + v b 1 + v c 2 + v d 3 + v e 4 + v f 5 + v g 6 + v h 7)
let coq_string (s : SString.t) : string =
  let r = ref EmptyString in
  for i = SString.length s - 1 downto 0 do r := String (ascii_of_char s.[i], !r) done; !r
let rec ocaml_string (s : string) (b : Buffer.t) =
  match s with EmptyString -> () | String (c, r) -> Buffer.add_char b (char_of_ascii c); ocaml_string r b

(* the rational is normalised by the model's own Q2Qc (Qred), reached through the "mkq" request *)
let mk_q (n : BZ.t) (d : BZ.t) : sx =
  match run (LL [SS (coq_string "mkq"); ZZ (z_of_z n); ZZ (z_of_z d)]) with
  | QQ q -> QQ q | _ -> failwith "mkq"

exception Parse of SString.t
let parse (s : SString.t) : sx =
  let n = SString.length s in
  let i = ref 0 in
  let rec skip () = if !i < n && (s.[!i] = ' ' || s.[!i] = '\n' || s.[!i] = '\t') then (incr i; skip ()) in
  let rec item () : sx =
    skip ();
    if !i >= n then raise (Parse "eof");
    match s.[!i] with
    | '(' -> incr i; let acc = ref [] in
        let rec loop () = skip ();
          if !i >= n then raise (Parse "unclosed");
          if s.[!i] = ')' then incr i else (acc := item () :: !acc; loop ()) in
        loop (); LL (List.rev !acc)
    | '"' -> incr i; let st = !i in
        while !i < n && s.[!i] <> '"' do incr i done;
        let r = SString.sub s st (!i - st) in incr i; SS (coq_string r)
    | _ -> let st = !i in
        while !i < n && (match s.[!i] with ' ' | '(' | ')' | '\n' | '\t' -> false | _ -> true) do incr i done;
        let tok = SString.sub s st (!i - st) in
        (match SString.index_opt tok '/' with
         | Some k -> mk_q (BZ.of_string (SString.sub tok 0 k))
                          (BZ.of_string (SString.sub tok (k+1) (SString.length tok - k - 1)))
         | None -> ZZ (z_of_z (BZ.of_string tok)))
  in item ()

let rec print (b : Buffer.t) (x : sx) : unit =
  match x with
  | ZZ z -> Buffer.add_string b (BZ.to_string (z_to_z z))
  | QQ q -> Buffer.add_string b (BZ.to_string (z_to_z q.qnum)); Buffer.add_char b '/';
            Buffer.add_string b (BZ.to_string (z_of_pos q.qden))
  | SS s -> Buffer.add_char b '"'; ocaml_string s b; Buffer.add_char b '"'
  | LL l -> Buffer.add_char b '(';
            List.iteri (fun k y -> if k > 0 then Buffer.add_char b ' '; print b y) l;
            Buffer.add_char b ')'

let () =
  let b = Buffer.create 65536 in
  (try while true do
    let line = input_line stdin in
    Buffer.clear b;
    (try print b (run (parse line))
     with Parse m -> Buffer.add_string b ("\"driver-parse-error:" ^ m ^ "\"")
        | Stack_overflow -> Buffer.add_string b "\"driver-stack-overflow\"");
    print_string (Buffer.contents b); print_newline ()
  done with End_of_file -> ())
