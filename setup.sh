#!/bin/bash
# clean full build of the Coq development (all .vo), extraction, OCaml driver. Offline.
cd "$(dirname "$0")"
rm -f coq/.lia.cache coq/.nra.cache coq/*/.lia.cache coq/*/.nra.cache coq/Makefile coq/Makefile.conf coq/.*.aux coq/*/.*.aux ocaml/driver ocaml/model.ml ocaml/model.mli ocaml/*.cm* ocaml/*.o
find coq -name "*.vo" -o -name "*.vok" -o -name "*.vos" -o -name "*.glob" | xargs rm -f
tools/build.sh || exit 1
/venv/bin/python -c "import json; json.load(open('known_findings.json')); json.load(open('MANIFEST.json'))" || exit 1
echo "setup ok"
