(** N-D construction: to_numpy_bins_with_mask, numpy.histogramdd's index rule, calculate_nd_frequencies
    as coded; and the per-axis "which bin contains x" specification. *)
From Physt Require Export Calc1D.

(** ---------- as coded ---------- *)
(** to_numpy_bins_with_mask on an (n,2) array: all edges incl. gap edges, and the positions of real bins *)
Fixpoint edges_mask_loop (bins : list bin) (j : nat) : list Qc * list nat :=
  match bins with
  | [] => ([], [])
  | b :: r =>
      match r with
      | [] => ([snd b], [j])
      | c :: _ =>
          let gap := negb (Qceqb (snd b) (fst c)) in
          let '(es, ms) := edges_mask_loop r (if gap then S (S j) else S j) in
          (snd b :: (if gap then fst c :: es else es), j :: ms)
      end
  end.
Definition edges_mask (bins : list bin) : list Qc * list nat :=
  match bins with
  | [] => ([], [])
  | b :: _ => let '(es, ms) := edges_mask_loop bins 0 in (fst b :: es, ms)
  end.

Definition xleb_q (e : xnum) (x : Qc) : bool := match e with Fin q => Qcleb q x | NInf => true | _ => false end.

(** numpy.histogramdd: searchsorted(edges, x, 'right'), minus one on the rightmost edge; 0 and len are outliers *)
Definition hd_index (edges : list xnum) (x : Qc) : option nat :=
  let cnt := length (filter (fun e => xleb_q e x) edges) in
  let cnt' := match last edges NaN with Fin q => if Qceqb x q then (cnt - 1)%nat else cnt | _ => cnt end in
  if Nat.leb 1 cnt' && Nat.leb cnt' (length edges - 1) then Some (cnt' - 1)%nat else None.

Fixpoint find_index (x : nat) (l : list nat) (pos : nat) : option nat :=
  match l with
  | [] => None
  | y :: r => if Nat.eqb x y then Some pos else find_index x r (S pos)
  end.

Definition axis_index_coded (bins : list bin) (incl : bool) (x : Qc) : option nat :=
  let '(es, ms) := edges_mask bins in
  let es' := map Fin es ++ (if incl then [] else [PInf]) in
  match hd_index es' x with
  | Some iv => find_index iv ms 0
  | None => None end.

(** ---------- specification ---------- *)
Fixpoint spec_find_from (bins : list bin) (closed_last : bool) (x : Qc) (pos : nat) : option nat :=
  match bins with
  | [] => None
  | b :: r => if in_bin b (match r with [] => closed_last | _ => false end) x then Some pos
              else spec_find_from r closed_last x (S pos)
  end.
Definition axis_index_spec (bins : list bin) (incl : bool) (x : Qc) : option nat := spec_find_from bins incl x 0.

(** ---------- rows, cells ---------- *)
Definition row_has_nan (r : list xnum) : bool := existsb is_nan r.
Definition rows_of (data : list (list xnum)) (ws : option (list Qc)) : list (list Qc * Qc) :=
  let w := match ws with Some l => l | None => map (fun _ => 1) data end in
  map (fun p => (map fin_of (fst p), snd p)) (filter (fun p => negb (row_has_nan (fst p))) (combine data w)).

Definition row_cell (idx : list bin -> bool -> Qc -> option nat) (axes : list (list bin * bool)) (row : list Qc) : option (list nat) :=
  mapM (fun p => idx (fst (fst p)) (snd (fst p)) (snd p)) (combine axes row).

Definition opt_list_eqb (o : option (list nat)) (c : list nat) : bool :=
  match o with Some l => list_eqb l c | None => false end.

Definition cells (idx : list bin -> bool -> Qc -> option nat) (axes : list (list bin * bool))
           (rows : list (list Qc * Qc)) (f : Qc -> Qc) : list Qc :=
  let located := map (fun r => (row_cell idx axes (fst r), f (snd r))) rows in
  tabulate (map (fun a => length (fst a)) axes)
    (fun c => sumq (map snd (filter (fun r => opt_list_eqb (fst r) c) located))).

Record resN := { n_freq : list Qc; n_err2 : list Qc; n_missed : Qc }.

Definition calc_nd (idx : list bin -> bool -> Qc -> option nat) (axes : list (list bin * bool)) (rows : list (list Qc * Qc)) : resN :=
  let f := cells idx axes rows (fun w => w) in
  {| n_freq := f; n_err2 := cells idx axes rows (fun w => w * w);
     n_missed := sumq (map snd rows) - sumq f |}.

(** ---------- C02 case ---------- *)
Record c02 := {
  b_data : list (list xnum);
  b_weights : option (list Qc);
  b_axes : list (list bin * bool);
  b_dropna : bool;
  b_wlen_ok : bool }.

Definition invalid_nd (c : c02) : bool :=
  (negb (b_dropna c) && existsb row_has_nan (b_data c)) ||
  existsb (fun a => negb (risingb (fst a)) || Nat.eqb (length (fst a)) 0) (b_axes c) ||
  match b_weights c with Some _ => negb (b_wlen_ok c) | None => false end ||
  existsb (fun r => negb (Nat.eqb (length r) (length (b_axes c)))) (b_data c).

Definition run_nd (c : c02) : option resN :=
  if invalid_nd c then None else Some (calc_nd axis_index_coded (b_axes c) (rows_of (b_data c) (b_weights c))).
Definition spec_nd (c : c02) : resN := calc_nd axis_index_spec (b_axes c) (rows_of (b_data c) (b_weights c)).

Definition e_resN (r : resN) : sx :=
  LL [SS "ok"; e_qs (n_freq r); e_qs (n_err2 r); QQ (n_missed r); QQ (sumq (n_freq r))].

Definition check_nd (c : c02) (obs : sx) : bool :=
  match obs with
  | LL [SS "refused"] => invalid_nd c
  | LL [SS "ok"; f; e; m; t] =>
      negb (invalid_nd c) &&
      match d_list d_q f, d_list d_q e, d_q m, d_q t with
      | Some f, Some e, Some m, Some t =>
          let s := spec_nd c in
          closel 0 (n_freq s) f && closel 0 (n_err2 s) e && Qceqb m (n_missed s) && Qceqb t (sumq (n_freq s)) &&
          Qceqb (t + m) (sumq (map snd (rows_of (b_data c) (b_weights c))))
      | _, _, _, _ => false end
  | _ => false end.

Definition d_axis (s : sx) : option (list bin * bool) := d_pair d_bins d_bool s.
Definition d_c02 (s : sx) : option c02 :=
  dat <- (x <- fld "data" s ;; d_list (d_list d_x) x) ;;
  ws <- (x <- fld "weights" s ;; d_opt (d_list d_q) x) ;;
  ax <- (x <- fld "axes" s ;; d_list d_axis x) ;;
  dn <- (x <- fld "dropna" s ;; d_bool x) ;;
  wok <- (x <- fld "wlen_ok" s ;; d_bool x) ;;
  ret (Build_c02 dat ws ax dn wok).
Definition wf_c02 (c : c02) : bool :=
  match b_weights c with Some l => negb (b_wlen_ok c) || Nat.eqb (length l) (length (b_data c)) | None => true end &&
  forallb (forallb (fun x => match x with PInf | NInf => false | _ => true end)) (b_data c).

Definition judge_C02 (case obs : sx) : sx :=
  match d_c02 case with
  | None => LL [illformed; SS "decode"]
  | Some c =>
      if negb (wf_c02 c) then LL [illformed; SS "wf"] else
      LL [SS (if check_nd c obs then "ok" else "bad");
          match run_nd c with Some r => e_resN r | None => LL [SS "refused"] end]
  end.
