(** Shared histogram record and its (de)coders. One record serves 1-D and N-D:
    missed = [underflow; overflow; inner_missed] for 1-D, [missed] for N-D. *)
From Physt Require Export Sx Arr.

Definition bin := (Qc * Qc)%type.
Record hist := mkHist {
  h_bins : list (list bin);      (* per axis *)
  h_incl : list bool;            (* includes_right_edge per axis *)
  h_freq : list Qc;              (* row-major *)
  h_err2 : list Qc;
  h_missed : list xnum }.
Definition h_shape (h : hist) : list nat := map (@length bin) (h_bins h).

Definition d_bin : sx -> option bin := d_pair d_q d_q.
Definition d_bins : sx -> option (list bin) := d_list d_bin.
Definition e_bin (b : bin) : sx := LL [QQ (fst b); QQ (snd b)].
Definition e_bins (l : list bin) : sx := e_list e_bin l.
Definition e_qs (l : list Qc) : sx := e_list QQ l.

Definition d_hist (s : sx) : option hist :=
  b <- (x <- fld "bins" s ;; d_list d_bins x) ;;
  i <- (x <- fld "incl" s ;; d_list d_bool x) ;;
  f <- (x <- fld "freq" s ;; d_list d_q x) ;;
  e <- (x <- fld "err2" s ;; d_list d_q x) ;;
  m <- (x <- fld "missed" s ;; d_list d_x x) ;;
  ret (mkHist b i f e m).

Definition wf_hist (h : hist) : bool :=
  Nat.eqb (length (h_freq h)) (size (h_shape h)) &&
  Nat.eqb (length (h_err2 h)) (size (h_shape h)) &&
  Nat.eqb (length (h_incl h)) (length (h_bins h)).

Definition total (h : hist) : Qc := sumq (h_freq h).

(** bins are rising: left < right in every bin and no overlap *)
Fixpoint risingb (l : list bin) : bool :=
  match l with
  | [] => true
  | b :: r => Qcltb (fst b) (snd b) &&
              match r with [] => true | c :: _ => Qcleb (snd b) (fst c) end && risingb r
  end.

Definition last_hi (l : list bin) : Qc := snd (last l (0, 0)).
