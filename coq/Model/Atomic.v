(** C18: histograms stay well-formed; failed operations change nothing.
    The in-place operations are those of DtypeCases.dstep (validation order as coded); operations that are not
    modelled are "opaque": only the property itself is checked on what the implementation shows. *)
From Physt Require Export Adaptive.

Inductive wop := WModel (o : dop) | WOpaque (name : string).

(** a cell keyed by its bin intervals *)
Definition cell := (list bin * (Qc * Qc))%type.
Definition d_cell (s : sx) : option cell :=
  match s with LL [iv; c; e] => iv <- d_bins iv ;; c <- d_q c ;; e <- d_q e ;; ret (iv, (c, e)) | _ => None end.

Definition iv_eqb (a b : list bin) : bool := all2 (fun x y : bin => Qceqb (fst x) (fst y) && Qceqb (snd x) (snd y)) a b.
Fixpoint lookup_cell (iv : list bin) (l : list cell) : option (Qc * Qc) :=
  match l with [] => None | (k, v) :: r => if iv_eqb iv k then Some v else lookup_cell iv r end.

(** every content / squared error recorded for a bin interval before is still recorded for it after, and nothing new appeared *)
Definition contents_kept (before after : list cell) : bool :=
  forallb (fun c : cell => match lookup_cell (fst c) after with
                           | Some (x, e) => Qceqb x (fst (snd c)) && Qceqb e (snd (snd c))
                           | None => Qceqb (fst (snd c)) 0 && Qceqb (snd (snd c)) 0 end) before &&
  forallb (fun c : cell => match lookup_cell (fst c) before with
                           | Some _ => true
                           | None => Qceqb (fst (snd c)) 0 && Qceqb (snd (snd c)) 0 end) after.

Definition cells_wf (l : list cell) : bool := forallb (fun c : cell => Qcleb 0 (fst (snd c)) && Qcleb 0 (snd (snd c))) l.

(** one observed step: [raised; before cells; after cells; before missed; after missed; shapes consistent] *)
Definition check_wstep (pred : option (dh * bool)) (obs : sx) : bool :=
  match obs with
  | LL [r; b; a; mb; ma; sh] =>
      match d_bool r, d_list d_cell b, d_list d_cell a, d_list d_x mb, d_list d_x ma, d_bool sh with
      | Some r, Some b, Some a, Some mb, Some ma, Some sh =>
          sh && cells_wf a &&
          (if r then contents_kept b a && all2 xeqb mb ma else true) &&
          match pred with
          | None => true
          | Some (h', raised) =>
              Bool.eqb r raised &&
              (if raised then true
               else closel (mkq 1 1000) (y_freq h') (map (fun c : cell => fst (snd c)) a) &&
                    closel (mkq 1 1000) (y_err2 h') (map (fun c : cell => snd (snd c)) a))
          end
      | _, _, _, _, _, _ => false end
  | _ => false end.

Fixpoint check_wrun (h : option dh) (ops : list wop) (obs : list sx) : bool :=
  match ops, obs with
  | [], [] => true
  | o :: r, ob :: obs' =>
      match o, h with
      | WModel d, Some h0 =>
          if (match d with DNorm => Qceqb (sumq (y_freq h0)) 0 | _ => false end) then true else
          let x := dstep h0 d in check_wstep (Some x) ob && check_wrun (Some (fst x)) r obs'
      | _, _ => check_wstep None ob && check_wrun None r obs'       (* after an opaque call the model no longer tracks the state *)
      end
  | _, _ => false end.

Record c18 := { w_h : dh; w_ops : list wop }.
Definition d_wop (s : sx) : option wop :=
  match s with
  | LL [SS "opaque"; SS n] => Some (WOpaque n)
  | _ => o <- d_dop s ;; ret (WModel o) end.
Definition d_c18 (s : sx) : option c18 :=
  h <- (x <- fld "hist" s ;; d_dh x) ;; o <- (x <- fld "ops" s ;; d_list d_wop x) ;; ret (Build_c18 h o).
Definition wf_c18 (c : c18) : bool :=
  wf_dh (w_h c) && forallb (fun o => match o with WModel d => wf_dop d | _ => true end) (w_ops c).

Definition check_C18 (c : c18) (obs : sx) : bool :=
  match obs with LL l => check_wrun (Some (w_h c)) (w_ops c) l | _ => false end.

(** model prediction shown for the correspondence: raised flags of the modelled prefix *)
Fixpoint pred_run (h : option dh) (ops : list wop) : list sx :=
  match ops with
  | [] => []
  | o :: r =>
      match o, h with
      | WModel d, Some h0 => let x := dstep h0 d in e_bool (snd x) :: pred_run (Some (fst x)) r
      | _, _ => SS "?" :: pred_run None r end
  end.

Definition judge_C18 (case obs : sx) : sx :=
  match d_c18 case with
  | None => LL [illformed; SS "decode"]
  | Some c =>
      if negb (wf_c18 c) then LL [illformed; SS "wf"] else
      LL [SS (if check_C18 c obs then "ok" else "bad"); LL (pred_run (Some (w_h c)) (w_ops c))]
  end.
