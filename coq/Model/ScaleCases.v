(** C06: scaling, division, normalisation — operations as coded, cases, observation, checker. *)
From Physt Require Export ArithCases.

Inductive sform := FCopy | FRev | FInplace.        (* h*c | c*h | h*=c *)
Inductive sop :=
| SMul (c : Qc) (k : string) (f : sform)
| SDiv (c : Qc) (k : string) (f : sform)
| SNorm (inplace percent : bool)
| SPartial (axis : nat) (inplace : bool)
| SBad (what : string).

(** dtype of np.asarray(scalar) *)
Definition kind_dt (k : string) : option dt :=
  match k with
  | "pyint" => Some I64 | "pyfloat" => Some F64
  | "np.int64" => Some I64 | "np.int32" => Some I32 | "np.int16" => Some I16
  | "np.float64" => Some F64 | "np.float32" => Some F32 | "np.float16" => Some F16 | "np.float128" => Some F128
  | _ => None end.
Definition is_numpy_kind (k : string) : bool :=
  match k with "pyint" | "pyfloat" => false | _ => true end.

Definition imul_k (h : ah) (c : Qc) (k : string) : result ah :=
  match kind_dt k with
  | None => Err EType
  | Some d =>
      let h1 := coerce h d in
      let f := map (Qcmult c) (ah_freq h1) in
      if Qcltb c 0 || negb (nonneg f) then Err EValue else      (* a negative factor is refused whatever the contents *)
      Ok (mkAh (ah_axes h1) f (map (Qcmult (c * c)) (ah_err2 h1)) (map (xscale c) (ah_missed h1)) (ah_dt h1)
               (option_map (fun s => stats_mul s c) (ah_stats h1)) (ah_keep h1))
  end.
Definition idiv_k (h : ah) (c : Qc) (k : string) : result ah :=
  match kind_dt k with
  | None => Err EType
  | Some d =>
      let h1 := coerce h (promote F64 d) in
      let f := map (fun x => x / c) (ah_freq h1) in
      if Qcltb c 0 || negb (nonneg f) then Err EValue else      (* a negative factor is refused whatever the contents *)
      Ok (mkAh (ah_axes h1) f (map (fun x => x / (c * c)) (ah_err2 h1)) (map (xscale (/ c)) (ah_missed h1)) (ah_dt h1)
               (option_map (fun s => stats_mul s (/ c)) (ah_stats h1)) (ah_keep h1))
  end.

Definition ah_total (h : ah) : Qc := sumq (ah_freq h).
Definition total_kind (h : ah) : string := if dt_is_int (ah_dt h) then "pyint" else "pyfloat".
Definition fl001 : Qc := mkq 5764607523034235 576460752303423488.     (* the binary64 nearest to 0.01 *)

(** Histogram2D.partial_normalize *)
Definition line_sums (shape : list nat) (axis : nat) (a : list Qc) : list Qc := sum_axis shape axis a.
Definition partial_norm (h : ah) (axis : nat) : ah :=
  let shape := ah_shape h in
  let h1 := coerce h F64 in
  let sums := line_sums shape axis (ah_freq h1) in
  let dv (idx : list nat) := let s := nth (nth (1 - axis) idx 0%nat) sums 0 in if Qceqb s 0 then 1 else s in
  mkAh (ah_axes h1) (tabulate shape (fun idx => get 0 shape (ah_freq h1) idx / dv idx))
       (tabulate shape (fun idx => get 0 shape (ah_err2 h1) idx / (dv idx * dv idx)))
       (ah_missed h1) (ah_dt h1) (ah_stats h1) (ah_keep h1).

(** one operation: result object, or refusal. [NotHist]: numpy took over and returned a bare array *)
Inductive sres := SOk (h : ah) | SRefused | SNotHist.
Definition step_s (h : ah) (o : sop) : sres :=
  match o with
  | SMul c k f =>
      match f with
      | _ => match imul_k h c k with Ok x => SOk x | Err _ => SRefused end      (* c * h = h * c also for numpy scalars (/repo fix of F20b) *)
      end
  | SDiv c k _ => match idiv_k h c k with Ok x => SOk x | Err _ => SRefused end
  | SNorm inplace percent =>
      let t := ah_total h in
      if inplace then
        match idiv_k h (if percent then t * fl001 else t) (if percent then "pyfloat" else total_kind h) with
        | Ok x => SOk x | Err _ => SRefused end
      else
        match idiv_k h t (total_kind h) with
        | Ok x => match imul_k x (if percent then qz 100 else 1) "pyint" with Ok y => SOk y | Err _ => SRefused end
        | Err _ => SRefused end
  | SPartial axis _ => if Nat.eqb (ah_ndim h) 2 && Nat.ltb axis 2 then SOk (partial_norm h axis) else SRefused
  | SBad _ => SRefused
  end.

Fixpoint run_chain (h : ah) (ops : list sop) : list sres :=
  match ops with
  | [] => []
  | o :: r => let x := step_s h o in
              x :: match x with
                   | SOk h' => run_chain h' r
                   | _ => (* a refused in-place operation has already promoted the dtype - unless the factor itself was
                             refused (negative), which happens before anything is touched *)
                          run_chain (match o with
                                     | SMul c k FInplace => if Qcltb c 0 then h else match kind_dt k with Some d => coerce h d | None => h end
                                     | SDiv c k FInplace => if Qcltb c 0 then h else match kind_dt k with Some d => coerce h (promote F64 d) | None => h end
                                     | _ => h end) r
                   end
  end.

(** ---------- case / observation ---------- *)
Record c06 := { k_h : ah; k_ops : list sop; k_eps : Qc }.
Definition d_sform (s : sx) : option sform :=
  match s with SS "copy" => Some FCopy | SS "rev" => Some FRev | SS "inplace" => Some FInplace | _ => None end.
Definition d_sop (s : sx) : option sop :=
  match s with
  | LL [SS "mul"; c; SS k; f] => c <- d_q c ;; f <- d_sform f ;; ret (SMul c k f)
  | LL [SS "div"; c; SS k; f] => c <- d_q c ;; f <- d_sform f ;; ret (SDiv c k f)
  | LL [SS "normalize"; i; p] => i <- d_bool i ;; p <- d_bool p ;; ret (SNorm i p)
  | LL [SS "partial"; a; i] => a <- d_nat a ;; i <- d_bool i ;; ret (SPartial a i)
  | LL [SS "bad"; SS w] => Some (SBad w)
  | _ => None end.
Definition d_c06 (s : sx) : option c06 :=
  h <- (x <- fld "hist" s ;; d_ah x) ;;
  o <- (x <- fld "ops" s ;; d_list d_sop x) ;;
  e <- (x <- fld "eps" s ;; d_q x) ;;
  ret (Build_c06 h o e).
Definition wf_sop (o : sop) : bool :=
  match o with
  | SMul c _ _ => true
  | SDiv c _ _ => negb (Qceqb c 0)
  | _ => true end.
Definition wf_c06 (c : c06) : bool := wf_ah (k_h c) && forallb wf_sop (k_ops c) && Qcleb 0 (k_eps c).

Definition e_sres (r : sres) : sx :=
  match r with
  | SOk h => LL (SS "ok" :: e_ah h ++ [SS "T"])
  | SRefused => LL [SS "refused"]
  | SNotHist => LL [SS "not-a-histogram"] end.

Definition xclosel eps := all2 (xclose eps).
Definition stats_xclose (eps : Qc) (a b : option stats) : bool :=
  match a, b with
  | None, None => true
  | Some x, Some y => xclose eps (st_sum x) (st_sum y) && xclose eps (st_sum2 x) (st_sum2 y) && xeqb (st_min x) (st_min y) &&
                      xeqb (st_max x) (st_max y) && xclose eps (st_weight x) (st_weight y)
  | _, _ => false end.
Definition dt_eqb (a b : dt) : bool :=
  match a, b with
  | I16, I16 | I32, I32 | I64, I64 | F16, F16 | F32, F32 | F64, F64 | F128, F128 => true | _, _ => false end.

(** mean and variance as Statistics computes them *)
Definition st_mean (s : stats) : xnum :=
  match st_sum s, st_weight s with Fin a, Fin w => if Qceqb w 0 then NaN else Fin (a / w) | _, _ => NaN end.
Definition st_var (s : stats) : xnum :=
  match st_sum s, st_sum2 s, st_weight s with
  | Fin a, Fin b, Fin w => if Qcltb 0 w then Fin ((b - a * a / w) / w) else NaN
  | _, _, _ => NaN end.

(** the variance is a difference of two terms of size sum2/w and mean^2: its rounding error scales with those terms *)
Definition var_close (eps : Qc) (s s' : stats) : bool :=
  match st_var s, st_var s', st_sum s, st_sum2 s, st_weight s with
  | Fin v, Fin v', Fin a, Fin b, Fin w =>
      Qcleb (Qcabs (v - v')) (eps * qz 8 * Qcmax 1 (Qcabs (b / w) + (a / w) * (a / w) + Qcabs v))
  | x, y, _, _, _ => xeqb x y end.

(** what must hold after one accepted step, given the histogram before it (the laws of the property) *)
Definition laws (eps : Qc) (before : ah) (o : sop) (after : ah) : bool :=
  bins_same (map axis_bins (ah_axes before)) (map axis_bins (ah_axes after)) &&
  match o with
  | SMul c _ _ | SDiv c _ _ =>
      let c' := match o with SDiv _ _ _ => / c | _ => c end in
      closel eps (map (Qcmult c') (ah_freq before)) (ah_freq after) &&
      closel eps (map (Qcmult (c' * c')) (ah_err2 before)) (ah_err2 after) &&
      xclosel eps (map (xscale c') (ah_missed before)) (ah_missed after) &&
      match ah_stats before, ah_stats after with
      | Some s, Some s' => if stats_valid s && Qcltb 0 c' then
                             xclose eps (st_mean s) (st_mean s') && var_close eps s s' &&
                             xeqb (st_min s) (st_min s') && xeqb (st_max s) (st_max s') &&
                             xclose eps (xscale c' (st_weight s)) (st_weight s')
                           else true
      | None, None => true | _, _ => false end
  | SNorm _ percent =>
      negb (Qceqb (ah_total before) 0) &&
      close eps (if percent then qz 100 else 1) (ah_total after) &&
      closel eps (map (fun x => x * (if percent then qz 100 else 1) / ah_total before) (ah_freq before)) (ah_freq after)
  | SPartial axis _ =>
      let shape := ah_shape before in
      let s0 := line_sums shape axis (ah_freq before) in
      let s1 := line_sums shape axis (ah_freq after) in
      all2 (fun a b => if Qceqb a 0 then Qceqb b 0 else close eps 1 b) s0 s1
  | SBad _ => false
  end.

Fixpoint check_chain (eps : Qc) (h : ah) (ops : list sop) (model : list sres) (obs : list sx) : bool :=
  match ops, model, obs with
  | [], [], [] => true
  | o :: ops', m :: model', ob :: obs' =>
      if (match o with SNorm _ _ => Qceqb (ah_total h) 0 | _ => false end) then true   (* normalising an empty histogram: outside the property *)
      else
      match ob with
      | LL [SS "refused"] =>
          (* refusal is required for the forbidden forms and for a negative factor (whatever the contents);
             it is never acceptable for a positive finite factor *)
          match o with
          | SBad _ => true
          | SMul c k _ | SDiv c k _ => match kind_dt k with None => true | Some _ => Qcltb c 0 end
          | SNorm _ _ => false
          | SPartial a _ => negb (Nat.eqb (ah_ndim h) 2 && Nat.ltb a 2)
          end && check_chain eps h ops' model' obs'
      | LL [SS "ok"; b; f; e; ms; d; st; u] =>
          match d_list d_bins b, d_list d_q f, d_list d_q e, d_list d_x ms, d_dt d, d_stats st, m with
          | Some b, Some f, Some e, Some ms, Some d, Some st, SOk hm =>
              let after := mkAh (ah_axes hm) f e ms d st (ah_keep hm) in
              bins_same (map axis_bins (ah_axes hm)) b &&
              match o with SMul c _ _ | SDiv c _ _ => negb (Qcltb c 0) | _ => true end &&      (* a negative factor is never accepted *)
              laws eps h o after &&
              (* agreement with the stepwise model, within eps *)
              closel eps (ah_freq hm) f && closel eps (ah_err2 hm) e && xclosel eps (ah_missed hm) ms && dt_eqb (ah_dt hm) d &&
              stats_xclose eps (ah_stats hm) st &&
              match u with SS "T" => true | _ => false end &&
              check_chain eps after ops' model' obs'
          | _, _, _, _, _, _, _ => false end
      | _ => false end
  | _, _, _ => false end.

Definition check_C06 (c : c06) (obs : sx) : bool :=
  match obs with LL l => check_chain (k_eps c) (k_h c) (k_ops c) (run_chain (k_h c) (k_ops c)) l | _ => false end.

Definition judge_C06 (case obs : sx) : sx :=
  match d_c06 case with
  | None => LL [illformed; SS "decode"]
  | Some c =>
      if negb (wf_c06 c) then LL [illformed; SS "wf"] else
      LL [SS (if check_C06 c obs then "ok" else "bad"); e_list e_sres (run_chain (k_h c) (k_ops c))]
  end.
