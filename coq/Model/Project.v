(** C09: projection (marginals), Histogram2D.T, accumulate — defined by tabulating their pointwise meaning. *)
From Physt Require Export Hist.

Definition restrict {A} (d : A) (kept : list nat) (idx : list A) : list A := map (fun k => nth k idx d) kept.

(** numpy: a.sum(axis = all axes not in kept); remaining axes keep their original order *)
Definition marginal (shape : list nat) (kept : list nat) (a : list Qc) : list Qc :=
  tabulate (restrict 0%nat kept shape)
    (fun i' => sumf (fun idx => if list_eqb (restrict 0%nat kept idx) i' then get 0 shape a idx else 0) (indices shape)).

(** numpy: a.T for a 2-d array *)
Definition transpose2 (shape : list nat) (a : list Qc) : list Qc :=
  tabulate (rev shape) (fun i' => get 0 shape a (rev i')).

(** numpy: cumsum along one axis *)
Definition cumsum_axis (shape : list nat) (k : nat) (a : list Qc) : list Qc :=
  tabulate shape (fun idx => sumf (fun j => get 0 shape a (set_at k j idx)) (seq 0 (S (nth k idx 0%nat)))).

Fixpoint insert_sorted (x : nat) (l : list nat) : list nat :=
  match l with [] => [x] | y :: r => if Nat.leb x y then x :: l else y :: insert_sorted x r end.
Definition sort_nat (l : list nat) : list nat := fold_right insert_sorted [] l.
Fixpoint nodupb (l : list nat) : bool :=
  match l with [] => true | x :: r => negb (existsb (Nat.eqb x) r) && nodupb r end.

Record nhist := { nh : hist; nh_names : list string }.

Inductive pop :=
| PProject (axes : list Z)        (* as resolved by the harness: index of the named/numbered axis, -1 = unknown name *)
| PT
| PAccumulate (axis : Z).

Definition valid_axes (nd : nat) (axes : list Z) : option (list nat) :=
  if forallb (fun z => (0 <=? z)%Z && (z <? Z.of_nat nd)%Z) axes && negb (Nat.eqb (length axes) 0) then
    let l := map Z.to_nat axes in if nodupb l then Some l else None
  else None.

Definition pstep (x : nhist) (o : pop) : option nhist :=
  let h := nh x in let shape := h_shape h in let nd := length shape in
  match o with
  | PProject axes =>
      match valid_axes nd axes with
      | None => None
      | Some l =>
          let kept := sort_nat l in
          Some {| nh := mkHist (restrict [] kept (h_bins h)) (restrict false kept (h_incl h))
                               (marginal shape kept (h_freq h)) (marginal shape kept (h_err2 h))
                               (if Nat.eqb (length kept) 1 then [Fin 0; Fin 0; Fin 0] else [Fin 0]);
                  nh_names := restrict EmptyString kept (nh_names x) |}
      end
  | PT => if Nat.eqb nd 2 then
            Some {| nh := mkHist (rev (h_bins h)) (rev (h_incl h)) (transpose2 shape (h_freq h)) (transpose2 shape (h_err2 h)) (h_missed h);
                    nh_names := rev (nh_names x) |}
          else None
  | PAccumulate z =>
      if (0 <=? z)%Z && (z <? Z.of_nat nd)%Z then
        Some {| nh := mkHist (h_bins h) (h_incl h) (cumsum_axis shape (Z.to_nat z) (h_freq h)) (h_err2 h) (h_missed h);
                nh_names := nh_names x |}
      else None
  end.

Fixpoint prun (x : nhist) (ops : list pop) : list (option nhist) :=
  match ops with
  | [] => []
  | o :: r => let y := pstep x o in y :: match y with Some x' => prun x' r | None => prun x r end
  end.

Definition e_nhist (o : option nhist) : sx :=
  match o with
  | None => LL [SS "refused"]
  | Some x => LL [SS "ok"; e_list e_bins (h_bins (nh x)); e_qs (h_freq (nh x)); e_qs (h_err2 (nh x));
                  e_list SS (nh_names x); QQ (total (nh x)); e_list e_x (h_missed (nh x))]
  end.

Record c09 := { p_h : nhist; p_ops : list pop }.
Definition d_pop (s : sx) : option pop :=
  match s with
  | LL [SS "project"; l] => l <- d_list d_z l ;; ret (PProject l)
  | LL [SS "T"] => Some PT
  | LL [SS "accumulate"; z] => z <- d_z z ;; ret (PAccumulate z)
  | _ => None end.
Definition d_c09 (s : sx) : option c09 :=
  h <- (x <- fld "hist" s ;; d_hist x) ;;
  n <- (x <- fld "names" s ;; d_list d_str x) ;;
  o <- (x <- fld "ops" s ;; d_list d_pop x) ;;
  ret (Build_c09 (Build_nhist h n) o).
Definition wf_c09 (c : c09) : bool :=
  wf_hist (nh (p_h c)) && Nat.eqb (length (nh_names (p_h c))) (length (h_bins (nh (p_h c)))) &&
  Nat.leb 2 (length (h_bins (nh (p_h c)))).

(** the checker: observation of every step against the model; plus the laws on the observation itself:
    total conserved by projection, last slice of accumulate = marginal *)
Fixpoint check_steps (x : nhist) (ops : list pop) (obs : list sx) : bool :=
  match ops, obs with
  | [], [] => true
  | o :: ops', ob :: obs' =>
      match pstep x o, ob with
      | None, LL [SS "refused"] => check_steps x ops' obs'
      | Some y, LL [SS "ok"; b; f; e; n; t; m] =>
          match d_list d_bins b, d_list d_q f, d_list d_q e, d_list d_str n, d_q t, d_list d_x m with
          | Some b, Some f, Some e, Some n, Some t, Some m =>
              all2 (all2 (fun p q : bin => Qceqb (fst p) (fst q) && Qceqb (snd p) (snd q))) (h_bins (nh y)) b &&
              closel 0 (h_freq (nh y)) f && closel 0 (h_err2 (nh y)) e &&
              all2 String.eqb (nh_names y) n &&
              match o with PProject _ | PT => Qceqb t (total (nh x)) | _ => true end &&
              all2 xeqb (h_missed (nh y)) m &&        (* T and accumulate keep the missed weight, a projection starts at 0 *)
              check_steps y ops' obs'
          | _, _, _, _, _, _ => false end
      | _, _ => false end
  | _, _ => false end.

(** obs = [steps; data-flags]: when the histogram was built from rows lying inside all bins, the harness also reports
    whether construction gave the case's histogram and whether the projection equals direct construction from the kept columns *)
Definition check_C09 (c : c09) (obs : sx) : bool :=
  match obs with
  | LL [LL l; fl] => check_steps (p_h c) (p_ops c) l &&
                     match fl with SS "nodata" => true | LL [SS "T"; SS "T"] => true | _ => false end
  | _ => false end.

Definition judge_C09 (case obs : sx) : sx :=
  match d_c09 case with
  | None => LL [illformed; SS "decode"]
  | Some c =>
      if negb (wf_c09 c) then LL [illformed; SS "wf"] else
      LL [SS (if check_C09 c obs then "ok" else "bad"); e_list e_nhist (prun (p_h c) (p_ops c))]
  end.
