(** C17: input containers. A container denotes rows of numbers (NaN allowed) with optional weights; what must be histogrammed
    is the rows without NaN together with their weights, in order. Chunked (dask) evaluation adds per-chunk tallies. *)
From Physt Require Export Transform.
Local Open Scope Qc_scope.

Definition row_ok (r : list xnum) : bool := forallb (fun x => match x with NaN => false | _ => true end) r.
(** rows containing NaN are dropped together with their weights *)
Definition dropna (rows : list (list xnum)) (ws : list Qc) : list (list xnum) * list Qc :=
  let kept := filter (fun p => row_ok (fst p)) (combine rows ws) in (map fst kept, map snd kept).
Definition dropna_rows (rows : list (list xnum)) : list (list xnum) := filter row_ok rows.

(** weighted tally of items into n cells by a placement function *)
Definition tally {A} (place : A -> option nat) (n : nat) (items : list (A * Qc)) : list Qc :=
  fold_left (fun acc it => match place (fst it) with Some p => add_at p (snd it) acc | None => acc end) items (repeat 0 n).

(** ---------- judge ---------- *)
Definition d_rows (s : sx) : option (list (list xnum)) := d_list (d_list d_x) s.
Definition e_rows (r : list (list xnum)) : sx := LL (map (fun row => LL (map e_x row)) r).

Definition judge_container (case obs : sx) : sx :=
  match (x <- fld "rows" case ;; d_rows x), (x <- fld "weights" case ;; d_opt (d_list d_q) x), (x <- fld "dropna" case ;; d_bool x),
        (x <- fld "defect" case ;; d_str x) with
  | Some rows, Some ws, Some dn, Some defect =>
      let has_nan := negb (forallb row_ok rows) in
      let must_refuse := negb (String.eqb defect "none") || (negb dn && has_nan) in
      let clean := match ws with Some w => (fst (dropna rows w), Some (snd (dropna rows w))) | None => (dropna_rows rows, None) end in
      let mref := LL [e_rows (fst clean); match snd clean with Some w => e_qs w | None => SS "none" end] in
      match fld "results" obs with
      | Some (LL results) =>
          if must_refuse then
            LL [SS (if forallb (fun r => match r with LL [_; SS "refused"] => true | _ => false end) results then "ok" else "bad"); SS "refused";
                LL (map (fun r => match r with LL [k; SS "refused"] => LL [k; SS "T"] | LL (k :: _) => LL [k; SS "F"] | _ => SS "?" end) results)]
          else
            match fld "ref_input" obs, fld "ref" obs, fld "names" case, fld "explicit" case, fld "ref_names" obs with
            | Some ri, Some ref, Some (LL names), Some explicit, Some refn =>
                let input_ok := sx_eqb ri mref in
                let want (named : sx) := match explicit with LL l => LL l | _ => match named with SS "T" => LL names | LL dflt => LL dflt | _ => refn end end in
                let each := map (fun r => match r with
                                          | LL [k; snap; nm; named] => LL [k; e_bool (sx_eqb snap ref && sx_eqb nm (want named))]
                                          | LL [k; _] => LL [k; SS "F"]
                                          | _ => SS "?" end) results in
                let all_ok := forallb (fun r => match r with LL [_; SS "T"] => true | _ => false end) each in
                LL [SS (if input_ok && all_ok && negb (Nat.eqb (length results) 0) then "ok" else "bad"); mref; LL (e_bool input_ok :: each)]
            | _, _, _, _, _ => LL [SS "bad"; mref; SS "missing-observation"]
            end
      | _ => LL [illformed; SS "results"]
      end
  | _, _, _, _ => LL [illformed; SS "container-case"]
  end.

(** round trips through other representations: the snapshot (bins, contents, errors2, underflow / overflow / inner) is unchanged *)
Definition judge_convert (case obs : sx) : sx :=
  match fld "afters" obs with
  | Some (LL afters) =>
      let each := map (fun a => match a with LL [k; s; b] => LL [k; e_bool (sx_eqb s b)] | _ => SS "?" end) afters in
      LL [SS (if forallb (fun r => match r with LL [_; SS "T"] => true | _ => false end) each && negb (Nat.eqb (length afters) 0) then "ok" else "bad"); SS "-"; LL each]
  | _ => LL [illformed; SS "convert"] end.

Definition judge_C17 (case obs : sx) : sx :=
  match fld "kind" case with
  | Some (SS "container") => judge_container case obs
  | Some (SS "convert") => judge_convert case obs
  | _ => LL [illformed; SS "kind"] end.
