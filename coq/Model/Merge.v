(** merge_bins: the algorithm as coded (bin maps, apply_bin_map on edges and on
    contents) and the specification (runs of adjacent bins). *)
From Physt Require Export Hist.

(** ---------- as coded ---------- *)
Definition amount_map (n a : nat) : list nat := map (fun i => Nat.div i a) (seq 0 n).

(** the min_frequency loop; state (current_new, current_sum) *)
Fixpoint mf_loop (thr : Qc) (freqs : list Qc) (cur_new : nat) (cur_sum : Qc) : list nat :=
  match freqs with
  | [] => []
  | f :: rest =>
      let '(n1, s1) := if andb (Qcleb thr f) (Qcltb 0 cur_sum) then (S cur_new, 0) else (cur_new, cur_sum) in
      let s2 := s1 + f in
      let '(n2, s3) := if Qcltb thr s2 then (S n1, 0) else (n1, s2) in
      n1 :: mf_loop thr rest n2 s3
  end.
Definition mf_map thr freqs := mf_loop thr freqs 0 0.

(** BinningBase.apply_bin_map: NaN-initialised rows, filled / extended in map order *)
Fixpoint abm_loop (bins : list bin) (m : list nat) (acc : list (option bin)) : option (list (option bin)) :=
  match bins, m with
  | b :: bins', j :: m' =>
      match nth j acc None with
      | None => abm_loop bins' m' (set_at j (Some b) acc)
      | Some (lo, hi) => if Qceqb hi (fst b) then abm_loop bins' m' (set_at j (Some (lo, snd b)) acc)
                         else None     (* "Merging non-consecutive bins." *)
      end
  | _, _ => Some acc
  end.
Definition bins_apply_map (bins : list bin) (m : list nat) : option (list bin) :=
  match m with
  | [] => None                          (* max() of an empty sequence *)
  | _ => acc <- abm_loop bins m (repeat None (S (list_max m))) ;;
         mapM (fun o => o) acc          (* "New binning is not complete." *)
  end.

(** frequencies of the 1-D marginal on axis k (projection(axis).frequencies) *)
Definition marginal1 (shape : list nat) (k : nat) (a : list Qc) : list Qc :=
  map (fun i => sumf (fun idx => if Nat.eqb (nth k idx 0%nat) i then get 0 shape a idx else 0) (indices shape))
      (seq 0 (nth k shape 0%nat)).

Inductive mop := Amount (a : nat) | MinFreq (thr : Qc).


Definition merge_axis (op : mop) (h : hist) (k : nat) : option hist :=
  let shape := h_shape h in
  let n := nth k shape 0%nat in
  let m := match op with
           | Amount a => amount_map n a
           | MinFreq thr => mf_map thr (marginal1 shape k (h_freq h)) end in
  let old := nth k (h_bins h) [] in
  nb <- bins_apply_map old m ;;
  let newn := length nb in
  ret (mkHist (set_at k nb (h_bins h))
              (set_at k (nth k (h_incl h) false && Qceqb (last_hi nb) (last_hi old)) (h_incl h))
              (remap_axis shape k m newn (h_freq h))
              (remap_axis shape k m newn (h_err2 h))
              (h_missed h)).

Fixpoint merge_axes (op : mop) (h : hist) (ks : list nat) : option hist :=
  match ks with
  | [] => Some h
  | k :: r => h' <- merge_axis op h k ;; merge_axes op h' r
  end.

(** ---------- specification: runs of adjacent bins ---------- *)
(** run lengths for merge_bins(amount): a, a, ..., remainder *)
Fixpoint runs_amount_fuel (fuel n a : nat) : list nat :=
  match fuel with
  | O => []
  | S f => if Nat.eqb n 0 then [] else if Nat.leb n a then [n] else a :: runs_amount_fuel f (n - a) a
  end.
Definition runs_amount (n a : nat) : list nat := runs_amount_fuel n n a.

(** start offsets of the runs *)
Fixpoint starts (s : nat) (runs : list nat) : list nat :=
  match runs with [] => [] | r :: rest => s :: starts (s + r) rest end.

Definition consecutive_run (l : list bin) : bool :=
  (fix go (l : list bin) := match l with
     | b :: ((c :: _) as r) => Qceqb (snd b) (fst c) && go r
     | _ => true end) l.

(** the merged bins, or None when a run crosses a gap *)
Definition spec_bins (bins : list bin) (runs : list nat) : option (list bin) :=
  mapM (fun sr => let seg := firstn (snd sr) (skipn (fst sr) bins) in
                  match seg with
                  | [] => None
                  | b :: _ => if consecutive_run seg then Some (fst b, snd (last seg b)) else None
                  end)
       (combine (starts 0 runs) runs).

Definition spec_contents (shape : list nat) (k : nat) (runs : list nat) (a : list Qc) : list Qc :=
  let st := starts 0 runs in
  tabulate (set_at k (length runs) shape)
    (fun i' => let j := nth k i' 0%nat in
               sumf (fun i => get 0 shape a (set_at k i i')) (seq (nth j st 0%nat) (nth j runs 0%nat))).

(** recover the run lengths from the observed new bins (used for min_frequency, where the
    property only demands "a union of adjacent old bins"): greedy match on right edges *)
Fixpoint take_run (old : list bin) (hi : Qc) (cnt : nat) : option (nat * list bin) :=
  match old with
  | [] => None
  | b :: r => if Qceqb (snd b) hi then Some (S cnt, r) else take_run r hi (S cnt)
  end.
Fixpoint recover_runs (old new : list bin) : option (list nat) :=
  match new with
  | [] => match old with [] => Some [] | _ => None end
  | nb :: new' =>
      match old with
      | [] => None
      | ob :: _ => if Qceqb (fst ob) (fst nb) then
                     '(c, rest) <- take_run old (snd nb) 0 ;;
                     rs <- recover_runs rest new' ;; ret (c :: rs)
                   else None
      end
  end.

Definition spec_axis (runs : list nat) (h : hist) (k : nat) : option hist :=
  let shape := h_shape h in
  let old := nth k (h_bins h) [] in
  nb <- spec_bins old runs ;;
  ret (mkHist (set_at k nb (h_bins h))
              (set_at k (nth k (h_incl h) false && Qceqb (last_hi nb) (last_hi old)) (h_incl h))
              (spec_contents shape k runs (h_freq h))
              (spec_contents shape k runs (h_err2 h))
              (h_missed h)).

(** ---------- the case, the observation, the checker ---------- *)
Record c10 := { c_h : hist; c_op : mop; c_axes : list nat; c_integral : bool; c_inplace : bool }.

Definition d_c10 (s : sx) : option c10 :=
  h <- (x <- fld "hist" s ;; d_hist x) ;;
  op <- (x <- fld "op" s ;;
         match x with
         | LL [SS "amount"; v] => a <- d_nat v ;; ret (Amount a)
         | LL [SS "minfreq"; v] => t <- d_q v ;; ret (MinFreq t)
         | _ => None end) ;;
  ax <- (x <- fld "axes" s ;; d_list d_nat x) ;;
  ig <- (x <- fld "integral" s ;; d_bool x) ;;
  ip <- (x <- fld "inplace" s ;; d_bool x) ;;
  ret (Build_c10 h op ax ig ip).

Definition wf_c10 (c : c10) : bool :=
  wf_hist (c_h c) && forallb risingb (h_bins (c_h c)) &&
  forallb (fun k => Nat.ltb k (length (h_bins (c_h c)))) (c_axes c) &&
  forallb (fun l => negb (Nat.eqb (length l) 0)) (h_bins (c_h c)) &&
  match c_op c with Amount a => negb (Nat.eqb a 0) | _ => true end.

Definition e_hist_obs (h : hist) : list sx :=
  [e_list e_bins (h_bins h); e_qs (h_freq h); e_qs (h_err2 h); e_list e_x (h_missed h); QQ (total h)].

(** the model's prediction of what the public API shows *)
Definition run_C10 (c : c10) : sx :=
  if negb (c_integral c) then LL [SS "refused"] else
  match merge_axes (c_op c) (c_h c) (c_axes c) with
  | None => LL [SS "refused"]
  | Some h' => LL (SS "ok" :: e_hist_obs h' ++ [SS "T"])     (* last: original untouched / is the result *)
  end.

(** decode an observation back into a histogram over the observed bins *)
Definition d_obs_hist (incl : list bool) (l : list sx) : option hist :=
  match l with
  | [b; f; e; m; t; u] =>
      b <- d_list d_bins b ;; f <- d_list d_q f ;; e <- d_list d_q e ;; m <- d_list d_x m ;;
      ret (mkHist b incl f e m)
  | _ => None end.

Definition hist_same (a b : hist) : bool :=
  all2 (all2 (fun x y : bin => Qceqb (fst x) (fst y) && Qceqb (snd x) (snd y))) (h_bins a) (h_bins b) &&
  closel 0 (h_freq a) (h_freq b) && closel 0 (h_err2 a) (h_err2 b) && all2 xeqb (h_missed a) (h_missed b).

(** expected histogram given the case and the bins that were observed *)
Fixpoint spec_axes (op : mop) (h : hist) (ks : list nat) (obs_bins : list (list bin)) : option hist :=
  match ks with
  | [] => Some h
  | k :: r =>
      let old := nth k (h_bins h) [] in
      runs <- match op with
              | Amount a => Some (runs_amount (length old) a)
              | MinFreq _ => recover_runs old (nth k obs_bins [])
              end ;;
      h' <- spec_axis runs h k ;; spec_axes op h' r obs_bins
  end.

(** refusal is demanded exactly when the amount is not integral or some run would cross a gap *)
Definition must_refuse (c : c10) : bool :=
  negb (c_integral c) ||
  match c_op c with
  | Amount _ => match spec_axes (c_op c) (c_h c) (c_axes c) [] with None => true | Some _ => false end
  | MinFreq _ => false end.

Definition check_C10 (c : c10) (obs : sx) : bool :=
  match obs with
  | LL [SS "refused"] =>
      match c_op c with
      | Amount _ => must_refuse c
      | MinFreq _ => true      (* the statement fixes no refusal rule for thresholds; a refusal loses nothing *)
      end
  | LL (SS "ok" :: rest) =>
      negb (must_refuse c) &&
      match d_obs_hist (h_incl (c_h c)) rest, rest with
      | Some ho, [_; _; _; _; t; u] =>
          match spec_axes (c_op c) (c_h c) (c_axes c) (h_bins ho) with
          | Some hs => hist_same hs ho &&
                       match d_q t with Some tq => Qceqb tq (total (c_h c)) | None => false end &&
                       match u with SS "T" => true | _ => false end
          | None => false end
      | _, _ => false end
  | _ => false end.

Definition judge_C10 (case obs : sx) : sx :=
  match d_c10 case with
  | None => LL [illformed; SS "decode"]
  | Some c =>
      if negb (wf_c10 c) then LL [illformed; SS "wf"] else
      LL [SS (if check_C10 c obs then "ok" else "bad"); run_C10 c]
  end.
