(** C04: adaptive fixed-width binning — _force_bin_existence(_single) in exact arithmetic, growth of the arrays,
    adaptive fill / fill_n for 1-D and N-D; the grid specification. *)
From Physt Require Export DtypeCases.
From Coq Require Import Qround.

Record fw := mkFw { f_w : Qc; f_shift : Qc; f_tmin : Z; f_count : nat; f_align : bool }.
Definition qfloor (q : Qc) : Z := Qfloor (this q).
Definition qceil (q : Qc) : Z := Qceiling (this q).
Definition fw_edge (b : fw) (i : nat) : Qc := qz (f_tmin b + Z.of_nat i) * f_w b + f_shift b.
Definition fw_bins (b : fw) : list bin := map (fun i => (fw_edge b i, fw_edge b (S i))) (seq 0 (f_count b)).

Inductive bmap := BNone | BShift (s : nat) | BEmpty.

(** FixedWidthBinning._force_bin_existence_single *)
Definition force_single (b : fw) (v : Qc) (incl : bool) : fw * bmap :=
  if Nat.eqb (f_count b) 0 then
    let t := qfloor ((v - f_shift b) / f_w b) in
    (mkFw (f_w b) (if f_align b then f_shift b else v - qz t * f_w b) t 1 (f_align b), BEmpty)
  else
    let first := fw_edge b 0 in let last := fw_edge b (f_count b) in
    if Qcltb v first then
      let al := Z.to_nat (qceil ((first - v) / f_w b)) in
      (mkFw (f_w b) (f_shift b) (f_tmin b - Z.of_nat al) (f_count b + al) (f_align b), if Nat.eqb al 0 then BNone else BShift al)
    else if Qcleb last v then
      let ar := Z.to_nat (qceil ((v - last) / f_w b)) in
      let b1 := mkFw (f_w b) (f_shift b) (f_tmin b) (f_count b + ar) (f_align b) in
      let extra := Qceqb (fw_edge b1 (f_count b1)) v && negb incl in
      (if extra then mkFw (f_w b) (f_shift b) (f_tmin b) (S (f_count b1)) (f_align b) else b1,
       if Nat.eqb ar 0 && negb extra then BNone else BShift 0)
    else (b, BNone).

Definition qmin_list (l : list Qc) : Qc := fold_left Qcmin (tl l) (hd 0 l).
Definition qmax_list (l : list Qc) : Qc := fold_left Qcmax (tl l) (hd 0 l).

(** array variant: min first, then max; the first non-None result is returned *)
Definition force_array (b : fw) (vs : list Qc) : option (fw * bmap) :=
  match vs with
  | [] => Some (b, BNone)                (* an empty batch: nothing to make room for *)
  | _ => let '(b1, r1) := force_single b (qmin_list vs) false in
         let '(b2, r2) := force_single b1 (qmax_list vs) false in
         Some (b2, match r1 with BNone => r2 | _ => r1 end)
  end.

(** _reshape_data for the three kinds of bin map *)
Definition reshape (shape : list nat) (k : nat) (newn : nat) (m : bmap) (a : list Qc) : list Qc :=
  match m with
  | BNone => a
  | BShift s => fst (shift_axis shape k newn (Some s) a)
  | BEmpty => repeat 0 (size (set_at k newn shape))
  end.

Record astate := mkA { a_axes : list fw; a_freq : list Qc; a_err2 : list Qc; a_missed : list xnum; a_keep : bool }.
Definition a_shape (s : astate) : list nat := map f_count (a_axes s).
Definition to_fstate (s : astate) : fstate :=
  Build_fstate (map (fun b => (fw_bins b, false)) (a_axes s)) (a_freq s) (a_err2 s) (a_missed s) (a_keep s).

(** grow axis k for the given values (scalar path for fill, array path for fill_n) *)
Definition grow_axis (scalar : bool) (s : astate) (k : nat) (vs : list Qc) : option astate :=
  let b := nth k (a_axes s) (mkFw 1 0 0 0 true) in
  r <- (if scalar then Some (force_single b (hd 0 vs) false) else force_array b vs) ;;
  let '(b', m) := r in
  let shape := a_shape s in
  let newn := f_count b' in
  ret (mkA (set_at k b' (a_axes s)) (reshape shape k newn m (a_freq s)) (reshape shape k newn m (a_err2 s)) (a_missed s) (a_keep s)).

Fixpoint grow_all (scalar : bool) (s : astate) (k : nat) (cols : list (list Qc)) : option astate :=
  match cols with
  | [] => Some s
  | c :: r => s' <- grow_axis scalar s k c ;; grow_all scalar s' (S k) r
  end.

Fixpoint transpose_rows (nd : nat) (rows : list (list Qc)) : list (list Qc) :=
  match nd with
  | O => []
  | S n => map (fun r => hd 0 r) rows :: transpose_rows n (map (@tl Qc) rows)
  end.

Definition fin_rows (rows : list (list xnum)) : list (list Qc) :=
  map (map fin_of) (filter (fun r => negb (row_has_nan r)) rows).

(** adaptive fill / fill_n: grow every axis, then proceed as on fixed bins *)
Definition astep (s : astate) (o : fop) : astate * fret :=
  let nd := length (a_axes s) in
  let finish (s' : astate) :=
    let '(fs, ret) := step_coded (to_fstate s') o in
    (mkA (a_axes s') (s_freq fs) (s_err2 fs) (s_missed fs) (a_keep s'), ret) in
  match o with
  | Fill v w =>
      if negb (Nat.eqb (length v) nd) || existsb is_nan v then (s, RRefused)        (* NaN fills are outside C04 (finite values) *)
      else match grow_all true s 0 (map (fun x => [fin_of x]) v) with
           | Some s' => finish s' | None => (s, RRefused) end
  | FillN rows ws wok =>
      if (match ws with Some _ => negb wok | None => false end)
         || existsb (fun r => negb (Nat.eqb (length r) nd)) rows then (s, RRefused) else
      match grow_all false s 0 (transpose_rows nd (fin_rows rows)) with
      | Some s' => finish s' | None => (s, RRefused) end
  end.

Fixpoint arun (s : astate) (ops : list fop) : list (astate * fret) :=
  match ops with [] => [] | o :: r => let x := astep s o in x :: arun (fst x) r end.

(** ---------- specification on the grid ---------- *)
Definition grid_index (b : fw) (v : Qc) : Z := qfloor ((v - f_shift b) / f_w b).

(** everything entered so far on axis k *)
Definition entered_cols (nd : nat) (ops : list fop) : list (list Qc) :=
  transpose_rows nd (flat_map (fun o => match o with
                                        | Fill v _ => if existsb is_nan v then [] else [map fin_of v]
                                        | FillN rows _ _ => fin_rows rows end) ops).

(** expected span of an axis: from the lowest to the highest grid cell ever needed (incl. the initial bins) *)
Definition spec_span (b : fw) (vals : list Qc) : Z * Z :=
  let gs := map (grid_index b) vals in
  let lo0 := if Nat.eqb (f_count b) 0 then None else Some (f_tmin b) in
  let hi0 := if Nat.eqb (f_count b) 0 then None else Some (f_tmin b + Z.of_nat (f_count b))%Z in
  let lo := fold_left (fun acc g => match acc with None => Some g | Some a => Some (Z.min a g) end) gs lo0 in
  let hi := fold_left (fun acc g => match acc with None => Some (g + 1)%Z | Some a => Some (Z.max a (g + 1)) end) gs hi0 in
  (match lo with Some x => x | None => 0%Z end, match hi with Some x => x | None => 0%Z end).

(** ---------- observation / checker ---------- *)
Definition e_astep (x : astate * fret) : sx :=
  LL [e_fret (snd x); e_list (fun b => e_qs (if Nat.eqb (f_count b) 0 then [] else map (fw_edge b) (seq 0 (S (f_count b))))) (a_axes (fst x));
      e_qs (a_freq (fst x)); e_qs (a_err2 (fst x)); e_list e_x (shown_missed (to_fstate (fst x)))].

Record c04 := { z_init : astate; z_ops : list fop; z_exact : bool }.
Definition d_fw (s : sx) : option fw :=
  match s with
  | LL [w; sh; t; n; al] => w <- d_q w ;; sh <- d_q sh ;; t <- d_z t ;; n <- d_nat n ;; al <- d_bool al ;; ret (mkFw w sh t n al)
  | _ => None end.
Definition d_astate (s : sx) : option astate :=
  ax <- (x <- fld "axes" s ;; d_list d_fw x) ;;
  f <- (x <- fld "freq" s ;; d_list d_q x) ;;
  e <- (x <- fld "err2" s ;; d_list d_q x) ;;
  m <- (x <- fld "missed" s ;; d_list d_x x) ;;
  k <- (x <- fld "keep_missed" s ;; d_bool x) ;;
  ret (mkA ax f e m k).
Definition d_c04 (s : sx) : option c04 :=
  i <- (x <- fld "init" s ;; d_astate x) ;;
  o <- (x <- fld "ops" s ;; d_list d_fop x) ;;
  ex <- (x <- fld "exact" s ;; d_bool x) ;;
  ret (Build_c04 i o ex).
Definition wf_c04 (c : c04) : bool :=
  let s := z_init c in
  Nat.eqb (length (a_freq s)) (size (a_shape s)) && Nat.eqb (length (a_err2 s)) (size (a_shape s)) &&
  forallb (fun b => Qcltb 0 (f_w b)) (a_axes s) && negb (Nat.eqb (length (a_axes s)) 0) &&
  forallb (wf_fop (length (a_axes s))) (z_ops c) &&
  forallb (fun x => match x with Fin q => Qceqb q 0 | _ => false end) (a_missed s).

(** invariants that must hold on the observation whatever the arithmetic: for each value of the call the reported
    bin [i] satisfies edges[i] <= v < edges[i+1] on the observed edges; nothing is missed; total = weight entered *)
Definition in_observed_bin (edges : list Qc) (i : Z) (v : Qc) : bool :=
  (0 <=? i)%Z && Qcleb (nth (Z.to_nat i) edges 0) v && Qcltb v (nth (S (Z.to_nat i)) edges 0) &&
  Nat.ltb (S (Z.to_nat i)) (length edges).

Definition check_astep (exact : bool) (total_before : Qc) (o : fop) (x : astate * fret) (obs : sx) : bool * Qc :=
  match obs with
  | LL [r; ed; f; e; m] =>
      match d_list (d_list d_q) ed, d_list d_q f, d_list d_q e, d_list d_x m with
      | Some ed, Some f, Some e, Some m =>
          let w_in := match o with
                      | Fill v w => if existsb is_nan v then 0 else w
                      | FillN rows ws _ => sumq (map snd (rows_of rows ws)) end in
          let refused := match snd x with RRefused => true | _ => false end in
          let tot := if refused then total_before else total_before + w_in in
          let ok_common :=
            Qceqb (sumq f) tot &&
            forallb (fun y => match y with Fin q => Qceqb q 0 | NaN => negb (a_keep (fst x)) | _ => false end) m &&
            match o, r with
            | Fill v _, LL idx =>
                match mapM d_z idx with
                | Some idx => all2 (fun p v => in_observed_bin (fst p) (snd p) (fin_of v)) (combine ed idx) v
                | None => false end
            | Fill _ _, SS "refused" => refused
            | FillN _ _ _, SS "void" => negb refused
            | FillN _ _ _, SS "refused" => refused
            | _, _ => false end in
          let ok_exact :=
            if exact then
              all2 (fun b es => closel 0 (if Nat.eqb (f_count b) 0 then [] else map (fw_edge b) (seq 0 (S (f_count b)))) es) (a_axes (fst x)) ed &&
              closel 0 (a_freq (fst x)) f && closel 0 (a_err2 (fst x)) e
            else true in
          (ok_common && ok_exact, tot)
      | _, _, _, _ => (false, total_before) end
  | _ => (false, total_before) end.

Fixpoint check_aruns (exact : bool) (tot : Qc) (s : astate) (ops : list fop) (obs : list sx) : bool :=
  match ops, obs with
  | [], [] => true
  | o :: r, ob :: obs' =>
      let x := astep s o in
      let '(ok, tot') := check_astep exact tot o x ob in
      ok && check_aruns exact tot' (fst x) r obs'
  | _, _ => false end.

(** span clause: after the history the observed first/last edges are the lowest/highest grid cells ever needed *)
Definition check_span (c : c04) (final_edges : list (list Qc)) : bool :=
  let nd := length (a_axes (z_init c)) in
  let cols := entered_cols nd (z_ops c) in
  let fin := fold_left (fun s o => fst (astep s o)) (z_ops c) (z_init c) in
  all2 (fun p es =>
          let '(b, vals) := p in
          let '(lo, hi) := spec_span b vals in
          match es with
          | [] => Z.eqb lo hi
          | e0 :: _ => Qceqb e0 (qz lo * f_w b + f_shift b) && Qceqb (last es 0) (qz hi * f_w b + f_shift b) &&
                       Nat.eqb (length es) (S (Z.to_nat (hi - lo)))
          end)
       (combine (a_axes fin) cols) final_edges.

(** span clause without arithmetic: the first and the last final bin are needed, i.e. each holds an entered value or is an
    end bin the histogram started with (edges as physt computed them) *)
Definition needed_ends (init final : list Qc) (vals : list Qc) : bool :=
  match final with
  | e0 :: e1 :: _ =>
      let en := last final 0 in
      let em := nth (length final - 2) final 0 in
      (existsb (fun v => Qcleb e0 v && Qcltb v e1) vals || match init with i0 :: _ :: _ => Qceqb i0 e0 | _ => false end) &&
      (existsb (fun v => Qcleb em v && Qcltb v en) vals || match init with _ :: _ :: _ => Qceqb (last init 0) en | _ => false end)
  | _ => true end.
Definition check_span_float (c : c04) (init_edges final_edges : list (list Qc)) : bool :=
  let nd := length (a_axes (z_init c)) in
  let cols := entered_cols nd (z_ops c) in
  all2 (fun p vals => needed_ends (fst p) (snd p) vals) (combine init_edges final_edges) cols.

Definition check_C04_core (c : c04) (l : list sx) (batch : sx) : bool :=
      check_aruns (z_exact c) (sumq (a_freq (z_init c))) (z_init c) (z_ops c) l &&
      match batch with SS "skip" => true | SS "T" => true | _ => false end &&
      (if z_exact c then
         match last l (LL []) with
         | LL [_; ed; _; _; _] => match d_list (d_list d_q) ed with
                                   | Some ed => if forallb (fun o => match snd o with RRefused => false | _ => true end) (arun (z_init c) (z_ops c))
                                                then check_span c ed else true
                                   | None => false end
         | _ => true end
       else true).

(** non-adaptive binnings derived from the same data (fixed_width / pretty / integer): every entered value lies inside the
    observed edges of its axis (right edge included only where physt says so), nothing is missed, total = number of rows *)
Definition check_derived (c : c04) (dv : sx) : bool :=
  match dv with
  | SS "skip" => true
  | LL items =>
      forallb (fun it =>
        match it with
        | LL [ed; incl; tot; mis] =>
            match d_list (d_list d_q) ed, d_list d_bool incl, d_q tot, d_q mis with
            | Some ed, Some incl, Some tot, Some mis =>
                let cols := entered_cols (length ed) (z_ops c) in
                Qceqb tot (qz (Z.of_nat (length (hd (@nil Qc) cols)))) && Qceqb mis 0 &&
                all2 (fun (p : list Qc * bool) (vals : list Qc) =>
                        match fst p with
                        | [] => match vals with [] => true | _ => false end
                        | e0 :: _ => forallb (fun v => Qcleb e0 v && (if snd p then Qcleb v (last (fst p) 0) else Qcltb v (last (fst p) 0))) vals
                        end) (combine ed incl) cols
            | _, _, _, _ => false end
        | _ => false end) items
  | _ => false end.

Definition check_C04 (c : c04) (obs : sx) : bool :=
  match obs with
  | LL [LL l; batch; init; derived] =>
      check_C04_core c l batch && check_derived c derived &&
      match d_list (d_list d_q) init, last l (LL []) with
      | Some ie, LL [_; ed; _; _; _] =>
          match d_list (d_list d_q) ed with
          | Some fe => if forallb (fun o => match snd o with RRefused => false | _ => true end) (arun (z_init c) (z_ops c))
                       then check_span_float c ie fe else true
          | None => false end
      | Some _, _ => true
      | None, _ => false end
  | LL [LL l; batch; init] =>
      check_C04_core c l batch &&
      match d_list (d_list d_q) init, last l (LL []) with
      | Some ie, LL [_; ed; _; _; _] =>
          match d_list (d_list d_q) ed with
          | Some fe => if forallb (fun o => match snd o with RRefused => false | _ => true end) (arun (z_init c) (z_ops c))
                       then check_span_float c ie fe else true
          | None => false end
      | Some _, _ => true
      | None, _ => false end
  | LL [LL l; batch] => check_C04_core c l batch
  | _ => false end.

Definition judge_C04 (case obs : sx) : sx :=
  match d_c04 case with
  | None => LL [illformed; SS "decode"]
  | Some c =>
      if negb (wf_c04 c) then LL [illformed; SS "wf"] else
      LL [SS (if check_C04 c obs then "ok" else "bad"); e_list e_astep (arun (z_init c) (z_ops c))]
  end.
