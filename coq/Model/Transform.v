(** C15: coordinate-transformed histograms. The transform itself (hypot / arctan2 in binary64) is not re-implemented: the
    coordinates physt computes are judged by the inverse formulas over exact rationals, with cos / sin of the observed angles
    supplied by numpy; bin placement of the coordinates is the find-bin specification shared with C02/C03. *)
From Physt Require Export Fill Project.
Local Open Scope Qc_scope.

Definition teps : Qc := mkq 1 1000000000.
Definition nr (a b scale : Qc) : bool := Qcleb (Qcabs (a - b)) (teps * scale).
Definition sq (a : Qc) : Qc := a * a.
Definition mag (p : list Qc) : Qc := sumq (map Qcabs p).

Definition angle_in (a lo hi : Qc) : bool := Qcleb lo a && Qcleb a (hi * (1 + teps)).
Definition unit2 (c s : Qc) : bool := nr (sq c + sq s) 1 1.

(** (r, phi) are polar coordinates of (x, y) *)
Definition polar_ok (pi x y r phi c s : Qc) : bool :=
  let m := Qcabs x + Qcabs y in
  Qcleb 0 r && nr (sq r) (sq x + sq y) (sq m) && angle_in phi 0 (qz 2 * pi) && unit2 c s && nr x (r * c) m && nr y (r * s) m.
(** phi is the direction of (x, y) (any phi for the origin) *)
Definition azimuth_ok (pi x y phi c s : Qc) : bool :=
  let m := Qcabs x + Qcabs y in
  angle_in phi 0 (qz 2 * pi) && unit2 c s && nr (x * s) (y * c) m && Qcleb (- (teps * m)) (x * c + y * s).
Definition radius_ok (p : list Qc) (r : Qc) : bool :=
  Qcleb 0 r && nr (sq r) (sumq (map sq p)) (sq (mag p)).
(** (r, theta, phi) are spherical coordinates of (x, y, z) *)
Definition spherical_ok (pi x y z r th phi ct st c s : Qc) : bool :=
  let m := Qcabs x + Qcabs y + Qcabs z in
  radius_ok [x; y; z] r && angle_in th 0 pi && angle_in phi 0 (qz 2 * pi) && unit2 ct st && unit2 c s && Qcleb (- teps) st &&
  nr z (r * ct) m && nr x (r * st * c) m && nr y (r * st * s) m.

Definition d_qs' (s : sx) : option (list Qc) := d_list d_q s.

Definition coords_ok (cls : string) (pi : Qc) (p co tr : list Qc) (aux : Qc) : bool :=
  if String.eqb cls "PolarHistogram" then
    match p, co, tr with [x; y], [r; phi], [c; s] => polar_ok pi x y r phi c s | _, _, _ => false end
  else if String.eqb cls "RadialHistogram" then
    match co with [r] => radius_ok p r | _ => false end
  else if String.eqb cls "AzimuthalHistogram" then
    match p, co, tr with [x; y], [phi], [c; s] => azimuth_ok pi x y phi c s | _, _, _ => false end
  else if String.eqb cls "SphericalHistogram" then
    match p, co, tr with [x; y; z], [r; th; phi], [ct; st; c; s] => spherical_ok pi x y z r th phi ct st c s | _, _, _ => false end
  else if String.eqb cls "SphericalSurfaceHistogram" then
    match p, co, tr with [x; y; z], [th; phi], [ct; st; c; s] => spherical_ok pi x y z aux th phi ct st c s | _, _, _ => false end
  else if String.eqb cls "CylindricalHistogram" then
    match p, co, tr with [x; y; z], [rho; phi; z'], [c; s] => polar_ok pi x y rho phi c s && Qceqb z z' | _, _, _ => false end
  else if String.eqb cls "CylindricalSurfaceHistogram" then
    match p, co, tr with [x; y; z], [phi; z'], [c; s] => azimuth_ok pi x y phi c s && Qceqb z z' | _, _, _ => false end
  else false.

Definition source_ok (cls : string) (n : nat) : bool :=
  if String.eqb cls "RadialHistogram" then Nat.eqb n 2 || Nat.eqb n 3
  else if String.eqb cls "PolarHistogram" || String.eqb cls "AzimuthalHistogram" then Nat.eqb n 2
  else Nat.eqb n 3.
Definition is_1d (cls : string) : bool := String.eqb cls "RadialHistogram" || String.eqb cls "AzimuthalHistogram".

(** the bin of already transformed coordinates *)
Definition place (cls : string) (axes : list (list bin * bool)) (co : list Qc) : sx :=
  if is_1d cls then
    match axes, co with
    | [(bins, _)], [v] =>
        match find_axis_spec bins true (Fin v) with
        | FIn i => e_nat i | FUnder => ZZ (-1) | FOver => e_nat (length bins) | FGap => SS "none" end
    | _, _ => SS "?" end
  else
    match mapM (fun p => match find_axis_spec (fst (fst p)) (snd (fst p)) (Fin (snd p)) with FIn i => Some i | _ => None end) (combine axes co) with
    | Some idx => LL (map e_nat idx)
    | None => SS "none" end.

Definition place_pos (cls : string) (axes : list (list bin * bool)) (co : list Qc) : option nat :=
  match mapM (fun p => match find_axis_spec (fst (fst p)) (if is_1d cls then true else snd (fst p)) (Fin (snd p)) with FIn i => Some i | _ => None end) (combine axes co) with
  | Some idx => Some (flat_pos (map (fun a => length (fst a)) axes) idx)
  | None => None end.
Definition counts (cls : string) (axes : list (list bin * bool)) (cos : list (list Qc)) : list Qc :=
  fold_left (fun acc co => match place_pos cls axes co with Some p => add_at p 1 acc | None => acc end) cos
            (repeat 0 (size (map (fun a => length (fst a)) axes))).

Definition proj_class (cls : string) (kept : list nat) : string :=
  let k := map Z.of_nat kept in
  let is (l : list Z) := list_eqb kept (map Z.to_nat l) in
  if String.eqb cls "PolarHistogram" then (if is [0%Z] then "RadialHistogram" else if is [1%Z] then "AzimuthalHistogram" else "HistogramND")
  else if String.eqb cls "SphericalHistogram" then
    (if is [1; 2]%Z then "SphericalSurfaceHistogram" else if is [0%Z] then "RadialHistogram" else if Nat.eqb (length kept) 1 then "Histogram1D" else "Histogram2D")
  else if String.eqb cls "CylindricalHistogram" then
    (if is [0%Z] then "RadialHistogram" else if is [1%Z] then "AzimuthalHistogram" else if is [0; 1]%Z then "PolarHistogram"
     else if is [1; 2]%Z then "CylindricalSurfaceHistogram" else if Nat.eqb (length kept) 1 then "Histogram1D" else "Histogram2D")
  else if String.eqb cls "CylindricalSurfaceHistogram" then (if is [0%Z] then "AzimuthalHistogram" else "Histogram1D")
  else if Nat.eqb (length kept) 1 then "Histogram1D" else "Histogram2D".

Definition d_axis (s : sx) : option (list bin * bool) := d_pair d_bins d_bool s.

Definition judge_points (case obs : sx) : sx :=
  match (x <- fld "cls" case ;; d_str x), (x <- fld "points" case ;; d_list d_qs' x), (x <- fld "pi" obs ;; d_q x),
        (x <- fld "axes" obs ;; d_list d_axis x), (x <- fld "coords" obs ;; d_list d_qs' x), (x <- fld "trig" obs ;; d_list d_qs' x),
        (x <- fld "aux" obs ;; d_qs' x) with
  | Some cls, Some pts, Some pi, Some axes, Some cos, Some trs, Some aux =>
      let n := length pts in
      let lens := Nat.eqb (length cos) n && Nat.eqb (length trs) n && Nat.eqb (length aux) n in
      let spec := forallb (fun q => coords_ok cls pi (fst (fst (fst q))) (snd (fst (fst q))) (snd (fst q)) (snd q))
                          (combine (combine (combine pts cos) trs) aux) in
      let single := match fld "coords_single" obs, fld "coords" obs with Some a, Some b => sx_eqb a b | _, _ => false end &&
                    match fld "coords_other_input" obs, fld "coords" obs with Some a, Some b => sx_eqb a b | None, _ => true | _, _ => false end in
      let expect := LL (map (place cls axes) cos) in
      let paths := forallb (fun k => match fld k obs with Some v => sx_eqb v expect | None => false end)
                           ["find"; "find_t"; "fill_ret"; "fill_t_ret"] in
      let ef := e_qs (counts cls axes cos) in
      let freqs := forallb (fun k => match fld k obs with Some v => sx_eqb v ef | None => false end)
                           ["freq_facade"; "freq_facade_t"; "freq_fill"; "freq_fill_t"; "freq_fill_n"; "freq_fill_n_t"] in
      let shape := map (fun a => length (fst a)) axes in
      let projs := match fld "proj" obs with
                   | Some (LL l) =>
                       forallb (fun p => match p with
                                         | LL [k; SS c; f] =>
                                             match d_list d_nat k, d_qs' f with
                                             | Some kept, Some fr => String.eqb c (proj_class cls kept) && all2 Qceqb fr (marginal shape kept (counts cls axes cos))
                                                                     && Nat.eqb (length fr) (size (restrict 0%nat kept shape))
                                             | _, _ => false end
                                         | _ => false end) l
                   | _ => false end in
      LL [SS (if lens && spec && single && paths && freqs && projs then "ok" else "bad"); LL [expect; ef];
          LL [e_bool lens; e_bool spec; e_bool single; e_bool paths; e_bool freqs; e_bool projs]]
  | _, _, _, _, _, _, _ => LL [SS "bad"; SS "?"; SS "missing-observation"]
  end.

Definition judge_wrongdim (case obs : sx) : sx :=
  match (x <- fld "cls" case ;; d_str x), (x <- fld "dim" case ;; d_nat x) with
  | Some cls, Some n =>
      let m := SS (if source_ok cls n then "accepted" else "refused") in
      LL [SS (if sx_eqb obs (LL [m; m; m; m]) then "ok" else "bad"); LL [m; m; m; m]]
  | _, _ => LL [illformed; SS "wrongdim"] end.

Definition judge_C15 (case obs : sx) : sx :=
  match fld "kind" case with
  | Some (SS "points") => judge_points case obs
  | Some (SS "wrongdim") => judge_wrongdim case obs
  | _ => LL [illformed; SS "kind"] end.
