(** C14: statistics are those of the raw data entered. Programs over histogram variables (same bins). *)
From Physt Require Export ScaleCases.

(** moments of raw (value, weight) pairs — the specification *)
Definition xmin_list (l : list Qc) : xnum := fold_left (fun a v => py_min a (Fin v)) l PInf.
Definition xmax_list (l : list Qc) : xnum := fold_left (fun a v => py_max a (Fin v)) l NInf.
Definition moments (ps : list (Qc * Qc)) : stats :=
  mkStats (Fin (sumq (map (fun p => fst p * snd p) ps))) (Fin (sumq (map (fun p => fst p * fst p * snd p) ps)))
          (xmin_list (map fst ps)) (xmax_list (map fst ps)) (Fin (sumq (map snd ps))) NaN.

(** numpy.median of the values *)
Fixpoint insert_q (x : Qc) (l : list Qc) : list Qc :=
  match l with [] => [x] | y :: r => if Qcleb x y then x :: l else y :: insert_q x r end.
Definition sort_q (l : list Qc) : list Qc := fold_right insert_q [] l.
Definition median (l : list Qc) : xnum :=
  let s := sort_q l in let n := length s in
  if Nat.eqb n 0 then NaN
  else if Nat.even n then Fin ((nth (n / 2 - 1) s 0 + nth (n / 2) s 0) / qz 2) else Fin (nth (n / 2) s 0).

(** ---------- as coded ---------- *)
(** statistics block of calculate_1d_frequencies *)
Definition calc_stats (ps : list (Qc * Qc)) (equal_weights : bool) : stats :=
  match ps with
  | [] => empty_stats
  | _ => mkStats (Fin (sumq (map (fun p => fst p * snd p) ps))) (Fin (sumq (map (fun p => fst p * fst p * snd p) ps)))
                 (xmin_list (map fst ps)) (xmax_list (map fst ps)) (Fin (sumq (map snd ps)))
                 (if equal_weights then median (map fst ps) else NaN)
  end.
Definition all_equal (l : list Qc) : bool := match l with [] => true | x :: r => forallb (Qceqb x) r end.

(** Histogram1D.fill statistics update *)
Definition fill_stats (s : stats) (v w : Qc) : stats :=
  mkStats (xadd (st_sum s) (Fin (w * v))) (xadd (st_sum2 s) (Fin (w * (v * v)))) (py_min (st_min s) (Fin v)) (py_max (st_max s) (Fin v))
          (xadd (st_weight s) (Fin w)) NaN.

Inductive sprog :=
| PNew (data : list (Qc * Qc)) (weighted : bool)      (* h1(data, bins, weights) -> new variable *)
| PEmpty                                              (* Histogram1D(binning) *)
| PBare                                               (* Histogram1D(binning, frequencies) *)
| PFill (x : nat) (v w : Qc)
| PFillN (x : nat) (data : list (Qc * Qc)) (weighted : bool)
| PAdd (x y : nat)                                    (* new = x + y *)
| PIAdd (x y : nat)
| PCopy (x : nat)
| PMul (x : nat) (c : Qc)                             (* x *= c *)
| PDiv (x : nat) (c : Qc)
| PSub (x y : nat)                                    (* new = x - y *)
| PArr (x : nat).                                     (* x += ndarray under free arithmetics *)

Definition upd {A} (k : nat) (v : A) (l : list A) : list A := set_at k v l.

Definition sstep (env : list stats) (o : sprog) : list stats * nat :=     (* new environment, variable observed *)
  let g k := nth k env invalid_stats in
  match o with
  | PNew d wt => (env ++ [calc_stats d (if wt then all_equal (map snd d) else true)], length env)
  | PEmpty => (env ++ [empty_stats], length env)
  | PBare => (env ++ [invalid_stats], length env)
  | PFill x v w => (upd x (fill_stats (g x) v w) env, x)
  | PFillN x d wt => (match d with
                      | [] => upd x (g x) env          (* an empty batch returns early: statistics untouched *)
                      | _ => upd x (stats_add (g x) (calc_stats d (if wt then all_equal (map snd d) else true))) env end, x)
  | PAdd x y => (env ++ [stats_add (g x) (g y)], length env)
  | PIAdd x y => (upd x (stats_add (g x) (g y)) env, x)
  | PCopy x => (env ++ [g x], length env)
  | PMul x c => (upd x (stats_mul (g x) c) env, x)
  | PDiv x c => (upd x (stats_mul (g x) (/ c)) env, x)
  | PSub x y => (env ++ [invalid_stats], length env)
  | PArr x => (upd x invalid_stats env, x)
  end.

Fixpoint srun (env : list stats) (ops : list sprog) : list stats :=
  match ops with
  | [] => []
  | o :: r => let '(env', k) := sstep env o in nth k env' invalid_stats :: srun env' r
  end.

(** ---------- specification: what raw data a variable stands for ---------- *)
Inductive sval := VData (ps : list (Qc * Qc)) (fresh_unweighted : bool) | VInvalid.
Definition scale_w (c : Qc) (ps : list (Qc * Qc)) := map (fun p => (fst p, c * snd p)) ps.
Definition vstep (env : list sval) (o : sprog) : list sval * nat :=
  let g k := nth k env VInvalid in
  let join a b := match a, b with VData p _, VData q _ => VData (p ++ q) false | _, _ => VInvalid end in
  match o with
  | PNew d wt => (env ++ [VData d (negb wt)], length env)
  | PEmpty => (env ++ [VData [] false], length env)
  | PBare => (env ++ [VInvalid], length env)
  | PFill x v w => (upd x (join (g x) (VData [(v, w)] false)) env, x)
  | PFillN x d _ => (match d with [] => upd x (g x) env | _ => upd x (join (g x) (VData d false)) env end, x)
  | PAdd x y => (env ++ [join (g x) (g y)], length env)
  | PIAdd x y => (upd x (join (g x) (g y)) env, x)
  | PCopy x => (env ++ [g x], length env)
  | PMul x c => (upd x (match g x with VData p f => VData (scale_w c p) f | v => v end) env, x)
  | PDiv x c => (upd x (match g x with VData p f => VData (scale_w (/ c) p) f | v => v end) env, x)
  | PSub _ _ => (env ++ [VInvalid], length env)
  | PArr x => (upd x VInvalid env, x)
  end.
Fixpoint vrun (env : list sval) (ops : list sprog) : list sval :=
  match ops with
  | [] => []
  | o :: r => let '(env', k) := vstep env o in nth k env' VInvalid :: vrun env' r
  end.

(** tolerances of the derived quantities are relative to the size of the data (mean: max |v|, variance: its square), so that
    data at the scale of 1e-9 are judged as strictly as data at the scale of 1 *)
Definition vscale (ps : list (Qc * Qc)) : Qc := fold_right Qcmax 0 (map (fun p => Qcabs (fst p)) ps).
Definition xclose_abs (tol : Qc) (a b : xnum) : bool :=
  match a, b with Fin x, Fin y => Qcleb (Qcabs (x - y)) tol | _, _ => xeqb a b end.

(** observation of one step: [sum sum2 min max weight median mean variance std2] *)
Definition check_stat (eps : Qc) (v : sval) (obs : sx) : bool :=
  match obs with
  | LL [a; b; c; d; e; f; m; va; sd2] =>
      match d_x a, d_x b, d_x c, d_x d, d_x e, d_x f, d_x m, d_x va, d_x sd2 with
      | Some a, Some b, Some c, Some d, Some e, Some f, Some m, Some va, Some sd2 =>
          match v with
          | VInvalid => is_nan a && is_nan b && is_nan c && is_nan d && is_nan e && is_nan m && is_nan va && is_nan sd2
          | VData ps fresh =>
              let s := moments ps in
              xclose eps (st_sum s) a && xclose eps (st_sum2 s) b && xclose eps (st_weight s) e &&
              (match ps with [] => true | _ => xeqb (st_min s) c && xeqb (st_max s) d end) &&
              (if fresh then match ps with [] => true | _ => xeqb (median (map fst ps)) f end else true) &&
              xclose_abs ((eps + mkq 1 1000000000000) * vscale ps) (st_mean s) m &&
              xclose_abs ((eps + mkq 1 1000000000) * (vscale ps * vscale ps)) (st_var s) va &&
              xclose_abs ((eps + mkq 1 1000000000) * (vscale ps * vscale ps)) (st_var s) sd2
          end
      | _, _, _, _, _, _, _, _, _ => false end
  | _ => false end.

Record c14 := { t_ops : list sprog; t_eps : Qc }.
Definition d_pairs (s : sx) : option (list (Qc * Qc)) := d_list (d_pair d_q d_q) s.
Definition d_sprog (s : sx) : option sprog :=
  match s with
  | LL [SS "new"; d; w] => d <- d_pairs d ;; w <- d_bool w ;; ret (PNew d w)
  | LL [SS "empty"] => Some PEmpty
  | LL [SS "bare"] => Some PBare
  | LL [SS "fill"; x; v; w] => x <- d_nat x ;; v <- d_q v ;; w <- d_q w ;; ret (PFill x v w)
  | LL [SS "fill_n"; x; d; w] => x <- d_nat x ;; d <- d_pairs d ;; w <- d_bool w ;; ret (PFillN x d w)
  | LL [SS "add"; x; y] => x <- d_nat x ;; y <- d_nat y ;; ret (PAdd x y)
  | LL [SS "iadd"; x; y] => x <- d_nat x ;; y <- d_nat y ;; ret (PIAdd x y)
  | LL [SS "copy"; x] => x <- d_nat x ;; ret (PCopy x)
  | LL [SS "mul"; x; c] => x <- d_nat x ;; c <- d_q c ;; ret (PMul x c)
  | LL [SS "div"; x; c] => x <- d_nat x ;; c <- d_q c ;; ret (PDiv x c)
  | LL [SS "sub"; x; y] => x <- d_nat x ;; y <- d_nat y ;; ret (PSub x y)
  | LL [SS "subf"; x; y] => x <- d_nat x ;; y <- d_nat y ;; ret (PSub x y)      (* the same, under free arithmetics *)
  | LL [SS "arr"; x] => x <- d_nat x ;; ret (PArr x)
  | LL [SS "normalize"; x; c] => x <- d_nat x ;; c <- d_q c ;; ret (PDiv x c)    (* x.normalize(inplace=True): division by the total,
                                                                                      which the case carries (all values lie inside the bins) *)
  | LL [SS "badiadd"; x] => x <- d_nat x ;; ret (PFillN x [] false)    (* a refused in-place addition (incompatible operand):
                                                                          like an empty batch, it leaves the statistics alone *)
  | _ => None end.
Definition d_c14 (s : sx) : option c14 :=
  o <- (x <- fld "ops" s ;; d_list d_sprog x) ;; e <- (x <- fld "eps" s ;; d_q x) ;; ret (Build_c14 o e).

(** variables must exist when used; scaling factors positive *)
Fixpoint wf_prog (nvars : nat) (ops : list sprog) : bool :=
  match ops with
  | [] => true
  | o :: r =>
      let ok x := Nat.ltb x nvars in
      match o with
      | PNew _ _ | PEmpty | PBare => wf_prog (S nvars) r
      | PFill x _ _ | PFillN x _ _ | PArr x => ok x && wf_prog nvars r
      | PAdd x y | PSub x y => ok x && ok y && wf_prog (S nvars) r
      | PIAdd x y => ok x && ok y && wf_prog nvars r
      | PCopy x => ok x && wf_prog (S nvars) r
      | PMul x c | PDiv x c => ok x && Qcltb 0 c && wf_prog nvars r
      end
  end.
Definition wf_c14 (c : c14) : bool := wf_prog 0 (t_ops c) && Qcleb 0 (t_eps c).

Definition e_stats_obs (s : stats) : sx :=
  LL (map e_x [st_sum s; st_sum2 s; st_min s; st_max s; st_weight s; st_median s; st_mean s; st_var s; st_var s]).

Definition check_C14 (c : c14) (obs : sx) : bool :=
  match obs with LL l => all2 (check_stat (t_eps c)) (vrun [] (t_ops c)) l | _ => false end.

Definition judge_C14 (case obs : sx) : sx :=
  match d_c14 case with
  | None => LL [illformed; SS "decode"]
  | Some c =>
      if negb (wf_c14 c) then LL [illformed; SS "wf"] else
      LL [SS (if check_C14 c obs then "ok" else "bad"); e_list e_stats_obs (srun [] (t_ops c))]
  end.
