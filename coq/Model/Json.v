(** C08: the JSON document of a histogram (to_dict / save_json) and the reader (create_from_dict / from_dict / constructors).

    JSON values are carried in [sx] with a fixed encoding (the harness produces the same encoding from json.loads):
      null = SS "null", true/false = SS "T"/"F", integer = ZZ, float = QQ / SS "nan" / SS "inf" / SS "-inf",
      string = LL [SS "s"; SS text], array = LL (SS "a" :: items), object = LL (SS "o" :: LL [SS key; value] ...),
      a rectangular numeric array under "frequencies"/"errors2" = LL [SS "nd"; shape; flat items] (numpy tolist / asarray). *)
From Physt Require Export DtypeCases.
Local Open Scope string_scope.

Definition jnull : sx := SS "null".
Definition jstr (s : string) : sx := LL [SS "s"; SS s].
Definition jarr (l : list sx) : sx := LL (SS "a" :: l).
Definition jobj (kv : list (string * sx)) : sx := LL (SS "o" :: map (fun p => LL [SS (fst p); snd p]) kv).
Definition jnd (shape : list nat) (flat : list sx) : sx := LL [SS "nd"; LL (map e_nat shape); LL flat].

Definition d_jstr (s : sx) : option string := match s with LL [SS "s"; SS t] => Some t | _ => None end.
Definition d_jarr (s : sx) : option (list sx) := match s with LL (SS "a" :: l) => Some l | _ => None end.
Definition d_jobj (s : sx) : option (list sx) := match s with LL (SS "o" :: l) => Some l | _ => None end.
(** [a_dict.get(key)] on a parsed object; the items of an object are [LL [SS key; value]] *)
Definition jget (k : string) (o : list sx) : option sx := field k o.
Definition jnum (s : sx) : option xnum :=
  match s with LL _ => None | _ => d_x s end.

(** strict equality of documents: an integer and a float are different JSON numbers *)
Fixpoint jeqb (a b : sx) : bool :=
  match a, b with
  | ZZ x, ZZ y => Z.eqb x y
  | QQ x, QQ y => Qceqb x y
  | SS x, SS y => String.eqb x y
  | LL l, LL m => (fix go (l m : list sx) : bool :=
                     match l, m with
                     | [], [] => true
                     | x :: l', y :: m' => jeqb x y && go l' m'
                     | _, _ => false end) l m
  | _, _ => false end.

(** ---------- binnings ---------- *)
(** parameters, bins and edges are kept as the JSON numbers the object holds (an int array lists ints, a float array floats) *)
Inductive jbin :=
| JStatic (bins : list (sx * sx))
| JNumpy (edges : list sx)
| JFixed (count : Z) (width : xnum) (shift : sx) (tmin : option Z)
| JExp (lmin lwidth count : sx).
Record jaxis := mkJaxis { x_bin : jbin; x_adaptive : bool }.

Definition to_int (s : sx) : option Z :=
  match s with ZZ z => Some z | QQ q => Some (Z.quot (Qnum (this q)) (Zpos (Qden (this q)))) | _ => None end.
Definition bin_count (b : jbin) : nat :=
  match b with
  | JStatic bins => length bins
  | JNumpy e => pred (length e)
  | JFixed c _ _ _ => Z.to_nat c
  | JExp _ _ c => match to_int c with Some z => Z.to_nat z | None => 0%nat end end.

Definition e_optz (o : option Z) : sx := match o with Some z => ZZ z | None => jnull end.
Definition axis_doc (a : jaxis) : sx :=
  jobj (("adaptive", e_bool (x_adaptive a)) ::
        match x_bin a with
        | JStatic bins => [("binning_type", jstr "StaticBinning"); ("bins", jarr (map (fun p => jarr [fst p; snd p]) bins))]
        | JNumpy e => [("binning_type", jstr "NumpyBinning"); ("numpy_bins", jarr e)]
        | JFixed c w s t => [("bin_count", ZZ c); ("bin_shift", s); ("bin_times_min", e_optz t); ("bin_width", e_x w); ("binning_type", jstr "FixedWidthBinning")]
        | JExp m w c => [("bin_count", c); ("binning_type", jstr "ExponentialBinning"); ("log_min", m); ("log_width", w)]
        end).

Definition xltb (a b : xnum) : bool :=
  match a, b with
  | Fin p, Fin q => Qcltb p q
  | NInf, Fin _ | NInf, PInf | Fin _, PInf => true
  | _, _ => false end.
Definition xleb (a b : xnum) : bool := xltb a b || xeqb a b.
Definition jltb (a b : sx) : bool := match jnum a, jnum b with Some x, Some y => xltb x y | _, _ => false end.
Definition jleb (a b : sx) : bool := match jnum a, jnum b with Some x, Some y => xleb x y | _, _ => false end.
Fixpoint rising_edges (l : list sx) : bool :=
  match l with a :: ((b :: _) as r) => jltb a b && rising_edges r | _ => true end.
(** is_rising on an (n,2) array: left < right in every row, and no row starts before the previous one ends *)
Fixpoint rising_bins (l : list (sx * sx)) : bool :=
  match l with
  | [] => true
  | (a, b) :: r => jltb a b && match r with (c, _) :: _ => jleb b c | [] => true end && rising_bins r
  end.

(** np.asarray of a list of JSON numbers: an integer array if every item is an integer, else every item becomes a float *)
Definition is_zz (s : sx) : bool := match s with ZZ _ => true | _ => false end.
Definition as_float (s : sx) : option sx := x <- jnum s ;; ret (e_x x).
Definition np_array (l : list sx) : option (list sx) := if forallb is_zz l then Some l else mapM as_float l.

Definition d_bin2 (s : sx) : option (list sx) :=
  match d_jarr s with Some [a; b] => Some [a; b] | _ => None end.
Fixpoint pairs2 (l : list sx) : list (sx * sx) := match l with a :: b :: r => (a, b) :: pairs2 r | _ => [] end.
Definition d_jbool (s : sx) : option bool := d_bool s.
Definition d_optz (s : sx) : option (option Z) :=
  match s with SS t => if String.eqb t "null" then Some None else None | ZZ z => Some (Some z) | _ => None end.
Definition to_float (s : sx) : option xnum := jnum s.
Definition positive_x (x : xnum) : bool := match x with Fin q => Qcltb 0 q | PInf => true | _ => false end.
Definition falsy (s : sx) : bool :=
  match s with SS t => String.eqb t "null" || String.eqb t "F" | ZZ z => Z.eqb z 0 | QQ q => Qceqb q 0 | _ => false end.

(** BinningBase.from_dict: the class named by "binning_type" (default StaticBinning) is called with the other items *)
Definition axis_of_doc (s : sx) : option jaxis :=
  o <- d_jobj s ;;
  ad <- match jget "adaptive" o with Some v => d_jbool v | None => Some false end ;;
  ty <- match jget "binning_type" o with Some v => d_jstr v | None => Some "StaticBinning" end ;;
  if String.eqb ty "StaticBinning" then
    rows <- (v <- jget "bins" o ;; l <- d_jarr v ;; mapM d_bin2 l) ;;
    flat <- np_array (concat rows) ;;
    let b := pairs2 flat in
    if negb (rising_bins b) then None else ret (mkJaxis (JStatic b) false)      (* "adaptive" is swallowed by **kwargs *)
  else if String.eqb ty "NumpyBinning" then
    e <- (v <- jget "numpy_bins" o ;; l <- d_jarr v ;; np_array l) ;;
    if ad || negb (rising_edges e) || Nat.ltb (length e) 2 then None else ret (mkJaxis (JNumpy e) ad)
  else if String.eqb ty "FixedWidthBinning" then
    c <- (v <- jget "bin_count" o ;; to_int v) ;;
    w <- (v <- jget "bin_width" o ;; to_float v) ;;
    t <- match jget "bin_times_min" o with Some v => d_optz v | None => Some None end ;;
    let sh := match jget "bin_shift" o with Some v => if falsy v then QQ 0 else v | None => QQ 0 end in
    if negb (positive_x w) || (c <? 0)%Z || ((c =? 0)%Z && match t with Some _ => true | None => false end) then None
    else ret (mkJaxis (JFixed c w sh t) ad)
  else if String.eqb ty "ExponentialBinning" then
    c <- jget "bin_count" o ;;
    m <- jget "log_min" o ;;
    w <- jget "log_width" o ;;
    if ad then None else ret (mkJaxis (JExp m w c) ad)
  else None.

(** ---------- histograms ---------- *)
Record jh := mkJh {
  j_cls : string;
  j_axes : list jaxis;
  j_dt : dt;
  j_freq : list xnum;             (* row-major *)
  j_err2 : list xnum;
  j_missed : list xnum;           (* 1-D: underflow, overflow, inner; N-D: one count *)
  j_missed_float : bool;          (* element kind of the missed array (an integer histogram holds NaN markers as floats) *)
  j_keep : bool;
  j_meta : list (string * sx);    (* meta_data without "axis_names": name, title, custom JSON values *)
  j_names : list sx               (* axis_names: strings or null *)
}.

(** the classes create_from_dict can find: (is 1-D, required dimension, default axis names, default_init_values) *)
Definition cls_info (c : string) : option (bool * option nat * list string * list (string * sx)) :=
  if String.eqb c "Histogram1D" then Some (true, Some 1%nat, [], [])
  else if String.eqb c "Histogram2D" then Some (false, Some 2%nat, [], [])
  else if String.eqb c "HistogramND" then Some (false, None, [], [])
  else if String.eqb c "RadialHistogram" then Some (true, Some 1%nat, ["r"], [])
  else if String.eqb c "AzimuthalHistogram" then Some (true, Some 1%nat, ["phi"], [("radius", ZZ 1)])
  else if String.eqb c "PolarHistogram" then Some (false, None, ["r"; "phi"], [])
  else if String.eqb c "SphericalSurfaceHistogram" then Some (false, None, ["theta"; "phi"], [("radius", ZZ 1)])
  else if String.eqb c "SphericalHistogram" then Some (false, None, ["r"; "theta"; "phi"], [])
  else if String.eqb c "CylindricalSurfaceHistogram" then Some (false, None, ["rho"; "phi"; "z"], [("radius", ZZ 1)])
  else if String.eqb c "CylindricalHistogram" then Some (false, None, ["rho"; "phi"; "z"], [])
  else None.

Definition is_int_dt (d : dt) : bool := match d with I16 | I32 | I64 => true | _ => false end.
Definition dt_name (d : dt) : string :=
  match d with I16 => "int16" | I32 => "int32" | I64 => "int64" | F16 => "float16" | F32 => "float32" | F64 => "float64" | F128 => "float128" end.
Definition dt_of_name (s : string) : option dt :=
  if String.eqb s "int16" then Some I16 else if String.eqb s "int32" then Some I32 else if String.eqb s "int64" then Some I64
  else if String.eqb s "float16" then Some F16 else if String.eqb s "float32" then Some F32 else if String.eqb s "float64" then Some F64
  else if String.eqb s "float128" then Some F128 else None.

(** ndarray.tolist(): integers for integer arrays, floats otherwise *)
Definition num_doc (isint : bool) (x : xnum) : sx :=
  if isint then match x with Fin q => ZZ (Qnum (this q)) | _ => e_x x end else e_x x.
(** np.asarray(list, dtype): truncation toward zero for integer targets (non-finite refused), rounding for float16/32 *)
Definition cast (d : dt) (x : xnum) : option xnum :=
  match x with
  | Fin q => if is_int_dt d then Some (Fin (qz (Z.quot (Qnum (this q)) (Zpos (Qden (this q)))))) else Some (Fin (round_dt d q))
  | _ => if is_int_dt d then None else Some x end.

Definition shape_of (h : jh) : list nat := map (fun a => bin_count (x_bin a)) (j_axes h).

(** nested lists cannot show the dimensions behind an empty one *)
Fixpoint tolist_shape (l : list nat) : list nat :=
  match l with [] => [] | O :: _ => [O] | n :: r => n :: tolist_shape r end.

Definition to_doc (h : jh) : sx :=
  jobj [("binnings", jarr (map axis_doc (j_axes h)));
        ("dtype", jstr (dt_name (j_dt h)));
        ("errors2", jnd (tolist_shape (shape_of h)) (map (num_doc (is_int_dt (j_dt h))) (j_err2 h)));
        ("frequencies", jnd (tolist_shape (shape_of h)) (map (num_doc (is_int_dt (j_dt h))) (j_freq h)));
        ("histogram_type", jstr (j_cls h));
        ("meta_data", jobj (j_meta h ++ [("axis_names", jarr (j_names h))]));
        ("missed", jarr (map (num_doc (negb (j_missed_float h))) (j_missed h)));
        ("missed_keep", e_bool (j_keep h))].

Definition d_nd (s : sx) : option (list nat * list sx) :=
  match s with LL [SS "nd"; sh; LL flat] => sh <- d_list d_nat sh ;; ret (sh, flat) | _ => None end.
Definition list_eqb {A} (f : A -> A -> bool) (a b : list A) : bool := Nat.eqb (length a) (length b) && all2 f a b.
Definition has_nan (l : list xnum) : bool := existsb (fun x => match x with NaN => true | _ => false end) l.
Definition zeros (n : nat) : list xnum := repeat (Fin 0) n.
Definition xabs (x : xnum) : xnum := match x with Fin q => Fin (Qcabs q) | NInf => PInf | _ => x end.
Definition nonneg_x (x : xnum) : bool := match x with Fin q => Qcleb 0 q | NaN | PInf => true | NInf => false end.

(** dict.update on association lists (later keys win, first position kept) *)
Fixpoint remove_key (k : string) (l : list (string * sx)) : list (string * sx) :=
  match l with [] => [] | (k', v) :: r => if String.eqb k k' then remove_key k r else (k', v) :: remove_key k r end.
Fixpoint lookup (k : string) (l : list (string * sx)) : option sx :=
  match l with [] => None | (k', v) :: r => if String.eqb k k' then Some v else lookup k r end.
Definition update1 (l : list (string * sx)) (kv : string * sx) : list (string * sx) :=
  match lookup (fst kv) l with
  | Some _ => map (fun p => if String.eqb (fst kv) (fst p) then kv else p) l
  | None => l ++ [kv] end.
Definition update (l m : list (string * sx)) : list (string * sx) := fold_left update1 m l.
Definition d_item (s : sx) : option (string * sx) := match s with LL [SS k; v] => Some (k, v) | _ => None end.

Definition reserved : list string :=
  ["binnings"; "binning"; "frequencies"; "errors2"; "dtype"; "missed"; "keep_missed"; "dimension"; "stats"; "overflow"; "underflow"; "inner_missed"; "axis_name"].

Definition is_null (s : sx) : bool := match s with SS t => String.eqb t "null" | _ => false end.
(** np.asarray(nested lists, dtype) checked against the shape of the bins *)
Definition read_array (d : dt) (shape : list nat) (v : sx) : option (list xnum) :=
  '(sh, flat) <- d_nd v ;;
  if negb (list_eqb Nat.eqb sh shape) && negb (Nat.eqb (fold_right Nat.mul 1%nat shape) 0) then None else
  xs <- mapM jnum flat ;; mapM (cast d) xs.

(** create_from_dict (without the version check) -> klass.from_dict -> _kwargs_from_dict -> __init__ *)
Definition of_items (get : string -> option sx) : option jh :=
  cls <- (v <- get "histogram_type" ;; d_jstr v) ;;
  '(is1d, dim, dnames, dinit) <- cls_info cls ;;
  axes <- (v <- get "binnings" ;; l <- d_jarr v ;; mapM axis_of_doc l) ;;
  d <- (v <- get "dtype" ;; s <- d_jstr v ;; dt_of_name s) ;;
  meta <- match get "meta_data" with Some v => (l <- d_jobj v ;; mapM d_item l) | None => Some [] end ;;
  keep <- match get "missed_keep" with Some v => d_jbool v | None => Some true end ;;
  let axes := if is1d then firstn 1 axes else axes in
  let shape := map (fun a => bin_count (x_bin a)) axes in
  let size := fold_right Nat.mul 1%nat shape in
  if existsb (fun k => existsb (String.eqb k) reserved) (map fst meta) then None else
  if Nat.eqb (length axes) 0 then None else
  if match dim with Some n => negb (Nat.eqb (length axes) n) | None => false end then None else
  freq <- match get "frequencies" with
          | Some v => if is_null v then Some (zeros size) else read_array d shape v
          | None => Some (zeros size) end ;;
  if negb (forallb nonneg_x freq) then None else
  err2 <- match get "errors2" with
          | Some v => if is_null v then Some (map xabs freq) else read_array d shape v
          | None => Some (map xabs freq) end ;;
  if negb (forallb nonneg_x err2) then None else
  missed_doc <- match get "missed" with Some v => (l <- d_jarr v ;; xs <- mapM jnum l ;; ret (Some xs)) | None => Some None end ;;
  '(missed, mfloat) <-
     (if is1d then
        match missed_doc with
        | Some [u; v; w] =>
            if keep then
              if is_int_dt d && has_nan [u; v; w] then Some ([u; v; w], true)
              else (xs <- mapM (cast d) [u; v; w] ;; ret (xs, negb (is_int_dt d)))
            else Some (zeros 3, negb (is_int_dt d))
        | Some _ => None
        | None => Some (zeros 3, negb (is_int_dt d)) end
      else
        match missed_doc with
        | Some [u] => (x <- cast d u ;; ret ([x], negb (is_int_dt d)))
        | Some _ => None
        | None => Some (zeros 1, negb (is_int_dt d)) end) ;;
  let defaults := if Nat.eqb (length dnames) 0 then map (fun i => jstr ("axis" ++ String (Ascii.ascii_of_nat (48 + i)) "")) (seq 0 (length axes)) else map jstr dnames in
  let names := match lookup "axis_names" meta with
               | Some v => match d_jarr v with Some (x :: l) => x :: l | _ => defaults end
               | None => defaults end in
  if negb is1d && negb (Nat.eqb (length names) (length axes)) then None else
  ret (mkJh cls axes d freq err2 missed mfloat keep (update dinit (remove_key "axis_names" meta)) names).

Definition of_doc (doc : sx) : option jh := o <- d_jobj doc ;; of_items (fun k => jget k o).

(** ---------- collections ---------- *)
Record jcoll := mkJcoll { k_members : list jh; k_binning : jaxis; k_name : sx; k_title : sx }.
Definition coll_doc (c : jcoll) : sx :=
  jobj [("binning", axis_doc (k_binning c)); ("histogram_type", jstr "histogram_collection");
        ("histograms", jarr (map to_doc (k_members c))); ("name", k_name c); ("title", k_title c)].
(** BinningBase.__eq__ compares the class and the bins, not the adaptive flag *)
Definition axis_eqb (a b : jaxis) : bool := jeqb (axis_doc (mkJaxis (x_bin a) false)) (axis_doc (mkJaxis (x_bin b) false)).
Definition coll_of_doc (doc : sx) : option jcoll :=
  o <- d_jobj doc ;;
  ms <- (v <- jget "histograms" o ;; l <- d_jarr v ;; mapM of_doc l) ;;
  let name := match jget "name" o with Some v => v | None => jnull end in
  let title := match jget "title" o with Some v => v | None => jnull end in
  let title := if falsy title then name else title in
  match ms with
  | m :: _ =>
      match j_axes m with
      | [a] => if forallb (fun x => match j_axes x with [b] => axis_eqb a b | _ => false end) ms then ret (mkJcoll ms a name title) else None
      | _ => None end
  | [] => b <- (v <- jget "binning" o ;; axis_of_doc v) ;; ret (mkJcoll [] b name title)
  end.

(** ---------- versions (packaging.version keys, PEP 440 without local parts) ---------- *)
Record ver := mkVer { v_epoch : Z; v_rel : list Z; v_pre : option (Z * Z); v_post : option Z; v_dev : option Z }.
Definition lexc (a b : comparison) : comparison := match a with Eq => b | _ => a end.
Fixpoint strip0 (l : list Z) : list Z :=      (* release without trailing zeros *)
  match l with [] => [] | x :: r => match strip0 r with [] => if Z.eqb x 0 then [] else [x] | r' => x :: r' end end.
Fixpoint lcmp (a b : list Z) : comparison :=
  match a, b with
  | [], [] => Eq | [], _ :: _ => Lt | _ :: _, [] => Gt
  | x :: a', y :: b' => lexc (Z.compare x y) (lcmp a' b') end.
(** pre: absent counts as +infinity, except for a pure dev release where it counts as -infinity; post: absent = -infinity;
    dev: absent = +infinity *)
Definition pre_key (v : ver) : Z * Z :=
  match v_pre v, v_post v, v_dev v with
  | None, None, Some _ => ((-1)%Z, 0%Z)
  | None, _, _ => (3%Z, 0%Z)
  | Some p, _, _ => p end.
Definition post_key (v : ver) : Z := match v_post v with Some n => n | None => (-1)%Z end.
Definition dev_cmp (a b : option Z) : comparison :=
  match a, b with None, None => Eq | None, Some _ => Gt | Some _, None => Lt | Some x, Some y => Z.compare x y end.
Definition vcmp (a b : ver) : comparison :=
  lexc (Z.compare (v_epoch a) (v_epoch b))
  (lexc (lcmp (strip0 (v_rel a)) (strip0 (v_rel b)))
  (lexc (Z.compare (fst (pre_key a)) (fst (pre_key b)))
  (lexc (Z.compare (snd (pre_key a)) (snd (pre_key b)))
  (lexc (Z.compare (post_key a) (post_key b))
        (dev_cmp (v_dev a) (v_dev b)))))).
(** require_compatible_version: refused iff the running version is older than the one the document asks for *)
Definition refuses (current compatible : ver) : bool := match vcmp current compatible with Lt => true | _ => false end.

Definition d_ver (s : sx) : option ver :=
  e <- (x <- fld "epoch" s ;; d_z x) ;;
  r <- (x <- fld "release" s ;; d_list d_z x) ;;
  p <- (x <- fld "pre" s ;; d_opt (d_pair d_z d_z) x) ;;
  po <- (x <- fld "post" s ;; d_opt d_z x) ;;
  dv <- (x <- fld "dev" s ;; d_opt d_z x) ;;
  ret (mkVer e r p po dv).

(** ---------- snapshots (what the harness reads from a live object) ---------- *)
Definition ins_key (x : sx) : list sx -> list sx :=
  fix ins (l : list sx) : list sx :=
    match l with
    | [] => [x]
    | y :: r => match x, y with
                | LL (SS kx :: _), LL (SS ky :: _) => if String.leb kx ky then x :: l else y :: ins r
                | _, _ => x :: l end
    end.
Fixpoint jsort (s : sx) : sx :=
  match s with
  | LL (SS "o" :: items) => LL (SS "o" :: fold_right ins_key [] (map jsort items))
  | LL l => LL (map jsort l)
  | _ => s end.

Definition d_xs (s : sx) : option (list xnum) := d_list jnum s.
Definition d_jaxis (s : sx) : option jaxis :=
  ty <- (x <- fld "type" s ;; d_str x) ;;
  ad <- (x <- fld "adaptive" s ;; d_bool x) ;;
  b <- (if String.eqb ty "StaticBinning" then (x <- fld "bins" s ;; l <- d_list Some x ;; ret (JStatic (pairs2 l)))
        else if String.eqb ty "NumpyBinning" then (x <- fld "edges" s ;; l <- d_list Some x ;; ret (JNumpy l))
        else if String.eqb ty "FixedWidthBinning" then
          (c <- (x <- fld "count" s ;; d_z x) ;; w <- (x <- fld "width" s ;; jnum x) ;; sh <- fld "shift" s ;;
           t <- (x <- fld "tmin" s ;; d_optz x) ;; ret (JFixed c w sh t))
        else if String.eqb ty "ExponentialBinning" then
          (c <- fld "count" s ;; m <- fld "lmin" s ;; w <- fld "lwidth" s ;; ret (JExp m w c))
        else None) ;;
  ret (mkJaxis b ad).
Definition d_jh (s : sx) : option jh :=
  cls <- (x <- fld "cls" s ;; d_str x) ;;
  axes <- (x <- fld "axes" s ;; d_list d_jaxis x) ;;
  d <- (x <- fld "dtype" s ;; d_dt x) ;;
  f <- (x <- fld "freq" s ;; d_xs x) ;;
  e <- (x <- fld "err2" s ;; d_xs x) ;;
  m <- (x <- fld "missed" s ;; d_xs x) ;;
  mf <- (x <- fld "missed_float" s ;; d_bool x) ;;
  k <- (x <- fld "keep" s ;; d_bool x) ;;
  meta <- (x <- fld "meta" s ;; l <- d_list d_item x ;; ret l) ;;
  names <- (x <- fld "names" s ;; d_list Some x) ;;
  ret (mkJh cls axes d f e m mf k meta names).

Definition e_jaxis (a : jaxis) : sx :=
  match x_bin a with
  | JStatic b => e_rec [("type", SS "StaticBinning"); ("adaptive", e_bool (x_adaptive a)); ("bins", LL (concat (map (fun p => [fst p; snd p]) b)))]
  | JNumpy e => e_rec [("type", SS "NumpyBinning"); ("adaptive", e_bool (x_adaptive a)); ("edges", LL e)]
  | JFixed c w sh t => e_rec [("type", SS "FixedWidthBinning"); ("adaptive", e_bool (x_adaptive a)); ("count", ZZ c); ("width", e_x w); ("shift", sh); ("tmin", e_optz t)]
  | JExp m w c => e_rec [("type", SS "ExponentialBinning"); ("adaptive", e_bool (x_adaptive a)); ("count", c); ("lmin", m); ("lwidth", w)]
  end.
Definition sort_meta (l : list (string * sx)) : list sx :=
  fold_right ins_key [] (map (fun p => LL [SS (fst p); jsort (snd p)]) l).
Definition e_jh (h : jh) : sx :=
  e_rec [("cls", SS (j_cls h)); ("axes", LL (map e_jaxis (j_axes h))); ("dtype", e_dt (j_dt h));
         ("freq", LL (map (num_doc (is_int_dt (j_dt h))) (j_freq h))); ("err2", LL (map (num_doc (is_int_dt (j_dt h))) (j_err2 h)));
         ("missed", LL (map (num_doc (negb (j_missed_float h))) (j_missed h))); ("missed_float", e_bool (j_missed_float h));
         ("keep", e_bool (j_keep h)); ("meta", LL (sort_meta (j_meta h))); ("names", LL (j_names h))].

(** well-formed snapshot: values representable in the dtype, non-negative, shapes agree *)
Definition representable (d : dt) (x : xnum) : bool := match cast d x with Some y => xeqb x y || match x, y with NaN, NaN => true | _, _ => false end | None => false end.
Definition wf_jh (h : jh) : bool :=
  let size := fold_right Nat.mul 1%nat (shape_of h) in
  Nat.eqb (length (j_freq h)) size && Nat.eqb (length (j_err2 h)) size &&
  forallb (representable (j_dt h)) (j_freq h) && forallb (representable (j_dt h)) (j_err2 h) &&
  forallb nonneg_x (j_freq h) && forallb nonneg_x (j_err2 h) &&
  match cls_info (j_cls h) with Some _ => true | None => false end.

(** ---------- judge ---------- *)
Definition snap_m (s : sx) : option sx := fld "m" s.
Definition judge_hist (obs : sx) : sx :=
  match (b <- fld "before" obs ;; m <- snap_m b ;; d_jh m) with
  | None => LL [illformed; SS "snapshot"]
  | Some h0 =>
      if negb (wf_jh h0) then LL [illformed; SS "wf"] else
      let mdoc := jsort (to_doc h0) in
      match fld "before" obs, fld "doc1" obs, fld "after" obs, fld "doc2" obs, fld "eq" obs, fld "file" obs, fld "cls_same" obs with
      | Some before, Some doc1, Some after, Some doc2, Some eq, Some file, Some cs =>
          let mafter := match of_doc doc1 with Some h1 => e_jh h1 | None => SS "refused" end in
          let same := jeqb before after && jeqb doc1 doc2 && jeqb eq (SS "T") && jeqb file after && jeqb cs (SS "T") in
          LL [SS (if same then "ok" else "bad"); LL [mdoc; mafter];
              LL [e_bool (jeqb before after); e_bool (jeqb doc1 doc2); eq; e_bool (jeqb file after); cs]]
      | _, _, _, _, _, _, _ => LL [SS "bad"; LL [mdoc; SS "?"]; SS "missing-observation"]
      end
  end.
Definition judge_doc (case obs : sx) : sx :=
  match fld "doc" case with
  | None => LL [illformed; SS "doc"]
  | Some doc =>
      let m := match of_doc doc with Some h => e_jh h | None => SS "refused" end in
      LL [SS (if jeqb m obs then "ok" else "bad"); m]
  end.
Definition judge_version (case obs : sx) : sx :=
  match (c <- fld "current" case ;; d_opt d_ver c), (c <- fld "compatible" case ;; d_opt d_ver c) with
  | Some (Some cur), Some (Some doc) =>
      let m := SS (if refuses cur doc then "refused" else "accepted") in
      LL [SS (if jeqb m obs then "ok" else "bad"); m]
  | Some _, Some _ => LL [SS (if jeqb (SS "refused") obs then "ok" else "bad"); SS "refused"]   (* not a version: never accepted *)
  | _, _ => LL [illformed; SS "version"]
  end.
Definition judge_coll (obs : sx) : sx :=
  match fld "before" obs, fld "after" obs, fld "doc1" obs, fld "doc2" obs with
  | Some before, Some after, Some doc1, Some doc2 =>
      let m := match coll_of_doc doc1 with
               | Some c => LL [LL (map e_jh (k_members c)); e_jaxis (k_binning c); k_name c; k_title c]
               | None => SS "refused" end in
      LL [SS (if jeqb before after && jeqb doc1 doc2 then "ok" else "bad"); m; LL [e_bool (jeqb before after); e_bool (jeqb doc1 doc2)]]
  | _, _, _, _ => LL [SS "bad"; SS "?"; SS "missing-observation"]
  end.
(** content dtypes outside the modelled enumeration (int8, unsigned integers): the reported dtype, the element types of the
    parsed arrays and the dtype written again are the original's name; contents, squared errors and missed counts come back *)
Definition judge_narrow (case obs : sx) : sx :=
  match fld "dtype" case, fld "dtypes_after" obs, fld "freq" case, fld "freq_after" obs, fld "err2_after" obs, fld "missed_before" obs, fld "missed_after" obs with
  | Some (SS dtn), Some (LL names), Some f, Some fa, Some ea, Some mb, Some ma =>
      let ok := forallb (fun n => match n with SS x => String.eqb x dtn | _ => false end) names && negb (Nat.eqb (length names) 0) &&
                sx_eqb f fa && sx_eqb f ea && sx_eqb mb ma in
      LL [SS (if ok then "ok" else "bad"); SS "narrow"; SS (if ok then "" else "narrow-dtype-round-trip")]
  | _, _, _, _, _, _, _ =>
      match fld "error" obs with Some e => LL [SS "bad"; SS "narrow"; e] | None => LL [SS "bad"; SS "narrow"; SS "missing-observation"] end
  end.
(** a histogram (or binning) class defined after the reader has been used is found like any other subclass: same class, == *)
Definition judge_late (obs : sx) : sx :=
  match fld "same_class" obs, fld "eq" obs, fld "binning_class" obs with
  | Some (SS "T"), Some (SS "T"), Some (SS "T") => LL [SS "ok"; SS "late_class"; SS ""]
  | _, _, _ => LL [SS "bad"; SS "late_class"; SS "class-defined-after-the-first-read"]
  end.
Definition judge_C08 (case obs : sx) : sx :=
  match fld "kind" case with
  | Some (SS "late_class") => judge_late obs
  | Some (SS "narrow") => judge_narrow case obs
  | Some (SS "hist") => judge_hist obs
  | Some (SS "doc") => judge_doc case obs
  | Some (SS "version") => judge_version case obs
  | Some (SS "collection") => judge_coll obs
  | _ => LL [illformed; SS "kind"] end.
