(** find_bin / fill / fill_n of Histogram1D and HistogramND as coded, and the specification
    "state = initial state + histogram of everything entered so far". *)
From Physt Require Export CalcND.

Inductive fb := FUnder | FOver | FIn (i : nat) | FGap.

(** searchsorted(left_edges, v, 'right') and the case analysis of find_bin *)
Definition find_axis_coded (bins : list bin) (closed_last : bool) (v : xnum) : fb :=
  let n := length bins in
  match v with
  | Fin q =>
      let ix := length (filter (fun b : bin => Qcleb (fst b) q) bins) in
      if Nat.eqb ix 0 then FUnder else
      if Nat.eqb ix n then
        (if Qcltb q (last_hi bins) || (closed_last && Qceqb q (last_hi bins)) then FIn (n - 1) else FOver)
      else if Qcltb q (snd (nth (ix - 1) bins (0, 0))) then FIn (ix - 1) else FGap
  | _ => FOver       (* NaN sorts last: ix = n and the comparison with the last edge is false *)
  end.

Definition find_axis_spec (bins : list bin) (closed_last : bool) (v : xnum) : fb :=
  match v with
  | Fin q =>
      match spec_find_from bins closed_last q 0 with
      | Some i => FIn i
      | None => match bins with
                | [] => FUnder
                | b :: _ => if Qcltb q (fst b) then FUnder else if Qcleb (last_hi bins) q then FOver else FGap
                end
      end
  | _ => FGap        (* a NaN is in no bin (the property: skipped / counted nowhere) *)
  end.

(** ---------- state ---------- *)
Record fstate := {
  s_axes : list (list bin * bool);
  s_freq : list Qc; s_err2 : list Qc;
  s_missed : list xnum;            (* 1-D: [under; over; inner]; N-D: [missed] *)
  s_keep : bool }.
Definition s_shape (s : fstate) := map (fun a => length (fst a)) (s_axes s).
Definition is1d (s : fstate) : bool := Nat.eqb (length (s_axes s)) 1.

Inductive fop :=
| Fill (v : list xnum) (w : Qc)
| FillN (rows : list (list xnum)) (ws : option (list Qc)) (wlen_ok : bool).

(** returned index: 1-D -1 / i / n / None ; N-D tuple / None *)
Inductive fret := RIdx (l : list Z) | RNone | RRefused | RVoid.

Fixpoint add_at (k : nat) (d : Qc) (l : list Qc) : list Qc :=
  match l, k with
  | [], _ => []
  | x :: r, O => (x + d) :: r
  | x :: r, S k' => x :: add_at k' d r end.
Definition xadd_at (k : nat) (d : xnum) (l : list xnum) : list xnum :=
  map (fun p => if Nat.eqb (fst p) k then xadd (snd p) d else snd p) (combine (seq 0 (length l)) l).

(** row-major flat position of an index tuple *)
Fixpoint flat_pos (shape idx : list nat) : nat :=
  match shape, idx with
  | n :: r, i :: j => (i * size r + flat_pos r j)%nat
  | _, _ => 0%nat end.
Definition vadd (a b : list Qc) : list Qc := map (fun p => fst p + snd p) (combine a b).

Definition fill_1d (find : list bin -> bool -> xnum -> fb) (s : fstate) (v : xnum) (w : Qc) : fstate * fret :=
  let bins := fst (nth 0 (s_axes s) ([], true)) in
  let n := length bins in
  match find bins true v with
  | FGap => (Build_fstate (s_axes s) (s_freq s) (s_err2 s)
                          (match s_missed s with [u; o; i] => [NaN; NaN; i] | m => m end) (s_keep s), RNone)
  | FUnder => (Build_fstate (s_axes s) (s_freq s) (s_err2 s)
                            (if s_keep s then xadd_at 0 (Fin w) (s_missed s) else s_missed s) (s_keep s), RIdx [(-1)%Z])
  | FOver => (Build_fstate (s_axes s) (s_freq s) (s_err2 s)
                           (if s_keep s then xadd_at 1 (Fin w) (s_missed s) else s_missed s) (s_keep s), RIdx [Z.of_nat n])
  | FIn i => (Build_fstate (s_axes s) (add_at i w (s_freq s)) (add_at i (w * w) (s_err2 s)) (s_missed s) (s_keep s),
              RIdx [Z.of_nat i])
  end.

Definition find_nd (find : list bin -> bool -> xnum -> fb) (s : fstate) (v : list xnum) : option (list nat) :=
  mapM (fun p => match find (fst (fst p)) (snd (fst p)) (snd p) with FIn i => Some i | _ => None end)
       (combine (s_axes s) v).

Definition fill_nd (find : list bin -> bool -> xnum -> fb) (s : fstate) (v : list xnum) (w : Qc) : fstate * fret :=
  match find_nd find s v with
  | None => (Build_fstate (s_axes s) (s_freq s) (s_err2 s)
                          (if s_keep s then xadd_at 0 (Fin w) (s_missed s) else s_missed s) (s_keep s), RNone)
  | Some idx => let p := flat_pos (s_shape s) idx in
      (Build_fstate (s_axes s) (add_at p w (s_freq s)) (add_at p (w * w) (s_err2 s)) (s_missed s) (s_keep s),
       RIdx (map Z.of_nat idx))
  end.

Definition pairs_1d (rows : list (list xnum)) (ws : option (list Qc)) : list (Qc * Qc) :=
  map (fun r => (hd 0 (fst r), snd r)) (rows_of rows ws).

Definition step (nan_skips : bool) (find : list bin -> bool -> xnum -> fb)
                (calc1 : list (Qc * Qc) -> list bin -> list (Qc * Qc) * xnum * xnum)
                (idx : list bin -> bool -> Qc -> option nat)
                (s : fstate) (o : fop) : fstate * fret :=
  match o with
  | Fill v w =>
      if negb (Nat.eqb (length v) (length (s_axes s))) then (s, RRefused) else
      if nan_skips && existsb is_nan v then (s, RNone) else      (* specification: a NaN is counted nowhere *)
      if is1d s then fill_1d find s (hd NaN v) w else fill_nd find s v w
  | FillN rows ws wok =>
      if (match ws with Some _ => negb wok | None => false end)
         || existsb (fun r => negb (Nat.eqb (length r) (length (s_axes s)))) rows then (s, RRefused) else
      if is1d s then
        match pairs_1d rows ws with
        | [] => (s, RVoid)                (* an empty batch (or only NaN values) returns early *)
        | _ =>
        let bins := fst (nth 0 (s_axes s) ([], true)) in
        let '(fe, u, o) := calc1 (pairs_1d rows ws) bins in
        (Build_fstate (s_axes s) (vadd (s_freq s) (map fst fe)) (vadd (s_err2 s) (map snd fe))
           (if s_keep s then xadd_at 1 o (xadd_at 0 u (s_missed s)) else s_missed s) (s_keep s), RVoid)
        end
      else
        match rows_of rows ws with
        | [] => (s, RVoid)
        | _ =>
        let r := calc_nd idx (s_axes s) (rows_of rows ws) in
        (Build_fstate (s_axes s) (vadd (s_freq s) (n_freq r)) (vadd (s_err2 s) (n_err2 r))
           (if s_keep s then xadd_at 0 (Fin (n_missed r)) (s_missed s) else s_missed s) (s_keep s), RVoid)
        end
  end.

(** the specification's batch step for 1-D: filter-and-sum, exact under/overflow for consecutive bins *)
Definition calc1_spec (ps : list (Qc * Qc)) (bins : list bin) : list (Qc * Qc) * xnum * xnum :=
  if consecutive_tol bins then (spec_bins1 ps bins, Fin (spec_under ps bins), Fin (spec_over ps bins))
  else (spec_bins1 ps bins, NaN, NaN).

Definition step_coded := step true find_axis_coded calc1d axis_index_coded.      (* a NaN is skipped by fill since /repo fix (F19) *)
Definition step_spec := step true find_axis_spec calc1_spec axis_index_spec.

Fixpoint run_hist (st : fstate -> fop -> fstate * fret) (s : fstate) (ops : list fop) : list (fstate * fret) :=
  match ops with
  | [] => []
  | o :: r => let '(s', ret) := st s o in (s', ret) :: run_hist st s' r
  end.

(** ---------- observation and checker ---------- *)
Definition e_fret (r : fret) : sx :=
  match r with RIdx l => LL (map ZZ l) | RNone => SS "none" | RRefused => SS "refused" | RVoid => SS "void" end.
Definition shown_missed (s : fstate) : list xnum :=
  if is1d s && negb (s_keep s) then [NaN; NaN; NaN] else s_missed s.     (* the 1-D properties read NaN when not tracked *)
Definition e_step (p : fstate * fret) : sx :=
  LL [e_fret (snd p); e_qs (s_freq (fst p)); e_qs (s_err2 (fst p)); e_list e_x (shown_missed (fst p))].

Definition gapped_tol (s : fstate) : bool := existsb (fun a => negb (consecutive_tol (fst a))) (s_axes s).
Definition all_exact (s : fstate) : bool := forallb (fun a => consecutive_exact (fst a)) (s_axes s).

(** missed counters are compared only where the property defines them: tracked, and (1-D) exactly consecutive bins *)
Definition missed_agree (s : fstate) (exp obs : list xnum) : bool :=
  if negb (s_keep s) then (if is1d s then true else all2 xeqb exp obs)      (* not tracked: nothing may change (N-D reads the counter) *)
  else if is1d s then
    (if all_exact s then all2 xeqb (firstn 2 exp) (firstn 2 obs) else true)
  else all2 xeqb exp obs.

Definition check_step (exp : fstate * fret) (obs : sx) : bool :=
  match obs with
  | LL [r; f; e; m] =>
      match d_list d_q f, d_list d_q e, d_list d_x m with
      | Some f, Some e, Some m =>
          closel 0 (s_freq (fst exp)) f && closel 0 (s_err2 (fst exp)) e &&
          missed_agree (fst exp) (s_missed (fst exp)) m &&
          match snd exp, r with
          | RRefused, SS "refused" => true
          | RVoid, SS "void" => true
          | RNone, SS "none" => true
          | RIdx l, LL l' => match mapM d_z l' with Some l'' => all2 Z.eqb l l'' | None => false end
          | _, _ => false end
      | _, _, _ => false end
  | _ => false end.

Record c03 := { f_init : fstate; f_ops : list fop }.

Definition d_fop (s : sx) : option fop :=
  match s with
  | LL [SS "fill"; v; w] => v <- d_list d_x v ;; w <- d_q w ;; ret (Fill v w)
  | LL [SS "fill_n"; rows; ws; ok] => r <- d_list (d_list d_x) rows ;; w <- d_opt (d_list d_q) ws ;; k <- d_bool ok ;; ret (FillN r w k)
  | _ => None end.
Definition d_fstate (s : sx) : option fstate :=
  ax <- (x <- fld "axes" s ;; d_list d_axis x) ;;
  f <- (x <- fld "freq" s ;; d_list d_q x) ;;
  e <- (x <- fld "err2" s ;; d_list d_q x) ;;
  m <- (x <- fld "missed" s ;; d_list d_x x) ;;
  k <- (x <- fld "keep_missed" s ;; d_bool x) ;;
  ret (Build_fstate ax f e m k).
Definition d_c03 (s : sx) : option c03 :=
  i <- (x <- fld "init" s ;; d_fstate x) ;;
  o <- (x <- fld "ops" s ;; d_list d_fop x) ;;
  ret (Build_c03 i o).

Definition wf_fstate (s : fstate) : bool :=
  Nat.eqb (length (s_freq s)) (size (s_shape s)) && Nat.eqb (length (s_err2 s)) (size (s_shape s)) &&
  forallb (fun a => risingb (fst a) && negb (Nat.eqb (length (fst a)) 0)) (s_axes s) &&
  negb (Nat.eqb (length (s_axes s)) 0) &&
  Nat.eqb (length (s_missed s)) (if is1d s then 3 else 1) &&
  (if is1d s then snd (nth 0 (s_axes s) ([], true)) || true else true).
Definition wf_fop (nd : nat) (o : fop) : bool :=
  match o with
  | Fill v _ => forallb (fun x => match x with PInf | NInf => false | _ => true end) v
  | FillN rows ws wok =>
      forallb (forallb (fun x => match x with PInf | NInf => false | _ => true end)) rows &&
      match ws with Some l => negb wok || Nat.eqb (length l) (length rows) | None => true end
  end.
Definition wf_c03 (c : c03) : bool := wf_fstate (f_init c) && forallb (wf_fop (length (s_axes (f_init c)))) (f_ops c).

Definition final_state (st : fstate -> fop -> fstate * fret) (s : fstate) (ops : list fop) : fstate :=
  fold_left (fun s o => fst (st s o)) ops s.

(** one-shot construction over the same bins must show what the history left behind *)
Definition check_batch (s : fstate) (b : sx) : bool :=
  match b with
  | SS "skip" => true
  | LL [f; e; m] =>
      match d_list d_q f, d_list d_q e, d_list d_x m with
      | Some f, Some e, Some m => closel 0 (s_freq s) f && closel 0 (s_err2 s) e &&
                                   (if negb (s_keep s) then true else missed_agree s (s_missed s) m)      (* one-shot construction always counts *)
      | _, _, _ => false end
  | _ => false end.

Definition check_C03 (c : c03) (obs : sx) : bool :=
  match obs with
  | LL [LL l; b] => all2 check_step (run_hist step_spec (f_init c) (f_ops c)) l &&
                    check_batch (final_state step_spec (f_init c) (f_ops c)) b
  | _ => false end.

(** index of the first step whose observation the specification rejects (for triage only) *)
Fixpoint first_bad_from (exp : list (fstate * fret)) (obs : list sx) (k : nat) : sx :=
  match exp, obs with
  | e :: exp', o :: obs' => if check_step e o then first_bad_from exp' obs' (S k) else e_nat k
  | [], [] => SS "batch-or-none"
  | _, _ => SS "length" end.
Definition first_bad (c : c03) (obs : sx) : sx :=
  match obs with
  | LL [LL l; _] => first_bad_from (run_hist step_spec (f_init c) (f_ops c)) l 0
  | _ => SS "shape" end.

Definition judge_C03 (case obs : sx) : sx :=
  match d_c03 case with
  | None => LL [illformed; SS "decode"]
  | Some c =>
      if negb (wf_c03 c) then LL [illformed; SS "wf"] else
      LL [SS (if check_C03 c obs then "ok" else "bad"); e_list e_step (run_hist step_coded (f_init c) (f_ops c));
          first_bad c obs]
  end.
