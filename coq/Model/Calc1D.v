(** 1-D construction (h1): extract_1d_array / extract_weights / calculate_1d_frequencies /
    Histogram1D.__init__ as coded, and the filter-and-sum specification. *)
From Physt Require Export Hist.

(** ---------- generic: stable insertion sort on keys, numpy.searchsorted ---------- *)
Section Sweep.
  Context {K W : Type} (ltb : K -> K -> bool).
  Definition leb' x y := negb (ltb y x).
  Fixpoint insert (p : K * W) (l : list (K * W)) :=
    match l with
    | [] => [p]
    | q :: r => if ltb (fst p) (fst q) then p :: q :: r else q :: insert p r
    end.
  Fixpoint isort (l : list (K * W)) := match l with [] => [] | p :: r => insert p (isort r) end.
  Definition ss_left (x : K) (l : list (K * W)) := length (filter (fun p => ltb (fst p) x) l).
  Definition ss_right (x : K) (l : list (K * W)) := length (filter (fun p => leb' (fst p) x) l).
End Sweep.
Definition slice {A} (a b : nat) (l : list A) := firstn (b - a) (skipn a l).

(** the binary64 values of numpy's default tolerances rtol=1e-5, atol=1e-8 (still used by is_regular) *)
Definition rtol : Qc := mkq 5902958103587057 590295810358705651712.
Definition atol : Qc := mkq 3022314549036573 302231454903657293676544.
(** how physt compares two edges: numpy.allclose(a, b, rtol=0, atol=0) in is_consecutive and numpy.array_equal in
    has_same_bins, i.e. equality (since the fixes d20d771 / d543b2b in /repo; before, the default tolerances were used,
    which are relative to the edge VALUE and overlooked unit gaps at an offset of 1e6) *)
Definition allclose1 (a b : Qc) : bool := Qcleb (Qcabs (a - b)) (0 + 0 * Qcabs b).
Fixpoint consecutive_tol (l : list bin) : bool :=
  match l with
  | b :: ((c :: _) as r) => allclose1 (fst c) (snd b) && consecutive_tol r
  | _ => true end.
Fixpoint consecutive_exact (l : list bin) : bool :=
  match l with
  | b :: ((c :: _) as r) => Qceqb (fst c) (snd b) && consecutive_exact r
  | _ => true end.

Inductive dt := I16 | I32 | I64 | F16 | F32 | F64 | F128.
Definition dt_is_int (d : dt) : bool := match d with I16 | I32 | I64 => true | _ => false end.
Definition d_dt (s : sx) : option dt :=
  match s with
  | SS "int16" => Some I16 | SS "int32" => Some I32 | SS "int64" => Some I64
  | SS "float16" => Some F16 | SS "float32" => Some F32 | SS "float64" => Some F64
  | SS "float128" => Some F128 | SS "longdouble" => Some F128 | _ => None end.
Definition e_dt (d : dt) : sx :=
  SS (match d with I16 => "int16" | I32 => "int32" | I64 => "int64" | F16 => "float16"
               | F32 => "float32" | F64 => "float64" | F128 => "float128" end).

Inductive wkind := WNone | WInt | WFloat.

Record c01 := {
  a_data : list xnum;             (* flattened, row-major; NaN allowed *)
  a_weights : list Qc;            (* ignored when a_wkind = WNone *)
  a_wkind : wkind;
  a_wshape_ok : bool;             (* weights have the shape of the data *)
  a_bins : list bin;
  a_dtype : option dt;
  a_keep_missed : bool;
  a_dropna : bool }.

Definition is_nan (x : xnum) : bool := match x with NaN => true | _ => false end.
Definition fin_of (x : xnum) : Qc := match x with Fin q => q | _ => 0 end.

(** (value, weight) pairs that survive the shared NaN mask *)
Definition pairs_of (c : c01) : list (Qc * Qc) :=
  let ws := match a_wkind c with WNone => map (fun _ => 1) (a_data c) | _ => a_weights c end in
  map (fun p => (fin_of (fst p), snd p))
      (filter (fun p => negb (is_nan (fst p))) (combine (a_data c) ws)).

Definition inferred_dtype (c : c01) : dt :=
  match a_dtype c with
  | Some d => d
  | None => match a_wkind c with WFloat => F64 | _ => I64 end
  end.

Record res1 := { r_freq : list Qc; r_err2 : list Qc; r_under : xnum; r_over : xnum; r_dtype : dt }.

Definition sq (x : Qc) := x * x.
Definition wsum (l : list (Qc * Qc)) : Qc := sumq (map snd l).
Definition w2sum (l : list (Qc * Qc)) : Qc := sumq (map (fun p => sq (snd p)) l).

(** calculate_1d_frequencies on sorted pairs *)
Fixpoint sweep (sorted : list (Qc * Qc)) (bins : list bin) : list (Qc * Qc) :=
  match bins with
  | [] => []
  | b :: r =>
      let start := ss_left Qcltb (fst b) sorted in
      let stop := match r with [] => ss_right Qcltb (snd b) sorted | _ => ss_left Qcltb (snd b) sorted end in
      let s := slice start stop sorted in
      (wsum s, w2sum s) :: sweep sorted r
  end.

Definition calc1d (pairs : list (Qc * Qc)) (bins : list bin) : list (Qc * Qc) * xnum * xnum :=
  let sorted := isort Qcltb pairs in
  let fe := sweep sorted bins in
  let under := match bins with b :: _ => wsum (firstn (ss_left Qcltb (fst b) sorted) sorted) | [] => 0 end in
  let over := wsum (skipn (ss_right Qcltb (last_hi bins) sorted) sorted) in
  if consecutive_tol bins then (fe, Fin under, Fin over) else (fe, NaN, NaN).

Definition has_nan (c : c01) : bool := existsb is_nan (a_data c).

(** reasons for which the facade refuses (ValueError) before or while computing *)
Definition invalid_input (c : c01) : bool :=
  (negb (a_dropna c) && has_nan c) ||                       (* "Cannot calculate bins in presence of NaN's" *)
  match a_bins c with [] => true | _ => false end ||
  negb (risingb (a_bins c)) ||
  match a_wkind c with WNone => false | _ => negb (a_wshape_ok c) end ||
  match a_wkind c, a_dtype c with WFloat, Some d => dt_is_int d | _, _ => false end.

(** what h1(...) shows, as coded *)
Definition run_h1 (c : c01) : option res1 :=
  if invalid_input c then None else
  let ps := pairs_of c in
  let d := inferred_dtype c in
  let '(fe, u, o) := calc1d ps (a_bins c) in
  (* Histogram1D.__init__: missed stored in the histogram's dtype *)
  let '(u', o') := if a_keep_missed c then (u, o) else (NaN, NaN) in   (* the properties read NaN *)
  Some {| r_freq := map fst fe; r_err2 := map snd fe; r_under := u'; r_over := o'; r_dtype := d |}.

(** ---------- specification ---------- *)
Definition in_bin (b : bin) (is_last : bool) (v : Qc) : bool :=
  Qcleb (fst b) v && (Qcltb v (snd b) || (is_last && Qceqb v (snd b))).

Fixpoint spec_bins1 (ps : list (Qc * Qc)) (bins : list bin) : list (Qc * Qc) :=
  match bins with
  | [] => []
  | b :: r =>
      let inb := filter (fun p => in_bin b (match r with [] => true | _ => false end) (fst p)) ps in
      (wsum inb, w2sum inb) :: spec_bins1 ps r
  end.
Definition spec_under (ps : list (Qc * Qc)) (bins : list bin) : Qc :=
  match bins with b :: _ => wsum (filter (fun p => Qcltb (fst p) (fst b)) ps) | [] => 0 end.
Definition spec_over (ps : list (Qc * Qc)) (bins : list bin) : Qc :=
  wsum (filter (fun p => Qcltb (last_hi bins) (fst p)) ps).

Definition e_res1 (bins : list bin) (r : res1) : sx :=
  LL [SS "ok"; e_qs (r_freq r); e_qs (r_err2 r); e_x (r_under r); e_x (r_over r);
      QQ (sumq (r_freq r)); e_bins bins; e_dt (r_dtype r)].

Definition check_h1 (c : c01) (obs : sx) : bool :=
  match obs with
  | LL [SS "refused"] => invalid_input c
  | LL [SS "ok"; f; e; u; o; t; b; d] =>
      negb (invalid_input c) &&
      match d_list d_q f, d_list d_q e, d_x u, d_x o, d_q t, d_bins b with
      | Some f, Some e, Some u, Some o, Some t, Some b =>
          let ps := pairs_of c in
          let sp := spec_bins1 ps (a_bins c) in
          all2 (fun x y : bin => Qceqb (fst x) (fst y) && Qceqb (snd x) (snd y)) b (a_bins c) &&
          closel 0 (map fst sp) f && closel 0 (map snd sp) e &&
          Qceqb t (sumq (map fst sp)) &&
          (if a_keep_missed c then
             if consecutive_exact (a_bins c) then
               xeqb u (Fin (spec_under ps (a_bins c))) && xeqb o (Fin (spec_over ps (a_bins c))) &&
               xeqb (xadd (xadd (Fin t) u) o) (Fin (wsum ps))
             else if consecutive_tol (a_bins c) then true       (* gaps below physt's own tolerance: unspecified *)
             else is_nan u && is_nan o
           else (is_nan u || xeqb u (Fin 0)) && (is_nan o || xeqb o (Fin 0)))   (* not tracked: unknown or zero *)
      | _, _, _, _, _, _ => false end
  | _ => false end.

Definition d_c01 (s : sx) : option c01 :=
  dat <- (x <- fld "data" s ;; d_list d_x x) ;;
  wk <- (x <- fld "wkind" s ;; match x with SS "none" => Some WNone | SS "int" => Some WInt | SS "float" => Some WFloat | _ => None end) ;;
  ws <- (x <- fld "weights" s ;; d_list d_q x) ;;
  wok <- (x <- fld "wshape_ok" s ;; d_bool x) ;;
  b <- (x <- fld "bins" s ;; d_bins x) ;;
  dty <- (x <- fld "dtype" s ;; d_opt d_dt x) ;;
  km <- (x <- fld "keep_missed" s ;; d_bool x) ;;
  dn <- (x <- fld "dropna" s ;; d_bool x) ;;
  ret (Build_c01 dat ws wk wok b dty km dn).

Definition wf_c01 (c : c01) : bool :=
  match a_wkind c with WNone => true | _ => negb (a_wshape_ok c) || Nat.eqb (length (a_weights c)) (length (a_data c)) end &&
  forallb (fun x => match x with PInf | NInf => false | _ => true end) (a_data c).

Definition judge_C01 (case obs : sx) : sx :=
  match d_c01 case with
  | None => LL [illformed; SS "decode"]
  | Some c =>
      if negb (wf_c01 c) then LL [illformed; SS "wf"] else
      LL [SS (if check_h1 c obs then "ok" else "bad");
          match run_h1 c with Some r => e_res1 (a_bins c) r | None => LL [SS "refused"] end]
  end.
