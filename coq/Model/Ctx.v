(** C19: the free-arithmetics switch — a ContextVar per execution context, token reset by the context manager,
    tasks copy the creator's context, threads start from the process default. *)
From Physt Require Export Heap.
Local Open Scope nat_scope.

Record ctx := mkCtx { c_bind : option bool; c_stack : list (option bool) }.
Definition fresh_ctx : ctx := mkCtx None [].

Inductive act :=
| ASet (b : bool)          (* config.free_arithmetics = b *)
| AEnter (b : bool)        (* with config.enable_free_arithmetics(b): __enter__ *)
| AExit                    (* __exit__ of the innermost open block *)
| ARaise                   (* an exception in the body: every open block of this context is left, innermost first *)
| ARead                    (* read the option and try array / negative-content arithmetic *)
| ASpawnTask (child : nat) (* asyncio.create_task: the child runs in a copy of the current context *)
| ASpawnThread (child : nat).  (* threading.Thread: the child runs in a fresh context *)

Definition world := nat -> ctx.
Definition upd_ctx (w : world) (c : nat) (x : ctx) : world := fun k => if Nat.eqb k c then x else w k.

(** value seen by a context: its binding, else the process default (PHYST_FREE_ARITHMETICS == "1") *)
Definition get_val (dflt : bool) (x : ctx) : bool := match c_bind x with Some b => b | None => dflt end.

Definition step_ctx (x : ctx) (a : act) : ctx :=
  match a with
  | ASet b => mkCtx (Some b) (c_stack x)
  | AEnter b => mkCtx (Some b) (c_bind x :: c_stack x)           (* token = previous binding (possibly "unset") *)
  | AExit => match c_stack x with t :: r => mkCtx t r | [] => x end
  | ARaise => mkCtx (last (c_stack x) (c_bind x)) []            (* unwinding resets token after token; the outermost wins *)
  | _ => x
  end.

Definition wstep (w : world) (ca : nat * act) : world :=
  let '(c, a) := ca in
  match a with
  | ASpawnTask ch => upd_ctx w ch (mkCtx (c_bind (w c)) [])
  | ASpawnThread ch => upd_ctx w ch fresh_ctx
  | _ => upd_ctx w c (step_ctx (w c) a)
  end.

Definition wrun (w : world) (sched : list (nat * act)) : world := fold_left wstep sched w.

(** observations: what each Read sees *)
Fixpoint observe_sched (dflt : bool) (w : world) (sched : list (nat * act)) : list sx :=
  match sched with
  | [] => []
  | (c, a) :: r =>
      (match a with ARead => LL [e_bool (get_val dflt (w c)); e_bool (get_val dflt (w c))] | _ => SS "-" end)
      :: observe_sched dflt (wstep w (c, a)) r
  end.

Definition init_world : world := fun _ => fresh_ctx.

(** ---------- case ---------- *)
Record c19 := { v_dflt : bool; v_sched : list (nat * act) }.
Definition d_act (s : sx) : option act :=
  match s with
  | LL [SS "set"; b] => b <- d_bool b ;; ret (ASet b)
  | LL [SS "enter"; b] => b <- d_bool b ;; ret (AEnter b)
  | LL [SS "exit"] => Some AExit
  | LL [SS "raise"] => Some ARaise
  | LL [SS "read"; SS _] => Some ARead    (* the probe (which guarded operation is tried) does not matter to the model *)
  | LL [SS "spawn_task"; c] => c <- d_nat c ;; ret (ASpawnTask c)
  | LL [SS "spawn_thread"; c] => c <- d_nat c ;; ret (ASpawnThread c)
  | _ => None end.
Definition d_c19 (s : sx) : option c19 :=
  d <- (x <- fld "env" s ;; match x with SS e => Some (String.eqb e "1") | _ => None end) ;;   (* "none" = variable unset *)
  sc <- (x <- fld "schedule" s ;; d_list (d_pair d_nat d_act) x) ;;
  ret (Build_c19 d sc).

(** a schedule is executable: no exit without an open block, contexts act only after they were spawned (0 = main) *)
Fixpoint wf_sched (w : world) (alive : list nat) (sched : list (nat * act)) : bool :=
  match sched with
  | [] => true
  | (c, a) :: r =>
      existsb (Nat.eqb c) alive &&
      match a with
      | AExit => negb (Nat.eqb (length (c_stack (w c))) 0) && wf_sched (wstep w (c, a)) alive r
      | ASpawnTask ch | ASpawnThread ch => negb (existsb (Nat.eqb ch) alive) && wf_sched (wstep w (c, a)) (ch :: alive) r
      | _ => wf_sched (wstep w (c, a)) alive r
      end
  end.
Definition wf_c19 (c : c19) : bool := wf_sched init_world [0] (v_sched c).

Definition check_C19 (c : c19) (obs : sx) : bool := sx_eqb obs (LL (observe_sched (v_dflt c) init_world (v_sched c))).

Definition judge_C19 (case obs : sx) : sx :=
  match d_c19 case with
  | None => LL [illformed; SS "decode"]
  | Some c =>
      if negb (wf_c19 c) then LL [illformed; SS "wf"] else
      LL [SS (if check_C19 c obs then "ok" else "bad"); LL (observe_sched (v_dflt c) init_world (v_sched c))]
  end.
