(** C11: indexing and slicing (Histogram1D.__getitem__, HistogramND.select/__getitem__) on the bin grid. *)
From Physt Require Export Project.

Inductive item :=
| IInt (z : Z)
| ISlice (start stop step : option Z)
| IMask (m : list bool)
| IArr (l : list Z).

(** python: slice(start, stop, step).indices(n) for step > 0 *)
Definition clip_index (n : nat) (z : Z) : nat :=
  let zn := Z.of_nat n in
  if (z <? 0)%Z then Z.to_nat (Z.max (z + zn) 0) else Z.to_nat (Z.min z zn).
Definition slice_start (n : nat) (s : option Z) : nat := match s with None => 0%nat | Some z => clip_index n z end.
Definition slice_stop (n : nat) (s : option Z) : nat := match s with None => n | Some z => clip_index n z end.
Fixpoint range_step (fuel start stop step : nat) : list nat :=
  match fuel with
  | O => []
  | S f => if Nat.ltb start stop then start :: range_step f (start + step) stop step else []
  end.

(** numpy integer index: negative counts from the end; out of range is refused *)
Definition norm_int (n : nat) (z : Z) : option nat :=
  let zn := Z.of_nat n in
  if (z <? - zn)%Z || (zn <=? z)%Z then None else Some (Z.to_nat (if (z <? 0)%Z then z + zn else z)).

(** selected positions along one axis, and whether the axis is dropped *)
Definition select_axis (n : nat) (it : item) : option (list nat * bool) :=
  match it with
  | IInt z => i <- norm_int n z ;; ret ([i], true)
  | ISlice a b st =>
      match st with
      | Some s => if (s <=? 0)%Z then None
                  else Some (range_step n (slice_start n a) (slice_stop n b) (Z.to_nat s), false)
      | None => Some (range_step n (slice_start n a) (slice_stop n b) 1, false)
      end
  | IMask m => if Nat.eqb (length m) n then
                 Some (map fst (filter (fun p => snd p) (combine (seq 0 n) m)), false) else None
  | IArr l => l' <- mapM (norm_int n) l ;; ret (sort_nat l', false)
  end.

(** numpy basic/advanced indexing of an N-d array with one selection list per axis *)
Definition take_nd (shape : list nat) (sels : list (list nat * bool)) (a : list Qc) : list Qc * list nat :=
  let kept := filter (fun s : list nat * bool => negb (snd s)) sels in
  let newshape := map (fun s : list nat * bool => length (fst s)) kept in
  let expand (i' : list nat) : list nat :=
    (fix go (sels : list (list nat * bool)) (i' : list nat) : list nat :=
       match sels with
       | [] => []
       | (l, true) :: r => nth 0 l 0%nat :: go r i'
       | (l, false) :: r => match i' with j :: i'' => nth j l 0%nat :: go r i'' | [] => 0%nat :: go r [] end
       end) sels i' in
  (tabulate newshape (fun i' => get 0 shape a (expand i')), newshape).

Definition full_sel (n : nat) : list nat * bool := (seq 0 n, false).

Inductive iout :=
| OHist (x : nhist) (under over : xnum)
| OScalar (edges : list bin) (v : Qc)
| ORefused.

Definition take_list {A} (d : A) (sel : list nat) (l : list A) : list A := map (fun i => nth i l d) sel.

(** Histogram1D.__getitem__ (after the index-array / stepped-slice repairs) *)
Definition getitem_1d (x : nhist) (under over : xnum) (keep : bool) (it : item) : iout :=
  let h := nh x in
  let bins := nth 0 (h_bins h) [] in
  let n := length bins in
  match select_axis n it with
  | None => ORefused
  | Some (sel, true) => OScalar [nth (hd 0%nat sel) bins (0, 0)] (nth (hd 0%nat sel) (h_freq h) 0)
  | Some (sel, false) =>
      let '(u, o) :=
        match it with
        | ISlice a b st =>
            if negb keep then (NaN, NaN) else
            match st with
            | None | Some 1%Z =>
                (match a with
                 | Some z => if (z =? 0)%Z then under else xadd under (Fin (sumq (firstn (clip_index n z) (h_freq h))))
                 | None => under end,
                 match b with
                 | Some z => if (z =? 0)%Z then over else xadd over (Fin (sumq (skipn (clip_index n z) (h_freq h))))
                 | None => over end)
            | _ => (NaN, NaN)
            end
        | _ => (NaN, NaN) end in
      OHist {| nh := mkHist [take_list (0, 0) sel bins] [nth 0 (h_incl h) true] (take_list 0 sel (h_freq h)) (take_list 0 sel (h_err2 h)) [];
               nh_names := nh_names x |} u o
  end.

(** HistogramND.__getitem__ with a tuple of ints / slices (and a bare int / slice) *)
Definition getitem_nd (x : nhist) (items : list item) : iout :=
  let h := nh x in let shape := h_shape h in let nd := length shape in
  if Nat.ltb nd (length items) then ORefused else
  if existsb (fun it => match it with IMask _ | IArr _ => true | _ => false end) items then ORefused else
  let padded := items ++ repeat (ISlice None None None) (nd - length items) in
  match mapM (fun p => select_axis (fst p) (snd p)) (combine shape padded) with
  | None => ORefused
  | Some sels =>
      if forallb (fun s : list nat * bool => snd s) sels then
        OScalar (map (fun p => nth (hd 0%nat (fst (snd p))) (fst p) (0, 0)) (combine (h_bins h) sels))
                (get 0 shape (h_freq h) (map (fun s : list nat * bool => hd 0%nat (fst s)) sels))
      else
        let keepm := map (fun s : list nat * bool => negb (snd s)) sels in
        let pick {A} (l : list A) := map fst (filter (fun p => snd p) (combine l keepm)) in
        let nb := map (fun p => take_list (0, 0) (fst (snd p)) (fst p)) (pick (combine (h_bins h) sels)) in
        OHist {| nh := mkHist nb (pick (h_incl h)) (fst (take_nd shape sels (h_freq h))) (fst (take_nd shape sels (h_err2 h))) [];
                 nh_names := pick (nh_names x) |} NaN NaN
  end.

Definition bins_equal_l (a b : list bin) : bool :=
  all2 (fun x y : bin => Qceqb (fst x) (fst y) && Qceqb (snd x) (snd y)) a b.

Record c11 := { q_h : nhist; q_under : xnum; q_over : xnum; q_keep : bool; q_items : list item; q_tuple : bool }.

Definition run_C11 (c : c11) : iout :=
  if Nat.eqb (length (h_bins (nh (q_h c)))) 1 then
    match q_items c with
    | [it] => if q_tuple c then ORefused else getitem_1d (q_h c) (q_under c) (q_over c) (q_keep c) it
    | _ => ORefused end
  else getitem_nd (q_h c) (q_items c).

Definition e_iout (nd1 : bool) (o : iout) : sx :=
  match o with
  | ORefused => LL [SS "refused"]
  | OScalar e v => LL [SS "scalar"; e_bins e; QQ v]
  | OHist x u ov =>
      LL [SS "ok"; e_list e_bins (h_bins (nh x)); e_qs (h_freq (nh x)); e_qs (h_err2 (nh x)); e_list SS (nh_names x);
          if Nat.eqb (length (h_bins (nh x))) 1 && nd1 then LL [e_x u; e_x ov] else SS "nd"]
  end.

Definition d_oz (s : sx) : option (option Z) := d_opt d_z s.
Definition d_item (s : sx) : option item :=
  match s with
  | LL [SS "int"; z] => z <- d_z z ;; ret (IInt z)
  | LL [SS "slice"; a; b; c] => a <- d_oz a ;; b <- d_oz b ;; c <- d_oz c ;; ret (ISlice a b c)
  | LL [SS "mask"; m] => m <- d_list d_bool m ;; ret (IMask m)
  | LL [SS "arr"; l] => l <- d_list d_z l ;; ret (IArr l)
  | _ => None end.
Definition d_c11 (s : sx) : option c11 :=
  h <- (x <- fld "hist" s ;; d_hist x) ;;
  n <- (x <- fld "names" s ;; d_list d_str x) ;;
  u <- (x <- fld "under" s ;; d_x x) ;;
  o <- (x <- fld "over" s ;; d_x x) ;;
  k <- (x <- fld "keep" s ;; d_bool x) ;;
  it <- (x <- fld "items" s ;; d_list d_item x) ;;
  tp <- (x <- fld "tuple" s ;; d_bool x) ;;
  ret (Build_c11 (Build_nhist h n) u o k it tp).
Definition wf_c11 (c : c11) : bool :=
  wf_hist (nh (q_h c)) && Nat.eqb (length (nh_names (q_h c))) (length (h_bins (nh (q_h c)))) &&
  negb (Nat.eqb (length (h_bins (nh (q_h c)))) 0) && negb (Nat.eqb (length (q_items c)) 0).

(** the selection is empty or repeats a bin: the property fixes nothing for such degenerate results *)
Definition degenerate (c : c11) : bool :=
  match run_C11 c with
  | OHist x _ _ => existsb (fun b : list bin => Nat.eqb (length b) 0) (h_bins (nh x)) ||
                   existsb (fun it => match it with IArr l => negb (nodupb (map (fun z => Z.to_nat (z mod 1000)) l)) | _ => false end) (q_items c)
  | _ => false end.

(** law: a non-empty contiguous 1-D slice conserves total + underflow + overflow *)
Definition conserved (c : c11) (f : list Qc) (u o : xnum) : bool :=
  match q_items c with
  | [ISlice _ _ (None | Some 1%Z)] =>
      if q_keep c && Nat.eqb (length (h_bins (nh (q_h c)))) 1 then
        xeqb (xadd (xadd (Fin (sumq f)) u) o) (xadd (xadd (Fin (total (nh (q_h c)))) (q_under c)) (q_over c))
      else true
  | _ => true end.

Definition check_C11 (c : c11) (obs : sx) : bool :=
  if degenerate c then true else
  match run_C11 c, obs with
  | ORefused, LL [SS "refused"] => true
  | OScalar e v, LL [SS "scalar"; e'; v'] =>
      match d_bins e', d_q v' with
      | Some e', Some v' => bins_equal_l e e' && Qceqb v v'
      | _, _ => false end
  | OHist x u o, LL [SS "ok"; b; f; e; n; uo] =>
      match d_list d_bins b, d_list d_q f, d_list d_q e, d_list d_str n with
      | Some b, Some f, Some e, Some n =>
          all2 bins_equal_l (h_bins (nh x)) b && closel 0 (h_freq (nh x)) f && closel 0 (h_err2 (nh x)) e &&
          all2 String.eqb (nh_names x) n &&
          match uo with
          | LL [u'; o'] => match d_x u', d_x o' with
                           | Some u', Some o' => xeqb u u' && xeqb o o' && conserved c f u' o'
                           | _, _ => false end
          | SS "nd" => negb (Nat.eqb (length (h_bins (nh (q_h c)))) 1) || negb (Nat.eqb (length b) 1) || true
          | _ => false end
      | _, _, _, _ => false end
  | _, _ => false end.

Definition judge_C11 (case obs : sx) : sx :=
  match d_c11 case with
  | None => LL [illformed; SS "decode"]
  | Some c =>
      if negb (wf_c11 c) then LL [illformed; SS "wf"] else
      LL [SS (if check_C11 c obs then "ok" else "bad"); e_iout (Nat.eqb (length (h_bins (nh (q_h c)))) 1) (run_C11 c)]
  end.
