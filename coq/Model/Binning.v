(** C07: binning schemas — representations (pairs / edges / masked edges), derived attributes, and the rules of the factories
    stated as decidable predicates over exact rationals (observed doubles are exact rationals; float arithmetic inside the
    factories is bounded by relative tolerances, not modelled). *)
From Coq Require Import Qround.
From Physt Require Export Calc1D.
Local Open Scope Qc_scope.

(** ---------- representations ---------- *)
Definition to_edges (l : list bin) : list Qc := match l with [] => [] | b :: _ => fst b :: map snd l end.
Fixpoint from_edges (e : list Qc) : list bin :=
  match e with a :: ((b :: _) as r) => (a, b) :: from_edges r | _ => [] end.

(** to_numpy_bins_with_mask: all edges including the gaps, and for every bin the index of its left edge *)
Fixpoint mask_loop (j : nat) (l : list bin) : list Qc * list nat :=
  match l with
  | [] => ([], [])
  | b :: r =>
      match r with
      | [] => ([snd b], [j])
      | c :: _ =>
          if Qceqb (snd b) (fst c)
          then (snd b :: fst (mask_loop (S j) r), j :: snd (mask_loop (S j) r))
          else (snd b :: fst c :: fst (mask_loop (S (S j)) r), j :: snd (mask_loop (S (S j)) r))
      end
  end.
Definition edges_mask (l : list bin) : list Qc * list nat :=
  match l with [] => ([], []) | b :: _ => (fst b :: fst (mask_loop 0 l), snd (mask_loop 0 l)) end.

Definition first_edge (l : list bin) : Qc := fst (hd (0, 0) l).
Definition last_edge (l : list bin) : Qc := snd (last l (0, 0)).
Definition widths (l : list bin) : list Qc := map (fun b => snd b - fst b) l.
Fixpoint diffs (l : list Qc) : list Qc := match l with a :: ((b :: _) as r) => (b - a) :: diffs r | _ => [] end.
(** np.allclose(np.diff(widths), 0, rtol, atol): only the absolute tolerance counts against 0 *)
Definition is_regular_tol (l : list bin) : bool := forallb (fun d => Qcleb (Qcabs d) atol) (diffs (widths l)).
Definition is_regular_exact (l : list bin) : bool := forallb (fun d => Qceqb d 0) (diffs (widths l)).
Definition slice_bins (a b : nat) (l : list bin) : list bin := firstn (b - a) (skipn a l).
Definition bins_eqb (a b : list bin) : bool :=
  Nat.eqb (length a) (length b) && all2 (fun x y => Qceqb (fst x) (fst y) && Qceqb (snd x) (snd y)) a b.
Fixpoint increasing (l : list Qc) : bool :=
  match l with a :: ((b :: _) as r) => Qcltb a b && increasing r | _ => true end.

(** ---------- specification validity (what the constructors must accept) ---------- *)
Definition valid_pairs (l : list bin) : bool := risingb l.
Definition valid_edges (e : list Qc) : bool := increasing e.

(** ---------- rules ---------- *)
Definition eps : Qc := mkq 1 1000000000.            (* 1e-9 relative *)
Definition near (a b scale : Qc) : bool := Qcleb (Qcabs (a - b)) (eps * scale).
Definition qmaxl (l : list Qc) : Qc := fold_right Qcmax 0 (map Qcabs l).
Definition lmin (l : list Qc) : Qc := match l with [] => 0 | a :: r => fold_right Qcmin a r end.
Definition lmax (l : list Qc) : Qc := match l with [] => 0 | a :: r => fold_right Qcmax a r end.

(** every datum has a bin *)
Definition covers (incl : bool) (l : list bin) (mn mx : Qc) : bool :=
  Qcleb (first_edge l) mn && (if incl then Qcleb mx (last_edge l) else Qcltb mx (last_edge l)).
Definition covers_approx (l : list bin) (mn mx : Qc) : bool :=
  Qcleb (first_edge l) (mn + eps * Qcabs mn) && Qcleb (mx - eps * Qcabs mx) (last_edge l).

(** equal width, aligned to the grid shift + k * width *)
Fixpoint grid_from (w shift : Qc) (k : Z) (e : list Qc) (scale : Qc) : bool :=
  match e with
  | [] => true
  | x :: r => near x (qz k * w + shift) scale && grid_from w shift (k + 1)%Z r scale
  end.
Definition on_grid (w shift : Qc) (tmin : Z) (l : list bin) : bool :=
  consecutive_exact l && grid_from w shift tmin (to_edges l) (Qcmax (qmaxl (to_edges l)) w).

(** pretty widths: m * 10^k with m in {1, 2, 2.5, 5}; [raw] lies between the geometric means with the neighbours *)
Definition pow10 (k : Z) : Qc := if (0 <=? k)%Z then qz (10 ^ k) else / qz (10 ^ (- k)).
Fixpoint decade_up (fuel : nat) (w : Qc) (k : Z) : Z :=      (* largest k with 10^k <= w, searching upwards *)
  match fuel with O => k | S f => if Qcleb (pow10 (k + 1)) w then decade_up f w (k + 1)%Z else k end.
Fixpoint decade_down (fuel : nat) (w : Qc) (k : Z) : Z :=
  match fuel with O => k | S f => if Qcltb w (pow10 k) then decade_down f w (k - 1)%Z else k end.
Definition decade (w : Qc) : Z :=
  let w' := w * (1 + eps) in
  if Qcleb 1 w' then decade_up 400 w' 0 else decade_down 400 w' 0.
Definition pretty_neighbours (w : Qc) : option (Qc * Qc * Qc) :=      (* (nominal, lower neighbour, upper neighbour) *)
  let p := pow10 (decade w) in
  let c (m : Qc) := near w (m * p) w in
  if c 1 then Some (p, p * mkq 1 2, p * qz 2)
  else if c (qz 2) then Some (qz 2 * p, p, p * mkq 5 2)
  else if c (mkq 5 2) then Some (mkq 5 2 * p, qz 2 * p, qz 5 * p)
  else if c (qz 5) then Some (qz 5 * p, mkq 5 2 * p, qz 10 * p)
  else None.
Definition pretty_ok (raw w : Qc) : bool :=
  match pretty_neighbours w with
  | Some (nom, lo, hi) =>
      Qcleb (raw * raw) (nom * hi * (1 + eps)) && Qcleb (nom * lo * (1 - eps)) (raw * raw)
  | None => false end.

(** geometric edges: every inner edge is the geometric mean of its neighbours *)
Fixpoint geometric (e : list Qc) : bool :=
  match e with
  | a :: ((b :: ((c :: _) as r2)) as r) => near (b * b) (a * c) (b * b) && geometric r
  | _ => true end.

(** linear-interpolation quantile of sorted data *)
Definition quantile_spec (s : list Qc) (q : Qc) : Qc :=
  let n := length s in
  let pos := q * qz (Z.of_nat (n - 1)) in
  let lo := Z.to_nat (Qfloor (this pos)) in
  let a := nth lo s 0 in let b := nth (S lo) s a in
  a + (pos - qz (Z.of_nat lo)) * (b - a).

(** bin-count rules as integer inequalities: k = ceil(f(n)) *)
Definition sturges_ok (n k : Z) : bool :=
  if (n <=? 1)%Z then (k =? 1)%Z else (2 <=? k)%Z && (2 ^ (k - 2) <? n)%Z && (n <=? 2 ^ (k - 1))%Z.
Definition sqrt_ok (n k : Z) : bool :=
  if (n <? 1)%Z then (k =? 1)%Z else (1 <=? k)%Z && ((k - 1) * (k - 1) <? n)%Z && (n <=? k * k)%Z.
Definition rice_ok (n k : Z) : bool :=
  if (n <? 1)%Z then (k =? 1)%Z else (1 <=? k)%Z && ((k - 1) * (k - 1) * (k - 1) <? 8 * n)%Z && (8 * n <=? k * k * k)%Z.
Definition default_ok (n k : Z) : bool :=
  if (n <? 1)%Z then (k =? 1)%Z else if (n <=? 32)%Z then (k =? 7)%Z else sturges_ok n k.

(** Doane: k = ceil(1 + log2 n + log2 (1 + |g1| / s)), s^2 = 6(n-2)/((n+1)(n+3)), g1 = m3 / m2^(3/2) — stated on squares *)
Definition pow2q (z : Z) : Qc := if (0 <=? z)%Z then qz (2 ^ z) else / qz (2 ^ (- z)).
Definition doane_ok (data : list Qc) (k : Z) : bool :=
  let n := Z.of_nat (length data) in
  if (n <? 3)%Z then (k =? 1)%Z else
  let nq := qz n in
  let mu := sumq data / nq in
  let m2 := sumq (map (fun x => (x - mu) * (x - mu)) data) / nq in
  let m3 := sumq (map (fun x => (x - mu) * (x - mu) * (x - mu)) data) / nq in
  if Qceqb m2 0 then true else
  let r2 := (m3 * m3) / (m2 * m2 * m2) * (qz ((n + 1) * (n + 3)) / qz (6 * (n - 2))) in
  let L := pow2q (k - 2) / nq - 1 in
  let U := pow2q (k - 1) / nq - 1 in
  (Qcltb L 0 || Qcltb (L * L) r2) && Qcleb 0 U && Qcleb r2 (U * U).

(** ---------- observations and judge ---------- *)
Definition e_nats (l : list nat) : sx := LL (map e_nat l).
Definition e_edges_inf (incl : bool) (e : list Qc) : sx :=
  LL (map QQ e ++ (if incl then [] else [SS "inf"])).
Definition inconsecutive_allowed (cls : string) : bool := String.eqb cls "StaticBinning".

(** the representation record the model derives from the pairs alone *)
Definition repr_of (cls : string) (incl : bool) (l : list bin) (slices : list (nat * nat)) : sx :=
  let cons := if inconsecutive_allowed cls then consecutive_tol l else true in
  e_rec [("bin_count", e_nat (length l));
         ("first_edge", match l with [] => SS "error" | _ => QQ (first_edge l) end);
         ("last_edge", match l with [] => SS "error" | _ => QQ (last_edge l) end);
         ("numpy_bins", if consecutive_tol l then e_qs (to_edges l) else SS "error");
         ("mask", if increasing (fst (edges_mask l)) then LL [e_edges_inf incl (fst (edges_mask l)); e_nats (snd (edges_mask l))] else SS "error");
         ("is_consecutive", e_bool cons);
         ("is_regular", match l with [] => SS "?" | _ => if String.eqb cls "FixedWidthBinning" then SS "T" else if String.eqb cls "ExponentialBinning" then SS "F" else e_bool (is_regular_tol l) end);
         ("slices", LL (map (fun ab => let s := slice_bins (fst ab) (snd ab) l in
                                       LL [e_bins s; if consecutive_tol s then e_qs (to_edges s) else SS "error"; e_nat (length s);
                                           match s with [] => SS "error" | _ => QQ (first_edge s) end;
                                           match s with [] => SS "error" | _ => QQ (last_edge s) end]) slices))].

Definition all_keys_equal (keys : list string) (a b : sx) : bool :=
  forallb (fun k => match fld k a, fld k b with Some x, Some y => sx_eqb x y || (match y with SS "?" => true | _ => false end) | _, _ => false end) keys.

Definition judge_repr (case obs : sx) : sx :=
  match (x <- fld "cls" obs ;; d_str x), (x <- fld "incl" obs ;; d_bool x), (x <- fld "bins" obs ;; d_bins x),
        (x <- fld "slice_args" case ;; d_list (d_pair d_nat d_nat) x) with
  | Some cls, Some incl, Some l, Some sl =>
      let m := repr_of cls incl l sl in
      let same := all_keys_equal ["bin_count"; "first_edge"; "last_edge"; "numpy_bins"; "mask"; "is_consecutive"; "is_regular"; "slices"] obs m in
      let copy_ok := match fld "copy_bins" obs with Some x => match d_bins x with Some c => bins_eqb c l | None => false end | None => false end in
      let static_ok := match fld "as_static_bins" obs with Some x => match d_bins x with Some c => bins_eqb c l | None => false end | None => false end in
      let afw_ok :=
        let accept := match l with [] => false | [_] => true | _ => (if inconsecutive_allowed cls then consecutive_tol l else true) &&
                                                                   (if String.eqb cls "FixedWidthBinning" then true else if String.eqb cls "ExponentialBinning" then false else is_regular_tol l) end in
        match fld "as_fixed_width" obs with
        | Some (SS "refused") => negb accept
        | Some (LL [c; w; f]) =>
            match d_nat c, d_q w, d_q f with
            | Some c, Some w, Some f =>
                accept && Nat.eqb c (length l) &&
                near w (snd (hd (0, 0) l) - fst (hd (0, 0) l)) (Qcmax (qmaxl (to_edges l)) w) &&
                near f (first_edge l) (Qcmax (qmaxl (to_edges l)) w)
            | _, _, _ => false end
        | _ => false end in
      let flags := afw_ok && match fld "copy_eq" obs, fld "eq_self" obs, fld "eq_other" obs, fld "other_same" obs with
                   | Some (SS "T"), Some (SS "T"), Some eo, Some os => sx_eqb eo os
                   | _, _, _, _ => false end in
      LL [SS (if risingb l && same && copy_ok && static_ok && flags then "ok" else "bad"); m;
          LL [e_bool (risingb l); e_bool same; e_bool copy_ok; e_bool static_ok; e_bool flags]]
  | _, _, _, _ => if sx_eqb obs (SS "refused") then LL [SS "bad"; SS "?"; SS "valid-spec-refused"] else LL [illformed; SS "repr"]
  end.

Definition d_qs (s : sx) : option (list Qc) := d_list d_q s.
Definition rule_common (incl : bool) (l : list bin) (data : list Qc) (range : option (Qc * Qc)) : bool :=
  risingb l &&
  match range, data with
  | Some (lo, hi), _ => covers true l lo hi
  | None, _ :: _ => covers incl l (lmin data) (lmax data)
  | None, [] => true end.

Definition judge_rule (case obs : sx) : sx :=
  match (x <- fld "method" case ;; d_str x), (x <- fld "data" case ;; d_qs x), (x <- fld "range" case ;; d_opt (d_pair d_q d_q) x) with
  | Some meth, Some data, Some range =>
      if sx_eqb obs (SS "refused") then
        (* refusing is right only when the request cannot be served *)
        let must := match fld "must_refuse" case with Some (SS "T") => true | _ => false end in
        LL [SS (if must then "ok" else "bad"); SS "refused"; SS (if must then "" else "served-request-refused")]
      else
      match fld "nonfinite" obs with Some _ => LL [SS "bad"; SS "served"; SS "non-finite-edges"] | None =>
      match (x <- fld "incl" obs ;; d_bool x), (x <- fld "bins" obs ;; d_bins x), (x <- fld "cls" obs ;; d_str x) with
      | Some incl, Some l, Some cls =>
          let must := match fld "must_refuse" case with Some (SS "T") => true | _ => false end in
          let common := rule_common incl l data range in
          let lo := match range with Some (a, _) => a | None => lmin data end in
          let hi := match range with Some (_, b) => b | None => lmax data end in
          let fixed_ok :=
            match (x <- fld "width" obs ;; d_q x), (x <- fld "shift" obs ;; d_q x), (x <- fld "tmin" obs ;; d_z x) with
            | Some w, Some sh, Some t => Some (w, sh, on_grid w sh t l)
            | _, _, _ => None end in
          let specific :=
            if String.eqb meth "numpy_narrow" then
              (* fewer representable numbers between minimum and maximum than bins requested: numpy's own edges repeat there;
                 physt must still give the requested number of rising bins that start at the minimum and cover the data
                 (covering is part of [common]) *)
              String.eqb cls "NumpyBinning" && consecutive_exact l && Qceqb (first_edge l) lo &&
              match (x <- fld "bin_count" case ;; d_nat x) with Some k => Nat.eqb (length l) k | None => false end
            else if String.eqb meth "numpy" then
              String.eqb cls "NumpyBinning" && consecutive_exact l &&
              match (x <- fld "ref" obs ;; d_qs x), (x <- fld "k" obs ;; d_nat x) with
              | Some ref, Some k => all2 Qceqb (to_edges l) ref && Nat.eqb (length ref) (length (to_edges l)) && Nat.eqb (length l) k &&
                                    Qceqb (first_edge l) lo && Qceqb (last_edge l) hi
              | _, _ => false end
            else if String.eqb meth "fixed_width" then
              match fixed_ok, (x <- fld "bin_width" case ;; d_q x), (x <- fld "want_shift" case ;; d_opt d_q x) with
              | Some (w, sh, g), Some bw, Some ws =>
                  g && Qceqb w bw && match ws with Some s => Qceqb sh s | None => true end &&
                  (* align=False: the grid passes through the smallest value itself: that value is the first edge, or - when the
                     rounding of value - k*w + k*w lands an ulp above the value - the edge between the first and the second bin
                     (physt then prepends the bin that covers the value) *)
                  match fld "align" case, range with
                  | Some (SS "F"), None =>
                      near (first_edge l) lo (Qcmax (Qcabs lo) w) ||
                      (Nat.leb 2 (length l) && near (first_edge l + w) lo (Qcmax (Qcabs lo) w))
                  | _, _ => true end
              | _, _, _ => false end
            else if String.eqb meth "fixed_min" then
              (* FixedWidthBinning(bin_width=w, bin_count=k, min=m): k equal bins on the grid, the first one starting at m *)
              match fixed_ok, (x <- fld "bin_width" case ;; d_q x), (x <- fld "bin_count" case ;; d_nat x), (x <- fld "min" case ;; d_q x) with
              | Some (w, sh, g), Some bw, Some k, Some mn =>
                  g && Qceqb w bw && Nat.eqb (length l) k && near (first_edge l) mn (Qcmax (Qcabs mn) w) &&
                  near (last_edge l) (mn + qz (Z.of_nat k) * w) (Qcmax (Qcabs mn + qz (Z.of_nat k) * w) w)
              | _, _, _, _ => false end
            else if String.eqb meth "integer" then
              match fixed_ok, (x <- fld "bin_width" case ;; d_q x) with
              | Some (w, sh, g), Some bw => g && Qceqb w bw && Qceqb sh (mkq 1 2) &&
                                           forallb (fun e => Pos.eqb (Qden (this (e - mkq 1 2))) 1) (to_edges l)
              | _, _ => false end
            else if String.eqb meth "pretty" then
              match fixed_ok, (x <- fld "used_bin_count" obs ;; d_nat x) with
              | Some (w, sh, g), Some k => g && Qceqb sh 0 && negb (Nat.eqb k 0) && pretty_ok ((hi - lo) / qz (Z.of_nat k)) w
              | _, _ => false end
            else if String.eqb meth "quantile" then
              match (x <- fld "q" case ;; d_qs x), (x <- fld "sorted" case ;; d_qs x) with
              | Some qs, Some s => consecutive_exact l && Nat.eqb (length (to_edges l)) (length qs) &&
                                   all2 (fun e q => near e (quantile_spec s q) (Qcmax (qmaxl s) 1)) (to_edges l) qs
              | _, _ => false end
            else if String.eqb meth "exponential" then
              consecutive_exact l && geometric (to_edges l) && covers_approx l lo hi &&
              match (x <- fld "bin_count" case ;; d_nat x) with Some k => Nat.eqb (length l) k | None => false end
            else if String.eqb meth "scott" || String.eqb meth "freedman" || String.eqb meth "blocks" then
              (* astropy's rules: the edges are astropy's own; Scott: w = 3.5 sigma / n^(1/3), Freedman-Diaconis: w = 2 IQR / n^(1/3)
                 (stated on cubes / squares to stay rational) *)
              consecutive_exact l &&
              match (x <- fld "ref" obs ;; d_qs x) with
              | Some ref => all2 Qceqb (to_edges l) ref && Nat.eqb (length ref) (length (to_edges l))
              | None => false end &&
              (if String.eqb meth "blocks" then true else
               match to_edges l, (x <- fld "sorted" case ;; d_qs x) with
               | e0 :: e1 :: _, Some s =>
                   let w := e1 - e0 in
                   let n := qz (Z.of_nat (length s)) in
                   let w3n := w * w * w * n in
                   forallb (fun d => Qcleb (Qcabs (d - w)) (mkq 1 1000000 * w)) (diffs (to_edges l)) &&
                   (if String.eqb meth "scott" then
                      let mu := sumq s / n in
                      let var := sumq (map (fun x => (x - mu) * (x - mu)) s) / n in
                      let k := mkq 7 2 in
                      Qcleb (Qcabs (w3n * w3n - k * k * k * k * k * k * var * var * var)) (mkq 1 1000000 * (w3n * w3n))
                    else
                      let iqr := quantile_spec s (mkq 3 4) - quantile_spec s (mkq 1 4) in
                      Qcleb (Qcabs (w3n - qz 8 * iqr * iqr * iqr)) (mkq 1 1000000 * w3n))
               | _, _ => false end)
            else if String.eqb meth "static" then
              match (x <- fld "given" case ;; d_bins x) with Some g => bins_eqb g l | None => false end
            else false in
          let common := if String.eqb meth "exponential" || String.eqb meth "quantile" || String.eqb meth "static" then risingb l
                        else if String.eqb meth "integer" then
                          rule_common incl l data (match range with Some (a, b) => Some (a - mkq 1 2, b - mkq 1 2) | None => None end)
                        else common in
          LL [SS (if negb must && common && specific then "ok" else "bad"); SS "served"; LL [e_bool must; e_bool common; e_bool specific]]
      | _, _, _ => LL [illformed; SS "rule-obs"]
      end end
  | _, _, _ => LL [illformed; SS "rule-case"]
  end.

Definition judge_count (case obs : sx) : sx :=
  match (x <- fld "n" case ;; d_z x), (x <- fld "method" case ;; d_str x), d_z obs with
  | Some n, Some m, Some k =>
      let ok := if String.eqb m "doane" then match (x <- fld "data" case ;; d_qs x) with Some dat => doane_ok dat k | None => false end
                else if String.eqb m "sturges" then sturges_ok n k else if String.eqb m "sqrt" then sqrt_ok n k
                else if String.eqb m "rice" then rice_ok n k else if String.eqb m "default" then default_ok n k else (1 <=? k)%Z in
      LL [SS (if ok then "ok" else "bad"); ZZ k]
  | _, _, _ => LL [illformed; SS "count"] end.

Definition judge_refuse (case obs : sx) : sx :=
  match fld "pairs" case, fld "edges" case with
  | Some p, _ =>
      match d_bins p with
      | Some l => let m := SS (if valid_pairs l then "accepted" else "refused") in LL [SS (if sx_eqb m obs then "ok" else "bad"); m]
      | None => LL [illformed; SS "pairs"] end
  | None, Some e =>
      match d_qs e with
      | Some l => let m := SS (if valid_edges l then "accepted" else "refused") in LL [SS (if sx_eqb m obs then "ok" else "bad"); m]
      | None => LL [illformed; SS "edges"] end
  | None, None => LL [SS (if sx_eqb obs (SS "refused") then "ok" else "bad"); SS "refused"]       (* wrong shape: always refused *)
  end.

Definition judge_C07 (case obs : sx) : sx :=
  match fld "kind" case with
  | Some (SS "repr") => judge_repr case obs
  | Some (SS "rule") => judge_rule case obs
  | Some (SS "count") => judge_count case obs
  | Some (SS "refuse") => judge_refuse case obs
  | _ => LL [illformed; SS "kind"] end.
