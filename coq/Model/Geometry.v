(** C16: bin measures, densities, edges / centres / widths, cumulative values.
    pi and the cosines of the polar-angle edges are numbers supplied with each observation (numpy's), the measure formulas are
    polynomial in them; additivity and totals are proved for an arbitrary cosine function. *)
From Physt Require Export Transform Binning.
Local Open Scope Qc_scope.

Inductive akind := ALin | AHalfSq | APiSq | AThirdCube | ACos.
(** measure of one bin [l, r] of an axis; cl, cr = cos l, cos r for ACos axes *)
Definition ameasure (k : akind) (pi l r cl cr : Qc) : Qc :=
  match k with
  | ALin => r - l
  | AHalfSq => (r * r - l * l) / qz 2
  | APiSq => pi * (r * r - l * l)
  | AThirdCube => (r * r * r - l * l * l) / qz 3
  | ACos => cl - cr end.

Definition axis_kinds (cls : string) (nd : nat) : list akind :=
  if String.eqb cls "PolarHistogram" then [AHalfSq; ALin]
  else if String.eqb cls "RadialHistogram" then [APiSq]
  else if String.eqb cls "SphericalHistogram" then [AThirdCube; ACos; ALin]
  else if String.eqb cls "SphericalSurfaceHistogram" then [ACos; ALin]
  else if String.eqb cls "CylindricalHistogram" then [AHalfSq; ALin; ALin]
  else repeat ALin nd.

(** row-major outer product of per-axis vectors *)
Fixpoint outer (vs : list (list Qc)) : list Qc :=
  match vs with
  | [] => [1]
  | v :: r => concat (map (fun a => map (Qcmult a) (outer r)) v) end.

Definition axis_sizes (k : akind) (pi : Qc) (bins : list bin) (cosb : list bin) : list Qc :=
  map (fun p => ameasure k pi (fst (fst p)) (snd (fst p)) (fst (snd p)) (snd (snd p))) (combine bins cosb).
Definition bin_sizes (cls : string) (pi : Qc) (axes : list (list bin)) (cosb : list (list bin)) : list Qc :=
  outer (map (fun p => axis_sizes (fst (fst p)) pi (snd (fst p)) (snd p)) (combine (combine (axis_kinds cls (length axes)) axes) cosb)).

Fixpoint running (acc : Qc) (l : list Qc) : list Qc := match l with [] => [] | x :: r => (acc + x) :: running (acc + x) r end.

Definition geps : Qc := mkq 1 1000000000000.         (* 1e-12 relative: a handful of binary64 operations *)
Definition gnear (a b : Qc) : bool := Qcleb (Qcabs (a - b)) (geps * (Qcabs a + Qcabs b)).
Definition gnear_s (scale a b : Qc) : bool := Qcleb (Qcabs (a - b)) (geps * scale).

(** ---------- judge ---------- *)
Definition d_qss (s : sx) : option (list (list Qc)) := d_list (d_list d_q) s.

Definition judge_C16 (case obs : sx) : sx :=
  match (x <- fld "cls" obs ;; d_str x), (x <- fld "pi" obs ;; d_q x), (x <- fld "axes" obs ;; d_list d_bins x),
        (x <- fld "cos" obs ;; d_list d_bins x), (x <- fld "freq" obs ;; d_list d_q x), (x <- fld "dens" obs ;; d_list d_x x),
        (x <- fld "sizes" obs ;; d_list d_q x) with
  | Some cls, Some pi, Some axes, Some cosb, Some freq, Some dens, Some sizes =>
      let msizes := bin_sizes cls pi axes cosb in
      let scale := qmaxl msizes in
      let sizes_ok := Nat.eqb (length sizes) (length msizes) && all2 (gnear_s scale) sizes msizes in
      (* densities * bin_sizes = frequencies *)
      let dens_ok := Nat.eqb (length dens) (length freq) &&
                     all2 (fun p f => match fst p with Fin d => gnear (d * snd p) f | _ => Qceqb (snd p) 0 end) (combine dens sizes) freq in
      (* left / right / centre / width per axis *)
      let per_axis := match (x <- fld "left" obs ;; d_qss x), (x <- fld "right" obs ;; d_qss x), (x <- fld "centers" obs ;; d_qss x), (x <- fld "widths" obs ;; d_qss x) with
                      | Some ls, Some rs, Some cs, Some ws =>
                          Nat.eqb (length ls) (length axes) &&
                          all2 (fun ax q => let '(l, r, c, w) := q in
                                  let m := qmaxl (map fst ax ++ map snd ax) in
                                  all2 Qceqb l (map fst ax) && all2 Qceqb r (map snd ax) && Nat.eqb (length l) (length ax) &&
                                  all2 (fun b x => gnear_s m x ((fst b + snd b) / qz 2)) ax c && Nat.eqb (length c) (length ax) &&
                                  all2 (fun b x => gnear_s m x (snd b - fst b)) ax w && Nat.eqb (length w) (length ax))
                               axes (combine (combine (combine ls rs) cs) ws)
                      | _, _, _, _ => false end in
      (* mesh forms equal the per-axis values broadcast over the cells *)
      let mesh_ok := match (x <- fld "mesh" obs ;; d_list d_qss x), (x <- fld "left" obs ;; d_qss x), (x <- fld "right" obs ;; d_qss x),
                           (x <- fld "centers" obs ;; d_qss x), (x <- fld "widths" obs ;; d_qss x) with
                     | Some [ml; mr; mc; mw], Some ls, Some rs, Some cs, Some ws =>
                         let shape := map (@length bin) axes in
                         let bc (per : list (list Qc)) (k : nat) := map (fun idx => nth (nth k idx 0%nat) (nth k per []) 0) (indices shape) in
                         let okf (m per : list (list Qc)) := Nat.eqb (length m) (length per) && forallb (fun k => all2 Qceqb (nth k m []) (bc per k) && Nat.eqb (length (nth k m [])) (size shape)) (seq 0 (length per)) in
                         okf ml ls && okf mr rs && okf mc cs && okf mw ws
                     | Some [], _, _, _, _ => true
                     | _, _, _, _, _ => false end in
      (* totals *)
      (* sums are carried out in the content dtype: float32 contents round at 2^-24 *)
      let stol := match (x <- fld "sumtol" case ;; d_q x) with Some t => t | None => geps end in
      let snear (scale a b : Qc) := Qcleb (Qcabs (a - b)) (stol * scale) in
      let total_ok := match (x <- fld "total_size" obs ;; d_q x) with
                      | Some t => gnear_s (sumq (map Qcabs msizes)) t (sumq msizes)
                      | None => false end &&
                      match fld "total" obs with Some t => match d_q t with Some t => snear (sumq (map Qcabs freq)) t (sumq freq) | None => false end | None => false end in
      let width_ok := match fld "total_width" obs with
                      | Some (SS "n/a") | None => true
                      | Some t => match d_q t, axes with
                                  | Some t, [ax] => gnear_s (qmaxl (map fst ax ++ map snd ax)) t (sumq (map (fun b => snd b - fst b) ax))
                                  | _, _ => false end end in
      (* full angular ranges: the measure of the disc / sphere / ball / cylinder *)
      let closed_ok := match fld "closed_form" case, (x <- fld "total_size" obs ;; d_q x) with
                       | Some (LL [SS k; rr; hh]), Some t =>
                           match d_q rr, d_q hh with
                           | Some R, Some H =>
                               let v := if String.eqb k "disc" then pi * R * R else if String.eqb k "sphere" then qz 4 * pi
                                        else if String.eqb k "ball" then qz 4 / qz 3 * pi * R * R * R else if String.eqb k "cylinder" then pi * R * R * H
                                        else if String.eqb k "mantle" then qz 2 * pi * H else t in
                               Qcleb (Qcabs (t - v)) (mkq 1 1000000000 * Qcabs v)
                           | _, _ => false end
                       | Some (SS "none"), _ | None, _ => true
                       | _, _ => false end in
      (* the edge form agrees with the pairs, also for a sub-histogram taken after the edges were looked at *)
      let edges_ok := match fld "edges" obs with
                      | Some (LL l) => Nat.eqb (length l) (length axes) &&
                                       all2 (fun ax e => if consecutive_exact ax then match d_list d_q e with Some el => all2 Qceqb el (to_edges ax) && Nat.eqb (length el) (length (to_edges ax)) | None => false end else true) axes l
                      | _ => false end in
      let sub_ok := match fld "sub_left" obs with Some (SS _) => true | _ =>      (* slice not available (cut-off contents beyond a narrow integer dtype) *)
                    match (x <- fld "sub" case ;; d_list (d_pair d_nat d_nat) x), (x <- fld "sub_left" obs ;; d_qss x), (x <- fld "sub_right" obs ;; d_qss x),
                          fld "sub_edges" obs, (x <- fld "sub_sizes" obs ;; d_list d_q x) with
                    | Some sl, Some ls, Some rs, Some (LL es), Some ss =>
                        let saxes := map (fun p => slice_bins (fst (snd p)) (snd (snd p)) (fst p)) (combine axes sl) in
                        let scos := map (fun p => slice_bins (fst (snd p)) (snd (snd p)) (fst p)) (combine cosb sl) in
                        Nat.eqb (length ls) (length axes) && Nat.eqb (length sl) (length axes) &&
                        all2 (fun ax q => let '(l, r, e) := q in
                                all2 Qceqb l (map fst ax) && all2 Qceqb r (map snd ax) && Nat.eqb (length l) (length ax) && Nat.eqb (length r) (length ax) &&
                                (if consecutive_exact ax then match d_list d_q e with Some el => all2 Qceqb el (to_edges ax) && Nat.eqb (length el) (length (to_edges ax)) | None => false end else true))
                             saxes (combine (combine ls rs) es) &&
                        Nat.eqb (length ss) (length (bin_sizes cls pi saxes scos)) && all2 (gnear_s scale) ss (bin_sizes cls pi saxes scos)
                    | None, _, _, _, _ => true
                    | _, _, _, _, _ => false end end in
      let cum_ok := match fld "cumulative" obs with
                    | Some (SS "n/a") => true
                    | Some c => match d_list d_q c with
                                | Some cl => Nat.eqb (length cl) (length freq) && all2 (snear (sumq (map Qcabs freq))) cl (running 0 freq)
                                | None => false end
                    | None => false end in
      (* merging adjacent bins along an axis adds their measures *)
      let merge_ok := match fld "merged" obs with
                      | Some (LL l) =>
                          forallb (fun m => match m with
                                            | LL [k; sz] =>
                                                match d_nat k, d_list d_q sz with
                                                | Some k, Some sz =>
                                                    let shape := map (@length bin) axes in
                                                    let n := nth k shape 0%nat in
                                                    let mp := map (fun i => Nat.div i 2) (seq 0 n) in
                                                    let expect := remap_axis shape k mp (Nat.div (n + 1) 2) msizes in
                                                    Nat.eqb (length sz) (length expect) && all2 (gnear_s scale) sz expect
                                                | _, _ => false end
                                            | _ => false end) l
                      | _ => false end in
      LL [SS (if sizes_ok && dens_ok && per_axis && mesh_ok && total_ok && width_ok && closed_ok && edges_ok && sub_ok && cum_ok && merge_ok then "ok" else "bad"); e_qs msizes;
          LL [e_bool sizes_ok; e_bool dens_ok; e_bool per_axis; e_bool mesh_ok; e_bool total_ok; e_bool width_ok; e_bool closed_ok; e_bool edges_ok; e_bool sub_ok; e_bool cum_ok; e_bool merge_ok]]
  | _, _, _, _, _, _, _ => LL [illformed; SS "C16"]
  end.
