(** Histogram arithmetic as coded: copy, + += (same bins / adaptive union), - -=, * *= / /=, normalize,
    statistics, dtype coercion. Shared by C05, C06, C13, C14, C18. *)
From Physt Require Export Fill.

Inductive axisd :=
| AStatic (bins : list bin) (incl : bool)
| AFixed (w shift : Qc) (tmin : Z) (count : nat) (incl adaptive : bool).

Definition fixed_edge (w shift : Qc) (tmin : Z) (i : nat) : Qc := qz (tmin + Z.of_nat i) * w + shift.
Definition axis_bins (a : axisd) : list bin :=
  match a with
  | AStatic b _ => b
  | AFixed w sh tmin n _ _ => map (fun i => (fixed_edge w sh tmin i, fixed_edge w sh tmin (S i))) (seq 0 n)
  end.
Definition axis_adaptive (a : axisd) : bool := match a with AFixed _ _ _ _ _ ad => ad | _ => false end.
Definition axis_len (a : axisd) : nat := length (axis_bins a).

Record stats := mkStats { st_sum : xnum; st_sum2 : xnum; st_min : xnum; st_max : xnum; st_weight : xnum; st_median : xnum }.
Definition invalid_stats : stats := mkStats NaN NaN NaN NaN NaN NaN.
Definition empty_stats : stats := mkStats (Fin 0) (Fin 0) PInf NInf (Fin 0) NaN.

(** python min()/max() on floats: min(a, b) = b if b < a else a  (NaN comparisons are false) *)
Definition xltb (a b : xnum) : bool :=
  match a, b with
  | Fin x, Fin y => Qcltb x y
  | NInf, Fin _ | NInf, PInf | Fin _, PInf => true
  | _, _ => false end.
Definition py_min (a b : xnum) : xnum := if xltb b a then b else a.
Definition py_max (a b : xnum) : xnum := if xltb a b then b else a.

(** numpy.minimum / numpy.maximum: a NaN on either side propagates (Statistics.__add__ since fix 3836edd in /repo;
    before, python's min/max kept the first argument when the second one was NaN) *)
Definition np_min (a b : xnum) : xnum := match a, b with NaN, _ | _, NaN => NaN | _, _ => py_min a b end.
Definition np_max (a b : xnum) : xnum := match a, b with NaN, _ | _, NaN => NaN | _, _ => py_max a b end.
Definition stats_add (a b : stats) : stats :=
  mkStats (xadd (st_sum a) (st_sum b)) (xadd (st_sum2 a) (st_sum2 b)) (np_min (st_min a) (st_min b))
          (np_max (st_max a) (st_max b)) (xadd (st_weight a) (st_weight b)) NaN.
(** Statistics.__mul__: sum, sum2 and weight are linear in the weights *)
Definition stats_mul (a : stats) (c : Qc) : stats :=
  mkStats (xscale c (st_sum a)) (xscale c (st_sum2 a)) (st_min a) (st_max a) (xscale c (st_weight a)) (st_median a).

Record ah := mkAh {
  ah_axes : list axisd; ah_freq : list Qc; ah_err2 : list Qc; ah_missed : list xnum;
  ah_dt : dt; ah_stats : option stats; ah_keep : bool }.
Definition ah_shape (h : ah) : list nat := map axis_len (ah_axes h).
Definition ah_ndim (h : ah) : nat := length (ah_axes h).

(** numpy.promote_types on the supported dtypes (validated exhaustively against numpy by the C13 harness) *)
Definition dt_rank (d : dt) : nat := match d with I16 => 0 | I32 => 1 | I64 => 2 | F16 => 0 | F32 => 1 | F64 => 2 | F128 => 3 end.
Definition promote (a b : dt) : dt :=
  match dt_is_int a, dt_is_int b with
  | true, true => if Nat.ltb (dt_rank a) (dt_rank b) then b else a
  | false, false => if Nat.ltb (dt_rank a) (dt_rank b) then b else a
  | _, _ =>
      let i := if dt_is_int a then a else b in
      let f := if dt_is_int a then b else a in
      match f with
      | F128 => F128
      | F64 => F64
      | F32 => match i with I16 => F32 | _ => F64 end
      | F16 => match i with I16 => F32 | _ => F64 end
      | _ => f end
  end.
Definition coerce (h : ah) (d : dt) : ah :=
  mkAh (ah_axes h) (ah_freq h) (ah_err2 h) (ah_missed h) (promote (ah_dt h) d) (ah_stats h) (ah_keep h).

Definition bins_allclose (a b : list bin) : bool :=
  all2 (fun x y : bin => allclose1 (fst x) (fst y) && allclose1 (snd x) (snd y)) a b.
Definition has_same_bins (a b : ah) : bool :=
  all2 Nat.eqb (ah_shape a) (ah_shape b) && all2 bins_allclose (map axis_bins (ah_axes a)) (map axis_bins (ah_axes b)).
Definition bins_equal (a b : list bin) : bool :=
  all2 (fun x y : bin => Qceqb (fst x) (fst y) && Qceqb (snd x) (snd y)) a b.

Definition is_adaptive (h : ah) : bool := forallb axis_adaptive (ah_axes h).
Definition missed_sum (h : ah) : xnum := fold_right xadd (Fin 0) (ah_missed h).
Definition xpos (x : xnum) : bool := match x with Fin q => Qcltb 0 q | PInf => true | _ => false end.

Definition nonneg (l : list Qc) : bool := forallb (fun x => Qcleb 0 x) l.

Inductive err := EType | EValue | ERuntime.
Inductive result (A : Type) := Ok (a : A) | Err (e : err).
Arguments Ok {A}. Arguments Err {A}.

(** one axis of the adaptive branch: returns the new axis and the left shifts for self and other
    (None = the operand's data stay as they are) *)
Definition adapt_axis (a b : axisd) : result (axisd * option nat * option nat * nat) :=
  if bins_equal (axis_bins a) (axis_bins b) && Nat.eqb (axis_len a) (axis_len b) then Ok (a, None, None, axis_len a) else
  match a, b with
  | AFixed w sh tmin n incl ad, AFixed w' sh' tmin' n' incl' _ =>
      if incl' then Err EValue else       (* other.as_fixed_width() copies with adaptive=True: refused together with right-edge inclusion *)
      if negb (Qceqb w w') then Err EValue else
      if negb (Qceqb sh sh') then Err EValue else
      if Nat.eqb n' 0 then Ok (a, None, Some 0%nat, n) else
      if Nat.eqb n 0 then Ok (AFixed w sh tmin' n' incl ad, Some 0%nat, None, n') else
      let new_min := Z.min tmin tmin' in
      let new_max := Z.max (tmin + Z.of_nat n) (tmin' + Z.of_nat n') in
      let newn := Z.to_nat (new_max - new_min) in
      let mapfor (t : Z) (c : nat) :=
        let add_left := if (new_min <? t)%Z then Z.to_nat (t - new_min) else 0%nat in
        let add_right := if (Z.of_nat c <? new_max - t)%Z then Z.to_nat (new_max - t - Z.of_nat c) else 0%nat in
        if Nat.eqb add_left 0 && Nat.eqb add_right 0 then None else Some add_left in
      Ok (AFixed w sh new_min newn incl ad, mapfor tmin n, mapfor tmin' n', newn)
  | _, _ => Err EValue
  end.

Definition shift_axis (shape : list nat) (k : nat) (newn : nat) (sh : option nat) (a : list Qc) : list Qc * list nat :=
  match sh with
  | None => (a, shape)
  | Some s => (remap_axis shape k (map (fun i => (i + s)%nat) (seq 0 (nth k shape 0%nat))) newn a, set_at k newn shape)
  end.

Fixpoint adapt_axes (k : nat) (axa axb : list axisd) (sa sb : list nat) (fa ea fb eb : list Qc)
  : result (list axisd * list Qc * list Qc * list Qc * list Qc) :=
  match axa, axb with
  | a :: ra, b :: rb =>
      match adapt_axis a b with
      | Err e => Err e
      | Ok (na, s1, s2, newn) =>
          let '(fa', sa') := shift_axis sa k newn s1 fa in
          let '(ea', _) := shift_axis sa k newn s1 ea in
          let '(fb', sb') := shift_axis sb k newn s2 fb in
          let '(eb', _) := shift_axis sb k newn s2 eb in
          match adapt_axes (S k) ra rb sa' sb' fa' ea' fb' eb' with
          | Err e => Err e
          | Ok (axs, f1, e1, f2, e2) => Ok (na :: axs, f1, e1, f2, e2)
          end
      end
  | [], [] => Ok ([], fa, ea, fb, eb)
  | _, _ => Err EValue
  end.

Definition all_fixed (h : ah) : bool := forallb (fun a => match a with AFixed _ _ _ _ _ _ => true | _ => false end) (ah_axes h).

Definition opt_stats_add (a b : option stats) : option stats :=
  match a, b with Some x, Some y => Some (stats_add x y) | _, _ => a end.

(** __iadd__ with a histogram operand *)
Definition iadd (a b : ah) : result ah :=
  if negb (Nat.eqb (ah_ndim a) (ah_ndim b)) then Err EValue else
  if has_same_bins a b then
    let a1 := coerce a (ah_dt b) in
    Ok (mkAh (ah_axes a1) (vadd (ah_freq a1) (ah_freq b)) (vadd (ah_err2 a1) (ah_err2 b))
             (map (fun p => xadd (fst p) (snd p)) (combine (ah_missed a1) (ah_missed b)))
             (ah_dt a1) (opt_stats_add (ah_stats a1) (ah_stats b)) (ah_keep a1))
  else if is_adaptive a then
    if xpos (missed_sum b) then Err EValue else
    if negb (all_fixed b) then Err EValue else
    let a1 := coerce a (ah_dt b) in
    match adapt_axes 0 (ah_axes a1) (ah_axes b) (ah_shape a1) (ah_shape b) (ah_freq a1) (ah_err2 a1) (ah_freq b) (ah_err2 b) with
    | Err e => Err e
    | Ok (axs, f1, e1, f2, e2) =>
        Ok (mkAh axs (vadd f1 f2) (vadd e1 e2) (ah_missed a1) (ah_dt a1) (opt_stats_add (ah_stats a1) (ah_stats b)) (ah_keep a1))
    end
  else Err EValue.

Definition add (a b : ah) : result ah := iadd a b.      (* new = self.copy(); new += other *)

(** ---------- scaling ---------- *)
Inductive scalar_kind := SInt | SFloat (d : dt) | SNpInt (d : dt) | SBool | SOther.
Definition scalar_dt (k : scalar_kind) : option dt :=
  match k with SInt => Some I64 | SFloat d => Some d | SNpInt d => Some d | _ => None end.

Definition imul (h : ah) (c : Qc) (k : scalar_kind) : result ah :=
  match scalar_dt k with
  | None => Err EType
  | Some d =>
      let h1 := coerce h d in
      let f := map (Qcmult c) (ah_freq h1) in
      if Qcltb c 0 || negb (nonneg f) then Err EValue else      (* a negative factor is refused whatever the contents *)
      Ok (mkAh (ah_axes h1) f (map (Qcmult (c * c)) (ah_err2 h1)) (map (xscale c) (ah_missed h1)) (ah_dt h1)
               (option_map (fun s => stats_mul s c) (ah_stats h1)) (ah_keep h1))
  end.

Definition itruediv (h : ah) (c : Qc) (k : scalar_kind) : result ah :=
  match scalar_dt k with
  | None => Err EType
  | Some _ =>
      let h1 := coerce h F64 in
      let f := map (fun x => x / c) (ah_freq h1) in
      if Qcltb c 0 || negb (nonneg f) then Err EValue else      (* a negative factor is refused whatever the contents *)
      Ok (mkAh (ah_axes h1) f (map (fun x => x / (c * c)) (ah_err2 h1)) (map (xscale (/ c)) (ah_missed h1)) (ah_dt h1)
               (option_map (fun s => stats_mul s (/ c)) (ah_stats h1)) (ah_keep h1))
  end.
