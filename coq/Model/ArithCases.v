(** Cases, observations and checkers for C05 (addition) and C06 (scaling / normalisation). *)
From Physt Require Export Arith.

(** ---------- codecs ---------- *)
Definition d_axisd (s : sx) : option axisd :=
  match s with
  | LL [SS "static"; b; i] => b <- d_bins b ;; i <- d_bool i ;; ret (AStatic b i)
  | LL [SS "fixed"; w; sh; t; n; i; a] =>
      w <- d_q w ;; sh <- d_q sh ;; t <- d_z t ;; n <- d_nat n ;; i <- d_bool i ;; a <- d_bool a ;; ret (AFixed w sh t n i a)
  | _ => None end.
Definition d_stats (s : sx) : option (option stats) :=
  match s with
  | SS "none" => Some None
  | LL [a; b; c; d; e; f] => a <- d_x a ;; b <- d_x b ;; c <- d_x c ;; d <- d_x d ;; e <- d_x e ;; f <- d_x f ;; ret (Some (mkStats a b c d e f))
  | _ => None end.
Definition e_stats (o : option stats) : sx :=
  match o with
  | None => SS "none"
  | Some s => LL (map e_x [st_sum s; st_sum2 s; st_min s; st_max s; st_weight s; st_median s]) end.
Definition d_ah (s : sx) : option ah :=
  ax <- (x <- fld "axes" s ;; d_list d_axisd x) ;;
  f <- (x <- fld "freq" s ;; d_list d_q x) ;;
  e <- (x <- fld "err2" s ;; d_list d_q x) ;;
  m <- (x <- fld "missed" s ;; d_list d_x x) ;;
  d <- (x <- fld "dtype" s ;; d_dt x) ;;
  st <- (x <- fld "stats" s ;; d_stats x) ;;
  k <- (x <- fld "keep" s ;; d_bool x) ;;
  ret (mkAh ax f e m d st k).
Definition wf_ah (h : ah) : bool :=
  Nat.eqb (length (ah_freq h)) (size (ah_shape h)) && Nat.eqb (length (ah_err2 h)) (size (ah_shape h)) &&
  forallb (fun a => risingb (axis_bins a)) (ah_axes h) && negb (Nat.eqb (ah_ndim h) 0) &&
  Nat.eqb (length (ah_missed h)) (if Nat.eqb (ah_ndim h) 1 then 3 else 1) &&
  nonneg (ah_freq h) && nonneg (ah_err2 h) &&
  forallb (fun a => match a with AFixed w _ _ _ _ _ => Qcltb 0 w | _ => true end) (ah_axes h).

Definition e_ah (h : ah) : list sx :=
  [e_list e_bins (map axis_bins (ah_axes h)); e_qs (ah_freq h); e_qs (ah_err2 h); e_list e_x (ah_missed h);
   e_dt (ah_dt h); e_stats (ah_stats h)].

(** ---------- C05: expressions ---------- *)
Inductive expr := Leaf (i : nat) | Plus (a b : expr) | PySum (l : list expr) | NotHist.

Fixpoint d_expr (fuel : nat) (s : sx) : option expr :=
  match fuel with
  | O => None
  | S f =>
      match s with
      | ZZ z => if (0 <=? z)%Z then Some (Leaf (Z.to_nat z)) else None
      | LL [SS "+"; a; b] => a <- d_expr f a ;; b <- d_expr f b ;; ret (Plus a b)
      | LL (SS "sum" :: l) => l <- mapM (d_expr f) l ;; ret (PySum l)
      | SS "nothist" => Some NotHist
      | _ => None end
  end.

(** evaluation as coded: a + b = (copy a) += b ; sum(l) = ((0 + l0) + l1) + ... with 0 + h = h *)
Fixpoint eval (ops : list ah) (e : expr) : result ah :=
  match e with
  | Leaf i => match nth_error ops i with Some h => Ok h | None => Err EValue end
  | NotHist => Err EType
  | Plus a b =>
      match eval ops a with
      | Err x => (match a with NotHist => match eval ops b with Ok _ => Err EType | Err y => Err y end | _ => Err x end)
      | Ok x => match b with NotHist => Err EType | _ => match eval ops b with Err y => Err y | Ok y => iadd x y end end
      end
  | PySum l =>
      (fix go (acc : option ah) (l : list expr) : result ah :=
         match l with
         | [] => match acc with Some h => Ok h | None => Err EValue end
         | x :: r => match eval ops x with
                     | Err y => Err y
                     | Ok h => match acc with
                               | None => go (Some h) r
                               | Some a => match iadd a h with Ok s => go (Some s) r | Err y => Err y end
                               end
                     end
         end) None l
  end.

Fixpoint leaves (e : expr) : list nat :=
  match e with
  | Leaf i => [i] | NotHist => [] | Plus a b => leaves a ++ leaves b
  | PySum l => flat_map leaves l end.
Fixpoint has_nothist (e : expr) : bool :=
  match e with
  | Leaf _ => false | NotHist => true | Plus a b => has_nothist a || has_nothist b
  | PySum l => existsb has_nothist l end.
Fixpoint count_plus (e : expr) : nat :=
  match e with
  | Leaf _ | NotHist => 0 | Plus a b => S (count_plus a + count_plus b)
  | PySum l => (length l - 1 + fold_right Nat.add 0 (map count_plus l))%nat end.

(** ---------- C05: specification (order-free) ---------- *)
(** place an array on a larger grid: new index = old index + offset, per axis *)
Definition embed (shape offs newshape : list nat) (a : list Qc) : list Qc :=
  tabulate newshape (fun idx =>
    if forallb (fun p => Nat.leb (snd p) (fst p)) (combine idx offs) then
      let src := map (fun p => (fst p - snd p)%nat) (combine idx offs) in
      if in_rangeb src shape then get 0 shape a src else 0
    else 0).

Definition fixed_params (a : axisd) : option (Qc * Qc * Z * nat) :=
  match a with AFixed w sh t n _ _ => Some (w, sh, t, n) | _ => None end.

(** union of fixed-width axes on a common grid (None: not all fixed / different width or shift) *)
Definition union_axis (axs : list axisd) : option (Qc * Qc * Z * nat) :=
  match axs with
  | [] => None
  | a :: r =>
      p <- fixed_params a ;;
      let '(w, sh, t, n) := p in
      fold_left (fun acc b =>
        acc <- acc ;; q <- fixed_params b ;;
        let '(w0, sh0, t0, n0) := acc in let '(w1, sh1, t1, n1) := q in
        if Qceqb w0 w1 && Qceqb sh0 sh1 then
          if Nat.eqb n1 0 then Some acc else if Nat.eqb n0 0 then Some q else
          let lo := Z.min t0 t1 in let hi := Z.max (t0 + Z.of_nat n0) (t1 + Z.of_nat n1) in
          Some (w0, sh0, lo, Z.to_nat (hi - lo))
        else None) r (Some (w, sh, t, n))
  end.

Fixpoint transpose_axes (hs : list (list axisd)) (nd : nat) : list (list axisd) :=
  match nd with
  | O => []
  | S k => map (fun l => hd (AStatic [] true) l) hs :: transpose_axes (map (@tl axisd) hs) k
  end.

Definition vsum (n : nat) (l : list (list Qc)) : list Qc := fold_left vadd l (repeat 0 n).
Definition xsum_lists (n : nat) (l : list (list xnum)) : list xnum :=
  fold_left (fun a b => map (fun p => xadd (fst p) (snd p)) (combine a b)) l (repeat (Fin 0) n).

Record sum_spec := { sp_bins : list (list bin); sp_freq : list Qc; sp_err2 : list Qc; sp_missed : option (list xnum);
                     sp_dt : dt; sp_stats : option stats }.

Definition spec_sum (hs : list ah) : option sum_spec :=
  match hs with
  | [] => None
  | h0 :: rest =>
      let nd := ah_ndim h0 in
      if negb (forallb (fun h => Nat.eqb (ah_ndim h) nd) rest) then None else
      let dtp := fold_left promote (map ah_dt rest) (ah_dt h0) in
      let st := match rest with
                | [] => ah_stats h0
                | _ => fold_left opt_stats_add (map ah_stats rest) (ah_stats h0) end in
      if forallb (has_same_bins h0) rest then
        Some {| sp_bins := map axis_bins (ah_axes h0);
                sp_freq := vsum (length (ah_freq h0)) (map ah_freq hs);
                sp_err2 := vsum (length (ah_err2 h0)) (map ah_err2 hs);
                sp_missed := Some (xsum_lists (length (ah_missed h0)) (map ah_missed hs));
                sp_dt := dtp; sp_stats := st |}
      else
        us <- mapM union_axis (transpose_axes (map ah_axes hs) nd) ;;
        let newshape := map (fun u => snd u) us in
        let offs (h : ah) := map (fun p => match fixed_params (fst p) with
                                           | Some (_, _, t, n) => if Nat.eqb n 0 then 0%nat else Z.to_nat (t - snd (fst (snd p)))
                                           | None => 0%nat end) (combine (ah_axes h) us) in
        Some {| sp_bins := map (fun u => let '(w, sh, t, n) := u in axis_bins (AFixed w sh t n false true)) us;
                sp_freq := vsum (size newshape) (map (fun h => embed (ah_shape h) (offs h) newshape (ah_freq h)) hs);
                sp_err2 := vsum (size newshape) (map (fun h => embed (ah_shape h) (offs h) newshape (ah_err2 h)) hs);
                sp_missed := None; sp_dt := dtp; sp_stats := st |}
  end.

(** some addition in the expression has a non-adaptive accumulating (left) operand *)
Fixpoint leftmost (e : expr) : option nat :=
  match e with
  | Leaf i => Some i | NotHist => None | Plus a _ => leftmost a
  | PySum l => match l with x :: _ => leftmost x | [] => None end end.
Fixpoint left_nonadaptive (ops : list ah) (e : expr) : bool :=
  let na (x : expr) := match leftmost x with
                       | Some i => match nth_error ops i with Some h => negb (is_adaptive h) | None => true end
                       | None => true end in
  match e with
  | Leaf _ | NotHist => false
  | Plus a b => na a || left_nonadaptive ops a || left_nonadaptive ops b
  | PySum l => match l with [] | [_] => existsb (left_nonadaptive ops) l | x :: _ => na x || existsb (left_nonadaptive ops) l end
  end.

Record c05 := { o_ops : list ah; o_expr : expr }.
Definition d_c05 (s : sx) : option c05 :=
  o <- (x <- fld "operands" s ;; d_list d_ah x) ;;
  e <- (x <- fld "expr" s ;; d_expr 50 x) ;;
  ret (Build_c05 o e).
Definition wf_c05 (c : c05) : bool :=
  forallb wf_ah (o_ops c) && forallb (fun i => Nat.ltb i (length (o_ops c))) (leaves (o_expr c)) &&
  negb (Nat.eqb (length (leaves (o_expr c))) 0).

Definition run_C05 (c : c05) : sx :=
  match eval (o_ops c) (o_expr c) with
  | Ok h => LL (SS "ok" :: e_ah h ++ [SS "T"])
  | Err _ => LL [SS "refused"] end.

Definition leaf_hists (c : c05) : list ah := map (fun i => nth i (o_ops c) (mkAh [] [] [] [] F64 None true)) (leaves (o_expr c)).

Definition stats_close (a b : option stats) : bool :=
  match a, b with
  | None, None => true
  | Some x, Some y => xeqb (st_sum x) (st_sum y) && xeqb (st_sum2 x) (st_sum2 y) && xeqb (st_min x) (st_min y) &&
                      xeqb (st_max x) (st_max y) && xeqb (st_weight x) (st_weight y) && xeqb (st_median x) (st_median y)
  | _, _ => false end.

Definition stats_valid (x : stats) : bool :=
  negb (is_nan (st_sum x) || is_nan (st_sum2 x) || is_nan (st_min x) || is_nan (st_max x) || is_nan (st_weight x)).
Definition bins_same (a b : list (list bin)) : bool := all2 bins_equal a b.

Definition check_C05 (c : c05) (obs : sx) : bool :=
  let hs := leaf_hists c in
  match obs with
  | LL [SS "refused"] =>
      (* refusal is right when a non-histogram takes part, or no common grid exists; it is tolerated when the
         grids are compatible but the accumulating (left) operand is not adaptive, or a right operand has missed values *)
      has_nothist (o_expr c) ||
      match spec_sum hs with
      | None => true
      | Some s => match sp_missed s with
                  | Some _ => false                       (* same bins: must be accepted *)
                  | None => left_nonadaptive (o_ops c) (o_expr c) || existsb (fun h => xpos (missed_sum h)) (tl hs)
                            || existsb (fun h => existsb (fun a => match a with AFixed _ _ _ _ true _ => true | _ => false end) (ah_axes h)) (tl hs)
                  end
      end
  | LL [SS "ok"; b; f; e; m; d; st; u] =>
      negb (has_nothist (o_expr c)) &&
      match spec_sum hs, d_list d_bins b, d_list d_q f, d_list d_q e, d_list d_x m, d_dt d, d_stats st with
      | Some s, Some b, Some f, Some e, Some m, Some d, Some st =>
          bins_same (sp_bins s) b && closel 0 (sp_freq s) f && closel 0 (sp_err2 s) e &&
          match sp_missed s with Some sm => all2 xeqb sm m | None => true end &&
          match d, sp_dt s with
          | a, b => match a, b with
                    | I16, I16 | I32, I32 | I64, I64 | F16, F16 | F32, F32 | F64, F64 | F128, F128 => true
                    | _, _ => false end
          end &&
          (if forallb (fun h => match ah_stats h with Some x => stats_valid x | None => true end) hs
           then stats_close (sp_stats s) st
           else match st with Some x => is_nan (st_sum x) && is_nan (st_sum2 x) && is_nan (st_weight x) | None => true end) &&
          match u with SS "T" => true | _ => false end
      | _, _, _, _, _, _, _ => false end
  | _ => false end.

Definition judge_C05 (case obs : sx) : sx :=
  match d_c05 case with
  | None => LL [illformed; SS "decode"]
  | Some c =>
      if negb (wf_c05 c) then LL [illformed; SS "wf"] else
      LL [SS (if check_C05 c obs then "ok" else "bad"); run_C05 c]
  end.
