(** C13: content dtype is consistent and never loses information. The recorded dtype (_dtype) and the element
    types of the two arrays are modelled separately, following each assignment of the code. *)
From Physt Require Export StatsCases Merge.

Record dh := mkDh {
  y_axes : list axisd;
  y_dt : dt;            (* HistogramBase._dtype *)
  y_fdt : dt;           (* self._frequencies.dtype *)
  y_edt : dt;           (* self._errors2.dtype *)
  y_freq : list Qc; y_err2 : list Qc; y_missed : list xnum }.

(** numpy.can_cast(a, b) (casting='safe') on the supported dtypes; validated exhaustively against numpy by the harness *)
Definition can_cast (a b : dt) : bool :=
  match a, b with
  | I16, (I16 | I32 | I64 | F32 | F64 | F128) => true
  | I32, (I32 | I64 | F64 | F128) => true
  | I64, (I64 | F64 | F128) => true
  | F16, (F16 | F32 | F64 | F128) => true
  | F32, (F32 | F64 | F128) => true
  | F64, (F64 | F128) => true
  | F128, F128 => true
  | _, _ => false end.

(** iinfo / finfo limits *)
Definition dt_max (d : dt) : option Qc :=
  match d with
  | I16 => Some (qz 32767) | I32 => Some (qz 2147483647) | I64 => Some (qz 9223372036854775807)
  | F16 => Some (qz 65504)
  | F32 => Some (qz 340282346638528859811704183484516925440)
  | F64 => Some (qz (2 ^ 1024 - 2 ^ 971))
  | F128 => None end.
Definition dt_min (d : dt) : option Qc :=
  match d with
  | I16 => Some (qz (-32768)) | I32 => Some (qz (-2147483648)) | I64 => Some (qz (-9223372036854775808))
  | _ => option_map Qcopp (dt_max d) end.
Definition is_integral (q : Qc) : bool := Pos.eqb (Qden (this q)) 1.
Definition in_range_dt (d : dt) (q : Qc) : bool :=
  match dt_max d, dt_min d with
  | Some mx, Some mn => Qcleb q mx && Qcleb mn q
  | _, _ => true end.

(** astype to a binary float format with [p] significant bits: round to nearest, ties to even (normal range only) *)
Definition mant_bits (d : dt) : option Z :=
  match d with F16 => Some 11%Z | F32 => Some 24%Z | F64 => Some 53%Z | F128 => Some 64%Z | _ => None end.
Definition pow2q (e : Z) : Qc := if (0 <=? e)%Z then qz (2 ^ e) else / qz (2 ^ (- e)).
Definition round_half_even (q : Qc) : Z :=        (* q >= 0 *)
  let n := Qnum (this q) in let d := Zpos (Qden (this q)) in
  let fl := (n / d)%Z in let r := (2 * (n - fl * d))%Z in
  if (r <? d)%Z then fl else if (d <? r)%Z then (fl + 1)%Z else if Z.even fl then fl else (fl + 1)%Z.
Definition round_pos (p : Z) (q : Qc) : Qc :=
  let n := Qnum (this q) in let d := Zpos (Qden (this q)) in
  let e0 := (Z.log2 n - Z.log2 d - (p - 1))%Z in
  let fits e := Qcleb (pow2q (p - 1)) (q * pow2q (- e)) && Qcltb (q * pow2q (- e)) (pow2q p) in
  let e := if fits e0 then e0 else if fits (e0 - 1)%Z then (e0 - 1)%Z else (e0 + 1)%Z in
  qz (round_half_even (q * pow2q (- e))) * pow2q e.
Definition round_dt (d : dt) (q : Qc) : Qc :=
  match mant_bits d with
  | None => q
  | Some p => if Qceqb q 0 then 0 else if Qcltb q 0 then - round_pos p (- q) else round_pos p q
  end.

(** set_dtype(value, check=True) *)
Definition set_dtype (h : dh) (t : dt) : option dh :=
  if dt_eqb t (y_dt h) then Some h else
  let ok :=
    if can_cast (y_dt h) t then true
    else (if dt_is_int t && negb (dt_is_int (y_dt h))
          then forallb is_integral (y_freq h) && forallb is_integral (y_err2 h) else true)
         && forallb (in_range_dt t) (y_freq h) && forallb (in_range_dt t) (y_err2 h) in
  if ok then Some (mkDh (y_axes h) t t t (map (round_dt t) (y_freq h)) (map (round_dt t) (y_err2 h)) (y_missed h)) else None.

Definition dcoerce (h : dh) (d : dt) : dh :=
  let n := promote (y_dt h) d in
  if dt_eqb n (y_dt h) then h
  else mkDh (y_axes h) n n n (y_freq h) (y_err2 h) (y_missed h).     (* upward: can_cast holds, astype of all arrays *)

Inductive dop :=
| DFill (pos : nat) (w : Qc) (k : string)
| DFillN (poss : list nat) (ws : option (list Qc)) (wdt : dt)
| DAdd (o : dh) | DSub (o : dh)
| DMul (c : Qc) (k : string) | DDiv (c : Qc) (k : string)
| DNorm
| DMerge (amount : nat)
| DSet (t : dt).

Definition d_shape (h : dh) := map axis_len (y_axes h).
Definition same_axes (a b : dh) : bool :=
  all2 Nat.eqb (d_shape a) (d_shape b) && all2 bins_allclose (map axis_bins (y_axes a)) (map axis_bins (y_axes b)).

Definition xvadd' (a b : list xnum) : list xnum := map (fun p => xadd (fst p) (snd p)) (combine a b).
Definition xvsub (a b : list xnum) : list xnum := map (fun p => xadd (fst p) (xscale (- (1)) (snd p))) (combine a b).

(** result: new state and whether the call raised *)
Definition dstep (h : dh) (o : dop) : dh * bool :=
  match o with
  | DFill pos w k =>
      match kind_dt k with
      | None => (h, true)
      | Some d => let h1 := dcoerce h d in       (* in-place += on the arrays: their dtypes stay *)
                  (mkDh (y_axes h1) (y_dt h1) (y_fdt h1) (y_edt h1) (add_at pos w (y_freq h1)) (add_at pos (w * w) (y_err2 h1)) (y_missed h1), false)
      end
  | DFillN poss ws wdt =>
      let h1 := match ws with Some _ => dcoerce h wdt | None => h end in
      let w := match ws with Some l => l | None => map (fun _ => 1) poss end in
      let f := fold_left (fun acc p => add_at (fst p) (snd p) acc) (combine poss w) (y_freq h1) in
      let e := fold_left (fun acc p => add_at (fst p) (snd p * snd p) acc) (combine poss w) (y_err2 h1) in
      (mkDh (y_axes h1) (y_dt h1) (y_fdt h1) (y_edt h1) f e (y_missed h1), false)
  | DAdd o =>
      if negb (Nat.eqb (length (y_axes h)) (length (y_axes o))) then (h, true) else
      if negb (same_axes h o) then
        (* adaptive branch of __iadd__ *)
        if negb (forallb axis_adaptive (y_axes h)) then (h, true) else
        if xpos (fold_right xadd (Fin 0) (y_missed o)) then (h, true) else
        if negb (forallb (fun a => match a with AFixed _ _ _ _ _ _ => true | _ => false end) (y_axes o)) then (h, true) else
        let h1 := dcoerce h (y_dt o) in
        match adapt_axes 0 (y_axes h1) (y_axes o) (d_shape h1) (d_shape o) (y_freq h1) (y_err2 h1) (y_freq o) (y_err2 o) with
        | Err _ => (h1, true)
        | Ok (axs, f1, e1, f2, e2) =>
            (mkDh axs (y_dt h1) (promote (y_fdt h1) (y_fdt o)) (promote (y_edt h1) (y_edt o)) (vadd f1 f2) (vadd e1 e2) (y_missed h1), false)
        end
      else
      let h1 := dcoerce h (y_dt o) in
      (mkDh (y_axes h1) (y_dt h1) (promote (y_fdt h1) (y_fdt o)) (promote (y_edt h1) (y_edt o))
            (vadd (y_freq h1) (y_freq o)) (vadd (y_err2 h1) (y_err2 o)) (xvadd' (y_missed h1) (y_missed o)), false)
  | DSub o =>
      if negb (same_axes h o) then (h, true) else
      let f := map (fun p => fst p - snd p) (combine (y_freq h) (y_freq o)) in
      if negb (nonneg f) then (h, true) else
      let h1 := dcoerce h (y_dt o) in           (* frequencies.astype(self.dtype) *)
      (mkDh (y_axes h1) (y_dt h1) (y_dt h1) (y_dt h1) f (vadd (y_err2 h1) (y_err2 o)) (xvsub (y_missed h1) (y_missed o)), false)
  | DMul c k =>
      match kind_dt k with
      | None => (h, true)
      | Some d =>
          if Qcltb c 0 then (h, true) else      (* a negative factor is refused before anything is touched *)
          let h1 := dcoerce h d in
          let f := map (Qcmult c) (y_freq h1) in
          if negb (nonneg f) then (h1, true) else
          (mkDh (y_axes h1) (y_dt h1) (promote (y_fdt h1) d) (promote (y_edt h1) d) f (map (Qcmult (c * c)) (y_err2 h1))
                (map (xscale c) (y_missed h1)), false)
      end
  | DDiv c k =>
      match kind_dt k with
      | None => (h, true)
      | Some d =>
          if Qcltb c 0 then (h, true) else
          let h1 := dcoerce h (promote F64 d) in
          let f := map (fun x => x / c) (y_freq h1) in
          if negb (nonneg f) then (h1, true) else
          let rd (a : dt) := if dt_is_int d then a else promote a d in      (* numpy: float array / scalar *)
          (mkDh (y_axes h1) (y_dt h1) (rd (y_fdt h1)) (rd (y_edt h1)) f (map (fun x => x / (c * c)) (y_err2 h1))
                (map (xscale (/ c)) (y_missed h1)), false)
      end
  | DNorm =>
      let t := sumq (y_freq h) in
      let h1 := dcoerce h F64 in
      (mkDh (y_axes h1) (y_dt h1) (y_fdt h1) (y_edt h1) (map (fun x => x / t) (y_freq h1)) (map (fun x => x / (t * t)) (y_err2 h1))
            (map (xscale (/ t)) (y_missed h1)), false)
  | DMerge a =>
      let shape := d_shape h in
      let n := nth 0 shape 0%nat in
      let m := amount_map n a in
      match bins_apply_map (axis_bins (nth 0 (y_axes h) (AStatic [] true))) m with
      | None => (h, true)
      | Some nb =>
          (mkDh (set_at 0 (AStatic nb false) (y_axes h)) (y_dt h) (y_fdt h) (y_fdt h)     (* both new arrays get frequencies' dtype *)
                (remap_axis shape 0 m (length nb) (y_freq h)) (remap_axis shape 0 m (length nb) (y_err2 h)) (y_missed h), false)
      end
  | DSet t => match set_dtype h t with Some h' => (h', false) | None => (h, true) end
  end.

Fixpoint drun (h : dh) (ops : list dop) : list (dh * bool) :=
  match ops with [] => [] | o :: r => let x := dstep h o in x :: drun (fst x) r end.

Definition consistent (h : dh) : bool := dt_eqb (y_dt h) (y_fdt h) && dt_eqb (y_dt h) (y_edt h).

(** ---------- codec / checker ---------- *)
Definition d_dh (s : sx) : option dh :=
  ax <- (x <- fld "axes" s ;; d_list d_axisd x) ;;
  d <- (x <- fld "dtype" s ;; d_dt x) ;;
  f <- (x <- fld "freq" s ;; d_list d_q x) ;;
  e <- (x <- fld "err2" s ;; d_list d_q x) ;;
  m <- (x <- fld "missed" s ;; d_list d_x x) ;;
  ret (mkDh ax d d d f e m).
Definition d_dop (s : sx) : option dop :=
  match s with
  | LL [SS "fill"; p; w; SS k] => p <- d_nat p ;; w <- d_q w ;; ret (DFill p w k)
  | LL [SS "fill_n"; ps; ws; wd] => ps <- d_list d_nat ps ;; ws <- d_opt (d_list d_q) ws ;; wd <- d_dt wd ;; ret (DFillN ps ws wd)
  | LL [SS "add"; o] => o <- d_dh o ;; ret (DAdd o)
  | LL [SS "sub"; o] => o <- d_dh o ;; ret (DSub o)
  | LL [SS "mul"; c; SS k] => c <- d_q c ;; ret (DMul c k)
  | LL [SS "div"; c; SS k] => c <- d_q c ;; ret (DDiv c k)
  | LL [SS "normalize"] => Some DNorm
  | LL [SS "merge"; a] => a <- d_nat a ;; ret (DMerge a)
  | LL [SS "set"; t] => t <- d_dt t ;; ret (DSet t)
  | _ => None end.
Record c13 := { g_h : dh; g_ops : list dop }.
Definition d_c13 (s : sx) : option c13 :=
  h <- (x <- fld "hist" s ;; d_dh x) ;; o <- (x <- fld "ops" s ;; d_list d_dop x) ;; ret (Build_c13 h o).
Definition wf_dh (h : dh) : bool :=
  Nat.eqb (length (y_freq h)) (size (d_shape h)) && Nat.eqb (length (y_err2 h)) (size (d_shape h)) &&
  nonneg (y_freq h) && nonneg (y_err2 h) && forallb (fun a => risingb (axis_bins a)) (y_axes h) && negb (Nat.eqb (length (y_axes h)) 0).
Definition wf_dop (o : dop) : bool :=
  match o with
  | DAdd x | DSub x => wf_dh x
  | DDiv c _ => negb (Qceqb c 0)
  | DMerge a => negb (Nat.eqb a 0)
  | _ => true end.
Definition wf_c13 (c : c13) : bool := wf_dh (g_h c) && forallb wf_dop (g_ops c).

Definition e_dstep (x : dh * bool) : sx :=
  LL [SS (if snd x then "refused" else "ok"); e_dt (y_dt (fst x)); e_dt (y_fdt (fst x)); e_dt (y_edt (fst x));
      e_qs (y_freq (fst x)); e_qs (y_err2 (fst x))].

(** the property on one observed step: consistency, the expected dtype and (exact) values, refusal exactly where required *)
Definition check_dstep (x : dh * bool) (obs : sx) : bool :=
  match obs with
  | LL [SS r; d; fd; ed; f; e] =>
      match d_dt d, d_dt fd, d_dt ed, d_list d_q f, d_list d_q e with
      | Some d, Some fd, Some ed, Some f, Some e =>
          dt_eqb d fd && dt_eqb d ed &&
          dt_eqb d (y_dt (fst x)) && closel (mkq 1 1000) (y_freq (fst x)) f && closel (mkq 1 1000) (y_err2 (fst x)) e &&
          String.eqb r (if snd x then "refused" else "ok")
      | _, _, _, _, _ => false end
  | _ => false end.
(** normalising an all-zero histogram divides by zero: outside the property; checking stops there *)
Fixpoint check_druns (h : dh) (ops : list dop) (obs : list sx) : bool :=
  match ops, obs with
  | [], [] => true
  | o :: r, ob :: obs' =>
      if (match o with DNorm => Qceqb (sumq (y_freq h)) 0 | _ => false end) then true
      else let x := dstep h o in check_dstep x ob && check_druns (fst x) r obs'
  | _, _ => false end.
Definition check_C13 (c : c13) (obs : sx) : bool :=
  match obs with LL l => check_druns (g_h c) (g_ops c) l | _ => false end.
Definition all_dts : list dt := [I16; I32; I64; F16; F32; F64; F128].
Definition tables : sx :=
  LL [LL (map (fun a => LL (map (fun b => e_dt (promote a b)) all_dts)) all_dts);
      LL (map (fun a => LL (map (fun b => e_bool (can_cast a b)) all_dts)) all_dts);
      LL (map (fun a => e_opt QQ (dt_max a)) all_dts); LL (map (fun a => e_opt QQ (dt_min a)) all_dts)].

Definition judge_C13 (case obs : sx) : sx :=
  match fld "table" case with
  | Some _ => LL [SS (if sx_eqb obs tables then "ok" else "bad"); tables]      (* the finite numpy tables, compared exhaustively *)
  | None =>
  match d_c13 case with
  | None => LL [illformed; SS "decode"]
  | Some c =>
      if negb (wf_c13 c) then LL [illformed; SS "wf"] else
      LL [SS (if check_C13 c obs then "ok" else "bad"); e_list e_dstep (drun (g_h c) (g_ops c))]
  end end.
