(** C20: what a plot must show. The drawing libraries are not modelled: the marks they were handed are read back from the
    artists / traces / captured text and judged against the data the histogram prescribes. *)
From Coq Require Import Qround.
From Physt Require Export Geometry Adaptive.
Local Open Scope Qc_scope.

Definition peps : Qc := mkq 1 1000000000000.
Definition pnear (scale a b : Qc) : bool := Qcleb (Qcabs (a - b)) (peps * (scale + Qcabs a + Qcabs b)).

(** values to be drawn: frequencies, densities, cumulative sums, cumulative fractions *)
Definition plot_data (density cumulative : bool) (freq sizes : list Qc) : list Qc :=
  if density then
    if cumulative then running 0 (map (fun f => f / sumq freq) freq)
    else map (fun p => fst p / snd p) (combine freq sizes)
  else if cumulative then running 0 freq else freq.

(** colour scale: clip((v - lo) / (hi - lo)) *)
Definition cnorm (lo hi v : Qc) : Qc :=
  if Qcleb v lo then 0 else if Qcleb hi v then 1 else (v - lo) / (hi - lo).

(** ticks at the multiples of [u] inside [lo, hi] *)
Definition ticks_spec (lo hi u : Qc) : list Qc :=
  let a := qceil (lo / u) in let b := qfloor (hi / u) in
  map (fun k => qz (a + Z.of_nat k) * u) (seq 0 (Z.to_nat (b - a + 1))).

(** image layout: row r (from the top), column c shows bin (c, ny - 1 - r) *)
Definition image_layout (nx ny : nat) (data : list Qc) : list Qc :=
  concat (map (fun r => map (fun c => nth (c * ny + (ny - 1 - r)) data 0) (seq 0 nx)) (seq 0 ny)).

(** ---------- judge ---------- *)
Definition d_pts (s : sx) : option (list (Qc * Qc)) := d_list (d_pair d_q d_q) s.
Definition all2n {A B} (f : A -> B -> bool) (a : list A) (b : list B) : bool := Nat.eqb (length a) (length b) && all2 f a b.
Definition monotone_colour (vals ts : list Qc) : bool :=
  forallb (fun p => forallb (fun q => if Qcltb (fst p) (fst q) then Qcleb (snd p) (snd q) else true) (combine vals ts)) (combine vals ts).

Definition judge_plot1 (case obs : sx) : sx :=
  match (x <- fld "bins" obs ;; d_bins x), (x <- fld "freq" obs ;; d_list d_q x), (x <- fld "err2" obs ;; d_list d_q x),
        (x <- fld "density" case ;; d_bool x), (x <- fld "cumulative" case ;; d_bool x), (x <- fld "errors" case ;; d_bool x),
        (x <- fld "kind" case ;; d_str x) with
  | Some bins, Some freq, Some err2, Some dens, Some cum, Some errs, Some kind =>
      let must_refuse := (errs && cum) || (dens && cum && Qceqb (sumq freq) 0) in
      if sx_eqb obs (SS "refused") then LL [SS (if must_refuse then "ok" else "bad"); SS "refused"] else
      match fld "refused" obs with Some _ => LL [SS (if must_refuse then "ok" else "bad"); SS "refused"] | None =>
      let sizes := map (fun b => snd b - fst b) bins in
      let data := plot_data dens cum freq sizes in
      let scale := qmaxl data in
      let lefts := map fst bins in let rights := map snd bins in
      let centres := map (fun b => (fst b + snd b) / qz 2) bins in
      let xs_scale := qmaxl (lefts ++ rights) in
      let mk := fun (ms : list (list Qc)) (data : list Qc) (scale : Qc) =>
            if String.eqb kind "bar" then
              all2n (fun m p => match m with [x; w; h] => Qceqb x (fst (fst p)) && pnear xs_scale w (snd (fst p) - fst (fst p)) && pnear scale h (snd p) | _ => false end) ms (combine bins data)
            else if String.eqb kind "plotly_bar" then
              all2n (fun m p => match m with [x; w; h] => pnear xs_scale x ((fst (fst p) + snd (fst p)) / qz 2) && pnear xs_scale w (snd (fst p) - fst (fst p)) && pnear scale h (snd p) | _ => false end) ms (combine bins data)
            else if String.eqb kind "step" then
              all2n (fun m p => match m with [x; y] => Qceqb x (fst p) && pnear scale y (snd p) | _ => false end) ms
                    (combine (to_edges bins) (match data with [] => [] | d0 :: _ => d0 :: data end))
            else if String.eqb kind "fill" then
              (* every (centre, value) is a vertex, every vertex is (centre, value) or (centre, 0) *)
              forallb (fun p => existsb (fun m => match m with [x; y] => pnear xs_scale x (fst p) && pnear scale y (snd p) | _ => false end) ms) (combine centres data) &&
              forallb (fun m => match m with [x; y] => existsb (fun p => pnear xs_scale x (fst p) && (pnear scale y (snd p) || pnear scale y 0)) (combine centres data) | _ => false end) ms
            else   (* scatter, line, plotly scatter / line *)
              all2n (fun m p => match m with [x; y] => pnear xs_scale x (fst p) && pnear scale y (snd p) | _ => false end) ms (combine centres data)
      in
      let marks_ok :=
        match (x <- fld "marks" obs ;; d_list (d_list d_q) x) with Some ms => mk ms data scale | None => false end &&
        (* a second member of a histogram collection drawn into the same axes *)
        match fld "freq2" obs with
        | Some f2 => match d_list d_q f2, (x <- fld "marks2" obs ;; d_list (d_list d_q) x) with
                     | Some freq2, Some ms2 => let data2 := plot_data dens cum freq2 sizes in mk ms2 data2 (qmaxl data2)
                     | _, _ => false end
        | None => true end in
      let err_ok :=
        if errs then
          match (x <- fld "errbars" obs ;; d_list (d_list d_q) x) with
          | Some es =>
              all2n (fun e p => match e with [x; ylo; yhi] =>
                                  let half := (yhi - ylo) / qz 2 in
                                  let want2 := if dens then snd (fst p) / (snd (snd p) * snd (snd p)) else snd (fst p) in
                                  Qcleb 0 half && pnear (scale * scale) (half * half) want2 && pnear scale ((yhi + ylo) / qz 2) (fst (fst p))
                                | _ => false end) es (combine (combine data err2) (combine centres sizes))
          | None => false end
        else true in
      let values_ok := match fld "texts" obs with
                       | Some (SS "n/a") | None => true
                       | Some t => match d_list (d_list d_q) t with
                                   | Some ts => all2n (fun m p => match m with [x; y] => pnear xs_scale x (fst p) && pnear scale y (snd p) | _ => false end) ts (combine centres data)
                                   | None => false end end in
      let labels_ok := match fld "labels" obs, fld "want_labels" case with Some a, Some b => sx_eqb a b | _, _ => false end in
      let ticks_ok := match fld "ticks" case, (x <- fld "xticks" obs ;; d_list d_q x) with
                      | Some (SS "center"), Some t => all2n (pnear xs_scale) t centres
                      | Some (SS "edge"), Some t => all2n Qceqb t lefts
                      | Some (LL [SS "time"; u; lo; hi]), Some t =>      (* tick_handler=TimeTickHandler(u seconds) on an axis limited to [lo, hi] *)
                          match d_q u, d_q lo, d_q hi with
                          | Some u, Some lo, Some hi => all2n (pnear xs_scale) t (ticks_spec lo hi u)
                          | _, _, _ => false end
                      | Some (SS "none"), _ => true
                      | _, _ => false end in
      let same := match fld "unchanged" obs with Some (SS "T") => true | _ => false end in
      LL [SS (if negb must_refuse && marks_ok && err_ok && values_ok && labels_ok && ticks_ok && same then "ok" else "bad"); e_qs data;
          LL [e_bool must_refuse; e_bool marks_ok; e_bool err_ok; e_bool values_ok; e_bool labels_ok; e_bool ticks_ok; e_bool same]]
      end
  | _, _, _, _, _, _, _ => LL [illformed; SS "plot1"]
  end.

Definition judge_plot2 (case obs : sx) : sx :=
  match (x <- fld "axes" obs ;; d_list d_bins x), (x <- fld "freq" obs ;; d_list d_q x), (x <- fld "density" case ;; d_bool x),
        (x <- fld "kind" case ;; d_str x), (x <- fld "show_zero" case ;; d_bool x) with
  | Some [ax; ay], Some freq, Some dens, Some kind, Some show_zero =>
      match fld "refused" obs with
      | Some _ =>
          let must := String.eqb kind "image" && negb (is_regular_tol ax && is_regular_tol ay) in
          LL [SS (if must then "ok" else "bad"); SS "refused"]
      | None =>
      let nx := length ax in let ny := length ay in
      let sizes := if String.eqb kind "polar_map"
                   then bin_sizes "PolarHistogram" 0 [ax; ay] [map (fun _ => (0, 0)) ax; map (fun _ => (0, 0)) ay]
                   else outer [map (fun b => snd b - fst b) ax; map (fun b => snd b - fst b) ay] in
      let data := plot_data dens false freq sizes in
      let scale := qmaxl data in
      let pos_scale := qmaxl (map fst ax ++ map snd ax ++ map fst ay ++ map snd ay) in
      let cells := concat (map (fun bx => map (fun by_ => (bx, by_)) ay) ax) in
      let marks_ok :=
        if String.eqb kind "map" then
          match (x <- fld "rects" obs ;; d_list (d_list d_q) x) with
          | Some rs =>
              let want := filter (fun p => show_zero || negb (Qceqb (snd p) 0)) (combine cells data) in
              all2n (fun r p => match r with [x; y; w; h; _] =>
                                  let '(bx, by_) := fst p in
                                  Qceqb x (fst bx) && Qceqb y (fst by_) && pnear pos_scale w (snd bx - fst bx) && pnear pos_scale h (snd by_ - fst by_)
                                | _ => false end) rs want &&
              monotone_colour (map snd want) (map (fun r => nth 4 r 0) rs)
          | None => false end
        else if String.eqb kind "polar_map" then
          (* bars in polar axes: x = phi, bottom = r, width = dphi, height = dr; axis 0 is r, axis 1 is phi *)
          match (x <- fld "rects" obs ;; d_list (d_list d_q) x) with
          | Some rs =>
              let want := filter (fun p => show_zero || Qcltb 0 (snd p)) (combine cells data) in
              all2n (fun r p => match r with [x; y; w; h; _] =>
                                  let '(bx, by_) := fst p in
                                  Qceqb x (fst by_) && Qceqb y (fst bx) && pnear pos_scale w (snd by_ - fst by_) && pnear pos_scale h (snd bx - fst bx)
                                | _ => false end) rs want &&
              monotone_colour (map snd want) (map (fun r => nth 4 r 0) rs)
          | None => false end
        else if String.eqb kind "bar3d" then
          (* one box per bin, anchored at the bin's lower corner, as high as the value *)
          match (x <- fld "boxes" obs ;; d_list (d_list d_q) x) with
          | Some bs =>
              all2n (fun b p => match b with [x; y; z; dx; dy; dz] =>
                                  let '(bx, by_) := fst p in
                                  Qceqb x (fst bx) && Qceqb y (fst by_) && Qceqb z 0 && pnear pos_scale dx (snd bx - fst bx) &&
                                  pnear pos_scale dy (snd by_ - fst by_) && pnear scale dz (snd p)
                                | _ => false end) bs (combine cells data)
          | None => false end
        else if String.eqb kind "image" then
          match (x <- fld "image" obs ;; d_list d_q x), (x <- fld "extent" obs ;; d_list d_q x) with
          | Some img, Some [x0; x1; y0; y1] =>
              is_regular_tol ax && is_regular_tol ay &&      (* equal pixels cannot show unequal bins *)
              all2n (pnear scale) img (image_layout nx ny data) &&
              Qceqb x0 (first_edge ax) && Qceqb x1 (last_edge ax) && Qceqb y0 (first_edge ay) && Qceqb y1 (last_edge ay)
          | _, _ => false end
        else if String.eqb kind "plotly_map" then
          match (x <- fld "z" obs ;; d_list d_q x), (x <- fld "zx" obs ;; d_list d_q x), (x <- fld "zy" obs ;; d_list d_q x) with
          | Some z, Some zx, Some zy =>
              (* z[row = y index][column = x index] with the bin edges as coordinates *)
              all2n (pnear scale) z (concat (map (fun j => map (fun i => nth (i * ny + j) freq 0) (seq 0 nx)) (seq 0 ny))) &&
              all2n Qceqb zx (to_edges ax) && all2n Qceqb zy (to_edges ay)
          | _, _, _ => false end
        else false in
      let labels_ok := match fld "labels" obs, fld "want_labels" case with Some a, Some b => sx_eqb a b | _, _ => false end in
      let same := match fld "unchanged" obs with Some (SS "T") => true | _ => false end in
      LL [SS (if marks_ok && labels_ok && same then "ok" else "bad"); e_qs data; LL [e_bool marks_ok; e_bool labels_ok; e_bool same]]
      end
  | _, _, _, _, _ => LL [illformed; SS "plot2"]
  end.

Definition judge_ticks (case obs : sx) : sx :=
  match (x <- fld "lo" case ;; d_q x), (x <- fld "hi" case ;; d_q x), (x <- fld "unit" case ;; d_q x),
        (x <- fld "ticks" obs ;; d_list d_q x), (x <- fld "nlabels" obs ;; d_nat x), fld "level" case with
  | Some lo, Some hi, Some u, Some t, Some nl, Some lvl =>
      let want := match lvl, (x <- fld "reference" obs ;; d_list d_q x) with
                  | SS "edge", Some r | SS "center", Some r => r
                  | _, _ => ticks_spec lo hi u end in
      LL [SS (if all2n (pnear (Qcabs lo + Qcabs hi)) t want && Nat.eqb nl (length t) then "ok" else "bad"); e_qs want]
  | _, _, _, _, _, _ => LL [illformed; SS "ticks"]
  end.

Definition judge_refusal (case obs : sx) : sx :=
  LL [SS (if sx_eqb obs (SS "refused") then "ok" else "bad"); SS "refused"].

Definition judge_ascii (case obs : sx) : sx :=
  match (x <- fld "freq" obs ;; d_list d_q x), (x <- fld "width" case ;; d_q x), (x <- fld "lengths" obs ;; d_list d_z x) with
  | Some freq, Some w, Some ls =>
      let tot := sumq freq in
      (* "#" * round(f / total * width): within half a character of the exact proportion *)
      let ok := all2n (fun l f => Qcleb (Qcabs (qz l - f / tot * w)) (mkq 1 2 + mkq 1 1000000)) ls freq in
      let vals := match fld "values" obs, fld "freq" obs with Some (SS "n/a"), _ => true | Some v, Some f => sx_eqb v f | _, _ => false end in
      LL [SS (if ok && vals then "ok" else "bad"); SS "-"]
  | _, _, _ => LL [illformed; SS "ascii"] end.

Definition judge_C20 (case obs : sx) : sx :=
  match fld "what" case with
  | Some (SS "plot1") => judge_plot1 case obs
  | Some (SS "plot2") => judge_plot2 case obs
  | Some (SS "ticks") => judge_ticks case obs
  | Some (SS "refusal") => judge_refusal case obs
  | Some (SS "ascii") => judge_ascii case obs
  | _ => LL [illformed; SS "what"] end.
