(** C12: ownership model. A histogram object is a record of heap locations (one per mutable component: each
    binning object, the frequencies, errors2 and missed arrays, the metadata dict). Derivations allocate what they
    return; mutations write only through the receiver. *)
From Physt Require Export Atomic.
Local Open Scope nat_scope.

Definition loc := nat.
Record obj := mkObj { o_bins : list loc; o_freq : loc; o_err2 : loc; o_missed : loc; o_meta : loc }.
Definition locs (o : obj) : list loc := o_bins o ++ [o_freq o; o_err2 o; o_missed o; o_meta o].

(** the heap maps locations to opaque values (numbers stand for "some content") *)
Definition heap := loc -> nat.
Definition write (h : heap) (l : loc) (v : nat) : heap := fun x => if Nat.eqb x l then v else h x.
Definition observe (h : heap) (o : obj) : list nat := map h (locs o).

Record world := mkW { w_heap : heap; w_next : loc; w_objs : list obj }.

(** a derivation with [nb] binnings: everything it returns is freshly allocated (values: any function of the heap) *)
Definition fresh_obj (next : loc) (nb : nat) : obj :=
  mkObj (seq next nb) (next + nb) (next + nb + 1) (next + nb + 2) (next + nb + 3).
Definition alloc_size (nb : nat) : nat := (nb + 4)%nat.

Inductive hop :=
| HDerive (src : nat) (nb : nat) (init : loc -> nat)      (* copy, arithmetic, normalize, merge copy, projection, selection, T, ... *)
| HMutate (tgt : nat) (which : nat) (v : nat).            (* fill / in-place arithmetic / dtype / metadata / in-place merge:
                                                             writes component number [which] of object [tgt] *)

Definition hstep (w : world) (o : hop) : world :=
  match o with
  | HDerive _ nb init =>
      let ob := fresh_obj (w_next w) nb in
      mkW (fold_left (fun h l => write h l (init l)) (locs ob) (w_heap w)) (w_next w + alloc_size nb) (w_objs w ++ [ob])
  | HMutate tgt which v =>
      match nth_error (w_objs w) tgt with
      | Some ob => match nth_error (locs ob) which with
                   | Some l => mkW (write (w_heap w) l v) (w_next w) (w_objs w)
                   | None => w end
      | None => w end
  end.

Definition hrun (w : world) (ops : list hop) : world := fold_left hstep ops w.

Definition below (n : loc) (o : obj) : Prop := Forall (fun l => (l < n)%nat) (locs o).
Definition disjoint (a b : obj) : Prop := forall l, In l (locs a) -> ~ In l (locs b).
Definition owned (w : world) : Prop :=
  Forall (below (w_next w)) (w_objs w) /\
  (forall i j a b, i <> j -> nth_error (w_objs w) i = Some a -> nth_error (w_objs w) j = Some b -> disjoint a b).

(** ---------- what the harness reports about the implementation ---------- *)
(** [shared; other_unchanged; both_wellformed; result_ok] *)
Definition check_C12 (obs : sx) : bool :=
  match obs with
  | LL [LL shared; u; wf; ok] =>
      match shared with [] => true | _ => false end &&
      match u, wf, ok with SS "T", SS "T", SS "T" => true | _, _, _ => false end
  | _ => false end.

Definition judge_C12 (case obs : sx) : sx :=
  LL [SS (if check_C12 obs then "ok" else "bad"); LL [LL []; SS "T"; SS "T"; SS "T"]].
