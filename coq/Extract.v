(** Extraction: ExtrOcamlBasic only (bool, option, unit, list, prod, sumbool, sumor).
    positive, Z, Q, Qc, ascii, string stay the extracted Coq datatypes. *)
From Physt Require Import Dispatch.
Require Import ExtrOcamlBasic.
Extraction "model.ml" Dispatch.run.
