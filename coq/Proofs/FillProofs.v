From Physt Require Import Fill OrderQc SweepProofs Calc1DProofs FindProofs IndexProofs CalcNDProofs SxLemmas.

(** an operation never enters a NaN through single fill (the recorded finding F19 lives there) *)
Definition is_fin (x : xnum) : bool := match x with Fin _ => true | _ => false end.
(** no single fill() enters an infinite coordinate (rows with a NaN are skipped, whatever else they contain) *)
Definition nan_free (o : fop) : bool :=
  match o with Fill v _ => forallb is_fin v || existsb is_nan v | FillN _ _ _ => true end.
Lemma all_fin_no_nan v : forallb is_fin v = true -> existsb is_nan v = false.
Proof. induction v as [|x v IH]; simpl; auto. destruct x; simpl; auto; discriminate. Qed.

Lemma calc1d_is_spec ps bins : risingb bins = true -> calc1d ps bins = calc1_spec ps bins.
Proof.
  intros H. unfold calc1d, calc1_spec. fold isortQ.
  rewrite (sweep_is_spec ps bins (risingb_bins_ok _ H)).
  assert (Hu : match bins with b :: _ => wsum (firstn (ss_left Qcltb (fst b) (isortQ ps)) (isortQ ps)) | [] => 0 end
               = spec_under ps bins).
  { unfold spec_under. destruct bins as [|b r]; auto. apply under_is_spec. }
  rewrite Hu, (over_is_spec ps (last_hi bins)). reflexivity.
Qed.

Lemma axes_ok_nth s : axes_ok (s_axes s) -> is1d s = true ->
  risingb (fst (nth 0 (s_axes s) ([], true))) = true /\ fst (nth 0 (s_axes s) ([], true)) <> [].
Proof.
  intros H H1. unfold is1d in H1. destruct (s_axes s) as [|a [|a' r]]; try discriminate.
  inversion H; subst. cbn [nth]. auto.
Qed.

Lemma find_nd_coded_spec s v : axes_ok (s_axes s) -> forallb is_fin v = true ->
  find_nd find_axis_coded s v = find_nd find_axis_spec s v.
Proof.
  intros H Hn. unfold find_nd. apply mapM_ext_in. intros [[bins incl] x] Hin. cbn [fst snd].
  pose proof (in_combine_l _ _ _ _ Hin) as Ha. pose proof (in_combine_r _ _ _ _ Hin) as Hx.
  unfold axes_ok in H. rewrite Forall_forall in H. destruct (H _ Ha) as [H1 H2]. cbn [fst] in *.
  rewrite forallb_forall in Hn. specialize (Hn x Hx).
  destruct x as [q| | |]; try discriminate.
  rewrite find_coded_is_spec; auto.
Qed.

(** one step: the code's step is the specification's step *)
Theorem step_coded_is_spec s o : axes_ok (s_axes s) -> nan_free o = true -> step_coded s o = step_spec s o.
Proof.
  intros Hax Hnf. unfold step_coded, step_spec, step. destruct o as [v w|rows ws wok].
  - simpl in Hnf. destruct (existsb is_nan v) eqn:En.
    { destruct (negb (Nat.eqb (length v) (length (s_axes s)))); reflexivity. }
    rewrite orb_false_r in Hnf. cbn [andb].
    destruct (negb (Nat.eqb (length v) (length (s_axes s)))) eqn:El; auto.
    destruct (is1d s) eqn:E1.
    + destruct (axes_ok_nth s Hax E1) as [Hr Hne]. unfold fill_1d.
      destruct v as [|x v']. { apply negb_false_iff, Nat.eqb_eq in El. unfold is1d in E1. apply Nat.eqb_eq in E1. simpl in El. lia. }
      cbn [hd]. simpl in Hnf. destruct x as [q| | |]; try discriminate.
      rewrite find_coded_is_spec; auto.
    + unfold fill_nd. rewrite find_nd_coded_spec; auto.
  - destruct ((match ws with Some _ => negb wok | None => false end) || _); auto.
    destruct (is1d s) eqn:E1.
    + destruct (axes_ok_nth s Hax E1) as [Hr Hne]. destruct (pairs_1d rows ws); auto. rewrite calc1d_is_spec; auto.
    + destruct (rows_of rows ws); auto. rewrite calc_nd_coded_is_spec; auto.
Qed.

Lemma step_axes st1 st2 st3 b s o : s_axes (fst (step b st1 st2 st3 s o)) = s_axes s.
Proof.
  unfold step. destruct o as [v w|rows ws wok].
  - destruct (negb _); auto. destruct (b && _); auto. destruct (is1d s).
    + unfold fill_1d. destruct (st1 _ _ _); reflexivity.
    + unfold fill_nd. destruct (find_nd _ _ _); reflexivity.
  - destruct (_ || _); auto. destruct (is1d s).
    + destruct (pairs_1d rows ws); auto. destruct (st2 _ _) as [[fe u] o']. reflexivity.
    + destruct (rows_of rows ws); auto.
Qed.

Theorem run_coded_is_spec : forall ops s, axes_ok (s_axes s) -> forallb nan_free ops = true ->
  run_hist step_coded s ops = run_hist step_spec s ops.
Proof.
  induction ops as [|o ops IH]; intros s Hax Hnf; simpl; auto.
  simpl in Hnf. apply andb_true_iff in Hnf. destruct Hnf as [Ho Hops].
  rewrite (step_coded_is_spec s o Hax Ho).
  destruct (step_spec s o) as [s' ret] eqn:E. f_equal. apply IH; auto.
  assert (Hs' : s_axes s' = s_axes s).
  { pose proof (step_axes find_axis_spec calc1_spec axis_index_spec true s o) as G. unfold step_spec in E. rewrite E in G. exact G. }
  rewrite Hs'. exact Hax.
Qed.

(** the checker accepts the specification's own step (encode / decode / compare are consistent) *)
Lemma all2_xeqb_refl l : all2 xeqb l l = true.
Proof. induction l as [|x l IH]; simpl; auto. rewrite xeqb_refl, IH. reflexivity. Qed.
Lemma all2_zeqb_refl l : all2 Z.eqb l l = true.
Proof. induction l as [|x l IH]; simpl; auto. rewrite Z.eqb_refl, IH. reflexivity. Qed.
Lemma mapM_dz l : mapM d_z (map ZZ l) = Some l.
Proof. induction l as [|x l IH]; simpl; auto. rewrite IH. reflexivity. Qed.

Lemma missed_agree_shown s : missed_agree s (s_missed s) (shown_missed s) = true.
Proof.
  unfold missed_agree, shown_missed. destruct (s_keep s); cbn [negb andb].
  - rewrite andb_false_r. destruct (is1d s); [destruct (all_exact s)|]; auto using all2_xeqb_refl.
  - destruct (is1d s); cbn [andb]; auto using all2_xeqb_refl.
Qed.

Lemma check_step_refl p : check_step p (e_step p) = true.
Proof.
  unfold check_step, e_step. rewrite !d_qs_e_qs, d_xs_e_xs.
  rewrite !closel0_refl, missed_agree_shown. cbn [andb].
  destruct (snd p); cbn [e_fret]; auto. rewrite mapM_dz. apply all2_zeqb_refl.
Qed.

Lemma all2_check_refl l : all2 check_step l (map e_step l) = true.
Proof. induction l as [|p l IH]; cbn [map all2]; auto. rewrite check_step_refl, IH. reflexivity. Qed.

Definition wf_axes (s : fstate) : bool := forallb (fun a => risingb (fst a) && negb (Nat.eqb (length (fst a)) 0)) (s_axes s).
Lemma wf_axes_ok s : wf_axes s = true -> axes_ok (s_axes s).
Proof.
  unfold wf_axes, axes_ok. rewrite forallb_forall, Forall_forall. intros H a Ha. specialize (H a Ha).
  apply andb_true_iff in H. destruct H as [H1 H2]. split; auto. intros E. rewrite E in H2. discriminate.
Qed.

(** Refinement for histories: at every step the specification's checker accepts the code's step *)
Theorem history_accepted c : wf_axes (f_init c) = true -> forallb nan_free (f_ops c) = true ->
  all2 check_step (run_hist step_spec (f_init c) (f_ops c)) (map e_step (run_hist step_coded (f_init c) (f_ops c))) = true.
Proof.
  intros H1 H2. rewrite (run_coded_is_spec _ _ (wf_axes_ok _ H1) H2). apply all2_check_refl.
Qed.
