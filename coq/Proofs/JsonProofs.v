From Physt Require Import Json SxLemmas.
Local Open Scope string_scope.

(** * association lists (dict.update) *)
Lemma lookup_map_replace k k' v l :
  lookup k (map (fun p => if String.eqb k' (fst p) then (k', v) else p) l) =
  if String.eqb k k' then match lookup k' l with Some _ => Some v | None => None end else lookup k l.
Proof.
  induction l as [|[k1 v1] l IH]; cbn [map lookup fst].
  - destruct (String.eqb k k'); reflexivity.
  - destruct (String.eqb_spec k' k1) as [E1|E1]; cbn [lookup].
    + subst k1. destruct (String.eqb_spec k k') as [E|E]; [reflexivity|]. rewrite IH.
      destruct (String.eqb_spec k k'); [contradiction|reflexivity].
    + destruct (String.eqb_spec k k1) as [E2|E2].
      * subst k1. destruct (String.eqb_spec k k'); [congruence|reflexivity].
      * rewrite IH. reflexivity.
Qed.

Lemma lookup_app k l m : lookup k (l ++ m)%list = match lookup k l with Some v => Some v | None => lookup k m end.
Proof. induction l as [|[k1 v1] l IH]; cbn [app lookup]; auto. destruct (String.eqb k k1); auto. Qed.

Lemma lookup_update1 k l kv : lookup k (update1 l kv) = if String.eqb k (fst kv) then Some (snd kv) else lookup k l.
Proof.
  destruct kv as [k' v]. unfold update1. cbn [fst snd].
  destruct (lookup k' l) eqn:E.
  - rewrite lookup_map_replace, E. reflexivity.
  - rewrite lookup_app. cbn [lookup]. destruct (String.eqb_spec k k') as [->|N].
    + rewrite E. reflexivity.
    + destruct (lookup k l); reflexivity.
Qed.

Definition keys (l : list (string * sx)) : list string := map fst l.

Lemma lookup_none_notin k l : lookup k l = None <-> ~ In k (keys l).
Proof.
  induction l as [|[k1 v1] l IH]; cbn [lookup keys map fst In]; [tauto|].
  destruct (String.eqb_spec k k1) as [->|N].
  - split; [discriminate|]. intros H. exfalso. apply H. left. reflexivity.
  - rewrite IH. unfold keys. split; intros H; [intros [E|E]; [congruence|auto]|tauto].
Qed.

Lemma lookup_update k : forall m l, NoDup (keys m) ->
  lookup k (update l m) = match lookup k m with Some v => Some v | None => lookup k l end.
Proof.
  unfold update. induction m as [|[k1 v1] m IH]; intros l ND; cbn [fold_left lookup]; [reflexivity|].
  inversion ND as [|? ? Hnin ND']; subst. rewrite IH by exact ND'. rewrite lookup_update1. cbn [fst snd].
  destruct (String.eqb_spec k k1) as [->|N].
  - apply lookup_none_notin in Hnin. rewrite Hnin. reflexivity.
  - reflexivity.
Qed.

Lemma remove_key_notin k l : ~ In k (keys l) -> remove_key k l = l.
Proof.
  induction l as [|[k1 v1] l IH]; cbn [remove_key keys map fst In]; [reflexivity|]. intros H.
  destruct (String.eqb_spec k k1) as [->|N]; [exfalso; apply H; left; reflexivity|]. f_equal. apply IH. unfold keys. tauto.
Qed.
Lemma remove_key_app k l m : remove_key k (l ++ m)%list = (remove_key k l ++ remove_key k m)%list.
Proof. induction l as [|[k1 v1] l IH]; cbn [app remove_key]; auto. destruct (String.eqb k k1); cbn [app]; congruence. Qed.

(** * decoders of the document encoding *)
Lemma mapM_d_item l : mapM d_item (map (fun p : string * sx => LL [SS (fst p); snd p]) l) = Some l.
Proof. induction l as [|[k v] l IH]; cbn [map mapM fst snd d_item]; [reflexivity|]. rewrite IH. reflexivity. Qed.

Lemma mapM_d_nat l : mapM d_nat (map e_nat l) = Some l.
Proof.
  induction l as [|n l IH]; cbn [map mapM]; [reflexivity|]. unfold e_nat at 1, d_nat at 1.
  destruct (0 <=? Z.of_nat n)%Z eqn:E; [|apply Z.leb_gt in E; lia]. rewrite Nat2Z.id. cbn [bind]. rewrite IH. reflexivity.
Qed.

Lemma jnum_e_x x : jnum (e_x x) = Some x.
Proof. destruct x; reflexivity. Qed.

Lemma field_items k (kv : list (string * sx)) : field k (map (fun p => LL [SS (fst p); snd p]) kv) = lookup k kv.
Proof. induction kv as [|[k1 v1] kv IH]; cbn [map field lookup fst snd]; [reflexivity|]. rewrite IH. reflexivity. Qed.

(** * numbers *)
Lemma this_qz m : this (qz m) = (m # 1)%Q.
Proof. unfold qz, Q2Qc. cbn [this]. apply Qred_identity. cbn. apply Z.gcd_1_r. Qed.

Lemma num_rt d x : cast d x = Some x -> jnum (num_doc (is_int_dt d) x) = Some x.
Proof.
  intros H. destruct (is_int_dt d) eqn:Ei; [|apply jnum_e_x].
  unfold cast in H. rewrite Ei in H. destruct x as [q| | |]; try discriminate.
  injection H as H. unfold num_doc. rewrite <- H at 1. rewrite this_qz. cbn [Qnum jnum d_x]. rewrite H. reflexivity.
Qed.

Lemma nums_rt d l : Forall (fun x => cast d x = Some x) l ->
  (xs <- mapM jnum (map (num_doc (is_int_dt d)) l) ;; mapM (cast d) xs) = Some l.
Proof.
  intros H. assert (A : mapM jnum (map (num_doc (is_int_dt d)) l) = Some l).
  { induction H as [|x l Hx Hl IH]; cbn [map mapM]; [reflexivity|]. rewrite (num_rt d x Hx). cbn [bind]. rewrite IH. reflexivity. }
  rewrite A. cbn [bind]. induction H as [|x l Hx Hl IH]; cbn [mapM]; [reflexivity|]. rewrite Hx. cbn [bind]. rewrite IH; [reflexivity|].
  clear -Hl. induction Hl as [|x l Hx Hl IH]; cbn [map mapM]; [reflexivity|]. rewrite (num_rt d x Hx). cbn [bind]. rewrite IH. reflexivity.
Qed.

(** * binnings *)
Definition is_fl (s : sx) : bool :=
  match s with QQ _ => true | SS t => String.eqb t "nan" || String.eqb t "inf" || String.eqb t "-inf" | _ => false end.
Definition homog (l : list sx) : bool := forallb is_zz l || forallb is_fl l.

Lemma as_float_fl s : is_fl s = true -> as_float s = Some s.
Proof.
  destruct s as [z|q|t|l]; cbn [is_fl]; try discriminate; intros H; [reflexivity|].
  apply orb_prop in H. destruct H as [H|H]; [apply orb_prop in H; destruct H as [H|H]|]; apply String.eqb_eq in H; subst; reflexivity.
Qed.
Lemma np_array_homog l : homog l = true -> np_array l = Some l.
Proof.
  unfold homog, np_array. destruct (forallb is_zz l) eqn:E; [reflexivity|]. cbn [orb]. intros H.
  induction l as [|s l IH]; cbn [mapM]; [reflexivity|]. cbn [forallb] in H, E. apply andb_prop in H. destruct H as [H1 H2].
  rewrite (as_float_fl s H1). cbn [bind]. destruct (is_zz s); cbn [andb] in E.
  - rewrite (IH E H2). reflexivity.
  - (* the tail need not be non-integer: redo without the induction hypothesis on E *)
    assert (G : forall m, forallb is_fl m = true -> mapM as_float m = Some m).
    { clear. induction m as [|x m IHm]; cbn [mapM forallb]; [reflexivity|]. intros Hm. apply andb_prop in Hm. destruct Hm as [A B].
      rewrite (as_float_fl x A). cbn [bind]. rewrite (IHm B). reflexivity. }
    rewrite (G l H2). reflexivity.
Qed.

Definition flat2 (b : list (sx * sx)) : list sx := concat (map (fun p => [fst p; snd p]) b).
Lemma pairs2_flat2 b : pairs2 (flat2 b) = b.
Proof. unfold flat2. induction b as [|[x y] b IH]; cbn [map concat app pairs2 fst snd]; [reflexivity|]. rewrite IH. reflexivity. Qed.
Lemma mapM_d_bin2 b : mapM d_bin2 (map (fun p : sx * sx => jarr [fst p; snd p]) b) = Some (map (fun p => [fst p; snd p]) b).
Proof. induction b as [|[x y] b IH]; cbn [map mapM fst snd]; [reflexivity|]. unfold d_bin2 at 1, jarr at 1, d_jarr. cbn [bind]. rewrite IH. reflexivity. Qed.

Definition wf_axis (a : jaxis) : Prop :=
  match x_bin a with
  | JStatic b => x_adaptive a = false /\ homog (flat2 b) = true /\ rising_bins b = true
  | JNumpy e => x_adaptive a = false /\ homog e = true /\ rising_edges e = true /\ (2 <= length e)%nat
  | JFixed c w s t => positive_x w = true /\ (0 <= c)%Z /\ (c = 0%Z -> t = None) /\ (falsy s = false \/ s = QQ 0)
  | JExp m w c => x_adaptive a = false
  end.

Lemma d_optz_e_optz t : d_optz (e_optz t) = Some t.
Proof. destruct t; reflexivity. Qed.

Lemma axis_rt a : wf_axis a -> axis_of_doc (axis_doc a) = Some a.
Proof.
  destruct a as [b ad]. unfold wf_axis. cbn [x_bin x_adaptive]. destruct b as [bins|e|c w s t|m w c]; intros H.
  - destruct H as [-> [H1 H2]]. unfold axis_of_doc, axis_doc. cbn [x_bin x_adaptive]. unfold jobj, d_jobj. cbn [map fst snd bind].
    unfold jget. cbn [field String.eqb Ascii.eqb Bool.eqb e_bool d_jbool d_bool bind jstr d_jstr].
    unfold jarr at 1, d_jarr at 1. cbn [bind]. rewrite mapM_d_bin2. cbn [bind]. fold (flat2 bins). rewrite (np_array_homog _ H1). cbn [bind].
    rewrite pairs2_flat2, H2. reflexivity.
  - destruct H as [-> [H1 [H2 H3]]]. unfold axis_of_doc, axis_doc. cbn [x_bin x_adaptive]. unfold jobj, d_jobj. cbn [map fst snd bind].
    unfold jget. cbn [field String.eqb Ascii.eqb Bool.eqb e_bool d_jbool d_bool bind jstr d_jstr].
    unfold jarr, d_jarr. cbn [bind]. rewrite (np_array_homog _ H1). cbn [bind]. rewrite H2.
    destruct (Nat.ltb_spec (length e) 2); [lia|]. reflexivity.
  - destruct H as [H1 [H2 [H3 H4]]]. unfold axis_of_doc, axis_doc. cbn [x_bin x_adaptive]. unfold jobj, d_jobj. cbn [map fst snd bind].
    unfold jget. cbn [field String.eqb Ascii.eqb Bool.eqb bind jstr d_jstr to_int].
    unfold d_jbool. replace (d_bool (e_bool ad)) with (Some ad) by (destruct ad; reflexivity). cbn [bind].
    unfold to_float. rewrite jnum_e_x, d_optz_e_optz. cbn [bind]. rewrite H1. cbn [negb orb].
    destruct (c <? 0)%Z eqn:Ec; [apply Z.ltb_lt in Ec; lia|]. cbn [orb].
    assert (Ez : ((c =? 0)%Z && match t with Some _ => true | None => false end) = false).
    { destruct (Z.eqb_spec c 0) as [E0|E0]; [rewrite (H3 E0); reflexivity|reflexivity]. }
    rewrite Ez. destruct H4 as [H4| ->]; [rewrite H4; reflexivity|reflexivity].
  - subst ad. reflexivity.
Qed.

Lemma axes_rt l : Forall wf_axis l -> mapM axis_of_doc (map axis_doc l) = Some l.
Proof. induction 1 as [|a l Ha Hl IH]; cbn [map mapM]; [reflexivity|]. rewrite (axis_rt a Ha). cbn [bind]. rewrite IH. reflexivity. Qed.

(** * the round trip *)
Definition cast_ok (d : dt) (x : xnum) : Prop := cast d x = Some x.
Definition missed_ok (is1d : bool) (h : jh) : Prop :=
  let d := j_dt h in
  if is1d then
    exists u v w, j_missed h = [u; v; w] /\
      if j_keep h then
        if is_int_dt d && has_nan [u; v; w] then j_missed_float h = true
        else Forall (cast_ok d) [u; v; w] /\ j_missed_float h = negb (is_int_dt d)
      else j_missed h = zeros 3 /\ j_missed_float h = negb (is_int_dt d)
  else exists u, j_missed h = [u] /\ cast_ok d u /\ j_missed_float h = negb (is_int_dt d).

Record wf_rt (h : jh) : Prop := mkWf {
  w_cls : exists is1d dim dn di, cls_info (j_cls h) = Some (is1d, dim, dn, di) /\
          (is1d = true -> length (j_axes h) = 1%nat) /\
          match dim with Some n => length (j_axes h) = n | None => True end /\
          (is1d = false -> length (j_names h) = length (j_axes h)) /\
          (forall k, In k (keys di) -> In k (keys (j_meta h))) /\
          missed_ok is1d h;
  w_axes : Forall wf_axis (j_axes h) /\ j_axes h <> [];
  w_freq : Forall (cast_ok (j_dt h)) (j_freq h) /\ forallb nonneg_x (j_freq h) = true;
  w_err2 : Forall (cast_ok (j_dt h)) (j_err2 h) /\ forallb nonneg_x (j_err2 h) = true;
  w_meta : NoDup (keys (j_meta h)) /\ Forall (fun k => existsb (String.eqb k) reserved = false) (keys (j_meta h)) /\
           ~ In "axis_names" (keys (j_meta h));
  w_names : j_names h <> []
}.

Lemma tolist_shape_spec l : tolist_shape l = l \/ fold_right Nat.mul 1%nat l = 0%nat.
Proof.
  induction l as [|n l IH]; cbn [tolist_shape fold_right]; [left; reflexivity|].
  destruct n; [right; reflexivity|]. destruct IH as [-> | ->]; [left; reflexivity|right; lia].
Qed.
Lemma list_eqb_refl l : list_eqb Nat.eqb l l = true.
Proof. unfold list_eqb. rewrite Nat.eqb_refl. induction l; cbn [all2 andb]; auto. rewrite Nat.eqb_refl. exact IHl. Qed.

Lemma shape_check sh : (negb (list_eqb Nat.eqb (tolist_shape sh) sh) && negb (Nat.eqb (fold_right Nat.mul 1%nat sh) 0)) = false.
Proof.
  destruct (tolist_shape_spec sh) as [E|E]; rewrite E.
  - rewrite list_eqb_refl. reflexivity.
  - rewrite Nat.eqb_refl. apply andb_false_r.
Qed.

Lemma reserved_check meta names :
  Forall (fun k => existsb (String.eqb k) reserved = false) (keys meta) ->
  existsb (fun k => existsb (String.eqb k) reserved) (map fst (meta ++ [("axis_names", names)])%list) = false.
Proof.
  intros H. unfold keys in H. induction meta as [|[k v] l IH]; cbn [app map fst existsb].
  - reflexivity.
  - inversion H as [|? ? Hk Hl]; subst. cbn [fst] in Hk. rewrite Hk. cbn [orb]. apply IH. exact Hl.
Qed.

Lemma missed_nums mf d l : (mf = false -> is_int_dt d = true /\ Forall (cast_ok d) l) ->
  mapM jnum (map (num_doc (negb mf)) l) = Some l.
Proof.
  intros H. destruct mf; cbn [negb].
  - clear H. induction l as [|x l IH]; cbn [map mapM]; [reflexivity|]. unfold num_doc at 1. rewrite jnum_e_x. cbn [bind]. rewrite IH. reflexivity.
  - destruct (H eq_refl) as [Hi Hl]. clear H. induction Hl as [|x l Hx Hl IH]; cbn [map mapM]; [reflexivity|].
    pose proof (num_rt d x Hx) as R. rewrite Hi in R. rewrite R. cbn [bind]. rewrite IH. reflexivity.
Qed.

Definition same_but_meta (a b : jh) : Prop :=
  j_cls a = j_cls b /\ j_axes a = j_axes b /\ j_dt a = j_dt b /\ j_freq a = j_freq b /\ j_err2 a = j_err2 b /\
  j_missed a = j_missed b /\ j_missed_float a = j_missed_float b /\ j_keep a = j_keep b /\ j_names a = j_names b /\
  forall k, lookup k (j_meta a) = lookup k (j_meta b).

Lemma of_doc_jobj kv : of_doc (jobj kv) = of_items (fun k => lookup k kv).
Proof.
  unfold of_doc, jobj, d_jobj. cbn [bind]. unfold of_items, jget. rewrite !field_items. reflexivity.
Qed.

Lemma dt_name_rt d : dt_of_name (dt_name d) = Some d. Proof. destruct d; reflexivity. Qed.
Lemma d_jbool_e_bool b : d_jbool (e_bool b) = Some b. Proof. destruct b; reflexivity. Qed.
Lemma read_array_rt d sh l : Forall (cast_ok d) l ->
  read_array d sh (jnd (tolist_shape sh) (map (num_doc (is_int_dt d)) l)) = Some l.
Proof.
  intros H. unfold read_array, jnd, d_nd, d_list. rewrite mapM_d_nat. cbn [bind ret]. rewrite shape_check. apply nums_rt. exact H.
Qed.
Theorem roundtrip : forall h, wf_rt h -> exists h', of_doc (to_doc h) = Some h' /\ same_but_meta h' h.
Proof.
  intros h [Hc [Hax Hne] [Hf Hfn] [He Hen] [Hnd [Hres Hnoax]] Hnames].
  destruct Hc as (is1d & dim & dn & di & Hci & H1 & Hdim & Hnl & Hdi & Hm).
  unfold to_doc. rewrite of_doc_jobj. unfold of_items.
  cbn [lookup String.eqb Ascii.eqb Bool.eqb].
  unfold jstr at 1, d_jstr at 1. cbn [bind]. rewrite Hci. cbn [bind].
  unfold jarr at 1, d_jarr at 1. cbn [bind]. rewrite (axes_rt _ Hax). cbn [bind].
  assert (Ea : (if is1d then firstn 1 (j_axes h) else j_axes h) = j_axes h).
  { destruct is1d; [|reflexivity]. specialize (H1 eq_refl). destruct (j_axes h) as [|a [|b l]]; try discriminate. reflexivity. }
  rewrite !Ea.
  unfold jstr at 1, d_jstr at 1. cbn [bind]. rewrite dt_name_rt. cbn [bind].
  unfold jobj at 1, d_jobj at 1. cbn [bind]. rewrite mapM_d_item. cbn [bind].
  rewrite d_jbool_e_bool. cbn [bind].
  rewrite (reserved_check _ _ Hres).
  assert (El : (length (j_axes h) =? 0)%nat = false). { destruct (j_axes h); [congruence|reflexivity]. }
  rewrite El.
  assert (Ed : match dim with Some n => negb (length (j_axes h) =? n)%nat | None => false end = false).
  { destruct dim; [|reflexivity]. rewrite Hdim, Nat.eqb_refl. reflexivity. }
  rewrite Ed.
  replace (is_null (jnd (tolist_shape (shape_of h)) (map (num_doc (is_int_dt (j_dt h))) (j_freq h)))) with false by reflexivity.
  replace (is_null (jnd (tolist_shape (shape_of h)) (map (num_doc (is_int_dt (j_dt h))) (j_err2 h)))) with false by reflexivity.
  fold (shape_of h). rewrite (read_array_rt _ _ _ Hf). cbn [bind]. rewrite Hfn. cbn [negb].
  rewrite (read_array_rt _ _ _ He). cbn [bind]. rewrite Hen. cbn [negb].
  unfold jarr at 1, d_jarr at 1. cbn [bind].
  assert (En : lookup "axis_names" (j_meta h ++ [("axis_names", jarr (j_names h))])%list = Some (jarr (j_names h))).
  { rewrite lookup_app. apply lookup_none_notin in Hnoax. rewrite Hnoax. reflexivity. }
  rewrite !En. replace (d_jarr (jarr (j_names h))) with (Some (j_names h)) by reflexivity.
  destruct (j_names h) as [|nm0 nms] eqn:Enames; [congruence|]. rewrite <- Enames in *.
  assert (Elen : (negb is1d && negb (length (j_names h) =? length (j_axes h))%nat) = false).
  { destruct is1d; [reflexivity|]. rewrite (Hnl eq_refl), Nat.eqb_refl. reflexivity. }
  rewrite Elen.
  assert (Emeta : forall k, lookup k (update di (remove_key "axis_names" (j_meta h ++ [("axis_names", jarr (j_names h))])%list)) = lookup k (j_meta h)).
  { intros k. rewrite remove_key_app, (remove_key_notin _ _ Hnoax). cbn [remove_key String.eqb Ascii.eqb Bool.eqb]. rewrite app_nil_r.
    rewrite (lookup_update k _ _ Hnd). destruct (lookup k (j_meta h)) eqn:Ek; [reflexivity|].
    apply lookup_none_notin. intros Hin. apply Hdi in Hin. apply lookup_none_notin in Ek. contradiction. }
  set (M := update di (remove_key "axis_names" (j_meta h ++ [("axis_names", jarr (j_names h))])%list)) in *.
  assert (Ez : forall d, is_int_dt d = true -> cast_ok d (Fin 0)).
  { intros d0 Hd0. unfold cast_ok, cast. rewrite Hd0. reflexivity. }
  unfold missed_ok in Hm. destruct is1d.
  - destruct Hm as (u & v & w & Emis & Hm). rewrite Emis in *.
    destruct (j_keep h) eqn:Ek.
    + destruct (is_int_dt (j_dt h) && has_nan [u; v; w]) eqn:Enan.
      * rewrite Hm. rewrite (missed_nums true (j_dt h) [u; v; w]) by discriminate. cbn [bind ret]. rewrite Enan.
        eexists. split; [reflexivity|]. unfold same_but_meta. cbn. rewrite Hm, Ek. repeat split; auto.
      * destruct Hm as [Hc3 Emf]. rewrite Emf.
        rewrite (missed_nums (negb (is_int_dt (j_dt h))) (j_dt h) [u; v; w]).
        2:{ intros E. split; [destruct (is_int_dt (j_dt h)); [reflexivity|discriminate]|exact Hc3]. }
        cbn [bind ret]. rewrite Enan.
        inversion Hc3 as [|? ? Cu Hc2]; subst. inversion Hc2 as [|? ? Cv Hc1]; subst. inversion Hc1 as [|? ? Cw _]; subst.
        cbn [mapM]. unfold cast_ok in Cu, Cv, Cw. rewrite Cu, Cv, Cw. cbn [bind ret].
        eexists. split; [reflexivity|]. unfold same_but_meta. cbn. rewrite Emf, Ek. repeat split; auto.
    + destruct Hm as [Ezs Emf]. rewrite Emf. injection Ezs as -> -> ->.
      rewrite (missed_nums (negb (is_int_dt (j_dt h))) (j_dt h) [Fin 0; Fin 0; Fin 0]).
      2:{ intros E. assert (Hi : is_int_dt (j_dt h) = true) by (destruct (is_int_dt (j_dt h)); [reflexivity|discriminate]).
          split; [exact Hi|]. repeat constructor; apply Ez; exact Hi. }
      cbn [bind ret].
      eexists. split; [reflexivity|]. unfold same_but_meta. cbn. rewrite Emf, Ek. repeat split; auto.
  - destruct Hm as (u & Emis & Cu & Emf). rewrite Emis, Emf in *.
    rewrite (missed_nums (negb (is_int_dt (j_dt h))) (j_dt h) [u]).
    2:{ intros E. split; [destruct (is_int_dt (j_dt h)); [reflexivity|discriminate]|repeat constructor; exact Cu]. }
    cbn [bind ret]. unfold cast_ok in Cu. rewrite Cu. cbn [bind ret].
    eexists. split; [reflexivity|]. unfold same_but_meta. cbn. rewrite Emf. repeat split; auto.
Qed.

(** serialising the parsed object again: everything but the order of the metadata keys is the same document *)
Definition strip_meta (h : jh) : jh :=
  mkJh (j_cls h) (j_axes h) (j_dt h) (j_freq h) (j_err2 h) (j_missed h) (j_missed_float h) (j_keep h) [] (j_names h).
Theorem reserialise h h' : same_but_meta h' h ->
  to_doc (strip_meta h') = to_doc (strip_meta h) /\
  forall k, lookup k (j_meta h' ++ [("axis_names", jarr (j_names h'))])%list = lookup k (j_meta h ++ [("axis_names", jarr (j_names h))])%list.
Proof.
  intros (E1 & E2 & E3 & E4 & E5 & E6 & E7 & E8 & E9 & E10). split.
  - unfold strip_meta, to_doc, shape_of. cbn. rewrite E1, E2, E3, E4, E5, E6, E7, E8, E9. reflexivity.
  - intros k. rewrite !lookup_app, E10, E9. reflexivity.
Qed.

Theorem roundtrip_twice h : wf_rt h -> exists h', of_doc (to_doc h) = Some h' /\
  to_doc (strip_meta h') = to_doc (strip_meta h) /\
  forall k, lookup k (j_meta h' ++ [("axis_names", jarr (j_names h'))])%list = lookup k (j_meta h ++ [("axis_names", jarr (j_names h))])%list.
Proof. intros H. destruct (roundtrip h H) as (h' & A & B). exists h'. split; [exact A|]. apply reserialise. exact B. Qed.

(** collections: member by member *)
Lemma members_rt l : Forall wf_rt l -> exists l', mapM of_doc (map to_doc l) = Some l' /\ Forall2 same_but_meta l' l.
Proof.
  induction 1 as [|h l Hh Hl IH]; cbn [map mapM].
  - exists []. split; [reflexivity|constructor].
  - destruct (roundtrip h Hh) as (h' & A & B). destruct IH as (l' & C & D). rewrite A. cbn [bind]. rewrite C. cbn [bind ret].
    exists (h' :: l'). split; [reflexivity|constructor; assumption].
Qed.

(** * versions: the key order of packaging.version is a strict total order on keys, refusal is "older than required" *)
Record Good {A} (c : A -> A -> comparison) : Prop := mkGood {
  g_refl : forall a, c a a = Eq;
  g_anti : forall a b, c b a = CompOpp (c a b);
  g_eq_l : forall a b d x, c a b = Eq -> c b d = x -> c a d = x;
  g_eq_r : forall a b d x, c a b = x -> c b d = Eq -> c a d = x;
  g_lt : forall a b d, c a b = Lt -> c b d = Lt -> c a d = Lt }.

Lemma good_Z : Good Z.compare.
Proof.
  constructor; intros.
  - apply Z.compare_refl.
  - apply Z.compare_antisym.
  - apply Z.compare_eq in H. subst. reflexivity.
  - apply Z.compare_eq in H0. subst. reflexivity.
  - rewrite Z.compare_lt_iff in *. lia.
Qed.

Lemma good_pre {A B} (f : A -> B) (c : B -> B -> comparison) : Good c -> Good (fun a b => c (f a) (f b)).
Proof. intros [r an el er lt]. constructor; intros; eauto. Qed.

Lemma good_lex {A} (c1 c2 : A -> A -> comparison) : Good c1 -> Good c2 -> Good (fun a b => lexc (c1 a b) (c2 a b)).
Proof.
  intros [r1 an1 el1 er1 lt1] [r2 an2 el2 er2 lt2]. constructor.
  - intros a. rewrite r1. apply r2.
  - intros a b. rewrite an1, an2. destruct (c1 a b); reflexivity.
  - intros a b d x. destruct (c1 a b) eqn:E1; cbn [lexc]; try discriminate. intros E2 H.
    rewrite (el1 a b d (c1 b d) E1 eq_refl). destruct (c1 b d); cbn [lexc] in *; auto. eapply el2; eauto.
  - intros a b d x H. destruct (c1 b d) eqn:E1; cbn [lexc]; try discriminate. intros E2.
    rewrite (er1 a b d (c1 a b) eq_refl E1). destruct (c1 a b); cbn [lexc] in *; auto. eapply er2; eauto.
  - intros a b d. destruct (c1 a b) eqn:E1; cbn [lexc]; try discriminate; intros H1.
    + destruct (c1 b d) eqn:E2; cbn [lexc]; try discriminate; intros H2.
      * rewrite (el1 a b d _ E1 E2). cbn [lexc]. eapply lt2; eauto.
      * rewrite (el1 a b d _ E1 E2). reflexivity.
    + destruct (c1 b d) eqn:E2; cbn [lexc]; try discriminate; intros H2.
      * rewrite (er1 a b d _ E1 E2). reflexivity.
      * rewrite (lt1 a b d E1 E2). reflexivity.
Qed.

Lemma good_lcmp : Good lcmp.
Proof.
  destruct good_Z as [rz az elz erz ltz].
  constructor.
  - induction a as [|x a IH]; cbn [lcmp]; [reflexivity|]. rewrite rz. exact IH.
  - induction a as [|x a IH]; destruct b as [|y b]; cbn [lcmp]; try reflexivity. rewrite az, IH. destruct (x ?= y)%Z; reflexivity.
  - induction a as [|x a IH]; destruct b as [|y b]; cbn [lcmp]; try discriminate; intros d r H1 H2; [exact H2|].
    destruct (x ?= y)%Z eqn:E1; cbn [lexc] in H1; try discriminate. destruct d as [|z d]; cbn [lcmp] in *; [exact H2|].
    rewrite (elz x y z _ E1 eq_refl). destruct (y ?= z)%Z; cbn [lexc] in *; auto. eapply IH; eauto.
  - induction a as [|x a IH]; destruct b as [|y b]; cbn [lcmp]; intros d r H1 H2; destruct d as [|z d]; cbn [lcmp] in *; try discriminate; auto.
    destruct (y ?= z)%Z eqn:E1; cbn [lexc] in H2; try discriminate.
    rewrite (erz x y z _ eq_refl E1). destruct (x ?= y)%Z; cbn [lexc] in *; auto. eapply IH; eauto.
  - induction a as [|x a IH]; destruct b as [|y b]; cbn [lcmp]; intros d H1 H2; destruct d as [|z d]; cbn [lcmp] in *; try discriminate; auto.
    destruct (x ?= y)%Z eqn:E1; cbn [lexc] in H1; try discriminate.
    + destruct (y ?= z)%Z eqn:E2; cbn [lexc] in H2; try discriminate.
      * rewrite (elz x y z _ E1 E2). cbn [lexc]. eapply IH; eauto.
      * rewrite (elz x y z _ E1 E2). reflexivity.
    + destruct (y ?= z)%Z eqn:E2; cbn [lexc] in H2; try discriminate.
      * rewrite (erz x y z _ E1 E2). reflexivity.
      * rewrite (ltz x y z E1 E2). reflexivity.
Qed.

Lemma good_dev : Good dev_cmp.
Proof.
  destruct good_Z as [rz az elz erz ltz].
  constructor.
  - intros [a|]; cbn; auto.
  - intros [a|] [b|]; cbn; auto.
  - intros [a|] [b|] [d|] x; cbn; try discriminate; intros; subst; eauto.
  - intros [a|] [b|] [d|] x; cbn; try discriminate; intros; subst; eauto.
  - intros [a|] [b|] [d|]; cbn; try discriminate; intros; eauto.
Qed.

Theorem good_vcmp : Good vcmp.
Proof.
  unfold vcmp.
  apply (good_lex (fun a b => Z.compare (v_epoch a) (v_epoch b))); [apply (good_pre v_epoch), good_Z|].
  apply (good_lex (fun a b => lcmp (strip0 (v_rel a)) (strip0 (v_rel b)))); [apply (good_pre (fun v => strip0 (v_rel v))), good_lcmp|].
  apply (good_lex (fun a b => Z.compare (fst (pre_key a)) (fst (pre_key b)))); [apply (good_pre (fun v => fst (pre_key v))), good_Z|].
  apply (good_lex (fun a b => Z.compare (snd (pre_key a)) (snd (pre_key b)))); [apply (good_pre (fun v => snd (pre_key v))), good_Z|].
  apply (good_lex (fun a b => Z.compare (post_key a) (post_key b))); [apply (good_pre post_key), good_Z|].
  apply (good_pre v_dev), good_dev.
Qed.

(** a document is refused exactly when the running version is older than the one it requires; the running version and every
    older requirement are accepted; being refused is monotone in the requirement *)
Theorem refuses_iff cur req : refuses cur req = true <-> vcmp cur req = Lt.
Proof. unfold refuses. destruct (vcmp cur req); split; congruence. Qed.
Theorem accepts_own cur : refuses cur cur = false.
Proof. unfold refuses. rewrite (g_refl _ good_vcmp). reflexivity. Qed.
Theorem refuses_monotone cur req req' : refuses cur req = true -> vcmp req req' <> Gt -> refuses cur req' = true.
Proof.
  rewrite !refuses_iff. intros H1 H2. destruct (vcmp req req') eqn:E; [|eapply (g_lt _ good_vcmp); eauto|congruence].
  eapply (g_eq_r _ good_vcmp); eauto.
Qed.
Theorem accepts_older cur req : vcmp req cur <> Gt -> refuses cur req = false.
Proof.
  intros H. unfold refuses. rewrite (g_anti _ good_vcmp). destruct (vcmp req cur); cbn; congruence.
Qed.
