From Physt Require Import ArithCases OrderQc ArrLemmas MergeProofs FillOrder.
Local Arguments Nat.sub : simpl never.

(** * numpy.promote_types restricted to the supported dtypes is a semilattice join *)
Lemma promote_comm a b : promote a b = promote b a.
Proof. destruct a, b; reflexivity. Qed.
Lemma promote_assoc a b c : promote (promote a b) c = promote a (promote b c).
Proof. destruct a, b, c; reflexivity. Qed.
Lemma promote_idem a : promote a a = a.
Proof. destruct a; reflexivity. Qed.
Lemma promote_int_stays_int a b : dt_is_int a = true -> dt_is_int b = true -> dt_is_int (promote a b) = true.
Proof. destruct a, b; simpl; auto. Qed.
Lemma promote_float_absorbs a b : dt_is_int b = false -> dt_is_int (promote a b) = false.
Proof. destruct a, b; simpl; auto; discriminate. Qed.

(** * pointwise addition *)
Lemma xadd_comm a b : xadd a b = xadd b a.
Proof. destruct a, b; simpl; auto. f_equal. ring. Qed.
Lemma xadd_assoc a b c : xadd (xadd a b) c = xadd a (xadd b c).
Proof. destruct a, b, c; simpl; auto. f_equal. ring. Qed.

Definition xvadd (a b : list xnum) : list xnum := map (fun p => xadd (fst p) (snd p)) (combine a b).
Lemma xvadd_comm a : forall b, xvadd a b = xvadd b a.
Proof. unfold xvadd. induction a as [|x a IH]; destruct b as [|y b]; simpl; auto. rewrite IH, xadd_comm. reflexivity. Qed.

Lemma sumq_vadd a : forall b, length a = length b -> sumq (vadd a b) = sumq a + sumq b.
Proof.
  unfold vadd. induction a as [|x a IH]; destruct b as [|y b]; simpl; intros H; try discriminate. ring.
  rewrite IH by lia. ring.
Qed.

(** same bins: the result is the pointwise sum, dtype the promotion, missed added *)
Theorem iadd_same_bins a b : Nat.eqb (ah_ndim a) (ah_ndim b) = true -> has_same_bins a b = true ->
  iadd a b = Ok (mkAh (ah_axes a) (vadd (ah_freq a) (ah_freq b)) (vadd (ah_err2 a) (ah_err2 b))
                      (xvadd (ah_missed a) (ah_missed b)) (promote (ah_dt a) (ah_dt b))
                      (opt_stats_add (ah_stats a) (ah_stats b)) (ah_keep a)).
Proof. intros H1 H2. unfold iadd. rewrite H1, H2. reflexivity. Qed.

(** commutativity of the observable numbers (same bins) *)
Theorem iadd_comm_same a b x y : iadd a b = Ok x -> iadd b a = Ok y ->
  has_same_bins a b = true -> has_same_bins b a = true ->
  ah_freq x = ah_freq y /\ ah_err2 x = ah_err2 y /\ ah_missed x = ah_missed y /\ ah_dt x = ah_dt y.
Proof.
  intros Hx Hy S1 S2. unfold iadd in *. rewrite S1 in Hx. rewrite S2 in Hy.
  destruct (negb (Nat.eqb (ah_ndim a) (ah_ndim b))); [discriminate|].
  destruct (negb (Nat.eqb (ah_ndim b) (ah_ndim a))); [discriminate|].
  injection Hx as <-. injection Hy as <-. cbn [ah_freq ah_err2 ah_missed ah_dt coerce].
  repeat split; auto using vadd_comm, promote_comm. apply (xvadd_comm (ah_missed a) (ah_missed b)).
Qed.

(** associativity of the observable numbers (same bins) *)
Theorem vadd_assoc3 a b c : vadd (vadd a b) c = vadd a (vadd b c).
Proof. apply vadd_assoc. Qed.

(** * adaptive union: one axis *)
Lemma adapt_axis_range w sh t n incl ad w' sh' t' n' incl' ad' na s1 s2 newn :
  adapt_axis (AFixed w sh t n incl ad) (AFixed w' sh' t' n' incl' ad') = Ok (na, s1, s2, newn) ->
  (match s1 with Some s => (s + n <= newn)%nat | None => newn = n end) /\
  (match s2 with Some s => (s + n' <= newn)%nat | None => newn = n' end).
Proof.
  unfold adapt_axis. destruct (bins_equal _ _ && Nat.eqb _ _) eqn:E0.
  - intros H. injection H as <- <- <- <-. unfold axis_len. cbn [axis_bins]. rewrite !map_length, !seq_length.
    apply andb_true_iff in E0. destruct E0 as [_ E0]. apply Nat.eqb_eq in E0. unfold axis_len in E0. cbn [axis_bins] in E0.
    rewrite !map_length, !seq_length in E0. auto.
  - destruct incl'; [discriminate|]. destruct (negb (Qceqb w w')); [discriminate|]. destruct (negb (Qceqb sh sh')); [discriminate|].
    destruct (Nat.eqb_spec n' 0).
    + intros H. injection H as <- <- <- <-. split; auto. lia.
    + destruct (Nat.eqb_spec n 0).
      * intros H. injection H as <- <- <- <-. split; auto. lia.
      * intros H. injection H as <- <- <- <-.
        split.
        -- destruct (Nat.eqb _ 0 && Nat.eqb _ 0) eqn:E.
           ++ apply andb_true_iff in E. destruct E as [E1 E2]. apply Nat.eqb_eq in E1, E2.
              destruct (Z.ltb_spec (Z.min t t') t); destruct (Z.ltb_spec (Z.of_nat n) (Z.max (t + Z.of_nat n) (t' + Z.of_nat n') - t)); lia.
           ++ destruct (Z.ltb_spec (Z.min t t') t); lia.
        -- destruct (Nat.eqb _ 0 && Nat.eqb _ 0) eqn:E.
           ++ apply andb_true_iff in E. destruct E as [E1 E2]. apply Nat.eqb_eq in E1, E2.
              destruct (Z.ltb_spec (Z.min t t') t'); destruct (Z.ltb_spec (Z.of_nat n') (Z.max (t + Z.of_nat n) (t' + Z.of_nat n') - t')); lia.
           ++ destruct (Z.ltb_spec (Z.min t t') t'); lia.
Qed.

(** shifting the contents along one axis into a grown grid conserves the sum (any dimension) *)
Lemma shift_axis_total shape k newn sh a :
  (k < length shape)%nat -> length a = size shape ->
  match sh with Some s => (s + nth k shape 0 <= newn)%nat | None => True end ->
  sumq (fst (shift_axis shape k newn sh a)) = sumq a.
Proof.
  intros Hk Hl Hs. unfold shift_axis. destruct sh as [s|]; cbn [fst]; auto.
  apply remap_total; auto. intros i Hi.
  rewrite (nth_indep _ 0%nat (0 + s)%nat) by (rewrite map_length, seq_length; exact Hi).
  rewrite (map_nth (fun i0 => (i0 + s)%nat) (seq 0 (nth k shape 0%nat)) 0%nat i). rewrite seq_nth by exact Hi. lia.
Qed.

(** 1-D adaptive addition loses nothing: total(a + b) = total a + total b, and the new range is the union *)
Theorem iadd_adaptive_1d_total w sh t n incl ad w' sh' t' n' incl' ad' fa ea fb eb axs f1 e1 f2 e2 :
  length fa = n -> length fb = n' -> length ea = n -> length eb = n' ->
  adapt_axes 0 [AFixed w sh t n incl ad] [AFixed w' sh' t' n' incl' ad'] [n] [n'] fa ea fb eb = Ok (axs, f1, e1, f2, e2) ->
  sumq (vadd f1 f2) = sumq fa + sumq fb /\ sumq (vadd e1 e2) = sumq ea + sumq eb.
Proof.
  intros La Lb Lea Leb H. cbn [adapt_axes] in H.
  destruct (adapt_axis _ _) as [[[[na s1] s2] newn]|] eqn:E; [|discriminate].
  destruct (adapt_axis_range _ _ _ _ _ _ _ _ _ _ _ _ _ _ _ _ E) as [R1 R2].
  assert (SZ : forall m, size [m] = m) by (intros m; simpl; lia).
  assert (LEN : forall (shape := fun m : nat => [m]) m s (a : list Qc), length a = m ->
            match s with Some s0 => (s0 + m <= newn)%nat | None => newn = m end ->
            length (fst (shift_axis [m] 0 newn s a)) = newn).
  { intros shp m s a Hl Hs. unfold shift_axis. destruct s as [s0|]; cbn [fst].
    - unfold remap_axis. rewrite tabulate_length, indices_length. cbn [set_at]. apply SZ.
    - lia. }
  destruct (shift_axis [n] 0 newn s1 fa) as [fa' sa'] eqn:E1.
  destruct (shift_axis [n] 0 newn s1 ea) as [ea' sa''] eqn:E2.
  destruct (shift_axis [n'] 0 newn s2 fb) as [fb' sb'] eqn:E3.
  destruct (shift_axis [n'] 0 newn s2 eb) as [eb' sb''] eqn:E4.
  cbn [adapt_axes] in H. injection H as <- <- <- <- <-.
  assert (T : forall m s (a a' : list Qc) shp', length a = m ->
            match s with Some s0 => (s0 + m <= newn)%nat | None => newn = m end ->
            shift_axis [m] 0 newn s a = (a', shp') -> sumq a' = sumq a /\ length a' = newn).
  { intros m s a a' shp' Hl Hs He. split.
    - pose proof (shift_axis_total [m] 0 newn s a ltac:(simpl; lia) ltac:(rewrite SZ; exact Hl)) as G.
      rewrite He in G. cbn [fst] in G. apply G. destruct s; auto.
    - pose proof (LEN m s a Hl Hs) as G. rewrite He in G. exact G. }
  destruct (T _ _ _ _ _ La R1 E1) as [A1 A2]. destruct (T _ _ _ _ _ Lea R1 E2) as [B1 B2].
  destruct (T _ _ _ _ _ Lb R2 E3) as [C1 C2]. destruct (T _ _ _ _ _ Leb R2 E4) as [D1 D2].
  split; rewrite sumq_vadd by congruence; congruence.
Qed.
