From Physt Require Import ScaleCases OrderQc ArrLemmas ArithProofs.

Lemma pos_neq0 (x : Qc) : 0 < x -> x <> 0.
Proof. intros H E. subst. apply Qcltb_lt in H. rewrite Qcltb_irrefl in H. discriminate. Qed.

Lemma sumq_scale c l : sumq (map (Qcmult c) l) = c * sumq l.
Proof. induction l as [|x l IH]; simpl. ring. rewrite IH. ring. Qed.
Lemma sumq_div c l : sumq (map (fun x => x / c) l) = sumq l / c.
Proof. induction l as [|x l IH]; simpl. unfold Qcdiv. ring. rewrite IH. unfold Qcdiv. ring. Qed.

(** (h * c) / c reproduces every content, squared error and finite missed counter *)
Lemma map_mul_div c l : c <> 0 -> map (fun x => x / c) (map (Qcmult c) l) = l.
Proof. intros Hc. rewrite map_map. rewrite <- (map_id l) at 2. apply map_ext. intros x. field. exact Hc. Qed.
Lemma map_mul_div2 c l : c <> 0 -> map (fun x => x / (c * c)) (map (Qcmult (c * c)) l) = l.
Proof. intros Hc. rewrite map_map. rewrite <- (map_id l) at 2. apply map_ext. intros x. field. exact Hc. Qed.

Definition not_inf (x : xnum) : Prop := x <> PInf /\ x <> NInf.
Lemma xscale_inv c x : c <> 0 -> not_inf x -> xscale (/ c) (xscale c x) = x.
Proof.
  intros Hc [H1 H2]. destruct x as [q| | |]; simpl; auto; try congruence.
  f_equal. field. exact Hc.
Qed.

Theorem mul_div_cancel h c k k' x y : c <> 0 -> Forall not_inf (ah_missed h) ->
  imul_k h c k = Ok x -> idiv_k x c k' = Ok y ->
  ah_freq y = ah_freq h /\ ah_err2 y = ah_err2 h /\ ah_missed y = ah_missed h /\ ah_axes y = ah_axes h.
Proof.
  intros Hc Hm H1 H2. unfold imul_k in H1. destruct (kind_dt k); [|discriminate].
  destruct (_ || negb (nonneg _)); [discriminate|]. injection H1 as <-.
  unfold idiv_k in H2. destruct (kind_dt k'); [|discriminate]. cbn [coerce ah_freq ah_err2 ah_missed ah_axes ah_dt ah_stats ah_keep] in H2.
  destruct (_ || negb (nonneg _)); [discriminate|]. injection H2 as <-. cbn [ah_freq ah_err2 ah_missed ah_axes].
  repeat split.
  - apply map_mul_div; auto.
  - apply map_mul_div2; auto.
  - rewrite map_map. rewrite <- (map_id (ah_missed h)) at 2. apply map_ext_in. intros m Hin.
    rewrite Forall_forall in Hm. apply xscale_inv; auto.
Qed.

(** chains of scalings multiply *)
Theorem mul_mul h c1 c2 k1 k2 x y : imul_k h c1 k1 = Ok x -> imul_k x c2 k2 = Ok y ->
  ah_freq y = map (Qcmult (c2 * c1)) (ah_freq h) /\ ah_err2 y = map (Qcmult ((c2 * c1) * (c2 * c1))) (ah_err2 h).
Proof.
  intros H1 H2. unfold imul_k in *. destruct (kind_dt k1); [|discriminate]. destruct (_ || negb (nonneg _)); [discriminate|].
  injection H1 as <-. destruct (kind_dt k2); [|discriminate]. cbn [coerce ah_freq ah_err2 ah_missed ah_axes ah_dt ah_stats ah_keep] in H2.
  destruct (_ || negb (nonneg _)); [discriminate|]. injection H2 as <-. cbn [ah_freq ah_err2]. split; rewrite map_map; apply map_ext; intros; ring.
Qed.

(** scaling is linear on the total *)
Theorem mul_total h c k x : imul_k h c k = Ok x -> ah_total x = c * ah_total h.
Proof.
  unfold imul_k. destruct (kind_dt k); [|discriminate]. destruct (_ || negb (nonneg _)); [discriminate|].
  intros H. injection H as <-. unfold ah_total. cbn [ah_freq coerce]. apply sumq_scale.
Qed.

(** normalize: dividing by the total gives total 1, with unchanged proportions *)
Theorem normalize_total_one h k x : ah_total h <> 0 -> idiv_k h (ah_total h) k = Ok x -> ah_total x = 1.
Proof.
  intros Ht. unfold idiv_k. destruct (kind_dt k); [|discriminate]. destruct (_ || negb (nonneg _)); [discriminate|].
  intros H. injection H as <-. unfold ah_total. cbn [ah_freq coerce]. rewrite sumq_div. unfold ah_total in Ht. field. exact Ht.
Qed.

(** recorded mean, minimum, maximum are invariant under rescaling, the weight scales; variance is invariant *)
Theorem stats_scale_invariant s c sum sum2 w : c <> 0 ->
  st_sum s = Fin sum -> st_sum2 s = Fin sum2 -> st_weight s = Fin w -> w <> 0 ->
  st_mean (stats_mul s c) = st_mean s /\ st_min (stats_mul s c) = st_min s /\ st_max (stats_mul s c) = st_max s /\
  st_weight (stats_mul s c) = Fin (c * w).
Proof.
  intros Hc E1 E2 E3 Hw. unfold stats_mul, st_mean. cbn [st_sum st_weight st_min st_max]. rewrite E1, E3. cbn [xscale].
  assert (Hcw : Qceqb (c * w) 0 = false).
  { destruct (Qceqb (c * w) 0) eqn:E; auto. apply Qceqb_eq in E. apply Qcmult_integral in E. destruct E; contradiction. }
  assert (Hw0 : Qceqb w 0 = false) by (destruct (Qceqb w 0) eqn:E; auto; apply Qceqb_eq in E; contradiction).
  rewrite Hcw, Hw0. repeat split; auto. f_equal. field. split; auto.
Qed.

Theorem variance_scale_invariant s c sum sum2 w : 0 < c ->
  st_sum s = Fin sum -> st_sum2 s = Fin sum2 -> st_weight s = Fin w -> 0 < w ->
  st_var (stats_mul s c) = st_var s.
Proof.
  intros Hc E1 E2 E3 Hw. unfold stats_mul, st_var. cbn [st_sum st_sum2 st_weight]. rewrite E1, E2, E3. cbn [xscale].
  assert (Hcw : 0 < c * w) by (qc2q; nra).
  replace (Qcltb 0 (c * w)) with true by (symmetry; apply Qcltb_lt; exact Hcw).
  replace (Qcltb 0 w) with true by (symmetry; apply Qcltb_lt; exact Hw).
  f_equal. field. split; apply pos_neq0; auto.
Qed.

(** refusals: an unsupported scalar type, or a negative factor — whatever the contents (also when they are all zero) *)
Theorem negative_factor_refused h c k d : kind_dt k = Some d -> c < 0 -> imul_k h c k = Err EValue.
Proof.
  intros Hk Hc. unfold imul_k. rewrite Hk.
  replace (Qcltb c 0) with true by (symmetry; apply Qcltb_lt; exact Hc). reflexivity.
Qed.
Theorem negative_divisor_refused h c k d : kind_dt k = Some d -> c < 0 -> idiv_k h c k = Err EValue.
Proof.
  intros Hk Hc. unfold idiv_k. rewrite Hk.
  replace (Qcltb c 0) with true by (symmetry; apply Qcltb_lt; exact Hc). reflexivity.
Qed.
