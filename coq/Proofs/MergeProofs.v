From Physt Require Import Merge ArrLemmas.
From Coq Require Import Permutation.

(** * 1. The min_frequency loop always yields a run map *)
Lemma Qcltb_irrefl x : Qcltb x x = false.
Proof. unfold Qcltb. assert (H : Qccompare x x = Eq) by (apply Qceq_alt; reflexivity). rewrite H. reflexivity. Qed.

(** [runs_from a l]: l starts at a, is non-decreasing and rises by at most one per step *)
Fixpoint runs_from (a : nat) (l : list nat) : Prop :=
  match l with
  | [] => True
  | x :: r => x = a /\ (match r with [] => True | y :: _ => y = x \/ y = S x end) /\ runs_from (hd x r) r
  end.

Lemma mf_loop_runs thr : forall freqs cur_new cur_sum prev,
   (cur_new = prev \/ (cur_new = S prev /\ cur_sum = 0)) ->
   match mf_loop thr freqs cur_new cur_sum with
   | [] => True
   | x :: _ => x = prev \/ x = S prev
   end /\
   (forall l x, mf_loop thr freqs cur_new cur_sum = x :: l -> runs_from x (x :: l)).
Proof.
  induction freqs as [|f rest IH]; intros cur_new cur_sum prev Hinv; simpl.
  - split; auto. intros; discriminate.
  - destruct (Qcleb thr f && Qcltb 0 cur_sum) eqn:E1.
    + apply andb_true_iff in E1. destruct E1 as [_ E1].
      destruct Hinv as [->|[-> ->]]; [|rewrite Qcltb_irrefl in E1; discriminate].
      destruct (Qcltb thr (0 + f)) eqn:E2.
      * specialize (IH (S (S prev)) 0 (S prev) (or_intror (conj eq_refl eq_refl))).
        split; auto. intros l x Hx. injection Hx as <- <-. simpl. split; auto.
        destruct (mf_loop thr rest (S (S prev)) 0) eqn:El; [simpl; auto|].
        destruct IH as [IHa IHb]. split; [lia|]. simpl. apply (IHb _ _ eq_refl).
      * specialize (IH (S prev) (0 + f) (S prev) (or_introl eq_refl)).
        split; auto. intros l x Hx. injection Hx as <- <-. simpl. split; auto.
        destruct (mf_loop thr rest (S prev) (0 + f)) eqn:El; [simpl; auto|].
        destruct IH as [IHa IHb]. split; [lia|]. simpl. apply (IHb _ _ eq_refl).
    + destruct (Qcltb thr (cur_sum + f)) eqn:E2.
      * specialize (IH (S cur_new) 0 cur_new (or_intror (conj eq_refl eq_refl))).
        split; [lia|]. intros l x Hx. injection Hx as <- <-. simpl. split; auto.
        destruct (mf_loop thr rest (S cur_new) 0) eqn:El; [simpl; auto|].
        destruct IH as [IHa IHb]. split; [lia|]. simpl. apply (IHb _ _ eq_refl).
      * specialize (IH cur_new (cur_sum + f) cur_new (or_introl eq_refl)).
        split; [lia|]. intros l x Hx. injection Hx as <- <-. simpl. split; auto.
        destruct (mf_loop thr rest cur_new (cur_sum + f)) eqn:El; [simpl; auto|].
        destruct IH as [IHa IHb]. split; [lia|]. simpl. apply (IHb _ _ eq_refl).
Qed.

Theorem mf_map_runs thr freqs : runs_from 0 (mf_map thr freqs).
Proof.
  unfold mf_map. destruct (mf_loop_runs thr freqs 0%nat 0 0%nat (or_introl eq_refl)) as [Ha Hb].
  destruct (mf_loop thr freqs 0 0) eqn:E; simpl; auto.
  assert (n = 0%nat).
  { destruct freqs as [|q0 freqs]; simpl in E; try discriminate. rewrite Qcltb_irrefl, andb_false_r in E.
    destruct (Qcltb thr (0+q0)); injection E; auto. }
  subst. apply (Hb _ _ eq_refl).
Qed.

Lemma mf_map_length thr freqs : length (mf_map thr freqs) = length freqs.
Proof.
  unfold mf_map. generalize 0%nat at 1. generalize (0:Qc).
  induction freqs as [|f r IH]; intros s n; simpl; auto.
  destruct (Qcleb thr f && Qcltb 0 s); destruct (Qcltb thr _); simpl; rewrite IH; reflexivity.
Qed.

(** a run map never skips an index: every entry is below (last entry + 1) and all values up to
    the maximum occur, so "New binning is not complete" cannot happen *)
Lemma runs_from_bound l : forall a, runs_from a l -> forall x, In x l -> (a <= x < a + length l)%nat.
Proof.
  induction l as [|y r IH]; intros a H x Hx; simpl in *; [tauto|].
  destruct H as [Hy [Hs Hr]]. subst y. destruct Hx as [Hx|Hx]; [lia|].
  destruct r as [|z r']; [simpl in Hx; tauto|]. simpl hd in Hr.
  specialize (IH z Hr x Hx). simpl in IH. cbn [length]. destruct Hs as [Hs|Hs]; subst z; lia.
Qed.

Lemma runs_from_surj l : forall a, runs_from a l ->
  forall j, (a <= j)%nat -> (exists x, In x l /\ (j <= x)%nat) -> In j l.
Proof.
  induction l as [|y r IH]; intros a H j Hj [x [Hx Hjx]]; simpl in *; [tauto|].
  destruct H as [Hy [Hs Hr]]. subst y.
  destruct (Nat.eq_dec j a) as [->|Hne]; [left; auto|right].
  destruct Hx as [Hx|Hx]; [lia|].
  destruct r as [|z r']; [simpl in Hx; tauto|]. simpl hd in Hr.
  apply (IH z Hr); [destruct Hs; lia|]. exists x. split; auto.
Qed.

(** * 2. The amount map is a run map *)
Lemma amount_map_runs n a : (0 < a)%nat -> runs_from 0 (amount_map n a).
Proof.
  intros Ha. unfold amount_map.
  assert (G : forall len s, runs_from (s / a) (map (fun i => Nat.div i a) (seq s len))).
  { induction len as [|len IH]; intros s; simpl; auto. split; auto. split.
    - destruct len; simpl; auto.
      assert (H1 : (s / a <= S s / a)%nat) by (apply Nat.div_le_mono; lia).
      assert (H2 : (S s / a <= S (s / a))%nat).
      { replace (S s) with (s + 1)%nat by lia.
        pose proof (Nat.div_mod s a ltac:(lia)) as E1. pose proof (Nat.mod_upper_bound s a ltac:(lia)) as E2.
        apply Nat.div_le_upper_bound; [lia|]. nia. }
      lia.
    - destruct len; simpl; auto. apply (IH (S s)). }
  specialize (G n 0%nat). rewrite Nat.div_0_l in G by lia. exact G.
Qed.

(** * 3. Regrouping along one axis conserves the sum over all cells (any dimension) *)
Lemma sumf_regroup (c : nat -> nat -> Qc) newn : forall shape k (g : list nat -> Qc),
  (k < length shape)%nat ->
  sumf (fun i' => sumf (fun i => c (nth k i' 0%nat) i * g (set_at k i i')) (seq 0 (nth k shape 0%nat)))
       (indices (set_at k newn shape))
  = sumf (fun idx => sumf (fun j => c j (nth k idx 0%nat)) (seq 0 newn) * g idx) (indices shape).
Proof.
  induction shape as [|n r IH]; intros k g Hk; simpl in Hk; [lia|].
  destruct k as [|k'].
  - cbn [set_at nth]. rewrite !sumf_indices_cons.
    (* lhs: sum_j sum_t sum_i c j i g(i::t) *)
    transitivity (sumf (fun j => sumf (fun i => sumf (fun t => c j i * g (i :: t)) (indices r)) (seq 0 n)) (seq 0 newn)).
    { apply sumf_ext. intros j _. cbn [nth set_at]. apply sumf_swap. }
    rewrite sumf_swap. apply sumf_ext. intros i _.
    rewrite sumf_swap. apply sumf_ext. intros t _. cbn [nth].
    rewrite (sumf_ext (fun j => c j i * g (i :: t)) (fun j => g (i :: t) * c j i)); [|intros; ring].
    rewrite sumf_scale. ring.
  - cbn [set_at nth]. rewrite !sumf_indices_cons. apply sumf_ext. intros x _.
    cbn [nth set_at]. apply (IH k' (fun t => g (x :: t))). lia.
Qed.

(** looking every index up in its own enumeration gives the array back *)
Lemma NoDup_app_intro {A} (l m : list A) :
  NoDup l -> NoDup m -> (forall x, In x l -> ~ In x m) -> NoDup (l ++ m).
Proof.
  induction 1 as [|x l Hx Hl IH]; simpl; auto. intros Hm Hd. constructor.
  - rewrite in_app_iff. intros [H|H]; [contradiction|]. apply (Hd x); auto.
  - apply IH; auto.
Qed.

Lemma NoDup_indices shape : NoDup (indices shape).
Proof.
  induction shape as [|n r IH]; simpl. repeat constructor; auto.
  assert (G : forall l, NoDup l -> NoDup (flat_map (fun i : nat => map (cons i) (indices r)) l)).
  { induction 1 as [|x l Hx Hl IHl]; simpl. constructor.
    apply NoDup_app_intro.
    - apply FinFun.Injective_map_NoDup; auto. intros a b E; congruence.
    - exact IHl.
    - intros y Hy Hy'. apply in_map_iff in Hy. destruct Hy as [t [<- _]].
      apply in_flat_map in Hy'. destruct Hy' as [x' [Hx' Hy']]. apply in_map_iff in Hy'.
      destruct Hy' as [t' [E _]]. injection E as -> _. contradiction. }
  apply G. apply seq_NoDup.
Qed.

Lemma lookup_self {A} (d : A) : forall ks a, NoDup ks -> length ks = length a ->
  map (fun idx => lookup d idx ks a) ks = a.
Proof.
  induction ks as [|k ks IH]; intros [|v a] Hnd Hlen; simpl in *; try discriminate; auto.
  assert (E : list_eqb k k = true) by (apply list_eqb_eq; auto). rewrite E. f_equal.
  inversion Hnd as [|? ? Hk Hnd']; subst.
  transitivity (map (fun idx => lookup d idx ks a) ks); [|apply IH; auto; lia].
  apply map_ext_in. intros idx Hidx.
  destruct (list_eqb idx k) eqn:E2; auto. apply list_eqb_eq in E2. subst. contradiction.
Qed.

Lemma tabulate_get {A} (d : A) shape a : length a = size shape -> tabulate shape (get d shape a) = a.
Proof.
  intros H. unfold tabulate, get. apply lookup_self. apply NoDup_indices.
  rewrite indices_length. auto.
Qed.

Lemma sumf_get_all shape a : length a = size shape -> sumf (get 0 shape a) (indices shape) = sumq a.
Proof. intros H. unfold sumf. change (map (get 0 shape a) (indices shape)) with (tabulate shape (get 0 shape a)).
  rewrite tabulate_get; auto. Qed.

Lemma in_range_nth idx : forall shape k, in_range idx shape -> (k < length shape)%nat ->
  (nth k idx 0 < nth k shape 0)%nat.
Proof.
  induction idx as [|i j IH]; intros [|n r] k H Hk; simpl in *; try tauto; try lia.
  destruct H as [Hi Hj]. destruct k; auto. apply IH; auto. lia.
Qed.

(** Conservation, as coded: whatever the bin map, as long as every old bin is sent to an existing
    new bin, the sum over all cells is unchanged (any number of dimensions, any axis). *)
Theorem remap_total shape k m newn a :
  (k < length shape)%nat -> length a = size shape ->
  (forall i, (i < nth k shape 0)%nat -> (nth i m 0 < newn)%nat) ->
  sumq (remap_axis shape k m newn a) = sumq a.
Proof.
  intros Hk Hlen Hm. unfold remap_axis. rewrite sumq_tabulate.
  pose proof (sumf_regroup (fun j i => if Nat.eqb (nth i m 0%nat) j then 1 else 0) newn shape k
                           (get 0 shape a) Hk) as R.
  cbv beta in R.
  etransitivity; [|etransitivity; [exact R|]].
  - apply sumf_ext. intros i' _. apply sumf_ext. intros i _. destruct (Nat.eqb _ _); ring.
  - rewrite <- (sumf_get_all shape a Hlen). apply sumf_ext. intros idx Hidx.
    apply in_indices in Hidx. pose proof (in_range_nth _ _ _ Hidx Hk) as Hlt.
    rewrite (sumf_pick newn (nth (nth k idx 0%nat) m 0%nat) 1) by (apply Hm; exact Hlt). ring.
Qed.

(** A run map sends every old bin below [last+1], so the hypothesis of [remap_total] holds for
    the maps physt builds. *)
Lemma runs_from_lt l : runs_from 0 l -> forall i, (i < length l)%nat -> (nth i l 0 < S (list_max l))%nat.
Proof.
  intros _ i Hi. pose proof (list_max_le l (list_max l)) as [H _]. specialize (H (Nat.le_refl _)).
  rewrite Forall_forall in H. specialize (H (nth i l 0%nat) (nth_In _ _ Hi)). lia.
Qed.

(** * 4. merge_axis / merge_axes conserve totals and leave missed counts alone *)
Lemma set_at_length {A} k (v : A) l : length (set_at k v l) = length l.
Proof. revert k. induction l as [|x l IH]; intros [|k]; simpl; auto. Qed.

Lemma abm_loop_length bins : forall m acc acc', abm_loop bins m acc = Some acc' -> length acc' = length acc.
Proof.
  induction bins as [|b bins IH]; intros m acc acc' H; simpl in H.
  - injection H as <-. reflexivity.
  - destruct m as [|j m]. injection H as <-; reflexivity.
    destruct (nth j acc None) as [[lo hi]|].
    + destruct (Qceqb hi (fst b)); [|discriminate]. apply IH in H. rewrite set_at_length in H. exact H.
    + apply IH in H. rewrite set_at_length in H. exact H.
Qed.

Lemma mapM_length {A B} (f : A -> option B) : forall l l', mapM f l = Some l' -> length l' = length l.
Proof.
  induction l as [|a l IH]; intros l' H; simpl in H. injection H as <-; reflexivity.
  destruct (f a); simpl in H; [|discriminate]. destruct (mapM f l) eqn:E; simpl in H; [|discriminate].
  injection H as <-. simpl. f_equal. apply IH. reflexivity.
Qed.

Lemma bins_apply_map_length bins m nb : bins_apply_map bins m = Some nb -> length nb = S (list_max m).
Proof.
  unfold bins_apply_map. destruct m as [|j m]; [discriminate|].
  destruct (abm_loop bins (j :: m) _) eqn:E; simpl; [|discriminate]. intros H.
  apply mapM_length in H. rewrite H. apply abm_loop_length in E. rewrite E. apply repeat_length.
Qed.

Lemma nth_lt_list_max (m : list nat) i : (nth i m 0 < S (list_max m))%nat.
Proof.
  destruct (Nat.lt_ge_cases i (length m)) as [Hi|Hi].
  - pose proof (list_max_le m (list_max m)) as [H _]. specialize (H (Nat.le_refl _)).
    rewrite Forall_forall in H. specialize (H (nth i m 0%nat) (nth_In _ _ Hi)). lia.
  - rewrite nth_overflow by exact Hi. lia.
Qed.

Lemma size_set_at k n shape : (k < length shape)%nat ->
  length (indices (set_at k n shape)) = size (set_at k n shape).
Proof. intros _. apply indices_length. Qed.

Lemma map_length_set_at {A} k (nb : list A) (bs : list (list A)) :
  map (@length A) (set_at k nb bs) = set_at k (length nb) (map (@length A) bs).
Proof. revert k. induction bs as [|b bs IH]; intros [|k]; simpl; auto. f_equal. apply IH. Qed.

Definition wfh (h : hist) : Prop :=
  length (h_freq h) = size (h_shape h) /\ length (h_err2 h) = size (h_shape h).

Theorem merge_axis_conserves op h k h' :
  wfh h -> (k < length (h_bins h))%nat -> merge_axis op h k = Some h' ->
  total h' = total h /\ sumq (h_err2 h') = sumq (h_err2 h) /\ h_missed h' = h_missed h /\ wfh h'.
Proof.
  intros [Hf He] Hk H. unfold merge_axis in H.
  destruct (bins_apply_map _ _) as [nb|] eqn:E; simpl in H; [|discriminate]. injection H as <-.
  apply bins_apply_map_length in E.
  assert (Hk' : (k < length (h_shape h))%nat) by (unfold h_shape; rewrite map_length; exact Hk).
  unfold total; cbn [h_freq h_err2 h_missed]. repeat split.
  - apply remap_total; auto. intros i _. rewrite E. apply nth_lt_list_max.
  - apply remap_total; auto. intros i _. rewrite E. apply nth_lt_list_max.
  - unfold h_shape; cbn [h_bins h_freq]. unfold remap_axis. rewrite tabulate_length, indices_length.
    rewrite map_length_set_at. reflexivity.
  - unfold h_shape; cbn [h_bins h_err2]. unfold remap_axis. rewrite tabulate_length, indices_length.
    rewrite map_length_set_at. reflexivity.
Qed.

Lemma merge_axis_ndim op h k h' : merge_axis op h k = Some h' -> length (h_bins h') = length (h_bins h).
Proof.
  unfold merge_axis. destruct (bins_apply_map _ _); simpl; [|discriminate]. intros H. injection H as <-.
  cbn [h_bins]. apply set_at_length.
Qed.

Theorem merge_axes_conserves op : forall ks h h',
  wfh h -> Forall (fun k => (k < length (h_bins h))%nat) ks -> merge_axes op h ks = Some h' ->
  total h' = total h /\ sumq (h_err2 h') = sumq (h_err2 h) /\ h_missed h' = h_missed h.
Proof.
  induction ks as [|k ks IH]; intros h h' Hwf Hks H; simpl in H.
  - injection H as <-. auto.
  - destruct (merge_axis op h k) as [h1|] eqn:E; simpl in H; [|discriminate].
    inversion Hks as [|? ? Hk Hks']; subst.
    destruct (merge_axis_conserves _ _ _ _ Hwf Hk E) as [T1 [T2 [T3 W]]].
    assert (Hks1 : Forall (fun k0 => (k0 < length (h_bins h1))%nat) ks).
    { rewrite (merge_axis_ndim _ _ _ _ E). exact Hks'. }
    destruct (IH h1 h' W Hks1 H) as [U1 [U2 U3]]. repeat split; congruence.
Qed.
