From Physt Require Import Heap.
Local Open Scope nat_scope.

Lemma write_other h l v x : x <> l -> write h l v x = h x.
Proof. intros H. unfold write. destruct (Nat.eqb_spec x l); congruence. Qed.

Lemma observe_write h l v o : ~ In l (locs o) -> observe (write h l v) o = observe h o.
Proof.
  intros H. unfold observe. apply map_ext_in. intros x Hx. apply write_other. intros E. subst. contradiction.
Qed.

Lemma fresh_locs next nb l : In l (locs (fresh_obj next nb)) -> (next <= l < next + alloc_size nb)%nat.
Proof.
  unfold locs, fresh_obj, alloc_size. cbn [o_bins o_freq o_err2 o_missed o_meta]. rewrite in_app_iff, in_seq.
  intros [H|H]; [lia|]. simpl in H. intuition lia.
Qed.

Lemma observe_writes h o (ls : list loc) (f : loc -> nat) : (forall l, In l ls -> ~ In l (locs o)) ->
  observe (fold_left (fun h l => write h l (f l)) ls h) o = observe h o.
Proof.
  revert h. induction ls as [|l ls IH]; intros h H; simpl; auto.
  rewrite IH. apply observe_write. apply H. left; auto. intros l' Hl'. apply H. right; auto.
Qed.

(** * ownership is an invariant: everything a derivation returns is fresh, so all live objects stay pairwise disjoint *)
Theorem owned_step w o : owned w -> owned (hstep w o).
Proof.
  intros [Hb Hd]. destruct o as [src nb init|tgt which v]; cbn [hstep].
  - split; cbn [w_next w_objs].
    + apply Forall_app. split.
      * rewrite Forall_forall in *. intros ob Hob. specialize (Hb ob Hob). unfold below in *. rewrite Forall_forall in *.
        intros l Hl. specialize (Hb l Hl). lia.
      * constructor; [|constructor]. unfold below. rewrite Forall_forall. intros l Hl. apply fresh_locs in Hl. lia.
    + intros i j a b Hij Ha Hb'.
      assert (G : forall k x, nth_error (w_objs w ++ [fresh_obj (w_next w) nb]) k = Some x ->
                  (k < length (w_objs w) /\ nth_error (w_objs w) k = Some x)%nat \/ (k = length (w_objs w) /\ x = fresh_obj (w_next w) nb)).
      { intros k x Hk. destruct (Nat.lt_ge_cases k (length (w_objs w))) as [L|L].
        - left. split; auto. rewrite nth_error_app1 in Hk; auto.
        - right. rewrite nth_error_app2 in Hk by lia. destruct (k - length (w_objs w))%nat as [|m] eqn:E.
          + simpl in Hk. injection Hk as <-. split; auto. lia.
          + simpl in Hk. destruct m; discriminate. }
      destruct (G i a Ha) as [[Li Ai]|[Ei ->]]; destruct (G j b Hb') as [[Lj Bj]|[Ej ->]].
      * apply (Hd i j); auto.
      * intros l La Lf. apply fresh_locs in Lf. rewrite Forall_forall in Hb.
        specialize (Hb a (nth_error_In _ _ Ai)). unfold below in Hb. rewrite Forall_forall in Hb. specialize (Hb l La). lia.
      * intros l Lf Lb. apply fresh_locs in Lf. rewrite Forall_forall in Hb.
        specialize (Hb b (nth_error_In _ _ Bj)). unfold below in Hb. rewrite Forall_forall in Hb. specialize (Hb l Lb). lia.
      * lia.
  - destruct (nth_error (w_objs w) tgt) as [ob|]; [|split; auto].
    destruct (nth_error (locs ob) which) as [l|]; split; auto.
Qed.

Theorem owned_run : forall ops w, owned w -> owned (hrun w ops).
Proof. induction ops as [|o ops IH]; intros w H; simpl; auto. apply IH. apply owned_step. exact H. Qed.

(** * non-interference: a mutation through one object never changes what another live object shows *)
Theorem mutation_is_local w tgt which v j ob : owned w -> j <> tgt ->
  nth_error (w_objs w) j = Some ob ->
  observe (w_heap (hstep w (HMutate tgt which v))) ob = observe (w_heap w) ob.
Proof.
  intros [Hb Hd] Hj Hob. cbn [hstep].
  destruct (nth_error (w_objs w) tgt) as [t|] eqn:Et; auto.
  destruct (nth_error (locs t) which) as [l|] eqn:El; auto. cbn [w_heap].
  apply observe_write. intros Hin.
  assert (D : disjoint t ob) by (apply (Hd tgt j t ob); auto).
  apply (D l); auto. eapply nth_error_In; eauto.
Qed.

(** a derivation does not change what existing objects show either *)
Theorem derivation_is_pure w src nb init j ob : owned w -> nth_error (w_objs w) j = Some ob ->
  observe (w_heap (hstep w (HDerive src nb init))) ob = observe (w_heap w) ob.
Proof.
  intros [Hb Hd] Hob. cbn [hstep w_heap]. apply observe_writes. intros l Hl Hin. apply fresh_locs in Hl.
  rewrite Forall_forall in Hb. specialize (Hb ob (nth_error_In _ _ Hob)). unfold below in Hb. rewrite Forall_forall in Hb.
  specialize (Hb l Hin). lia.
Qed.

Lemma owned_empty h : owned (mkW h 0 []).
Proof. split. constructor. intros i j a b _ Ha. destruct i; discriminate. Qed.
