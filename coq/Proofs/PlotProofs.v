From Physt Require Import Plot OrderQc AdaptiveProofs GeometryProofs.
Local Open Scope Qc_scope.

Lemma Qcinv_pos u : 0 < u -> 0 < / u.
Proof. unfold Qclt, Qcinv, Q2Qc. cbn [this]. intros H. change (Qred 0) with 0%Q in *. setoid_rewrite Qred_correct. apply Qinv_lt_0_compat. exact H. Qed.

(** * cumulative values: running sums of non-negative contents never decrease and end at the total *)
Fixpoint nondecr (l : list Qc) : Prop := match l with a :: ((b :: _) as r) => a <= b /\ nondecr r | _ => True end.
Lemma running_head acc x r : running acc (x :: r) = (acc + x) :: running (acc + x) r.
Proof. reflexivity. Qed.
Theorem running_monotone : forall l acc, Forall (fun x => 0 <= x) l -> nondecr (running acc l).
Proof.
  induction l as [|x l IH]; intros acc H; [exact I|]. rewrite running_head. inversion H as [|? ? Hx Hl]; subst.
  destruct l as [|y l]; [exact I|]. rewrite running_head. split.
  - inversion Hl as [|? ? Hy _]; subst. qc2q. lra.
  - rewrite <- running_head. apply IH. exact Hl.
Qed.

(** * colour scale: monotone in the value, within [0, 1] *)
Theorem cnorm_monotone lo hi v v' : lo < hi -> v <= v' -> cnorm lo hi v <= cnorm lo hi v'.
Proof.
  intros Hlh Hv. unfold cnorm.
  assert (P : 0 < hi - lo) by (qc2q; lra).
  assert (D : forall a b, a <= b -> a / (hi - lo) <= b / (hi - lo)).
  { intros a b Hab. unfold Qcdiv. apply Qcmult_le_compat_r; [exact Hab|]. apply Qclt_le_weak. apply Qcinv_pos. exact P. }
  destruct (Qcleb v lo) eqn:E1; destruct (Qcleb v' lo) eqn:E1'; destruct (Qcleb hi v) eqn:E2; destruct (Qcleb hi v') eqn:E2';
    try apply Qcleb_le in E1; try apply Qcleb_le in E1'; try apply Qcleb_le in E2; try apply Qcleb_le in E2';
    try apply Qcleb_gt in E1; try apply Qcleb_gt in E1'; try apply Qcleb_gt in E2; try apply Qcleb_gt in E2';
    try (apply Qcle_refl); try (qc2q; lra).
  - (* 0 <= (v' - lo) / (hi - lo) *)
    replace 0 with (0 / (hi - lo)) by (unfold Qcdiv; ring). apply D. qc2q; lra.
  - replace 1 with ((hi - lo) / (hi - lo)) by (field; intro Z; rewrite Z in P; revert P; qc2q; lra). apply D. qc2q; lra.
  - apply D. qc2q; lra.
Qed.

(** * ticks: exactly the multiples of the unit inside the range *)
Theorem ticks_sound lo hi u t : 0 < u -> In t (ticks_spec lo hi u) -> (exists k : Z, t = qz k * u) /\ lo <= t /\ t <= hi.
Proof.
  intros Hu Hin. unfold ticks_spec in Hin. apply in_map_iff in Hin. destruct Hin as [k [<- Hk]]. apply in_seq in Hk.
  set (a := qceil (lo / u)) in *. set (b := qfloor (hi / u)) in *.
  split; [eexists; reflexivity|].
  assert (Ha : lo / u <= qz a) by apply ceil_spec. assert (Hb : qz b <= hi / u) by apply floor_spec.
  assert (Une : u <> 0) by (intro Z; rewrite Z in Hu; revert Hu; qc2q; lra).
  assert (M : forall x y, x <= y -> x * u <= y * u) by (intros; apply Qcmult_le_compat_r; auto; apply Qclt_le_weak; auto).
  split.
  - assert (E : lo / u * u = lo) by (field; exact Une). apply Qcle_trans with (lo / u * u); [rewrite E; apply Qcle_refl|].
    apply M. apply Qcle_trans with (qz a); [exact Ha|]. apply qz_le. lia.
  - assert (E : hi / u * u = hi) by (field; exact Une). apply Qcle_trans with (hi / u * u); [|rewrite E; apply Qcle_refl].
    apply M. apply Qcle_trans with (qz b); [|exact Hb]. apply qz_le. lia.
Qed.

Theorem ticks_complete lo hi u (k : Z) : 0 < u -> lo <= qz k * u -> qz k * u <= hi -> In (qz k * u) (ticks_spec lo hi u).
Proof.
  intros Hu H1 H2. unfold ticks_spec. set (a := qceil (lo / u)). set (b := qfloor (hi / u)).
  assert (Une : u <> 0) by (intro Z; rewrite Z in Hu; revert Hu; qc2q; lra).
  assert (Hinv : 0 < / u) by (apply Qcinv_pos; exact Hu).
  assert (L : lo / u <= qz k).
  { replace (qz k) with (qz k * u / u) by (field; exact Une). unfold Qcdiv. apply Qcmult_le_compat_r; [exact H1|apply Qclt_le_weak; exact Hinv]. }
  assert (R : qz k <= hi / u).
  { replace (qz k) with (qz k * u / u) by (field; exact Une). unfold Qcdiv. apply Qcmult_le_compat_r; [exact H2|apply Qclt_le_weak; exact Hinv]. }
  (* a <= k <= b *)
  assert (Ak : (a <= k)%Z).
  { destruct (Z_le_gt_dec a k) as [G|G]; [exact G|exfalso].
    pose proof (ceil_spec (lo / u)) as [_ C]. fold a in C. assert (qz a <= qz k + 1 - 1 + 0) by (apply Qcle_trans with (qz k); [|qc2q; lra]; exfalso; revert C L; assert (qz k + 1 <= qz a) by (rewrite <- qz_1, <- qz_add; apply qz_le; lia); qc2q; lra).
    revert C L. assert (qz k + 1 <= qz a) by (rewrite <- qz_1, <- qz_add; apply qz_le; lia). qc2q; lra. }
  assert (Kb : (k <= b)%Z).
  { destruct (Z_le_gt_dec k b) as [G|G]; [exact G|exfalso].
    pose proof (floor_spec (hi / u)) as [_ C]. fold b in C. revert C R. assert (qz b + 1 <= qz k) by (rewrite <- qz_1, <- qz_add; apply qz_le; lia). qc2q; lra. }
  apply in_map_iff. exists (Z.to_nat (k - a)). split.
  - rewrite Z2Nat.id by lia. f_equal. f_equal. lia.
  - apply in_seq. lia.
Qed.
