From Physt Require Import Geometry OrderQc.
Local Open Scope Qc_scope.

Lemma q2_ne : qz 2 <> 0. Proof. intro H. discriminate H. Qed.
Lemma q3_ne : qz 3 <> 0. Proof. intro H. discriminate H. Qed.

Section Measures.
  Variable cosf : Qc -> Qc.        (* any function in the role of the cosine *)
  Variable pi : Qc.
  Definition meas (k : akind) (l r : Qc) : Qc := ameasure k pi l r (cosf l) (cosf r).

  (** measures are additive when two adjacent bins are merged *)
  Theorem measure_additive k l x r : meas k l x + meas k x r = meas k l r.
  Proof. unfold meas, ameasure. destruct k; try ring; field; [apply q2_ne|apply q3_ne]. Qed.
  Lemma measure_empty k x : meas k x x = 0.
  Proof. unfold meas, ameasure. destruct k; try ring; field; [apply q2_ne|apply q3_ne]. Qed.

  (** ... hence the measures of consecutive bins sum to the measure of the covered interval *)
  Fixpoint chain (x : Qc) (l : list bin) : Prop := match l with [] => True | b :: r => fst b = x /\ chain (snd b) r end.
  Definition end_of (x : Qc) (l : list bin) : Qc := fold_left (fun _ b => snd b) l x.
  Theorem measure_telescopes k : forall l x, chain x l ->
    sumq (map (fun b => meas k (fst b) (snd b)) l) = meas k x (end_of x l).
  Proof.
    induction l as [|b l IH]; intros x H; cbn [map sumq fold_right chain end_of fold_left] in *.
    - symmetry. apply measure_empty.
    - destruct H as [<- H]. unfold sumq in IH. rewrite (IH (snd b) H). apply measure_additive.
  Qed.

  (** closed forms for full ranges (cos 0 = 1, cos pi = -1) *)
  Hypothesis cos0 : cosf 0 = 1.
  Hypothesis cospi : cosf pi = - (1).
  Theorem disc_measure R : meas AHalfSq 0 R * meas ALin 0 (qz 2 * pi) = pi * R * R.
  Proof. unfold meas, ameasure. field. apply q2_ne. Qed.
  Lemma qz2_11 : qz 2 = 1 + 1. Proof. apply Qc_is_canon. reflexivity. Qed.
  Lemma qz4_22 : qz 4 = (1 + 1) * (1 + 1). Proof. apply Qc_is_canon. reflexivity. Qed.
  Theorem sphere_measure : meas ACos 0 pi * meas ALin 0 (qz 2 * pi) = qz 4 * pi.
  Proof. unfold meas, ameasure. rewrite cos0, cospi, qz4_22, qz2_11. ring. Qed.
  Theorem ball_measure R : meas AThirdCube 0 R * meas ACos 0 pi * meas ALin 0 (qz 2 * pi) = qz 4 / qz 3 * pi * R * R * R.
  Proof. unfold meas, ameasure. rewrite cos0, cospi, qz4_22, qz2_11. field. apply q3_ne. Qed.
  Theorem cylinder_measure R z0 z1 : meas AHalfSq 0 R * meas ALin 0 (qz 2 * pi) * meas ALin z0 z1 = pi * R * R * (z1 - z0).
  Proof. unfold meas, ameasure. field. apply q2_ne. Qed.
End Measures.

(** the total over all cells of a product measure is the product of the per-axis totals *)
Lemma sumq_app a b : sumq (a ++ b) = sumq a + sumq b.
Proof. unfold sumq. induction a as [|x a IH]; cbn [app fold_right]; [ring|]. rewrite IH. ring. Qed.
Lemma sumq_scale a l : sumq (map (Qcmult a) l) = a * sumq l.
Proof. unfold sumq. induction l as [|x l IH]; cbn [map fold_right]; [ring|]. rewrite IH. ring. Qed.
Theorem outer_total : forall vs, sumq (outer vs) = fold_right (fun v acc => sumq v * acc) 1 vs.
Proof.
  induction vs as [|v vs IH]; cbn [outer fold_right]; [unfold sumq; cbn [fold_right map concat]; apply Qcplus_0_r|].
  rewrite <- IH. clear IH. induction v as [|a v IHv]; cbn [map concat]; [unfold sumq; cbn [fold_right map concat]; symmetry; apply Qcmult_0_l|].
  rewrite sumq_app, sumq_scale, IHv. change (sumq (a :: v)) with (a + sumq v). ring.
Qed.

(** densities * bin_sizes = frequencies whenever the bin has a measure *)
Theorem density_times_size f s : s <> 0 -> f / s * s = f.
Proof. intros H. field. exact H. Qed.

(** the running sum ends at the total *)
Theorem running_ends_at_total : forall l acc, l <> [] -> last (running acc l) 0 = acc + sumq l.
Proof.
  induction l as [|x l IH]; intros acc H; [congruence|]. cbn [running]. destruct l as [|y l].
  - cbn [running last]. unfold sumq. cbn [fold_right]. ring.
  - change (last ((acc + x) :: running (acc + x) (y :: l)) 0) with (last (running (acc + x) (y :: l)) 0).
    rewrite IH by discriminate. unfold sumq. cbn [fold_right]. ring.
Qed.

(** * the bin sizes of a whole histogram sum to the measure of the covered region *)
Section Region.
  Variable cosf : Qc -> Qc.
  Variable pi : Qc.
  Definition cos_table (bins : list bin) : list bin := map (fun b => (cosf (fst b), cosf (snd b))) bins.

  Lemma axis_sizes_meas k bins : axis_sizes k pi bins (cos_table bins) = map (fun b => meas cosf pi k (fst b) (snd b)) bins.
  Proof.
    unfold axis_sizes, cos_table. induction bins as [|b bins IH]; cbn [map combine]; [reflexivity|].
    rewrite IH. reflexivity.
  Qed.

  (** per-axis kinds [ks], per-axis consecutive bins [axes] starting at [starts]: total = product of the axis measures *)
  Fixpoint region (ks : list akind) (axes : list (list bin)) (starts : list Qc) : Qc :=
    match ks, axes, starts with
    | k :: ks', ax :: axes', x :: starts' => meas cosf pi k x (end_of x ax) * region ks' axes' starts'
    | _, _, _ => 1 end.
  Fixpoint chains (axes : list (list bin)) (starts : list Qc) : Prop :=
    match axes, starts with
    | ax :: axes', x :: starts' => chain x ax /\ chains axes' starts'
    | [], [] => True
    | _, _ => False end.

  Theorem sizes_sum_to_region : forall ks axes starts, length ks = length axes -> chains axes starts ->
    sumq (outer (map (fun p => axis_sizes (fst (fst p)) pi (snd (fst p)) (snd p)) (combine (combine ks axes) (map cos_table axes)))) =
    region ks axes starts.
  Proof.
    intros ks axes starts Hl Hc. rewrite outer_total.
    revert axes starts Hl Hc. induction ks as [|k ks IH]; intros [|ax axes] starts Hl Hc; try discriminate.
    - destruct starts; [reflexivity|contradiction].
    - destruct starts as [|x starts]; [contradiction|]. destruct Hc as [Hc1 Hc2].
      cbn [combine map fold_right fst snd region]. rewrite axis_sizes_meas, (measure_telescopes cosf pi k ax x Hc1).
      rewrite (IH axes starts); [reflexivity|cbn in Hl; lia|exact Hc2].
  Qed.
End Region.
