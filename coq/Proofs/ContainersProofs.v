From Physt Require Import Containers OrderQc FillProofs FillOrder.
Local Open Scope Qc_scope.

(** * rows with NaN are dropped together with their weights, nothing else is dropped, order is kept *)
Theorem dropna_spec rows ws : length rows = length ws ->
  let r' := fst (dropna rows ws) in let w' := snd (dropna rows ws) in
  length r' = length w' /\
  combine r' w' = filter (fun p => row_ok (fst p)) (combine rows ws) /\
  Forall (fun r => row_ok r = true) r' /\
  (forall r w, In (r, w) (combine rows ws) -> row_ok r = true -> In (r, w) (combine r' w')).
Proof.
  intros _. unfold dropna. cbn [fst snd]. set (kept := filter (fun p : list xnum * Qc => row_ok (fst p)) (combine rows ws)).
  assert (C : combine (map fst kept) (map snd kept) = kept).
  { clear. induction kept as [|[a b] k IH]; cbn [map combine fst snd]; [reflexivity|]. rewrite IH. reflexivity. }
  split; [rewrite !map_length; reflexivity|]. split; [exact C|]. split.
  - apply Forall_forall. intros r Hr. apply in_map_iff in Hr. destruct Hr as [[r0 w0] [E Hin]]. cbn [fst] in E. subst r0.
    apply filter_In in Hin. exact (proj2 Hin).
  - intros r w Hin Hok. rewrite C. apply filter_In. split; [exact Hin|exact Hok].
Qed.

(** without weights: the kept rows are exactly the NaN-free rows *)
Theorem dropna_rows_spec rows r : In r (dropna_rows rows) <-> In r rows /\ row_ok r = true.
Proof. unfold dropna_rows. apply filter_In. Qed.

(** * chunked evaluation: tallies are additive over any split of the data *)
Definition tstep {A} (place : A -> option nat) (acc : list Qc) (it : A * Qc) : list Qc :=
  match place (fst it) with Some p => add_at p (snd it) acc | None => acc end.
Lemma add_at_len p w : forall l, length (add_at p w l) = length l.
Proof. revert p. induction p as [|p IH]; intros [|x l]; cbn [add_at length]; auto. Qed.
Lemma tstep_len {A} (place : A -> option nat) acc it : length (tstep place acc it) = length acc.
Proof. unfold tstep. destruct (place (fst it)); [apply add_at_len|reflexivity]. Qed.
Lemma fold_len {A} (place : A -> option nat) items : forall acc, length (fold_left (tstep place) items acc) = length acc.
Proof. induction items as [|it r IH]; intros acc; cbn [fold_left]; [reflexivity|]. rewrite IH. apply tstep_len. Qed.

Lemma fold_from {A} (place : A -> option nat) n items : forall acc, length acc = n ->
  fold_left (tstep place) items acc = vadd acc (fold_left (tstep place) items (zeros n)).
Proof.
  induction items as [|it r IH]; intros acc Hl; cbn [fold_left].
  - symmetry. apply vadd_zeros. lia.
  - unfold tstep at 2 4. destruct (place (fst it)) as [p|]; [|apply IH; exact Hl].
    rewrite (add_at_vadd p (snd it) acc), (add_at_vadd p (snd it) (zeros n)), Hl, zeros_length.
    rewrite (IH (vadd acc (unit n p (snd it)))) by (rewrite vadd_length; rewrite ?unit_length; lia).
    rewrite (IH (vadd (zeros n) (unit n p (snd it)))) by (rewrite vadd_length; rewrite ?unit_length, ?zeros_length; lia).
    rewrite (vadd_comm (zeros n)), vadd_zeros by (rewrite unit_length; lia). apply vadd_assoc.
Qed.

Theorem tally_app {A} (place : A -> option nat) n a b :
  tally place n (a ++ b) = vadd (tally place n a) (tally place n b).
Proof.
  unfold tally. fold (@tstep A place). rewrite fold_left_app. fold (zeros n).
  apply fold_from. rewrite fold_len. apply zeros_length.
Qed.

(** ... hence any chunking gives the sum of the per-chunk tallies *)
Theorem tally_chunks {A} (place : A -> option nat) n chunks :
  tally place n (concat chunks) = fold_right vadd (zeros n) (map (tally place n) chunks).
Proof.
  induction chunks as [|c r IH]; cbn [concat map fold_right]; [reflexivity|].
  rewrite tally_app, IH. reflexivity.
Qed.
