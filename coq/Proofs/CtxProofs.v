From Physt Require Import Ctx.
Local Open Scope nat_scope.

(** the value that is restored once every open block of a context has been left *)
Definition bottom (x : ctx) : option bool := last (c_stack x) (c_bind x).

Lemma last_cons_ne {A} (a : A) l d : l <> [] -> last (a :: l) d = last l d.
Proof. destruct l; [congruence|reflexivity]. Qed.
Lemma last_indep {A} (l : list A) d d' : l <> [] -> last l d = last l d'.
Proof. induction l as [|a l IH]; [congruence|]. intros _. destruct l; [reflexivity|]. simpl in *. apply IH. discriminate. Qed.

(** * the context manager restores the previous value: for ANY body executed inside the block (nested blocks to any
      depth, assignments, reads, spawns), as long as the body's own blocks are closed, the value after the matching
      exit is the value before the enter *)
Fixpoint run_ctx (x : ctx) (l : list act) : ctx := match l with [] => x | a :: r => run_ctx (step_ctx x a) r end.

(** [balanced d l]: starting at nesting depth d, the body never closes a block it did not open and ends at depth d *)
Fixpoint balanced (d : nat) (l : list act) : Prop :=
  match l with
  | [] => True
  | AEnter _ :: r => balanced (S d) r /\ True
  | AExit :: r => match d with S d' => balanced d' r | O => False end
  | ARaise :: _ => False
  | _ :: r => balanced d r
  end.
Fixpoint depth_after (d : nat) (l : list act) : nat :=
  match l with
  | [] => d
  | AEnter _ :: r => depth_after (S d) r
  | AExit :: r => depth_after (pred d) r
  | _ :: r => depth_after d r end.

Lemma body_keeps_frame : forall body x base extra,
  c_stack x = extra ++ base -> base <> [] -> balanced (length extra) body -> depth_after (length extra) body = 0 ->
  exists b, run_ctx x body = mkCtx b base.
Proof.
  induction body as [|a body IH]; intros x base extra Hs Hb Hbal Hd.
  - simpl in *. destruct extra; [|discriminate]. simpl in Hs. destruct x as [b s]. simpl in Hs. subst. exists b. reflexivity.
  - destruct a; cbn [balanced depth_after run_ctx step_ctx] in *.
    + apply (IH _ base extra); auto.
    + destruct Hbal as [Hbal _]. apply (IH _ base (c_bind x :: extra)); auto. cbn [c_stack]. rewrite Hs. reflexivity.
    + destruct extra as [|t extra]; [contradiction|]. cbn [length pred] in *.
      rewrite Hs. cbn [app]. apply (IH _ base extra); auto.
    + contradiction.
    + apply (IH _ base extra); auto.
    + apply (IH _ base extra); auto.
    + apply (IH _ base extra); auto.
Qed.

Theorem cm_restores x b body :
  balanced 0 body -> depth_after 0 body = 0 ->
  c_bind (run_ctx x (AEnter b :: body ++ [AExit])) = c_bind x /\ c_stack (run_ctx x (AEnter b :: body ++ [AExit])) = c_stack x.
Proof.
  intros Hbal Hd. cbn [run_ctx step_ctx].
  assert (G : forall l y, run_ctx y (l ++ [AExit]) = step_ctx (run_ctx y l) AExit).
  { induction l as [|a l IHl]; intros y; cbn [run_ctx app]; [reflexivity|apply IHl]. }
  rewrite G.
  destruct (body_keeps_frame body (mkCtx (Some b) (c_bind x :: c_stack x)) (c_bind x :: c_stack x) [] eq_refl ltac:(discriminate) Hbal Hd) as [b' E].
  rewrite E. cbn [step_ctx c_stack c_bind]. auto.
Qed.

(** ... also when the body raises at any depth: all blocks opened since are left, the value before the outermost is back *)
Theorem cm_restores_on_raise x b body : c_stack x = [] ->
  (forall a, In a body -> a <> ARaise /\ a <> AExit) ->
  c_bind (run_ctx x (AEnter b :: body ++ [ARaise])) = c_bind x /\ c_stack (run_ctx x (AEnter b :: body ++ [ARaise])) = [].
Proof.
  intros Hs Hbody. cbn [run_ctx step_ctx].
  assert (G : forall l y, run_ctx y (l ++ [ARaise]) = step_ctx (run_ctx y l) ARaise).
  { induction l as [|a l IHl]; intros y; cbn [run_ctx app]; [reflexivity|apply IHl]. }
  rewrite G. cbn [step_ctx c_stack c_bind]. split; auto.
  (* bottom is invariant while no block opened before is closed *)
  assert (Inv : forall l y, (forall a, In a l -> a <> ARaise /\ a <> AExit) -> c_stack y <> [] ->
                 bottom (run_ctx y l) = bottom y /\ c_stack (run_ctx y l) <> []).
  { induction l as [|a l IHl]; intros y Hl Hy; simpl; auto.
    assert (Ha : a <> ARaise /\ a <> AExit) by (apply Hl; left; auto).
    assert (Hstep : bottom (step_ctx y a) = bottom y /\ c_stack (step_ctx y a) <> []).
    { unfold bottom. destruct a; cbn [step_ctx c_stack c_bind]; try (split; auto; fail).
      - split; auto. apply last_indep; auto.
      - split; [|discriminate]. rewrite last_cons_ne by auto. apply last_indep; auto.
      - destruct Ha as [_ Ha]. congruence.
      - destruct Ha as [Ha _]. congruence. }
    destruct Hstep as [S1 S2]. destruct (IHl (step_ctx y a) (fun a' H' => Hl a' (or_intror H')) S2) as [I1 I2].
    split; congruence. }
  destruct (Inv body (mkCtx (Some b) (c_bind x :: c_stack x)) Hbody ltac:(discriminate)) as [I1 _].
  unfold bottom in I1. rewrite I1. cbn [c_stack c_bind]. rewrite Hs. reflexivity.
Qed.

(** * isolation: what a context sees depends only on its own actions and on the spawn that created it *)
Lemma wstep_other w c a b : c <> b -> (forall ch, a = ASpawnTask ch \/ a = ASpawnThread ch -> ch <> b) ->
  wstep w (c, a) b = w b.
Proof.
  intros Hc Hsp. unfold wstep, upd_ctx.
  destruct a; try (destruct (Nat.eqb_spec b c); [congruence|reflexivity]).
  - destruct (Nat.eqb_spec b child); auto. exfalso. apply (Hsp child); auto.
  - destruct (Nat.eqb_spec b child); auto. exfalso. apply (Hsp child); auto.
Qed.

Definition touches (b : nat) (ca : nat * act) : Prop :=
  fst ca = b \/ snd ca = ASpawnTask b \/ snd ca = ASpawnThread b.

Theorem isolation : forall t w b, Forall (fun ca => ~ touches b ca) t -> wrun w t b = w b.
Proof.
  induction t as [|[c a] t IH]; intros w b H; simpl; auto.
  inversion H as [|? ? Hca Ht]; subst. rewrite IH by exact Ht.
  apply wstep_other.
  - intros E. apply Hca. left. exact E.
  - intros ch [E|E] Ech; subst; apply Hca; right; [left|right]; reflexivity.
Qed.

(** two schedules that differ only in what OTHER contexts do give context b the same state *)
Theorem schedule_independent s t1 t2 w b :
  Forall (fun ca => ~ touches b ca) t1 -> Forall (fun ca => ~ touches b ca) t2 ->
  wrun w (s ++ t1) b = wrun w (s ++ t2) b.
Proof. intros H1 H2. unfold wrun. rewrite !fold_left_app. pose proof (isolation t1 (fold_left wstep s w) b H1) as A1. pose proof (isolation t2 (fold_left wstep s w) b H2) as A2. unfold wrun in A1, A2. congruence. Qed.

(** a task starts with the value its creator had at creation time; a thread starts from the process default *)
Theorem spawn_snapshot w c ch dflt : c <> ch ->
  get_val dflt (wstep w (c, ASpawnTask ch) ch) = get_val dflt (w c) /\
  get_val dflt (wstep w (c, ASpawnThread ch) ch) = dflt.
Proof. intros H. unfold wstep, upd_ctx. rewrite Nat.eqb_refl. split; reflexivity. Qed.

(** what the checker accepts: every read reports (value, acceptance) = (v, v) with v the model value of the acting context
    in the state reached by the schedule prefix *)
Theorem observe_nth : forall sched dflt w i c a,
  nth_error sched i = Some (c, a) ->
  nth_error (observe_sched dflt w sched) i =
  Some (match a with ARead => LL [e_bool (get_val dflt (wrun w (firstn i sched) c)); e_bool (get_val dflt (wrun w (firstn i sched) c))] | _ => SS "-" end).
Proof.
  induction sched as [|[c0 a0] r IH]; intros dflt w i c a H.
  - destruct i; discriminate.
  - destruct i as [|i].
    + simpl in H. injection H as -> ->. reflexivity.
    + cbn [nth_error] in H. cbn [observe_sched nth_error firstn]. rewrite (IH dflt _ i c a H). reflexivity.
Qed.

(** the guard decision is the option's value: in the model a guarded operation is accepted iff the acting context reads True;
    a thread/process that never touched the option sees exactly the environment default *)
Theorem untouched_sees_default dflt sched c :
  Forall (fun ca => ~ touches c ca) sched -> get_val dflt (wrun init_world sched c) = dflt.
Proof. intros H. rewrite isolation by exact H. reflexivity. Qed.
