From Physt Require Import Binning OrderQc.
Local Open Scope Qc_scope.

(** * pairs <-> edges *)
Lemma to_from_edges a b r : to_edges (from_edges (a :: b :: r)) = a :: b :: r.
Proof.
  revert a b. induction r as [|c r IH]; intros a b; [reflexivity|].
  change (from_edges (a :: b :: c :: r)) with ((a, b) :: from_edges (b :: c :: r)).
  specialize (IH b c). unfold to_edges in *. cbn [fst map snd].
  destruct (from_edges (b :: c :: r)) as [|x l] eqn:E; [discriminate|]. cbn [map] in *. injection IH as E1 E2 E3. rewrite E2, E3. reflexivity.
Qed.

Lemma from_to_edges l : l <> [] -> consecutive_exact l = true -> from_edges (to_edges l) = l.
Proof.
  induction l as [|[a b] l IH]; [congruence|]. intros _ H. unfold to_edges. cbn [fst map snd].
  destruct l as [|[c d] l]; [reflexivity|].
  cbn [consecutive_exact fst snd] in H. apply andb_prop in H. destruct H as [H1 H2]. apply Qceqb_eq in H1. cbn [fst snd] in H1. subst c.
  cbn [map snd from_edges]. f_equal. specialize (IH ltac:(discriminate) H2). unfold to_edges in IH. cbn [fst map snd] in IH. exact IH.
Qed.

Lemma from_edges_consecutive e : consecutive_exact (from_edges e) = true.
Proof.
  induction e as [|a e IH]; [reflexivity|]. destruct e as [|b e]; [reflexivity|]. destruct e as [|c e]; [reflexivity|].
  change (from_edges (a :: b :: c :: e)) with ((a, b) :: (b, c) :: from_edges (c :: e)).
  cbn [consecutive_exact fst snd]. rewrite Qceqb_refl. exact IH.
Qed.

Lemma from_edges_rising e : risingb (from_edges e) = increasing e.
Proof.
  induction e as [|a e IH]; [reflexivity|]. destruct e as [|b e]; [reflexivity|].
  change (from_edges (a :: b :: e)) with ((a, b) :: from_edges (b :: e)). cbn [risingb increasing fst snd]. rewrite IH.
  destruct e as [|c e]; cbn [from_edges]; [rewrite andb_true_r; reflexivity|].
  cbn [fst]. assert (R : Qcleb b b = true) by (apply Qcleb_le, Qcle_refl). rewrite R, andb_true_r. reflexivity.
Qed.

(** * edges with mask: the i-th mask entry points at the left edge of the i-th bin, the next edge is its right edge *)
Lemma nth_last {A} (p : list A) j d : length p = S j -> nth j p d = last p d.
Proof.
  revert j. induction p as [|x p IH]; intros j H; [discriminate|]. destruct p as [|y p].
  - cbn in H. injection H as <-. reflexivity.
  - destruct j as [|j]; [discriminate|]. assert (H' : length (y :: p) = S j) by (cbn [length] in *; lia). change (nth (S j) (x :: y :: p) d) with (nth j (y :: p) d). rewrite (IH j H'). reflexivity.
Qed.
Lemma last_snoc {A} (p : list A) x d : last (p ++ [x]) d = x.
Proof. induction p as [|y p IH]; [reflexivity|]. cbn [app]. destruct (p ++ [x]) eqn:E; [destruct p; discriminate|]. cbn [last]. exact IH. Qed.

Lemma mask_loop_cons j b c r : mask_loop j (b :: c :: r) =
  if Qceqb (snd b) (fst c)
  then (snd b :: fst (mask_loop (S j) (c :: r)), j :: snd (mask_loop (S j) (c :: r)))
  else (snd b :: fst c :: fst (mask_loop (S (S j)) (c :: r)), j :: snd (mask_loop (S (S j)) (c :: r))).
Proof. reflexivity. Qed.

Lemma mask_loop_spec : forall l j p, l <> [] -> length p = S j -> last p 0 = fst (hd (0, 0) l) ->
  length (snd (mask_loop j l)) = length l /\
  forall i, (i < length l)%nat ->
    nth (nth i (snd (mask_loop j l)) O) (p ++ fst (mask_loop j l)) 0 = fst (nth i l (0, 0)) /\
    nth (S (nth i (snd (mask_loop j l)) O)) (p ++ fst (mask_loop j l)) 0 = snd (nth i l (0, 0)).
Proof.
  unfold bin in *. induction l as [|b r IH]; intros j p Hne Hlen Hlast; [congruence|].
  assert (Hj : nth j p 0 = fst b). { rewrite (nth_last p j 0 Hlen). exact Hlast. }
  destruct r as [|c r'].
  - cbn [mask_loop fst snd length]. split; [reflexivity|]. intros i Hi. assert (i = O) by lia. subst i. cbn [nth]. split.
    + rewrite app_nth1 by lia. exact Hj.
    + rewrite app_nth2 by lia. rewrite Hlen, Nat.sub_diag. reflexivity.
  - rewrite mask_loop_cons. destruct (Qceqb (snd b) (fst c)) eqn:Eq.
    + apply Qceqb_eq in Eq. cbn [fst snd].
      specialize (IH (S j) (p ++ [snd b])%list ltac:(discriminate)).
      rewrite app_length in IH. cbn [length] in IH. specialize (IH ltac:(lia)). rewrite last_snoc in IH. specialize (IH Eq).
      destruct IH as [IH1 IH2]. split; [cbn [length] in *; exact (f_equal S IH1)|].
      intros i Hi. destruct i as [|i].
      * cbn [nth]. split.
        -- rewrite app_nth1 by lia. exact Hj.
        -- rewrite app_nth2 by lia. rewrite Hlen, Nat.sub_diag. reflexivity.
      * cbn [nth].
        match goal with |- context [(p ++ snd b :: ?X)%list] =>
          replace (p ++ snd b :: X)%list with ((p ++ [snd b]) ++ X)%list by (rewrite <- app_assoc; reflexivity) end.
        apply IH2. cbn [length] in *. lia.
    + cbn [fst snd].
      specialize (IH (S (S j)) (p ++ [snd b; fst c])%list ltac:(discriminate)).
      rewrite app_length in IH. cbn [length] in IH. specialize (IH ltac:(lia)).
      assert (L : last (p ++ [snd b; fst c])%list 0 = fst c).
      { change [snd b; fst c] with ([snd b] ++ [fst c])%list. rewrite app_assoc. apply last_snoc. }
      specialize (IH L). destruct IH as [IH1 IH2]. split; [cbn [length] in *; exact (f_equal S IH1)|].
      intros i Hi. destruct i as [|i].
      * cbn [nth]. split.
        -- rewrite app_nth1 by lia. exact Hj.
        -- rewrite app_nth2 by lia. rewrite Hlen, Nat.sub_diag. reflexivity.
      * cbn [nth].
        match goal with |- context [(p ++ snd b :: fst c :: ?X)%list] =>
          replace (p ++ snd b :: fst c :: X)%list with ((p ++ [snd b; fst c]) ++ X)%list by (rewrite <- app_assoc; reflexivity) end.
        apply IH2. cbn [length] in *. lia.
Qed.

Theorem mask_correct l : l <> [] ->
  length (snd (edges_mask l)) = length l /\
  forall i, (i < length l)%nat ->
    nth (nth i (snd (edges_mask l)) O) (fst (edges_mask l)) 0 = fst (nth i l (0, 0)) /\
    nth (S (nth i (snd (edges_mask l)) O)) (fst (edges_mask l)) 0 = snd (nth i l (0, 0)).
Proof.
  intros Hne. destruct l as [|b r]; [congruence|]. unfold edges_mask. cbn [fst snd].
  apply (mask_loop_spec (b :: r) 0 [fst b] Hne eq_refl eq_refl).
Qed.

(** * slices of a well-formed binning are well-formed *)
Lemma risingb_tail b l : risingb (b :: l) = true -> risingb l = true.
Proof. cbn [risingb]. intros H. apply andb_prop in H. tauto. Qed.
Lemma risingb_skipn n : forall l, risingb l = true -> risingb (skipn n l) = true.
Proof. induction n as [|n IH]; intros l H; [exact H|]. destruct l as [|b l]; [reflexivity|]. cbn [skipn]. apply IH. eapply risingb_tail; eauto. Qed.
Lemma risingb_firstn n : forall l, risingb l = true -> risingb (firstn n l) = true.
Proof.
  induction n as [|n IH]; intros l H; [reflexivity|]. destruct l as [|b l]; [reflexivity|]. cbn [firstn].
  pose proof (IH l (risingb_tail _ _ H)) as R. cbn [risingb] in H |- *. apply andb_prop in H. destruct H as [H1 H3]. apply andb_prop in H1. destruct H1 as [H1 H2].
  rewrite H1, R. destruct n as [|n]; [reflexivity|]. destruct l as [|c l]; [reflexivity|]. cbn [firstn]. rewrite H2. reflexivity.
Qed.
Theorem slice_rising a b l : risingb l = true -> risingb (slice_bins a b l) = true.
Proof. intros H. unfold slice_bins. apply risingb_firstn, risingb_skipn, H. Qed.

(** * pretty widths: inside the geometric-mean cell no candidate at or beyond a neighbour is closer on the log scale *)
Theorem pretty_nearest raw w lo hi c : 0 < raw -> 0 < lo -> lo < w -> w < hi ->
  raw * raw <= w * hi -> w * lo <= raw * raw -> 0 < c ->
  (hi <= c -> w <= c /\ raw * raw <= w * c) /\ (c <= lo -> c <= w /\ w * c <= raw * raw).
Proof.
  intros Hr Hlo Hlw Hwh H1 H2 Hc. split; intros H.
  - split; [qc2q; lra|]. apply Qcle_trans with (w * hi); [exact H1|]. qc2q. nra.
  - split; [qc2q; lra|]. apply Qcle_trans with (w * lo); [|exact H2]. qc2q. nra.
Qed.

(** * bin-count rules: the integer inequalities determine the count *)
Lemma pow2_mono a b : (0 <= a <= b)%Z -> (2 ^ a <= 2 ^ b)%Z.
Proof. intros H. apply Z.pow_le_mono_r; lia. Qed.
Theorem sturges_unique n k k' : sturges_ok n k = true -> sturges_ok n k' = true -> k = k'.
Proof.
  unfold sturges_ok. destruct (n <=? 1)%Z; [intros A B; apply Z.eqb_eq in A, B; lia|].
  intros A B. repeat (apply andb_prop in A; destruct A as [A ?]). repeat (apply andb_prop in B; destruct B as [B ?]).
  apply Z.leb_le in A, B. rewrite Z.ltb_lt in *. rewrite Z.leb_le in *.
  destruct (Z.lt_trichotomy k k') as [L|[E|L]]; [|exact E|]; exfalso.
  - assert (2 ^ (k - 1) <= 2 ^ (k' - 2))%Z by (apply pow2_mono; lia). lia.
  - assert (2 ^ (k' - 1) <= 2 ^ (k - 2))%Z by (apply pow2_mono; lia). lia.
Qed.
Theorem sqrt_unique n k k' : sqrt_ok n k = true -> sqrt_ok n k' = true -> k = k'.
Proof.
  unfold sqrt_ok. destruct (n <? 1)%Z; [intros A B; apply Z.eqb_eq in A, B; lia|].
  intros A B. repeat (apply andb_prop in A; destruct A as [A ?]). repeat (apply andb_prop in B; destruct B as [B ?]).
  apply Z.leb_le in A, B. rewrite Z.ltb_lt in *. rewrite Z.leb_le in *.
  destruct (Z.lt_trichotomy k k') as [L|[E|L]]; [|exact E|]; exfalso.
  - assert (k <= k' - 1)%Z by lia. assert (k * k <= (k' - 1) * (k' - 1))%Z by nia. lia.
  - assert (k' <= k - 1)%Z by lia. assert (k' * k' <= (k - 1) * (k - 1))%Z by nia. lia.
Qed.
Lemma cube_mono a b : (0 <= a <= b)%Z -> (a * a * a <= b * b * b)%Z.
Proof. intros H. assert (a * a <= b * b)%Z by nia. apply Z.mul_le_mono_nonneg; nia. Qed.
Theorem rice_unique n k k' : rice_ok n k = true -> rice_ok n k' = true -> k = k'.
Proof.
  unfold rice_ok. destruct (n <? 1)%Z; [intros A B; apply Z.eqb_eq in A, B; lia|].
  intros A B. repeat (apply andb_prop in A; destruct A as [A ?]). repeat (apply andb_prop in B; destruct B as [B ?]).
  apply Z.leb_le in A, B. rewrite Z.ltb_lt in *. rewrite Z.leb_le in *.
  destruct (Z.lt_trichotomy k k') as [L|[E|L]]; [|exact E|]; exfalso.
  - assert (k <= k' - 1)%Z by lia. assert (k * k * k <= (k' - 1) * (k' - 1) * (k' - 1))%Z by (apply cube_mono; lia). lia.
  - assert (k' <= k - 1)%Z by lia. assert (k' * k' * k' <= (k - 1) * (k - 1) * (k - 1))%Z by (apply cube_mono; lia). lia.
Qed.
