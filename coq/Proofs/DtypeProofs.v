From Physt Require Import DtypeCases ArithProofs.

Lemma dt_eqb_eq a b : dt_eqb a b = true <-> a = b.
Proof. destruct a, b; simpl; split; intros H; try reflexivity; try discriminate. Qed.
Lemma dt_eqb_refl a : dt_eqb a a = true.
Proof. destruct a; reflexivity. Qed.

Definition cons (h : dh) : Prop := y_fdt h = y_dt h /\ y_edt h = y_dt h.
Lemma consistent_iff h : consistent h = true <-> cons h.
Proof. unfold consistent, cons. rewrite andb_true_iff, !dt_eqb_eq. split; intros [A B]; split; congruence. Qed.

Lemma promote_absorb a b : promote (promote a b) b = promote a b.
Proof. destruct a, b; reflexivity. Qed.

Lemma dcoerce_dt h d : y_dt (dcoerce h d) = promote (y_dt h) d.
Proof.
  unfold dcoerce. destruct (dt_eqb (promote (y_dt h) d) (y_dt h)) eqn:E; cbn [y_dt]; auto.
  apply dt_eqb_eq in E. congruence.
Qed.
Lemma dcoerce_cons h d : cons h -> cons (dcoerce h d).
Proof. unfold dcoerce. destruct (dt_eqb _ _); auto. intros _. split; reflexivity. Qed.

Definition op_cons (o : dop) : Prop := match o with DAdd x | DSub x => cons x | _ => True end.

(** * after any operation the recorded dtype is the element type of frequencies and errors2 *)
Theorem dtype_inv_step h o : cons h -> op_cons o -> cons (fst (dstep h o)).
Proof.
  intros Hc Ho. destruct o; cbn [dstep].
  - destruct (kind_dt k); cbn [fst]; auto. pose proof (dcoerce_cons h d Hc) as [A B]. split; cbn [y_fdt y_edt y_dt]; auto.
  - cbn [fst]. destruct ws; [pose proof (dcoerce_cons h wdt Hc) as [A B]|destruct Hc as [A B]]; split; cbn [y_fdt y_edt y_dt]; auto.
  - cbn [op_cons] in Ho. destruct Ho as [O1 O2].
    destruct (negb (Nat.eqb _ _)); cbn [fst]; auto.
    destruct (negb (same_axes h o)).
    + destruct (negb (forallb axis_adaptive (y_axes h))); cbn [fst]; auto.
      destruct (xpos _); cbn [fst]; auto. destruct (negb (forallb _ (y_axes o))); cbn [fst]; auto.
      pose proof (dcoerce_cons h (y_dt o) Hc) as [A B]. pose proof (dcoerce_dt h (y_dt o)) as D.
      destruct (adapt_axes _ _ _ _ _ _ _ _ _) as [[[[[axs f1] e1] f2] e2]|]; cbn [fst]; [|split; auto].
      split; cbn [y_fdt y_edt y_dt]; rewrite ?A, ?B, ?O1, ?O2, D; apply promote_absorb.
    + cbn [fst]. pose proof (dcoerce_cons h (y_dt o) Hc) as [A B]. pose proof (dcoerce_dt h (y_dt o)) as D.
      split; cbn [y_fdt y_edt y_dt]; rewrite ?A, ?B, ?O1, ?O2, D; apply promote_absorb.
  - destruct (negb (same_axes h o)); cbn [fst]; auto. destruct (negb (nonneg _)); cbn [fst]; auto. split; reflexivity.
  - destruct (kind_dt k) as [d|]; cbn [fst]; auto.
    destruct (Qcltb c 0); cbn [fst]; auto.
    pose proof (dcoerce_cons h d Hc) as [A B]. pose proof (dcoerce_dt h d) as D.
    destruct (negb (nonneg _)); cbn [fst]; [split; auto|].
    split; cbn [y_fdt y_edt y_dt]; rewrite ?A, ?B, D; apply promote_absorb.
  - destruct (kind_dt k) as [d|]; cbn [fst]; auto.
    destruct (Qcltb c 0); cbn [fst]; auto.
    pose proof (dcoerce_cons h (promote F64 d) Hc) as [A B]. pose proof (dcoerce_dt h (promote F64 d)) as D.
    destruct (negb (nonneg _)); cbn [fst]; [split; auto|].
    split; cbn [y_fdt y_edt y_dt]; rewrite ?A, ?B, D; destruct (dt_is_int d); auto;
      rewrite promote_assoc, promote_absorb; reflexivity.
  - cbn [fst]. pose proof (dcoerce_cons h F64 Hc) as [A B]. split; cbn [y_fdt y_edt y_dt]; auto.
  - destruct (bins_apply_map _ _); cbn [fst]; auto. destruct Hc as [A B]. split; cbn [y_fdt y_edt y_dt]; auto.
  - unfold set_dtype. destruct (dt_eqb t (y_dt h)); cbn [fst]; auto.
    destruct (if can_cast (y_dt h) t then true else _); cbn [fst]; auto. split; reflexivity.
Qed.

Theorem dtype_inv : forall ops h, cons h -> Forall op_cons ops -> Forall (fun x => cons (fst x)) (drun h ops).
Proof.
  induction ops as [|o ops IH]; intros h Hc Ho; cbn [drun]; constructor; inversion Ho; subst.
  - apply dtype_inv_step; auto.
  - apply IH; auto. apply dtype_inv_step; auto.
Qed.

(** * unweighted counting stays integer; a float weight / factor promotes to float *)
Theorem unweighted_stays_int h poss : dt_is_int (y_dt h) = true ->
  dt_is_int (y_dt (fst (dstep h (DFillN poss None I64)))) = true.
Proof. intros H. cbn [dstep fst y_dt]. exact H. Qed.

Theorem int_weight_stays_int h pos w k d : dt_is_int (y_dt h) = true -> kind_dt k = Some d -> dt_is_int d = true ->
  dt_is_int (y_dt (fst (dstep h (DFill pos w k)))) = true.
Proof.
  intros H K D. cbn [dstep]. rewrite K. cbn [fst y_dt]. rewrite dcoerce_dt. apply promote_int_stays_int; auto.
Qed.

Theorem float_weight_promotes h pos w k d : kind_dt k = Some d -> dt_is_int d = false ->
  dt_is_int (y_dt (fst (dstep h (DFill pos w k)))) = false.
Proof.
  intros K D. cbn [dstep]. rewrite K. cbn [fst y_dt]. rewrite dcoerce_dt. apply promote_float_absorbs; auto.
Qed.

Theorem division_promotes h c k d : kind_dt k = Some d -> Qcltb c 0 = false -> dt_is_int (y_dt (fst (dstep h (DDiv c k)))) = false.
Proof.
  intros K Hc. cbn [dstep]. rewrite K, Hc.
  assert (G : dt_is_int (promote (y_dt h) (promote F64 d)) = false).
  { apply promote_float_absorbs. destruct d; reflexivity. }
  destruct (negb (nonneg _)); cbn [fst y_dt]; rewrite ?dcoerce_dt; exact G.
Qed.

(** * an explicit dtype change is accepted exactly under the stated rule, and a refusal changes nothing *)
Theorem set_dtype_refused_unchanged h t : set_dtype h t = None -> dstep h (DSet t) = (h, true).
Proof. intros H. cbn [dstep]. rewrite H. reflexivity. Qed.

(** float -> integer is accepted only if every content and squared error is integral and within the target's range *)
Theorem set_dtype_float_to_int h t h' : dt_is_int t = true -> dt_is_int (y_dt h) = false ->
  set_dtype h t = Some h' ->
  forallb is_integral (y_freq h) = true /\ forallb is_integral (y_err2 h) = true /\
  forallb (in_range_dt t) (y_freq h) = true /\ forallb (in_range_dt t) (y_err2 h) = true.
Proof.
  intros It If. unfold set_dtype.
  assert (E : dt_eqb t (y_dt h) = false) by (destruct t, (y_dt h); simpl in *; try reflexivity; discriminate).
  rewrite E.
  assert (Ec : can_cast (y_dt h) t = false) by (destruct t, (y_dt h); simpl in *; try reflexivity; discriminate).
  rewrite Ec, It, If. cbn [negb andb].
  destruct (forallb is_integral (y_freq h)); destruct (forallb is_integral (y_err2 h));
  destruct (forallb (in_range_dt t) (y_freq h)); destruct (forallb (in_range_dt t) (y_err2 h)); cbn [andb]; intros H; try discriminate; auto.
Qed.

(** any narrowing is accepted only if all values are within the target's range *)
Theorem set_dtype_narrowing_in_range h t h' : can_cast (y_dt h) t = false -> t <> y_dt h ->
  set_dtype h t = Some h' ->
  forallb (in_range_dt t) (y_freq h) = true /\ forallb (in_range_dt t) (y_err2 h) = true.
Proof.
  intros Ec Hne. unfold set_dtype.
  assert (E : dt_eqb t (y_dt h) = false) by (destruct (dt_eqb t (y_dt h)) eqn:E; auto; apply dt_eqb_eq in E; contradiction).
  rewrite E, Ec.
  destruct (if dt_is_int t && negb (dt_is_int (y_dt h)) then _ else true);
  destruct (forallb (in_range_dt t) (y_freq h)); destruct (forallb (in_range_dt t) (y_err2 h)); cbn [andb]; intros H; try discriminate; auto.
Qed.
