From Physt Require Import Calc1D OrderQc SweepProofs ArrLemmas.
From Coq Require Import Permutation Sorting.Sorted.

Definition fsum (f : Qc * Qc -> Qc) (l : list (Qc * Qc)) : Qc := sumq (map f l).

Lemma fsum_filter_perm (f : Qc * Qc -> Qc) (P : Qc * Qc -> bool) l m :
  Permutation l m -> fsum f (filter P l) = fsum f (filter P m).
Proof.
  unfold fsum. induction 1 as [|x l m _ IH|x y l|l m n _ IH1 _ IH2]; simpl; auto.
  - destruct (P x); simpl; rewrite IH; reflexivity.
  - destruct (P x), (P y); simpl; ring.
  - congruence.
Qed.

Notation sortedQ := (sorted (W:=Qc) Qcltb).

Lemma filter_filter_and {A} (P Q : A -> bool) l : filter P (filter Q l) = filter (fun x => Q x && P x) l.
Proof. induction l as [|a l IH]; simpl; auto. destruct (Q a); simpl; auto. destruct (P a); simpl; rewrite IH; auto. Qed.
Definition isortQ := @isort Qc Qc Qcltb.

Lemma isortQ_sorted ps : sortedQ (isortQ ps).
Proof. apply isort_sorted. exact Qcltb_irrefl. exact Qcltb_trans. exact Qcltb_total. Qed.
Lemma isortQ_perm ps : Permutation ps (isortQ ps).
Proof. apply isort_perm. Qed.

Lemma leb'_le v x : leb' Qcltb v x = Qcleb v x.
Proof. unfold leb'. symmetry. apply Qcleb_negb_ltb. Qed.

Lemma leb_split v hi : Qcleb v hi = Qcltb v hi || Qceqb v hi.
Proof.
  destruct (Qcltb v hi) eqn:E1; simpl.
  - apply Qcleb_le. apply Qclt_le_weak. apply Qcltb_lt. exact E1.
  - destruct (Qceqb v hi) eqn:E2.
    + apply Qceqb_eq in E2. subst. apply Qcleb_le. apply Qcle_refl.
    + apply Qcleb_gt. apply Qcltb_ge in E1. destruct (Qcle_lt_or_eq _ _ E1) as [H|H]; auto.
      subst. rewrite Qceqb_refl in E2. discriminate.
Qed.

(** one inner bin: the slice between the two searchsorted('left') positions *)
Lemma slice_inner s lo hi : sortedQ s -> lo <= hi ->
  slice (ss_left Qcltb lo s) (ss_left Qcltb hi s) s
  = filter (fun p => in_bin (lo, hi) false (fst p)) s.
Proof.
  intros Hs Hle. unfold ss_left.
  rewrite (slice_between (W:=Qc) Qcltb (fun v => Qcltb v lo) (fun v => Qcltb v hi) s Hs).
  - apply filter_ext. intros [v w]. unfold in_bin. cbn [fst snd].
    rewrite Qcleb_negb_ltb. rewrite andb_false_l, orb_false_r. reflexivity.
  - intros x y. apply (lt_downward Qcltb Qcltb_trans Qcltb_total).
  - intros x y. apply (lt_downward Qcltb Qcltb_trans Qcltb_total).
  - intros x Hx. apply Qcltb_lt. apply Qcltb_lt in Hx. eapply Qclt_le_trans; eauto.
Qed.

(** the last bin: right position found with side='right' *)
Lemma slice_last s lo hi : sortedQ s -> lo <= hi ->
  slice (ss_left Qcltb lo s) (ss_right Qcltb hi s) s
  = filter (fun p => in_bin (lo, hi) true (fst p)) s.
Proof.
  intros Hs Hle. unfold ss_left, ss_right.
  rewrite (slice_between (W:=Qc) Qcltb (fun v => Qcltb v lo) (fun v => leb' Qcltb v hi) s Hs).
  - apply filter_ext. intros [v w]. unfold in_bin. cbn [fst snd].
    rewrite Qcleb_negb_ltb, leb'_le, leb_split. rewrite andb_true_l. reflexivity.
  - intros x y. apply (lt_downward Qcltb Qcltb_trans Qcltb_total).
  - intros x y. apply (leb_trans Qcltb Qcltb_trans Qcltb_total).
  - intros x Hx. rewrite leb'_le. apply Qcleb_le. apply Qcltb_lt in Hx. apply Qclt_le_weak. eapply Qclt_le_trans; eauto.
Qed.

Definition bins_ok (bins : list bin) : Prop := Forall (fun b : bin => fst b <= snd b) bins.

(** calculate_1d_frequencies computes, for every bin, the filter-and-sum of the specification *)
Theorem sweep_is_spec ps : forall bins, bins_ok bins ->
  sweep (isortQ ps) bins = spec_bins1 ps bins.
Proof.
  induction bins as [|b r IH]; intros Hok; simpl; auto.
  inversion Hok as [|? ? Hb Hr]; subst. rewrite (IH Hr). f_equal.
  destruct b as [lo hi]. cbn [fst snd] in *.
  destruct r as [|c r'].
  - rewrite slice_last by (auto using isortQ_sorted).
    unfold wsum, w2sum. f_equal.
    + apply (fsum_filter_perm snd). apply Permutation_sym, isortQ_perm.
    + apply (fsum_filter_perm (fun p => sq (snd p))). apply Permutation_sym, isortQ_perm.
  - rewrite slice_inner by (auto using isortQ_sorted).
    unfold wsum, w2sum. f_equal.
    + apply (fsum_filter_perm snd). apply Permutation_sym, isortQ_perm.
    + apply (fsum_filter_perm (fun p => sq (snd p))). apply Permutation_sym, isortQ_perm.
Qed.

(** underflow / overflow as computed = weight strictly below the first / above the last edge *)
Lemma under_is_spec ps lo : 
  wsum (firstn (ss_left Qcltb lo (isortQ ps)) (isortQ ps)) = wsum (filter (fun p => Qcltb (fst p) lo) ps).
Proof.
  unfold ss_left.
  destruct (split_by (W:=Qc) Qcltb (fun v => Qcltb v lo) (isortQ ps) (isortQ_sorted ps)) as [S1 _].
  { intros x y. apply (lt_downward Qcltb Qcltb_trans Qcltb_total). }
  rewrite S1. apply (fsum_filter_perm snd). apply Permutation_sym, isortQ_perm.
Qed.

Lemma over_is_spec ps hi :
  wsum (skipn (ss_right Qcltb hi (isortQ ps)) (isortQ ps)) = wsum (filter (fun p => Qcltb hi (fst p)) ps).
Proof.
  unfold ss_right.
  destruct (split_by (W:=Qc) Qcltb (fun v => leb' Qcltb v hi) (isortQ ps) (isortQ_sorted ps)) as [_ S2].
  { intros x y. apply (leb_trans Qcltb Qcltb_trans Qcltb_total). }
  rewrite S2. transitivity (wsum (filter (fun p => Qcltb hi (fst p)) (isortQ ps))).
  - f_equal. apply filter_ext. intros [v w]. cbn [fst]. unfold leb'. rewrite negb_involutive. reflexivity.
  - apply (fsum_filter_perm snd). apply Permutation_sym, isortQ_perm.
Qed.

(** * Accounting: with exactly consecutive rising bins every value is in exactly one of
      {below, bin_0, ..., bin_{n-1}, above}, hence  total + underflow + overflow = input weight *)
Lemma wsum_split (P : Qc * Qc -> bool) l : wsum l = wsum (filter P l) + wsum (filter (fun p => negb (P p)) l).
Proof. unfold wsum. induction l as [|a l IH]; simpl. ring. destruct (P a); simpl; rewrite IH; ring. Qed.

Lemma wsum_filter_ext (P Q : Qc * Qc -> bool) l : (forall p, P p = Q p) -> wsum (filter P l) = wsum (filter Q l).
Proof. intros H. f_equal. apply filter_ext. exact H. Qed.

(** chain starting at [lo]: bins are consecutive, first left edge is lo *)
Fixpoint chain (lo : Qc) (bins : list bin) : Prop :=
  match bins with
  | [] => True
  | b :: r => fst b = lo /\ fst b <= snd b /\ chain (snd b) r
  end.

Lemma chain_accounting ps : forall bins lo, bins <> [] -> chain lo bins ->
  sumq (map fst (spec_bins1 ps bins)) + wsum (filter (fun p => Qcltb (last_hi bins) (fst p)) ps)
  = wsum (filter (fun p => Qcleb lo (fst p)) ps).
Proof.
  induction bins as [|b r IH]; intros lo Hne Hc; [congruence|].
  destruct Hc as [Hlo [Hle Hc]]. destruct b as [l h]. cbn [fst snd] in *. subst l.
  destruct r as [|c r'].
  - cbn [spec_bins1 map fst]. unfold sumq at 1. cbn [fold_right]. rewrite Qcplus_0_r.
    unfold last_hi. cbn [last snd].
    rewrite (wsum_split (fun p => Qcleb (fst p) h) (filter (fun p => Qcleb lo (fst p)) ps)).
    rewrite !filter_filter_and. f_equal.
    + apply wsum_filter_ext. intros [v w]. unfold in_bin. cbn [fst snd]. rewrite andb_true_l.
      rewrite <- leb_split. reflexivity.
    + apply wsum_filter_ext. intros [v w]. cbn [fst].
      rewrite (Qcleb_negb_ltb v h), negb_involutive.
      destruct (Qcltb h v) eqn:E; [rewrite andb_true_r|rewrite andb_false_r; reflexivity].
      symmetry. apply Qcleb_le.
      apply Qcltb_lt in E. apply Qclt_le_weak. eapply Qcle_lt_trans; eauto.
  - change (spec_bins1 ps ((lo, h) :: c :: r')) with
      ((wsum (filter (fun p => in_bin (lo, h) false (fst p)) ps), w2sum (filter (fun p => in_bin (lo, h) false (fst p)) ps))
         :: spec_bins1 ps (c :: r')).
    cbn [map fst]. unfold sumq at 1. cbn [fold_right]. fold (sumq (map fst (spec_bins1 ps (c :: r')))).
    change (last_hi ((lo, h) :: c :: r')) with (last_hi (c :: r')).
    rewrite <- Qcplus_assoc. rewrite (IH h ltac:(discriminate) Hc).
    rewrite (wsum_split (fun p => Qcltb (fst p) h) (filter (fun p => Qcleb lo (fst p)) ps)).
    rewrite !filter_filter_and. f_equal.
    + apply wsum_filter_ext. intros [v w]. unfold in_bin. cbn [fst snd]. rewrite andb_false_l, orb_false_r. reflexivity.
    + apply wsum_filter_ext. intros [v w]. cbn [fst].
      rewrite (Qcleb_negb_ltb h v).
      destruct (Qcltb v h) eqn:E; cbn [negb]; [rewrite andb_false_r; reflexivity|rewrite andb_true_r].
      symmetry. apply Qcleb_le.
      apply Qcltb_ge in E. eapply Qcle_trans; eauto.
Qed.

(** * The refinement theorem: the checker accepts the model's own run *)
From Physt Require Import SxLemmas.

Lemma risingb_bins_ok bins : risingb bins = true -> bins_ok bins.
Proof.
  unfold bins_ok. induction bins as [|b r IH]; simpl; intros H; constructor.
  - apply andb_true_iff in H. destruct H as [H _]. apply andb_true_iff in H. destruct H as [H _].
    apply Qclt_le_weak. apply Qcltb_lt. exact H.
  - apply IH. apply andb_true_iff in H. tauto.
Qed.

Lemma rising_chain bins : risingb bins = true -> consecutive_exact bins = true ->
  match bins with b :: _ => chain (fst b) bins | [] => True end.
Proof.
  destruct bins as [|b r]; auto. revert b.
  induction r as [|c r IH]; intros b Hr Hc.
  - simpl in *. repeat split; auto. apply andb_true_iff in Hr. destruct Hr as [Hr _].
    apply andb_true_iff in Hr. destruct Hr as [Hr _]. apply Qclt_le_weak, Qcltb_lt, Hr.
  - change (fst b = fst b /\ fst b <= snd b /\ chain (snd b) (c :: r)).
    split; [reflexivity|]. split.
    + cbn [risingb] in Hr. apply andb_true_iff in Hr. destruct Hr as [Hr _].
      apply andb_true_iff in Hr. destruct Hr as [Hr _]. apply Qclt_le_weak, Qcltb_lt, Hr.
    + cbn [consecutive_exact] in Hc. apply andb_true_iff in Hc. destruct Hc as [Hc1 Hc2].
      apply Qceqb_eq in Hc1. rewrite <- Hc1. apply IH; auto.
      cbn [risingb] in Hr. apply andb_true_iff in Hr. tauto.
Qed.

Lemma allclose1_refl x : allclose1 x x = true.
Proof.
  unfold allclose1. apply Qcleb_le. replace (x - x) with 0 by ring.
  unfold Qcabs at 1. rewrite Qcltb_irrefl.
  assert (H2 : 0 <= Qcabs x).
  { unfold Qcabs. destruct (Qcltb x 0) eqn:E. apply Qcltb_lt in E. qc2q; lra. apply Qcltb_ge in E. exact E. }
  qc2q. nra.
Qed.

Lemma exact_tol bins : consecutive_exact bins = true -> consecutive_tol bins = true.
Proof.
  induction bins as [|b r IH]; simpl; auto. destruct r as [|c r']; auto.
  intros H. apply andb_true_iff in H. destruct H as [H1 H2]. apply Qceqb_eq in H1. rewrite H1, allclose1_refl.
  simpl. apply IH. exact H2.
Qed.

Lemma all2_bins_refl (l : list bin) : all2 (fun x y : bin => Qceqb (fst x) (fst y) && Qceqb (snd x) (snd y)) l l = true.
Proof. induction l as [|b l IH]; simpl; auto. rewrite !Qceqb_refl, IH. reflexivity. Qed.

Theorem check_accepts_run c :
  check_h1 c (match run_h1 c with Some r => e_res1 (a_bins c) r | None => LL [SS "refused"] end) = true.
Proof.
  unfold run_h1. destruct (invalid_input c) eqn:Einv.
  - simpl. exact Einv.
  - assert (Hr : risingb (a_bins c) = true).
    { unfold invalid_input in Einv. repeat (apply orb_false_iff in Einv; destruct Einv as [Einv ?]).
      match goal with H : negb (risingb _) = false |- _ => apply negb_false_iff in H; exact H end. }
    assert (Hne : a_bins c <> []).
    { unfold invalid_input in Einv. repeat (apply orb_false_iff in Einv; destruct Einv as [Einv ?]).
      destruct (a_bins c); congruence. }
    unfold calc1d. fold isortQ.
    rewrite (sweep_is_spec (pairs_of c) (a_bins c) (risingb_bins_ok _ Hr)).
    set (ps := pairs_of c). set (sp := spec_bins1 ps (a_bins c)).
    assert (Hu : match a_bins c with b :: _ => wsum (firstn (ss_left Qcltb (fst b) (isortQ ps)) (isortQ ps)) | [] => 0 end
                 = spec_under ps (a_bins c)).
    { unfold spec_under. destruct (a_bins c) as [|b r]; auto. apply under_is_spec. }
    assert (Ho : wsum (skipn (ss_right Qcltb (last_hi (a_bins c)) (isortQ ps)) (isortQ ps)) = spec_over ps (a_bins c)).
    { apply over_is_spec. }
    rewrite Hu, Ho.
    destruct (consecutive_tol (a_bins c)) eqn:Etol; destruct (a_keep_missed c) eqn:Ekm;
      unfold e_res1, check_h1; rewrite Einv; cbn [negb andb r_freq r_err2 r_under r_over r_dtype];
      rewrite !d_qs_e_qs, !d_x_e_x, d_bins_e_bins; cbn [d_q]; rewrite Ekm;
      rewrite all2_bins_refl, !closel0_refl, Qceqb_refl; cbn [andb is_nan orb].
    + destruct (consecutive_exact (a_bins c)) eqn:Eex; [|rewrite Etol; reflexivity].
      rewrite !xeqb_refl. cbn [andb xadd xeqb]. apply Qceqb_eq.
      pose proof (rising_chain _ Hr Eex) as Hch. destruct (a_bins c) as [|b r] eqn:Eb; [congruence|].
      pose proof (chain_accounting ps (b :: r) (fst b) ltac:(discriminate) Hch) as Hacc.
      unfold spec_under, spec_over. fold sp in Hacc.
      fold ps. rewrite (wsum_split (fun p => Qcltb (fst p) (fst b)) ps) at 1.
      rewrite (wsum_filter_ext (fun p => negb (Qcltb (fst p) (fst b))) (fun p => Qcleb (fst b) (fst p))).
      2:{ intros [v w]. cbn [fst]. symmetry. apply Qcleb_negb_ltb. }
      rewrite <- Hacc. ring.
    + reflexivity.
    + destruct (consecutive_exact (a_bins c)) eqn:Eex; [rewrite (exact_tol _ Eex) in Etol; discriminate|].
      rewrite Etol. reflexivity.
    + reflexivity.
Qed.
