From Physt Require Import Arr.
From Coq Require Import Permutation.

Lemma in_indices shape : forall idx, In idx (indices shape) <-> in_range idx shape.
Proof.
  induction shape as [|n r IH]; intros idx; simpl.
  - destruct idx; simpl; intuition congruence.
  - rewrite in_flat_map. split.
    + intros [i [Hi Hm]]. apply in_seq in Hi. apply in_map_iff in Hm.
      destruct Hm as [j [<- Hj]]. simpl. split; [lia|]. apply IH; auto.
    + destruct idx as [|i j]; simpl; [tauto|]. intros [Hi Hj]. exists i. split.
      apply in_seq; lia. apply in_map. apply IH; auto.
Qed.

Lemma in_rangeb_spec idx : forall shape, in_rangeb idx shape = true <-> in_range idx shape.
Proof.
  induction idx as [|i j IH]; destruct shape as [|n r]; simpl; try (intuition congruence).
  rewrite andb_true_iff, Nat.ltb_lt, IH. tauto.
Qed.

Lemma list_eqb_eq a : forall b, list_eqb a b = true <-> a = b.
Proof.
  induction a as [|x a IH]; destruct b as [|y b]; simpl; try (intuition congruence).
  rewrite andb_true_iff, Nat.eqb_eq, IH. intuition congruence.
Qed.

Lemma lookup_map {A} (d : A) idx f : forall ks, In idx ks -> lookup d idx ks (map f ks) = f idx.
Proof.
  induction ks as [|k ks IH]; simpl; [tauto|]. intros [->|H].
  - assert (E : list_eqb idx idx = true) by (apply list_eqb_eq; auto). rewrite E. auto.
  - destruct (list_eqb idx k) eqn:E. apply list_eqb_eq in E. subst; auto. auto.
Qed.

Theorem get_tabulate {A} (d : A) shape f idx :
  in_range idx shape -> get d shape (tabulate shape f) idx = f idx.
Proof. intros H. apply lookup_map. apply in_indices; auto. Qed.

Lemma tabulate_length {A} shape (f : list nat -> A) : length (tabulate shape f) = length (indices shape).
Proof. unfold tabulate. apply map_length. Qed.

Lemma indices_length shape : length (indices shape) = size shape.
Proof.
  induction shape as [|n r IH]; simpl; auto.
  assert (H : forall l : list nat, length (flat_map (fun i : nat => map (cons i) (indices r)) l) = (length l * size r)%nat).
  { intros l. induction l as [|x l IHl]; simpl; auto. rewrite app_length, map_length, IH, IHl. lia. }
  rewrite H. rewrite seq_length. reflexivity.
Qed.

(** sums *)
Lemma sumq_app l m : sumq (l ++ m) = sumq l + sumq m.
Proof. induction l as [|x l IH]; simpl. ring. rewrite IH. ring. Qed.

Lemma sumf_app {A} (f : A -> Qc) l m : sumf f (l ++ m) = sumf f l + sumf f m.
Proof. unfold sumf. rewrite map_app. apply sumq_app. Qed.

Lemma sumf_ext {A} (f g : A -> Qc) l : (forall x, In x l -> f x = g x) -> sumf f l = sumf g l.
Proof. unfold sumf. induction l as [|x l IH]; simpl; auto. intros H. rewrite H, IH; auto. Qed.

Lemma sumf_zero {A} (l : list A) : sumf (fun _ => 0) l = 0.
Proof. unfold sumf. induction l; simpl; auto. rewrite IHl. ring. Qed.

Lemma sumf_plus {A} (f g : A -> Qc) l : sumf (fun x => f x + g x) l = sumf f l + sumf g l.
Proof. unfold sumf. induction l as [|x l IH]; simpl. ring. rewrite IH. ring. Qed.

Lemma sumf_scale {A} (c : Qc) (f : A -> Qc) l : sumf (fun x => c * f x) l = c * sumf f l.
Proof. unfold sumf. induction l as [|x l IH]; simpl. ring. rewrite IH. ring. Qed.

Lemma sumf_swap {A B} (f : A -> B -> Qc) (l : list A) (m : list B) :
  sumf (fun a => sumf (fun b => f a b) m) l = sumf (fun b => sumf (fun a => f a b) l) m.
Proof.
  induction l as [|a l IH].
  - unfold sumf at 1. simpl. symmetry. apply (sumf_zero m).
  - change (sumf (fun b => f a b) m + sumf (fun a0 => sumf (fun b => f a0 b) m) l = sumf (fun b => sumf (fun a0 => f a0 b) (a :: l)) m).
    rewrite IH. rewrite <- sumf_plus. apply sumf_ext. intros; reflexivity.
Qed.

Lemma sumf_flat_map {A B} (f : B -> Qc) (g : A -> list B) l :
  sumf f (flat_map g l) = sumf (fun a => sumf f (g a)) l.
Proof.
  induction l as [|a l IH]; simpl; auto.
  rewrite sumf_app, IH. reflexivity.
Qed.

Lemma sumf_map {A B} (f : B -> Qc) (g : A -> B) l : sumf f (map g l) = sumf (fun a => f (g a)) l.
Proof. unfold sumf. rewrite map_map. reflexivity. Qed.

Lemma sumq_perm l m : Permutation l m -> sumq l = sumq m.
Proof. induction 1; simpl; try congruence; ring. Qed.

Lemma sumf_perm {A} (f : A -> Qc) l m : Permutation l m -> sumf f l = sumf f m.
Proof. intros H. apply sumq_perm. apply Permutation_map. exact H. Qed.

Lemma sumf_indices_cons n r (g : list nat -> Qc) :
  sumf g (indices (n :: r)) = sumf (fun i => sumf (fun t => g (i :: t)) (indices r)) (seq 0 n).
Proof. simpl. rewrite sumf_flat_map. apply sumf_ext. intros i _. apply sumf_map. Qed.

Lemma sumq_tabulate shape f : sumq (tabulate shape f) = sumf f (indices shape).
Proof. reflexivity. Qed.

(** an indicator sum over a range picks exactly one term *)
Lemma sumf_pick_gen (j : nat) (c : Qc) : forall len s,
  sumf (fun i => if Nat.eqb j i then c else 0) (seq s len) =
  if andb (Nat.leb s j) (Nat.ltb j (s + len)) then c else 0.
Proof.
  induction len as [|len IH]; intros s.
  - unfold sumf; simpl. destruct (Nat.leb_spec s j); destruct (Nat.ltb_spec j (s + 0)); simpl; auto. lia.
  - change (seq s (S len)) with (s :: seq (S s) len).
    change ((if Nat.eqb j s then c else 0) + sumf (fun i => if Nat.eqb j i then c else 0) (seq (S s) len) =
            if andb (Nat.leb s j) (Nat.ltb j (s + S len)) then c else 0).
    rewrite IH.
    destruct (Nat.eqb_spec j s); destruct (Nat.leb_spec (S s) j); destruct (Nat.leb_spec s j);
      destruct (Nat.ltb_spec j (S s + len)); destruct (Nat.ltb_spec j (s + S len)); simpl; try ring; lia.
Qed.
Lemma sumf_pick (n j : nat) (c : Qc) :
  (j < n)%nat -> sumf (fun i => if Nat.eqb j i then c else 0) (seq 0 n) = c.
Proof.
  intros H. rewrite sumf_pick_gen. simpl.
  destruct (Nat.ltb_spec j n); auto. lia.
Qed.
