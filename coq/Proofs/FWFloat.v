(** Why the bins must be re-checked against the edges as computed: in binary64 the floor of the
    quotient is not enough (the defect repaired in FixedWidthBinning._cover_value). *)
From Coq Require Import ZArith Uint63 PrimFloat FloatOps.
Local Open Scope Z_scope.

Definition f2ze (f : float) : option (Z * Z) :=
  match Prim2SF f with
  | SpecFloat.S754_zero _ => Some (0, 0)
  | SpecFloat.S754_finite s m e => Some ((if s then Z.neg m else Z.pos m), e)
  | _ => None
  end.
(** math.floor of a finite binary64 (Z division rounds towards minus infinity) *)
Definition floorZ (f : float) : option Z :=
  match f2ze f with
  | Some (m, e) => Some (if 0 <=? e then m * 2 ^ e else m / 2 ^ (- e))
  | None => None end.
Definition of_Z (z : Z) : float :=
  match z with
  | Z0 => 0%float
  | Zpos p => PrimFloat.of_uint63 (Uint63.of_Z z)
  | Zneg p => PrimFloat.opp (PrimFloat.of_uint63 (Uint63.of_Z (Z.pos p))) end.

(** times_min = int(floor((value - shift) / width)) and edge k = (times_min + k) * width + shift, all in binary64 *)
Definition times_min (v w s : float) : option Z := floorZ (PrimFloat.div (PrimFloat.sub v s) w).
Definition edge (w s : float) (k : Z) : float := PrimFloat.add (PrimFloat.mul (of_Z k) w) s.

(** value 1.7, width 0.1: the quotient evaluates to exactly 17, but 17 * 0.1 > 1.7 — the first edge of the bin
    "created for" 1.7 lies above it *)
Theorem floor_of_quotient_is_not_enough :
  exists v w k, times_min v w 0%float = Some k /\ PrimFloat.ltb v (edge w 0%float k) = true.
Proof. exists (1.7)%float, (0.1)%float, 17. vm_compute. split; reflexivity. Qed.
