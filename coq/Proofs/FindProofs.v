(** "which bin contains x": the two search procedures of the code (searchsorted over left edges;
    histogramdd over masked edges with an inf bin) both compute the specification, for rising bins. *)
From Physt Require Import Fill OrderQc.
Local Arguments Nat.sub : simpl never.

Definition lo (b : bin) := fst b.
Definition hi (b : bin) := snd b.

Fixpoint lead (bins : list bin) (q : Qc) : nat :=
  match bins with [] => 0 | b :: r => if Qcleb (fst b) q then S (lead r q) else 0 end.

Lemma rising_tail b r : risingb (b :: r) = true -> risingb r = true.
Proof. simpl. intros H. apply andb_true_iff in H. tauto. Qed.
Lemma rising_head b r : risingb (b :: r) = true -> fst b < snd b.
Proof. simpl. intros H. apply andb_true_iff in H. destruct H as [H _]. apply andb_true_iff in H. destruct H as [H _].
  apply Qcltb_lt. exact H. Qed.
Lemma rising_next b c r : risingb (b :: c :: r) = true -> snd b <= fst c.
Proof. simpl. intros H. apply andb_true_iff in H. destruct H as [H _]. apply andb_true_iff in H. destruct H as [_ H].
  apply Qcleb_le. exact H. Qed.

(** all later left edges are >= the first right edge *)
Lemma rising_los b r : risingb (b :: r) = true -> Forall (fun c : bin => snd b <= fst c) r.
Proof.
  revert b. induction r as [|c r IH]; intros b H; constructor.
  - apply (rising_next _ _ _ H).
  - pose proof (rising_next _ _ _ H) as H1. pose proof (rising_tail _ _ H) as H2.
    pose proof (rising_head _ _ H2) as H3. specialize (IH c H2).
    rewrite Forall_forall in *. intros d Hd. specialize (IH d Hd).
    apply Qcle_trans with (snd c); auto. apply Qcle_trans with (fst c); auto. apply Qclt_le_weak; auto.
Qed.

Lemma filter_none_above bins q : Forall (fun c : bin => q < fst c) bins ->
  filter (fun b : bin => Qcleb (fst b) q) bins = [].
Proof.
  induction 1 as [|c r Hc _ IH]; simpl; auto.
  replace (Qcleb (fst c) q) with false; auto. symmetry. apply Qcleb_gt. exact Hc.
Qed.

Lemma count_is_lead bins q : risingb bins = true ->
  length (filter (fun b : bin => Qcleb (fst b) q) bins) = lead bins q.
Proof.
  induction bins as [|b r IH]; intros H; simpl; auto.
  destruct (Qcleb (fst b) q) eqn:E; simpl.
  - f_equal. apply IH. apply (rising_tail _ _ H).
  - rewrite filter_none_above; auto.
    pose proof (rising_los _ _ H) as HL. pose proof (rising_head _ _ H) as HH. apply Qcleb_gt in E.
    rewrite Forall_forall in *. intros c Hc. specialize (HL c Hc).
    apply Qclt_le_trans with (snd b); auto. apply Qclt_trans with (fst b); auto.
Qed.

Lemma spec_none_above bins cl q pos : Forall (fun c : bin => q < fst c) bins -> spec_find_from bins cl q pos = None.
Proof.
  revert pos. induction bins as [|c r IH]; intros pos H; simpl; auto.
  inversion H as [|? ? Hc Hr]; subst.
  unfold in_bin. replace (Qcleb (fst c) q) with false by (symmetry; apply Qcleb_gt; exact Hc). simpl.
  apply IH. exact Hr.
Qed.

Lemma lead0_above bins q : risingb bins = true -> lead bins q = 0%nat -> Forall (fun c : bin => q < fst c) bins.
Proof.
  destruct bins as [|b r]; intros H E; constructor; simpl in E.
  - destruct (Qcleb (fst b) q) eqn:E1; [discriminate|]. apply Qcleb_gt. exact E1.
  - destruct (Qcleb (fst b) q) eqn:E1; [discriminate|]. apply Qcleb_gt in E1.
    pose proof (rising_los _ _ H) as HL. pose proof (rising_head _ _ H) as HH.
    rewrite Forall_forall in *. intros c Hc. specialize (HL c Hc).
    apply Qclt_le_trans with (snd b); auto. apply Qclt_trans with (fst b); auto.
Qed.

(** characterisation of the specification through the number of left edges <= q *)
Definition cand (bins : list bin) (cl : bool) (q : Qc) (k : nat) : bool :=
  let b := nth k bins (0, 0) in
  Qcltb q (snd b) || (Nat.eqb k (length bins - 1) && cl && Qceqb q (snd b)).

Lemma spec_by_lead bins cl q : forall pos, risingb bins = true ->
  spec_find_from bins cl q pos =
  match lead bins q with
  | O => None
  | S k => if cand bins cl q k then Some (pos + k)%nat else None
  end.
Proof.
  induction bins as [|b r IH]; intros pos H; simpl; auto.
  pose proof (rising_tail _ _ H) as Hr.
  destruct (Qcleb (fst b) q) eqn:E.
  - destruct (lead r q) as [|k'] eqn:El.
    + (* b is the candidate *)
      unfold cand. cbn [nth]. cbn [length]. unfold in_bin. rewrite E. cbn [andb].
      destruct r as [|c r'].
      * cbn [length]. replace (Nat.eqb 0 (1 - 1)) with true by reflexivity. cbn [andb].
        destruct (Qcltb q (snd b) || cl && Qceqb q (snd b)); [f_equal; lia|reflexivity].
      * cbn [length]. replace (Nat.eqb 0 (S (S (length r')) - 1)) with false by (symmetry; apply Nat.eqb_neq; lia).
        cbn [andb]. rewrite !orb_false_r.
        destruct (Qcltb q (snd b)); [f_equal; lia|].
        apply spec_none_above. apply lead0_above; auto.
    + (* a later bin is the candidate; q >= its left edge >= hi b *)
      assert (Hq : snd b <= q).
      { destruct r as [|c r']; [simpl in El; discriminate|]. simpl in El.
        destruct (Qcleb (fst c) q) eqn:E2; [|discriminate]. apply Qcleb_le in E2.
        apply Qcle_trans with (fst c); auto. apply (rising_next _ _ _ H). }
      assert (Hnb : in_bin b (match r with [] => cl | _ => false end) q = false).
      { unfold in_bin. rewrite E. cbn [andb].
        replace (Qcltb q (snd b)) with false by (symmetry; apply Qcltb_ge; exact Hq).
        destruct r; [simpl in El; discriminate|]. reflexivity. }
      rewrite Hnb. rewrite (IH (S pos) Hr).
      unfold cand. cbn [nth length].
      replace (Nat.eqb (S k') (S (length r) - 1)) with (Nat.eqb k' (length r - 1)).
      2:{ destruct r; [simpl in El; discriminate|]. cbn [length].
          destruct (Nat.eqb_spec k' (S (length r) - 1)); destruct (Nat.eqb_spec (S k') (S (S (length r)) - 1)); auto; lia. }
      destruct (Qcltb q (snd (nth k' r (0, 0))) || Nat.eqb k' (length r - 1) && cl && Qceqb q (snd (nth k' r (0, 0))));
        [f_equal; lia|reflexivity].
  - (* q below b: nothing found *)
    assert (Hab : Forall (fun c : bin => q < fst c) (b :: r)).
    { apply lead0_above; auto. simpl. rewrite E. reflexivity. }
    unfold in_bin. rewrite E. cbn [andb]. inversion Hab; subst. apply spec_none_above. auto.
Qed.

Lemma lead_le bins q : (lead bins q <= length bins)%nat.
Proof. induction bins as [|b r IH]; simpl; auto. destruct (Qcleb (fst b) q); simpl; lia. Qed.

Lemma last_hi_cons b c r : last_hi (b :: c :: r) = last_hi (c :: r).
Proof. reflexivity. Qed.

Lemma last_hi_nth (bins : list bin) : bins <> [] -> last_hi bins = snd (nth (length bins - 1) bins (0, 0)).
Proof.
  induction bins as [|b r IH]; intros H; [congruence|].
  destruct r as [|c r']; [reflexivity|].
  rewrite last_hi_cons. rewrite IH by discriminate. cbn [length].
  replace (S (S (length r')) - 1)%nat with (S (S (length r') - 1))%nat by lia. reflexivity.
Qed.

(** if not all left edges are <= q, then q is below the last right edge *)
Lemma lead_lt_last bins q : risingb bins = true -> (lead bins q < length bins)%nat -> q < last_hi bins.
Proof.
  induction bins as [|b r IH]; intros H Hl; simpl in Hl; [lia|].
  destruct (Qcleb (fst b) q) eqn:E.
  - destruct r as [|c r']; [simpl in Hl; lia|]. rewrite last_hi_cons. apply IH. apply (rising_tail _ _ H). lia.
  - apply Qcleb_gt in E.
    assert (G : forall (l : list bin) (b0 : bin), risingb (b0 :: l) = true -> fst b0 < last_hi (b0 :: l)).
    { induction l as [|c l IHl]; intros b0 H0.
      - apply (rising_head _ _ H0).
      - rewrite last_hi_cons. apply Qclt_trans with (fst c).
        + apply Qclt_le_trans with (snd b0). apply (rising_head _ _ H0). apply (rising_next _ _ _ H0).
        + apply IHl. apply (rising_tail _ _ H0). }
    apply Qclt_trans with (fst b); auto.
Qed.

(** * find_bin (1-D and per axis of N-D) computes the specification *)
Theorem find_coded_is_spec bins cl q : risingb bins = true -> bins <> [] ->
  find_axis_coded bins cl (Fin q) = find_axis_spec bins cl (Fin q).
Proof.
  intros H Hne. unfold find_axis_coded, find_axis_spec.
  rewrite (count_is_lead bins q H). rewrite (spec_by_lead bins cl q 0 H).
  pose proof (lead_le bins q) as Hle.
  destruct (lead bins q) as [|k] eqn:El.
  - rewrite Nat.eqb_refl. destruct bins as [|b r]; [congruence|].
    simpl in El. destruct (Qcleb (fst b) q) eqn:E; [discriminate|].
    apply Qcleb_gt in E. replace (Qcltb q (fst b)) with true by (symmetry; apply Qcltb_lt; exact E). reflexivity.
  - replace (Nat.eqb (S k) 0) with false by reflexivity. replace (S k - 1)%nat with k by lia.
    assert (Hlo : Qcltb q (fst (hd (0,0) bins)) = false).
    { destruct bins as [|b r]; [congruence|]. simpl in El. cbn [hd]. destruct (Qcleb (fst b) q) eqn:E; [|discriminate].
      apply Qcltb_ge. apply Qcleb_le. exact E. }
    unfold cand.
    destruct (Nat.eqb_spec (S k) (length bins)) as [En|En].
    + rewrite (last_hi_nth bins Hne). replace (length bins - 1)%nat with k by lia. rewrite Nat.eqb_refl. cbn [andb].
      destruct (Qcltb q (snd (nth k bins (0, 0))) || cl && Qceqb q (snd (nth k bins (0, 0)))) eqn:Ec.
      * replace (0 + k)%nat with k by lia. reflexivity.
      * destruct bins as [|b r]; [congruence|]. cbn [hd] in Hlo. rewrite Hlo.
        apply orb_false_iff in Ec. destruct Ec as [Ec _]. apply Qcltb_ge in Ec.
        replace (Qcleb (snd (nth k (b :: r) (0, 0))) q) with true by (symmetry; apply Qcleb_le; exact Ec).
        reflexivity.
    + replace (Nat.eqb k (length bins - 1)) with false by (symmetry; apply Nat.eqb_neq; lia). cbn [andb]. rewrite orb_false_r.
      destruct (Qcltb q (snd (nth k bins (0, 0)))) eqn:Ec.
      * replace (0 + k)%nat with k by lia. reflexivity.
      * destruct bins as [|b r]; [congruence|]. cbn [hd] in Hlo. rewrite Hlo.
        assert (Hlt : q < last_hi (b :: r)) by (apply lead_lt_last; auto; rewrite El; lia).
        replace (Qcleb (last_hi (b :: r)) q) with false by (symmetry; apply Qcleb_gt; exact Hlt).
        reflexivity.
Qed.
