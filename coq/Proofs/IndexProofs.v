(** numpy.histogramdd over to_numpy_bins_with_mask edges (+inf bin) selects exactly the bin that
    contains x, for rising bins (gaps allowed), with the last bin right-closed iff includes_right_edge. *)
From Physt Require Import Fill OrderQc FindProofs.
Local Arguments Nat.sub : simpl never.

Definition cnt_le (es : list Qc) (x : Qc) : nat := length (filter (fun e => Qcleb e x) es).

Lemma cnt_le_none es x : Forall (fun e => x < e) es -> cnt_le es x = 0%nat.
Proof.
  unfold cnt_le. induction 1 as [|e r He _ IH]; simpl; auto.
  replace (Qcleb e x) with false by (symmetry; apply Qcleb_gt; exact He). exact IH.
Qed.

Lemma find_index_none x l : forall pos, Forall (fun m => x <> m) l -> find_index x l pos = None.
Proof.
  induction l as [|m r IH]; intros pos H; simpl; auto. inversion H; subst.
  destruct (Nat.eqb_spec x m); [contradiction|]. apply IH. auto.
Qed.

(** mask entries and edges produced by the loop *)
Lemma loop_bounds bins : forall j es ms, edges_mask_loop bins j = (es, ms) ->
  Forall (fun m => (j <= m < j + length es)%nat) ms.
Proof.
  induction bins as [|b r IH]; intros j es ms H; simpl in H.
  - injection H as <- <-. constructor.
  - destruct r as [|c r'].
    + injection H as <- <-. constructor; [simpl; lia|constructor].
    + destruct (edges_mask_loop (c :: r') (if negb (Qceqb (snd b) (fst c)) then S (S j) else S j)) as [es' ms'] eqn:E.
      injection H as <- <-. specialize (IH _ _ _ E).
      constructor.
      * destruct (negb (Qceqb (snd b) (fst c))); simpl; lia.
      * rewrite Forall_forall in *. intros m Hm. specialize (IH m Hm).
        destruct (negb (Qceqb (snd b) (fst c))); simpl in *; lia.
Qed.

Lemma loop_nonempty b r j es ms : edges_mask_loop (b :: r) j = (es, ms) -> (1 <= length es)%nat.
Proof.
  simpl. destruct r as [|c r'].
  - intros H. injection H as <- <-. simpl. lia.
  - destruct (edges_mask_loop (c :: r') _) as [es' ms']. intros H. injection H as <- <-. simpl. lia.
Qed.

Lemma loop_edges_ge bins : forall j es ms b r, bins = b :: r -> risingb bins = true ->
  edges_mask_loop bins j = (es, ms) -> Forall (fun e => snd b <= e) es.
Proof.
  induction bins as [|b0 r0 IH]; intros j es ms b r Eb H E; [discriminate|].
  injection Eb as -> ->. simpl in E. destruct r as [|c r'].
  - injection E as <- <-. constructor. apply Qcle_refl. constructor.
  - destruct (edges_mask_loop (c :: r') _) as [es' ms'] eqn:E'. injection E as <- <-.
    pose proof (rising_next _ _ _ H) as Hn. pose proof (rising_tail _ _ H) as Ht.
    pose proof (rising_head _ _ Ht) as Hc.
    specialize (IH _ _ _ c r' eq_refl Ht E').
    assert (Hes' : Forall (fun e => snd b <= e) es').
    { rewrite Forall_forall in *. intros e He. specialize (IH e He).
      apply Qcle_trans with (snd c); auto. apply Qcle_trans with (fst c); auto. apply Qclt_le_weak; auto. }
    constructor. apply Qcle_refl.
    destruct (negb (Qceqb (snd b) (fst c))); auto.
Qed.

(** the core: half-open case *)
Lemma loop_index bins : forall j es ms, risingb bins = true -> bins <> [] ->
  edges_mask_loop bins j = (es, ms) ->
  forall x pos, fst (hd (0,0) bins) <= x ->
  find_index (j + cnt_le es x) ms pos = spec_find_from bins false x pos.
Proof.
  induction bins as [|b r IH]; intros j es ms H Hne E x pos Hx; [congruence|].
  cbn [hd] in Hx. simpl in E. destruct r as [|c r'].
  - injection E as <- <-. unfold cnt_le. cbn [filter spec_find_from]. unfold in_bin.
    replace (Qcleb (fst b) x) with true by (symmetry; apply Qcleb_le; exact Hx). cbn [andb]. rewrite orb_false_r.
    rewrite (Qcleb_negb_ltb (snd b) x).
    destruct (Qcltb x (snd b)); cbn [negb length find_index].
    + replace (j + 0)%nat with j by lia. rewrite Nat.eqb_refl. reflexivity.
    + replace (Nat.eqb (j + 1) j) with false by (symmetry; apply Nat.eqb_neq; lia). reflexivity.
  - destruct (edges_mask_loop (c :: r') _) as [es' ms'] eqn:E'. injection E as <- <-.
    pose proof (rising_next _ _ _ H) as Hn. pose proof (rising_tail _ _ H) as Ht.
    pose proof (rising_head _ _ Ht) as Hc. pose proof (rising_head _ _ H) as Hb.
    pose proof (loop_edges_ge _ _ _ _ c r' eq_refl Ht E') as Hge.
    pose proof (loop_bounds _ _ _ _ E') as Hbd.
    change (spec_find_from (b :: c :: r') false x pos) with
      (if in_bin b false x then Some pos else spec_find_from (c :: r') false x (S pos)).
    unfold in_bin. replace (Qcleb (fst b) x) with true by (symmetry; apply Qcleb_le; exact Hx). cbn [andb]. rewrite orb_false_r.
    destruct (Qcltb x (snd b)) eqn:Exb.
    + (* x in bin b : no later edge is <= x *)
      apply Qcltb_lt in Exb.
      rewrite cnt_le_none.
      * replace (j + 0)%nat with j by lia. cbn [find_index]. rewrite Nat.eqb_refl. reflexivity.
      * constructor; auto.
        assert (Hes' : Forall (fun e => x < e) es').
        { rewrite Forall_forall in *. intros e He. specialize (Hge e He).
          apply Qclt_le_trans with (snd b); auto. apply Qcle_trans with (fst c); auto.
          apply Qcle_trans with (snd c); auto. apply Qclt_le_weak; auto. }
        destruct (negb (Qceqb (snd b) (fst c))); auto. constructor; auto.
        apply Qclt_le_trans with (snd b); auto.
    + apply Qcltb_ge in Exb.
      assert (Hhead : forall rest, cnt_le (snd b :: rest) x = S (cnt_le rest x)).
      { intros rest. unfold cnt_le. cbn [filter]. replace (Qcleb (snd b) x) with true by (symmetry; apply Qcleb_le; exact Exb). reflexivity. }
      rewrite Hhead. cbn [find_index].
      replace (Nat.eqb (j + S (cnt_le (if negb (Qceqb (snd b) (fst c)) then fst c :: es' else es') x)) j) with false
        by (symmetry; apply Nat.eqb_neq; lia).
      destruct (Qceqb (snd b) (fst c)) eqn:Egap; cbn [negb] in *.
      * (* consecutive *)
        apply Qceqb_eq in Egap.
        replace (j + S (cnt_le es' x))%nat with (S j + cnt_le es' x)%nat by lia.
        apply (IH (S j) es' ms' Ht ltac:(discriminate) E'). cbn [hd]. rewrite <- Egap. exact Exb.
      * destruct (Qcleb (fst c) x) eqn:Ecx.
        -- apply Qcleb_le in Ecx.
           assert (Hh2 : cnt_le (fst c :: es') x = S (cnt_le es' x)).
           { unfold cnt_le. cbn [filter]. replace (Qcleb (fst c) x) with true by (symmetry; apply Qcleb_le; exact Ecx). reflexivity. }
           rewrite Hh2. replace (j + S (S (cnt_le es' x)))%nat with (S (S j) + cnt_le es' x)%nat by lia.
           apply (IH (S (S j)) es' ms' Ht ltac:(discriminate) E'). cbn [hd]. exact Ecx.
        -- (* x lies in the gap *)
           apply Qcleb_gt in Ecx.
           rewrite cnt_le_none.
           ++ rewrite find_index_none.
              ** symmetry. apply spec_none_above. constructor; auto.
                 pose proof (rising_los _ _ Ht) as HL. rewrite Forall_forall in *. intros d Hd. specialize (HL d Hd).
                 apply Qclt_le_trans with (snd c); auto. apply Qclt_trans with (fst c); auto.
              ** rewrite Forall_forall in *. intros m Hm. specialize (Hbd m Hm). lia.
           ++ constructor; auto. rewrite Forall_forall in *. intros e He. specialize (Hge e He).
              apply Qclt_le_trans with (snd c); auto. apply Qclt_trans with (fst c); auto.
Qed.

Lemma first_lt_last : forall (l : list bin) (b0 : bin), risingb (b0 :: l) = true -> fst b0 < last_hi (b0 :: l).
Proof.
  induction l as [|c l IHl]; intros b0 H0.
  - apply (rising_head _ _ H0).
  - rewrite last_hi_cons. apply Qclt_trans with (fst c).
    + apply Qclt_le_trans with (snd b0). apply (rising_head _ _ H0). apply (rising_next _ _ _ H0).
    + apply IHl. apply (rising_tail _ _ H0).
Qed.

(** the rightmost edge with includes_right_edge: numpy's "on the last edge -> one bin back" *)
Lemma loop_index_last bins : forall j es ms, risingb bins = true -> bins <> [] ->
  edges_mask_loop bins j = (es, ms) ->
  forall pos, find_index (j + length es - 1) ms pos = spec_find_from bins true (last_hi bins) pos.
Proof.
  induction bins as [|b r IH]; intros j es ms H Hne E pos; [congruence|].
  simpl in E. destruct r as [|c r'].
  - injection E as <- <-. cbn [length find_index spec_find_from]. replace (j + 1 - 1)%nat with j by lia.
    rewrite Nat.eqb_refl. unfold in_bin, last_hi. cbn [last snd].
    replace (Qcleb (fst b) (snd b)) with true by (symmetry; apply Qcleb_le, Qclt_le_weak, (rising_head _ _ H)).
    rewrite Qceqb_refl. cbn [andb]. rewrite orb_true_r. reflexivity.
  - destruct (edges_mask_loop (c :: r') _) as [es' ms'] eqn:E'. injection E as <- <-.
    pose proof (rising_tail _ _ H) as Ht.
    pose proof (loop_nonempty _ _ _ _ _ E') as Hn1.
    rewrite last_hi_cons.
    change (spec_find_from (b :: c :: r') true (last_hi (c :: r')) pos) with
      (if in_bin b false (last_hi (c :: r')) then Some pos else spec_find_from (c :: r') true (last_hi (c :: r')) (S pos)).
    assert (Hnb : in_bin b false (last_hi (c :: r')) = false).
    { unfold in_bin. cbn [andb]. rewrite orb_false_r.
      replace (Qcltb (last_hi (c :: r')) (snd b)) with false. apply andb_false_r.
      symmetry. apply Qcltb_ge. apply Qcle_trans with (fst c). apply (rising_next _ _ _ H).
      apply Qclt_le_weak. apply first_lt_last. exact Ht. }
    rewrite Hnb. cbn [find_index].
    destruct (negb (Qceqb (snd b) (fst c))) eqn:Eg; cbn [length].
    + replace (Nat.eqb (j + S (S (length es')) - 1) j) with false by (symmetry; apply Nat.eqb_neq; lia).
      replace (j + S (S (length es')) - 1)%nat with (S (S j) + length es' - 1)%nat by lia.
      apply (IH _ _ _ Ht ltac:(discriminate) E').
    + replace (Nat.eqb (j + S (length es') - 1) j) with false by (symmetry; apply Nat.eqb_neq; lia).
      replace (j + S (length es') - 1)%nat with (S j + length es' - 1)%nat by lia.
      apply (IH _ _ _ Ht ltac:(discriminate) E').
Qed.

Lemma spec_closed_irrelevant bins x : forall pos, x <> last_hi bins ->
  spec_find_from bins true x pos = spec_find_from bins false x pos.
Proof.
  induction bins as [|b r IH]; intros pos Hx; auto.
  destruct r as [|c r'].
  - cbn [spec_find_from]. unfold in_bin. unfold last_hi in Hx. cbn [last snd] in Hx.
    replace (Qceqb x (snd b)) with false; auto.
    symmetry. destruct (Qceqb x (snd b)) eqn:E; auto. apply Qceqb_eq in E. contradiction.
  - change (spec_find_from (b :: c :: r') true x pos) with
      (if in_bin b false x then Some pos else spec_find_from (c :: r') true x (S pos)).
    change (spec_find_from (b :: c :: r') false x pos) with
      (if in_bin b false x then Some pos else spec_find_from (c :: r') false x (S pos)).
    rewrite IH; auto.
Qed.

Lemma loop_last_edge bins : forall j es ms, bins <> [] -> edges_mask_loop bins j = (es, ms) ->
  forall d, last es d = last_hi bins.
Proof.
  induction bins as [|b r IH]; intros j es ms Hne E d; [congruence|].
  simpl in E. destruct r as [|c r'].
  - injection E as <- <-. reflexivity.
  - destruct (edges_mask_loop (c :: r') _) as [es' ms'] eqn:E'. injection E as <- <-.
    rewrite last_hi_cons. pose proof (loop_nonempty _ _ _ _ _ E') as Hn1.
    specialize (IH _ _ _ ltac:(discriminate) E' d).
    destruct es' as [|e0 es'']; [simpl in Hn1; lia|].
    destruct (negb (Qceqb (snd b) (fst c))); cbn [last] in *; exact IH.
Qed.

Lemma count_fin es tail x :
  length (filter (fun e => xleb_q e x) (map Fin es ++ tail)) = (cnt_le es x + length (filter (fun e => xleb_q e x) tail))%nat.
Proof.
  unfold cnt_le. induction es as [|e r IH]; simpl; auto.
  destruct (Qcleb e x); simpl; rewrite IH; reflexivity.
Qed.

Lemma filter_length_le {A} (f : A -> bool) l : (length (filter f l) <= length l)%nat.
Proof. induction l as [|a l IH]; simpl; auto. destruct (f a); simpl; lia. Qed.

Lemma last_app_single {A} (l : list A) (a d : A) : last (l ++ [a]) d = a.
Proof. induction l as [|x l IH]; simpl; auto. destruct (l ++ [a]) eqn:E; auto. destruct l; discriminate. Qed.

Lemma last_map_fin (es : list Qc) (d : Qc) : es <> [] -> last (map Fin es) NaN = Fin (last es d).
Proof.
  induction es as [|e r IH]; intros H; [congruence|].
  destruct r as [|e' r']; [reflexivity|]. cbn [map last] in *. apply IH. discriminate.
Qed.

Lemma in_last {A} (l : list A) (a d : A) : In (last (a :: l) d) (a :: l).
Proof. revert a. induction l as [|x l IHl]; intros y; [left; reflexivity|]. right. apply IHl. Qed.

Lemma loop_edges_le_last : forall (bs : list bin) j es0 ms0, risingb bs = true -> bs <> [] ->
  edges_mask_loop bs j = (es0, ms0) -> forall e0, In e0 es0 -> e0 <= last es0 0.
Proof.
  induction bs as [|b1 bs IHb]; intros j1 es1 ms1 Hr1 Hne1 E1 e1 He1; [congruence|].
  simpl in E1. destruct bs as [|c1 bs'].
  - injection E1 as <- <-. destruct He1 as [<-|[]]. apply Qcle_refl.
  - destruct (edges_mask_loop (c1 :: bs') _) as [es2 ms2] eqn:E2. injection E1 as <- <-.
    pose proof (loop_nonempty _ _ _ _ _ E2) as Hn2.
    pose proof (rising_tail _ _ Hr1) as Ht1.
    pose proof (loop_edges_ge _ _ _ _ c1 bs' eq_refl Ht1 E2) as Hge2.
    pose proof (IHb _ _ _ Ht1 ltac:(discriminate) E2) as IH2.
    destruct es2 as [|e2 es2']; [simpl in Hn2; lia|].
    assert (Hlast2 : snd c1 <= last (e2 :: es2') 0).
    { rewrite Forall_forall in Hge2. apply Hge2. apply in_last. }
    assert (Hb1 : snd b1 <= last (e2 :: es2') 0).
    { apply Qcle_trans with (fst c1). apply (rising_next _ _ _ Hr1).
      apply Qcle_trans with (snd c1); auto. apply Qclt_le_weak. apply (rising_head _ _ Ht1). }
    assert (Hc1 : fst c1 <= last (e2 :: es2') 0).
    { apply Qcle_trans with (snd c1); auto. apply Qclt_le_weak. apply (rising_head _ _ Ht1). }
    destruct (negb (Qceqb (snd b1) (fst c1))).
    + change (last (snd b1 :: fst c1 :: e2 :: es2') 0) with (last (e2 :: es2') 0).
      destruct He1 as [<-|[<-|He1]]; auto.
    + change (last (snd b1 :: e2 :: es2') 0) with (last (e2 :: es2') 0).
      destruct He1 as [<-|He1]; auto.
Qed.

(** * calculate_nd_frequencies' per-axis index = the specification *)
Theorem axis_index_coded_is_spec bins incl x : risingb bins = true -> bins <> [] ->
  axis_index_coded bins incl x = axis_index_spec bins incl x.
Proof.
  intros H Hne. unfold axis_index_coded, axis_index_spec, edges_mask.
  destruct bins as [|b r] eqn:Eb; [congruence|]. rewrite <- Eb in *.
  destruct (edges_mask_loop bins 0) as [es ms] eqn:E.
  assert (Hn1 : (1 <= length es)%nat) by (subst bins; apply (loop_nonempty _ _ _ _ _ E)).
  assert (Hlast : forall d, last es d = last_hi bins) by (intros d; apply (loop_last_edge bins 0 es ms Hne E)).
  assert (Hge : Forall (fun e => snd b <= e) es) by (apply (loop_edges_ge bins 0 es ms b r Eb H E)).
  assert (Hb : fst b < snd b) by (subst bins; apply (rising_head _ _ H)).
  unfold hd_index.
  change (map Fin (fst b :: es) ++ (if incl then [] else [PInf])) with (Fin (fst b) :: (map Fin es ++ (if incl then [] else [PInf]))).
  cbn [filter xleb_q length].
  destruct (Qcleb (fst b) x) eqn:Ex.
  2:{ (* below the first edge: every edge is above x *)
    apply Qcleb_gt in Ex.
    assert (Hnone : Forall (fun e => x < e) es).
    { rewrite Forall_forall in *. intros e He. specialize (Hge e He).
      apply Qclt_le_trans with (snd b); auto. apply Qclt_trans with (fst b); auto. }
    cbn [length]. rewrite count_fin, (cnt_le_none _ _ Hnone).
    assert (Hsp : spec_find_from bins incl x 0 = None).
    { apply spec_none_above. apply lead0_above; auto. subst bins. simpl.
      replace (Qcleb (fst b) x) with false by (symmetry; apply Qcleb_gt; exact Ex). reflexivity. }
    rewrite Hsp.
    destruct incl; cbn [filter length xleb_q app].
    - rewrite app_nil_r. change (last (Fin (fst b) :: map Fin es) NaN) with (last (map Fin (fst b :: es)) NaN).
      rewrite (last_map_fin (fst b :: es) 0) by discriminate.
      destruct (Qceqb x (last (fst b :: es) 0)); reflexivity.
    - change (Fin (fst b) :: map Fin es ++ [PInf]) with ((Fin (fst b) :: map Fin es) ++ [PInf]).
      rewrite last_app_single. reflexivity. }
  apply Qcleb_le in Ex. cbn [length]. rewrite count_fin.
  destruct incl; cbn [filter length xleb_q app].
  - (* right edge included: last edge is last_hi *)
    rewrite app_nil_r. change (last (Fin (fst b) :: map Fin es) NaN) with (last (map Fin (fst b :: es)) NaN).
    rewrite (last_map_fin (fst b :: es) 0) by discriminate.
    assert (Hl : last (fst b :: es) 0 = last_hi bins).
    { destruct es as [|e0 es']; [simpl in Hn1; lia|]. cbn [last]. apply (Hlast 0). }
    rewrite Hl. cbn [length]. rewrite map_length. rewrite Nat.add_0_r.
    destruct (Qceqb x (last_hi bins)) eqn:Elast.
    + apply Qceqb_eq in Elast. subst x.
      assert (Hall : cnt_le es (last_hi bins) = length es).
      { unfold cnt_le. assert (G : forall e, In e es -> Qcleb e (last_hi bins) = true).
        { intros e He. apply Qcleb_le. rewrite <- (Hlast 0). apply (loop_edges_le_last bins 0 es ms H Hne E e He). }
        clear -G. induction es as [|e r IH]; simpl; auto. rewrite (G e (or_introl eq_refl)). simpl. f_equal.
        apply IH. intros e' He'. apply G. right; auto. }
      rewrite Hall. replace (S (length es) - 1)%nat with (length es) by lia.
      replace (Nat.leb 1 (length es)) with true by (symmetry; apply Nat.leb_le; lia).
      replace (Nat.leb (length es) (S (length es) - 1)) with true by (symmetry; apply Nat.leb_le; lia).
      cbn [andb].
      rewrite ?Nat.leb_refl. cbn [andb].
      pose proof (loop_index_last bins 0 es ms H Hne E 0) as LL. cbn [Nat.add] in LL. exact LL.
    + assert (Hne' : x <> last_hi bins).
      { intros ->. rewrite Qceqb_refl in Elast. discriminate. }
      rewrite (spec_closed_irrelevant bins x 0 Hne').
      pose proof (loop_index bins 0 es ms H Hne E x 0) as LI. cbn [Nat.add] in LI.
      assert (Hx0 : fst (hd (0,0) bins) <= x) by (subst bins; exact Ex). specialize (LI Hx0).
      replace (S (cnt_le es x) - 1)%nat with (cnt_le es x) by lia.
      replace (Nat.leb 1 (S (cnt_le es x))) with true by reflexivity.
      cbn [andb].
      destruct (Nat.leb_spec (S (cnt_le es x)) (S (length es) - 1)) as [Hin|Hout].
      * exact LI.
      * (* all edges <= x : beyond the last bin *)
        rewrite <- LI. symmetry. apply find_index_none.
        pose proof (loop_bounds _ _ _ _ E) as Hbd. rewrite Forall_forall in *. intros m Hm. specialize (Hbd m Hm).
        assert (cnt_le es x <= length es)%nat by (unfold cnt_le; apply filter_length_le). lia.
  - (* +inf bin appended *)
    change (Fin (fst b) :: map Fin es ++ [PInf]) with ((Fin (fst b) :: map Fin es) ++ [PInf]).
    rewrite last_app_single. rewrite app_length. cbn [length]. rewrite map_length. rewrite Nat.add_0_r.
    replace (S (cnt_le es x) - 1)%nat with (cnt_le es x) by lia.
    replace (Nat.leb 1 (S (cnt_le es x))) with true by reflexivity.
    assert (Hc : (cnt_le es x <= length es)%nat) by (unfold cnt_le; apply filter_length_le).
    replace (Nat.leb (S (cnt_le es x)) (S (length es + 1) - 1)) with true by (symmetry; apply Nat.leb_le; lia).
    cbn [andb].
    pose proof (loop_index bins 0 es ms H Hne E x 0) as LI. cbn [Nat.add] in LI.
    apply LI. subst bins. exact Ex.
Qed.
