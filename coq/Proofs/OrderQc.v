(** boolean order on Qc: reflection lemmas *)
From Physt Require Import Num.

Lemma Qcltb_lt x y : Qcltb x y = true <-> x < y.
Proof. unfold Qcltb. rewrite Qclt_alt. destruct (x ?= y); intuition congruence. Qed.
Lemma Qcltb_ge x y : Qcltb x y = false <-> y <= x.
Proof.
  split; intros H.
  - apply Qcnot_lt_le. intros L. apply Qcltb_lt in L. congruence.
  - destruct (Qcltb x y) eqn:E; auto. apply Qcltb_lt in E. apply Qcle_not_lt in H. contradiction.
Qed.
Lemma Qcleb_le x y : Qcleb x y = true <-> x <= y.
Proof. unfold Qcleb. rewrite Qcle_alt. destruct (x ?= y); intuition congruence. Qed.
Lemma Qcleb_gt x y : Qcleb x y = false <-> y < x.
Proof.
  split; intros H.
  - apply Qcnot_le_lt. intros L. apply Qcleb_le in L. congruence.
  - destruct (Qcleb x y) eqn:E; auto. apply Qcleb_le in E. apply Qcle_not_lt in E. contradiction.
Qed.
Lemma Qceqb_eq x y : Qceqb x y = true <-> x = y.
Proof. unfold Qceqb. rewrite Qceq_alt. destruct (x ?= y); intuition congruence. Qed.
Lemma Qceqb_refl x : Qceqb x x = true.
Proof. apply Qceqb_eq. reflexivity. Qed.
Lemma Qcleb_negb_ltb x y : Qcleb x y = negb (Qcltb y x).
Proof.
  destruct (Qcltb y x) eqn:E; simpl.
  - apply Qcleb_gt. apply Qcltb_lt. exact E.
  - apply Qcleb_le. apply Qcltb_ge. exact E.
Qed.

Lemma Qcltb_irrefl x : Qcltb x x = false.
Proof. apply Qcltb_ge. apply Qcle_refl. Qed.
Lemma Qcltb_trans x y z : Qcltb x y = true -> Qcltb y z = true -> Qcltb x z = true.
Proof. rewrite !Qcltb_lt. apply Qclt_trans. Qed.
Lemma Qcltb_total x y : Qcltb x y = false -> Qcltb y x = false -> x = y.
Proof. rewrite !Qcltb_ge. intros. apply Qcle_antisym; auto. Qed.

Lemma close0_refl x : close 0 x x = true.
Proof.
  unfold close. apply Qcleb_le. replace (x - x) with 0 by ring.
  replace (0 * Qcmax 1 (Qcabs x)) with 0 by ring. unfold Qcabs. rewrite Qcltb_irrefl. apply Qcle_refl.
Qed.
Lemma closel0_refl l : closel 0 l l = true.
Proof. induction l as [|x l IH]; simpl; auto. unfold closel in *. simpl. rewrite close0_refl, IH. reflexivity. Qed.
Lemma xeqb_refl x : xeqb x x = true.
Proof. destruct x; simpl; auto. apply Qceqb_refl. Qed.
