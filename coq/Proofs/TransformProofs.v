From Physt Require Import Transform OrderQc FindProofs ProjectProofs.
Local Open Scope Qc_scope.

(** * the inverse formulas determine the coordinates *)
Theorem polar_norm x y r c s : x = r * c -> y = r * s -> c * c + s * s = 1 -> r * r = x * x + y * y.
Proof. intros -> -> H. transitivity (r * r * (c * c + s * s)); [rewrite H; ring|ring]. Qed.

Lemma sq_eq_nonneg (a b : Qc) : 0 <= a -> 0 <= b -> a * a = b * b -> a = b.
Proof.
  intros Ha Hb H. assert (E : (a - b) * (a + b) = 0) by (transitivity (a * a - b * b); [ring|rewrite H; ring]).
  apply Qcmult_integral in E. destruct E as [E|E].
  - transitivity (a - b + b); [ring|rewrite E; ring].
  - assert (Eab : a = - b) by (transitivity (a + b - b); [ring|rewrite E; ring]). subst a.
    assert (Eb : b = 0) by (apply Qcle_antisym; [qc2q; lra|exact Hb]). subst b. reflexivity.
Qed.

Theorem polar_unique r c s r' c' s' : 0 <= r -> 0 <= r' -> c * c + s * s = 1 -> c' * c' + s' * s' = 1 ->
  r * c = r' * c' -> r * s = r' * s' -> r = r' /\ (0 < r -> c = c' /\ s = s').
Proof.
  intros Hr Hr' U U' Hx Hy.
  assert (E : r = r').
  { apply sq_eq_nonneg; auto. rewrite (polar_norm (r * c) (r * s) r c s eq_refl eq_refl U).
    rewrite (polar_norm (r * c) (r * s) r' c' s' Hx Hy U'). reflexivity. }
  split; [exact E|]. subst r'. intros Hpos.
  assert (Hne : r <> 0) by (intro Z; subst; revert Hpos; qc2q; lra).
  split.
  - transitivity (/ r * (r * c)); [field; exact Hne|]. rewrite Hx. field. exact Hne.
  - transitivity (/ r * (r * s)); [field; exact Hne|]. rewrite Hy. field. exact Hne.
Qed.

Theorem spherical_norm x y z r ct st c s : x = r * st * c -> y = r * st * s -> z = r * ct ->
  ct * ct + st * st = 1 -> c * c + s * s = 1 -> r * r = x * x + y * y + z * z.
Proof.
  intros -> -> -> Ht Hp.
  transitivity (r * r * (st * st * (c * c + s * s) + ct * ct)); [rewrite Hp; transitivity (r * r * (ct * ct + st * st)); [rewrite Ht; ring|ring]|ring].
Qed.
