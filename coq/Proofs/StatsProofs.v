From Physt Require Import StatsCases OrderQc ArithProofs ArrLemmas ScaleProofs.

(** python's min/max on non-NaN extended numbers behave as an ordered min/max *)
Definition nn (x : xnum) : Prop := x <> NaN.

Lemma nn_pinf : nn PInf. Proof. unfold nn; congruence. Qed.
Lemma nn_ninf : nn NInf. Proof. unfold nn; congruence. Qed.
Lemma nn_fin v : nn (Fin v). Proof. unfold nn; congruence. Qed.

Lemma xltb_fin x y : xltb (Fin x) (Fin y) = Qcltb x y. Proof. reflexivity. Qed.

Ltac qb := repeat match goal with
  | H : Qcltb _ _ = true |- _ => apply Qcltb_lt in H
  | H : Qcltb _ _ = false |- _ => apply Qcltb_ge in H end.

Lemma py_min_assoc a b c : nn a -> nn b -> nn c -> py_min (py_min a b) c = py_min a (py_min b c).
Proof.
  unfold nn, py_min. intros Ha Hb Hc.
  destruct a as [x| | |], b as [y| | |], c as [z| | |]; try congruence; simpl; auto;
  repeat match goal with |- context [Qcltb ?p ?q] => destruct (Qcltb p q) eqn:? ; simpl end; auto; qb;
  try (exfalso; qc2q; lra); try (f_equal; apply Qcle_antisym; qc2q; lra).
Qed.
Lemma py_max_assoc a b c : nn a -> nn b -> nn c -> py_max (py_max a b) c = py_max a (py_max b c).
Proof.
  unfold nn, py_max. intros Ha Hb Hc.
  destruct a as [x| | |], b as [y| | |], c as [z| | |]; try congruence; simpl; auto;
  repeat match goal with |- context [Qcltb ?p ?q] => destruct (Qcltb p q) eqn:? ; simpl end; auto; qb;
  try (exfalso; qc2q; lra); try (f_equal; apply Qcle_antisym; qc2q; lra).
Qed.
Lemma py_min_nn a b : nn a -> nn b -> nn (py_min a b).
Proof. unfold py_min. intros. destruct (xltb b a); auto. Qed.
Lemma py_max_nn a b : nn a -> nn b -> nn (py_max a b).
Proof. unfold py_max. intros. destruct (xltb a b); auto. Qed.
Lemma py_min_pinf a : nn a -> py_min PInf a = a.
Proof. unfold py_min, nn. destruct a; simpl; congruence. Qed.
Lemma py_max_ninf a : nn a -> py_max NInf a = a.
Proof. unfold py_max, nn. destruct a; simpl; congruence. Qed.

Lemma fold_min_from a l : nn a ->
  fold_left (fun acc v => py_min acc (Fin v)) l a = py_min a (fold_left (fun acc v => py_min acc (Fin v)) l PInf) /\
  nn (fold_left (fun acc v => py_min acc (Fin v)) l a).
Proof.
  revert a. induction l as [|v l IH]; intros a Ha; simpl.
  - split; auto; unfold py_min; destruct a; simpl; auto.
  - assert (Hv : nn (Fin v)) by apply nn_fin.
    destruct (IH (py_min a (Fin v)) (py_min_nn _ _ Ha Hv)) as [E1 N1].
    destruct (IH (py_min PInf (Fin v)) (py_min_nn _ _ nn_pinf Hv)) as [E2 N2].
    split; auto. rewrite E1, E2. rewrite (py_min_pinf (Fin v) Hv).
    destruct (IH PInf nn_pinf) as [_ N3].
    rewrite py_min_assoc; auto.
Qed.
Lemma fold_max_from a l : nn a ->
  fold_left (fun acc v => py_max acc (Fin v)) l a = py_max a (fold_left (fun acc v => py_max acc (Fin v)) l NInf) /\
  nn (fold_left (fun acc v => py_max acc (Fin v)) l a).
Proof.
  revert a. induction l as [|v l IH]; intros a Ha; simpl.
  - split; auto; unfold py_max; destruct a; simpl; auto.
  - assert (Hv : nn (Fin v)) by apply nn_fin.
    destruct (IH (py_max a (Fin v)) (py_max_nn _ _ Ha Hv)) as [E1 N1].
    destruct (IH (py_max NInf (Fin v)) (py_max_nn _ _ nn_ninf Hv)) as [E2 N2].
    split; auto. rewrite E1, E2. rewrite (py_max_ninf (Fin v) Hv).
    destruct (IH NInf nn_ninf) as [_ N3].
    rewrite py_max_assoc; auto.
Qed.

Lemma xmin_app l m : xmin_list (l ++ m) = py_min (xmin_list l) (xmin_list m).
Proof.
  unfold xmin_list. rewrite fold_left_app.
  destruct (fold_min_from PInf l nn_pinf) as [_ N].
  apply (fold_min_from _ m N).
Qed.
Lemma xmax_app l m : xmax_list (l ++ m) = py_max (xmax_list l) (xmax_list m).
Proof.
  unfold xmax_list. rewrite fold_left_app.
  destruct (fold_max_from NInf l nn_ninf) as [_ N].
  apply (fold_max_from _ m N).
Qed.

(** numpy's minimum / maximum (NaN propagates) agree with python's min / max away from NaN *)
Lemma np_min_py a b : nn a -> nn b -> np_min a b = py_min a b.
Proof. unfold nn, np_min. intros Ha Hb. destruct a, b; try reflexivity; congruence. Qed.
Lemma np_max_py a b : nn a -> nn b -> np_max a b = py_max a b.
Proof. unfold nn, np_max. intros Ha Hb. destruct a, b; try reflexivity; congruence. Qed.
Lemma xmin_nn l : nn (xmin_list l).
Proof. unfold xmin_list. apply (fold_min_from PInf l nn_pinf). Qed.
Lemma xmax_nn l : nn (xmax_list l).
Proof. unfold xmax_list. apply (fold_max_from NInf l nn_ninf). Qed.

(** * the statistics of concatenated data are the sum of the statistics (any chunking) *)
Theorem moments_app p q : moments (p ++ q) = stats_add (moments p) (moments q).
Proof.
  unfold moments, stats_add. cbn [st_sum st_sum2 st_min st_max st_weight].
  rewrite (np_min_py _ _ (xmin_nn _) (xmin_nn _)), (np_max_py _ _ (xmax_nn _) (xmax_nn _)).
  rewrite !map_app, !sumq_app, xmin_app, xmax_app. reflexivity.
Qed.

(** one fill = adding the statistics of a single (value, weight) pair *)
Theorem fill_is_singleton s v w : nn (st_min s) -> nn (st_max s) ->
  fill_stats s v w = stats_add s (moments [(v, w)]).
Proof.
  intros H1 H2. unfold fill_stats, stats_add, moments. cbn [st_sum st_sum2 st_min st_max st_weight].
  rewrite (np_min_py _ _ H1 (xmin_nn _)), (np_max_py _ _ H2 (xmax_nn _)).
  unfold xmin_list, xmax_list. cbn [map fst snd fold_left sumq fold_right].
  rewrite (py_min_pinf (Fin v)) by apply nn_fin. rewrite (py_max_ninf (Fin v)) by apply nn_fin.
  f_equal; f_equal; f_equal; ring.
Qed.

(** construction computes the moments (the median aside) *)
Theorem calc_stats_moments ps ew :
  let s := calc_stats ps ew in
  st_sum s = st_sum (moments ps) /\ st_sum2 s = st_sum2 (moments ps) /\ st_min s = st_min (moments ps) /\
  st_max s = st_max (moments ps) /\ st_weight s = st_weight (moments ps).
Proof. destruct ps; cbn; repeat split; reflexivity. Qed.

(** rescaling the weights rescales sum, sum2 and weight and leaves min / max alone *)
Theorem moments_scale c ps : moments (scale_w c ps) = stats_mul (moments ps) c.
Proof.
  unfold moments, stats_mul, scale_w. cbn [st_sum st_sum2 st_min st_max st_weight st_median xscale].
  rewrite !map_map. cbn [fst snd].
  assert (G : forall f : Qc * Qc -> Qc, sumq (map (fun x => c * f x) ps) = c * sumq (map f ps)).
  { intros f. rewrite <- sumq_scale, map_map. reflexivity. }
  f_equal; try (f_equal; rewrite <- G; f_equal; apply map_ext; intros; ring).
Qed.

(** variance is the weighted mean squared deviation from the mean *)
Lemma central_expand (m : Qc) (ps : list (Qc * Qc)) :
  sumq (map (fun p => snd p * ((fst p - m) * (fst p - m))) ps)
  = sumq (map (fun p => fst p * fst p * snd p) ps) - (m + m) * sumq (map (fun p => fst p * snd p) ps) + m * m * sumq (map snd ps).
Proof. induction ps as [|[v w] ps IH]; cbn [map sumq fold_right fst snd]. ring. unfold sumq in *. rewrite IH. ring. Qed.

Theorem variance_is_central_moment (ps : list (Qc * Qc)) :
  let W := sumq (map snd ps) in let S := sumq (map (fun p => fst p * snd p) ps) in
  0 < W ->
  st_var (moments ps) = Fin (sumq (map (fun p => snd p * ((fst p - S / W) * (fst p - S / W))) ps) / W).
Proof.
  intros W S HW. unfold st_var, moments. cbn [st_sum st_sum2 st_weight]. fold W S.
  replace (Qcltb 0 W) with true by (symmetry; apply Qcltb_lt; exact HW). f_equal.
  assert (Hw : W <> 0) by (apply pos_neq0; exact HW).
  rewrite (central_expand (S / W) ps). fold W S. field. exact Hw.
Qed.

(** * Programs: at every step the recorded statistics are the moments of the raw data the variable stands for *)
Definition rel (s : stats) (v : sval) : Prop :=
  match v with
  | VData ps fresh =>
      st_sum s = st_sum (moments ps) /\ st_sum2 s = st_sum2 (moments ps) /\ st_min s = st_min (moments ps) /\
      st_max s = st_max (moments ps) /\ st_weight s = st_weight (moments ps) /\
      (fresh = true -> ps <> [] -> st_median s = median (map fst ps))
  | VInvalid => st_sum s = NaN /\ st_sum2 s = NaN /\ st_weight s = NaN
  end.

Lemma rel_default : rel invalid_stats VInvalid.
Proof. repeat split. Qed.

Lemma rel_nth e f k : Forall2 rel e f -> rel (nth k e invalid_stats) (nth k f VInvalid).
Proof.
  intros H. revert k. induction H as [|s v e f Hsv _ IH]; intros k; destruct k; simpl; auto using rel_default.
Qed.

Lemma Forall2_set_at {A B} (R : A -> B -> Prop) k a b : forall e f, Forall2 R e f -> R a b -> Forall2 R (set_at k a e) (set_at k b f).
Proof.
  intros e f H. revert k. induction H as [|x y e f Hxy Hef IH]; intros k Hab; destruct k; simpl; auto.
Qed.

Definition vjoin (a b : sval) : sval :=
  match a, b with VData p _, VData q _ => VData (p ++ q) false | _, _ => VInvalid end.

Lemma xadd_nan_l x : xadd NaN x = NaN. Proof. reflexivity. Qed.
Lemma xadd_nan_r x : xadd x NaN = NaN. Proof. destruct x; reflexivity. Qed.

Lemma rel_add s1 s2 v1 v2 : rel s1 v1 -> rel s2 v2 -> rel (stats_add s1 s2) (vjoin v1 v2).
Proof.
  intros H1 H2. destruct v1 as [p f1|], v2 as [q f2|]; cbn [vjoin rel] in *.
  - destruct H1 as [A1 [A2 [A3 [A4 [A5 _]]]]]. destruct H2 as [B1 [B2 [B3 [B4 [B5 _]]]]].
    rewrite moments_app. unfold stats_add. cbn [st_sum st_sum2 st_min st_max st_weight].
    rewrite A1, A2, A3, A4, A5, B1, B2, B3, B4, B5. repeat split; auto. discriminate.
  - destruct H2 as [B1 [B2 B3]]. unfold stats_add. cbn [st_sum st_sum2 st_weight]. rewrite B1, B2, B3, !xadd_nan_r. auto.
  - destruct H1 as [A1 [A2 A3]]. unfold stats_add. cbn [st_sum st_sum2 st_weight]. rewrite A1, A2, A3. auto.
  - destruct H1 as [A1 [A2 A3]]. unfold stats_add. cbn [st_sum st_sum2 st_weight]. rewrite A1, A2, A3. auto.
Qed.

Lemma rel_calc d ew fresh : (fresh = true -> ew = true) -> rel (calc_stats d ew) (VData d fresh).
Proof.
  intros Hf. destruct (calc_stats_moments d ew) as [A1 [A2 [A3 [A4 A5]]]]. cbn [rel]. repeat split; auto.
  intros F Hne. rewrite (Hf F). destruct d; [congruence|]. reflexivity.
Qed.

Lemma rel_mul s v c : rel s v ->
  rel (stats_mul s c) (match v with VData p f => VData (scale_w c p) f | x => x end).
Proof.
  intros H. destruct v as [p f|]; cbn [rel] in *.
  - destruct H as [A1 [A2 [A3 [A4 [A5 A6]]]]]. rewrite moments_scale.
    unfold stats_mul. cbn [st_sum st_sum2 st_min st_max st_weight st_median]. rewrite A1, A2, A3, A4, A5. repeat split; auto.
    intros F Hne. unfold scale_w. rewrite map_map. cbn [fst]. apply A6; auto. intros E. apply Hne. subst. reflexivity.
  - destruct H as [A1 [A2 A3]]. unfold stats_mul. cbn [st_sum st_sum2 st_weight]. rewrite A1, A2, A3. auto.
Qed.

Lemma moments_nn ps : nn (st_min (moments ps)) /\ nn (st_max (moments ps)).
Proof.
  unfold moments. cbn [st_min st_max]. unfold xmin_list, xmax_list. split.
  apply (fold_min_from PInf _ nn_pinf). apply (fold_max_from NInf _ nn_ninf).
Qed.

Lemma rel_fill s v x w : rel s v -> rel (fill_stats s x w) (vjoin v (VData [(x, w)] false)).
Proof.
  intros H. destruct v as [p f|]; cbn [vjoin rel] in *.
  - destruct H as [A1 [A2 [A3 [A4 [A5 _]]]]].
    destruct (moments_nn p) as [N1 N2].
    rewrite fill_is_singleton by (rewrite ?A3, ?A4; auto).
    rewrite moments_app. unfold stats_add. cbn [st_sum st_sum2 st_min st_max st_weight].
    rewrite A1, A2, A3, A4, A5. repeat split; auto. discriminate.
  - destruct H as [A1 [A2 A3]]. unfold fill_stats. cbn [st_sum st_sum2 st_weight]. rewrite A1, A2, A3. auto.
Qed.

Lemma Forall2_len {A B} (R : A -> B -> Prop) e f : Forall2 R e f -> length e = length f.
Proof. induction 1; simpl; auto. Qed.

Theorem step_related e f o : Forall2 rel e f ->
  let '(e', k) := sstep e o in let '(f', k') := vstep f o in k = k' /\ Forall2 rel e' f'.
Proof.
  intros H. pose proof (Forall2_len _ _ _ H) as HL.
  destruct o; cbn [sstep vstep]; cbv zeta; (split; [try reflexivity; try (rewrite HL; reflexivity)|]).
  - apply Forall2_app; auto. constructor; auto. apply rel_calc. intros F. destruct weighted; [discriminate|reflexivity].
  - apply Forall2_app; auto. constructor; auto. apply (rel_calc [] true false). discriminate.
  - apply Forall2_app; auto. constructor; auto. apply rel_default.
  - apply Forall2_set_at; auto. apply (rel_fill _ _ v w). apply rel_nth; auto.
  - destruct data as [|d0 data].
    + apply Forall2_set_at; auto. apply rel_nth; auto.
    + apply Forall2_set_at; auto. apply (rel_add _ _ _ (VData (d0 :: data) false)). apply rel_nth; auto. apply rel_calc. discriminate.
  - apply Forall2_app; auto. constructor; auto. apply rel_add; apply rel_nth; auto.
  - apply Forall2_set_at; auto. apply rel_add; apply rel_nth; auto.
  - apply Forall2_app; auto. constructor; auto. apply rel_nth; auto.
  - apply Forall2_set_at; auto. pose proof (rel_mul _ _ c (rel_nth e f x H)) as R2. destruct (nth x f VInvalid); exact R2.
  - apply Forall2_set_at; auto. pose proof (rel_mul _ _ (/ c) (rel_nth e f x H)) as R2. destruct (nth x f VInvalid); exact R2.
  - apply Forall2_app; auto. constructor; auto. apply rel_default.
  - apply Forall2_set_at; auto. apply rel_default.
Qed.

Theorem run_related : forall ops e f, Forall2 rel e f -> Forall2 rel (srun e ops) (vrun f ops).
Proof.
  induction ops as [|o ops IH]; intros e f H; cbn [srun vrun]. constructor.
  pose proof (step_related e f o H) as S.
  destruct (sstep e o) as [e' k]. destruct (vstep f o) as [f' k']. destruct S as [-> S].
  constructor. apply rel_nth; auto. apply IH; auto.
Qed.
