From Physt Require Import Index ArrLemmas OrderQc.
From Coq Require Import Permutation Sorting.Sorted.
Local Arguments Nat.sub : simpl never.

Lemma range_step_seq : forall fuel s e, (e - s <= fuel)%nat -> range_step fuel s e 1 = seq s (e - s).
Proof.
  induction fuel as [|f IH]; intros s e H; simpl.
  - replace (e - s)%nat with 0%nat by lia. reflexivity.
  - destruct (Nat.ltb_spec s e).
    + replace (e - s)%nat with (S (e - S s)) by lia. simpl. f_equal. replace (s + 1)%nat with (S s) by lia. apply IH. lia.
    + replace (e - s)%nat with 0%nat by lia. reflexivity.
Qed.

Lemma map_nth_seq {A} (d : A) : forall (l : list A) s k, (s + k <= length l)%nat ->
  map (fun i => nth i l d) (seq s k) = firstn k (skipn s l).
Proof.
  induction l as [|x l IH]; intros s k H; simpl in H.
  - assert (k = 0%nat) by lia. subst. destruct s; reflexivity.
  - destruct s as [|s'].
    + destruct k as [|k']; [reflexivity|]. cbn [seq map nth skipn firstn]. f_equal.
      rewrite <- seq_shift, map_map. specialize (IH 0%nat k' ltac:(lia)). cbn [skipn] in IH. rewrite <- IH. reflexivity.
    + cbn [skipn]. rewrite <- (IH s' k) by lia. rewrite <- seq_shift, map_map. reflexivity.
Qed.

Lemma skipn_skipn' {A} : forall (l : list A) a b, skipn a (skipn b l) = skipn (b + a) l.
Proof. induction l as [|x l IH]; intros a b. destruct a, b; reflexivity. destruct b; simpl; auto. Qed.

Lemma sumq_firstn_skipn (l : list Qc) k : sumq (firstn k l) + sumq (skipn k l) = sumq l.
Proof. rewrite <- sumq_app, firstn_skipn. reflexivity. Qed.

Lemma clip_le n z : (clip_index n z <= n)%nat.
Proof. unfold clip_index. destruct (Z.ltb_spec z 0); lia. Qed.

(** * a non-empty contiguous 1-D slice conserves total + underflow + overflow *)
Theorem slice_conserves (f : list Qc) (a b : option Z) :
  let n := length f in let s := slice_start n a in let e := slice_stop n b in
  (s <= e)%nat ->
  sumq (take_list 0 (range_step n s e 1) f) + sumq (firstn s f) + sumq (skipn e f) = sumq f.
Proof.
  intros n s e Hse.
  assert (He : (e <= n)%nat) by (unfold e, slice_stop; destruct b; [apply clip_le|lia]).
  unfold take_list. rewrite range_step_seq by lia. rewrite map_nth_seq by (fold n; lia).
  pose proof (sumq_firstn_skipn f s) as D1.
  pose proof (sumq_firstn_skipn (skipn s f) (e - s)) as D2.
  assert (D3 : skipn (e - s) (skipn s f) = skipn e f) by (rewrite skipn_skipn'; f_equal; lia).
  rewrite D3 in D2. rewrite <- D1. rewrite <- D2. ring.
Qed.

(** numpy integer index normalisation *)
Theorem norm_int_spec n z i : norm_int n z = Some i ->
  (i < n)%nat /\ Z.of_nat i = (if (z <? 0)%Z then z + Z.of_nat n else z)%Z.
Proof.
  unfold norm_int. destruct (_ || _) eqn:E; [discriminate|]. intros H. injection H as <-.
  apply orb_false_iff in E. destruct E as [E1 E2].
  apply Z.ltb_ge in E1. apply Z.leb_gt in E2. destruct (Z.ltb_spec z 0); lia.
Qed.

(** index arrays are taken in increasing order: the selection is a sorted permutation of the requested positions *)
Lemma insert_sorted_perm x l : Permutation (x :: l) (insert_sorted x l).
Proof.
  induction l as [|y l IH]; simpl; auto. destruct (Nat.leb x y); auto.
  eapply perm_trans. apply perm_swap. constructor. exact IH.
Qed.
Lemma sort_nat_perm l : Permutation l (sort_nat l).
Proof. induction l as [|x l IH]; simpl; auto. eapply perm_trans. 2: apply insert_sorted_perm. constructor. exact IH. Qed.

Lemma insert_sorted_sorted x l : Sorted le l -> Sorted le (insert_sorted x l).
Proof.
  induction 1 as [|y l Hs IH Hh]; simpl. repeat constructor.
  destruct (Nat.leb_spec x y).
  - constructor. constructor; auto. constructor. exact H.
  - constructor; auto. destruct l as [|z l']; simpl.
    + constructor. lia.
    + inversion Hh as [|? ? Hyz]; subst. destruct (Nat.leb_spec x z); constructor; lia.
Qed.
Theorem sort_nat_sorted l : Sorted le (sort_nat l).
Proof. induction l as [|x l IH]; simpl. constructor. apply insert_sorted_sorted. exact IH. Qed.

(** N-d: every cell of the selection is the source cell at the expanded index *)
Theorem take_nd_pointwise shape sels a i' :
  in_range i' (snd (take_nd shape sels a)) ->
  exists src, get 0 (snd (take_nd shape sels a)) (fst (take_nd shape sels a)) i' = get 0 shape a src.
Proof. intros H. unfold take_nd in *. cbn [fst snd] in *. rewrite get_tabulate by exact H. eexists. reflexivity. Qed.
