From Physt Require Import Project ArrLemmas MergeProofs OrderQc.

(** an indicator sum over a duplicate-free enumeration picks exactly one term *)
Lemma sumf_cons {A} (f : A -> Qc) x l : sumf f (x :: l) = f x + sumf f l.
Proof. reflexivity. Qed.

Lemma sumf_none (y : list nat) (c : list nat -> Qc) l : ~ In y l ->
  sumf (fun x => if list_eqb y x then c x else 0) l = 0.
Proof.
  induction l as [|z l IH]; intros H; [reflexivity|]. rewrite sumf_cons.
  destruct (list_eqb y z) eqn:E. apply list_eqb_eq in E. subst. exfalso. apply H. left; auto.
  rewrite IH. ring. intros G. apply H. right; auto.
Qed.

Lemma sumf_pick_list (y : list nat) (c : list nat -> Qc) : forall l, NoDup l -> In y l ->
  sumf (fun x => if list_eqb y x then c x else 0) l = c y.
Proof.
  induction l as [|x l IH]; intros Hnd Hin; [destruct Hin|].
  inversion Hnd as [|? ? Hx Hnd']; subst. rewrite sumf_cons.
  destruct (list_eqb y x) eqn:E.
  - apply list_eqb_eq in E. subst x. rewrite sumf_none by exact Hx. ring.
  - destruct Hin as [->|Hin]. rewrite (proj2 (list_eqb_eq y y) eq_refl) in E. discriminate.
    rewrite IH; auto. ring.
Qed.
Lemma sumf_pick_list_sym (y : list nat) (c : Qc) : forall l, NoDup l -> In y l ->
  sumf (fun x => if list_eqb y x then c else 0) l = c.
Proof. intros l H1 H2. apply (sumf_pick_list y (fun _ => c) l H1 H2). Qed.

Lemma restrict_in_range kept : forall idx shape, in_range idx shape ->
  Forall (fun k => (k < length shape)%nat) kept -> in_range (restrict 0%nat kept idx) (restrict 0%nat kept shape).
Proof.
  induction kept as [|k r IH]; intros idx shape H Hk; simpl; auto.
  inversion Hk; subst. split. apply in_range_nth; auto. apply IH; auto.
Qed.

Lemma list_eqb_sym a b : list_eqb a b = list_eqb b a.
Proof.
  destruct (list_eqb a b) eqn:E1; destruct (list_eqb b a) eqn:E2; auto.
  - apply list_eqb_eq in E1. subst. rewrite (proj2 (list_eqb_eq b b) eq_refl) in E2. discriminate.
  - apply list_eqb_eq in E2. subst. rewrite (proj2 (list_eqb_eq a a) eq_refl) in E1. discriminate.
Qed.

(** * the total of a projection equals the parent's total (any dimension, any kept axes) *)
Theorem marginal_total shape kept a :
  length a = size shape -> Forall (fun k => (k < length shape)%nat) kept ->
  sumq (marginal shape kept a) = sumq a.
Proof.
  intros Hl Hk. unfold marginal. rewrite sumq_tabulate.
  rewrite sumf_swap. rewrite <- (sumf_get_all shape a Hl). apply sumf_ext. intros idx Hidx.
  apply in_indices in Hidx.
  apply sumf_pick_list_sym. apply NoDup_indices. apply in_indices. apply restrict_in_range; auto.
Qed.

(** pointwise meaning: a cell of the projection is the sum over all parent cells that restrict to it *)
Theorem marginal_pointwise shape kept a i' : in_range i' (restrict 0%nat kept shape) ->
  get 0 (restrict 0%nat kept shape) (marginal shape kept a) i' =
  sumf (fun idx => if list_eqb (restrict 0%nat kept idx) i' then get 0 shape a idx else 0) (indices shape).
Proof. intros H. unfold marginal. rewrite get_tabulate; auto. Qed.

Lemma restrict_restrict {A} (d : A) k1 k2 (l : list A) : Forall (fun k => (k < length k1)%nat) k2 ->
  restrict d k2 (restrict d k1 l) = restrict d (restrict 0%nat k2 k1) l.
Proof.
  intros H. unfold restrict. rewrite map_map. apply map_ext_in. intros k Hk.
  rewrite Forall_forall in H. specialize (H k Hk).
  rewrite (nth_indep _ d (nth 0 l d)) by (rewrite map_length; exact H).
  rewrite (map_nth (fun k0 => nth k0 l d) k1 0%nat k). reflexivity.
Qed.

(** * projecting in steps = projecting once onto the final axes (Fubini for finite sums) *)
Theorem marginal_steps shape k1 k2 a :
  Forall (fun k => (k < length shape)%nat) k1 -> Forall (fun k => (k < length k1)%nat) k2 ->
  marginal (restrict 0%nat k1 shape) k2 (marginal shape k1 a) = marginal shape (restrict 0%nat k2 k1) a.
Proof.
  intros H1 H2. unfold marginal at 1 3.
  rewrite (restrict_restrict 0%nat k1 k2 shape H2).
  unfold tabulate. apply map_ext. intros i3.
  (* sum over intermediate cells of their marginal value *)
  transitivity (sumf (fun idx2 => if list_eqb (restrict 0%nat k2 idx2) i3
                                  then sumf (fun idx => if list_eqb (restrict 0%nat k1 idx) idx2 then get 0 shape a idx else 0) (indices shape)
                                  else 0) (indices (restrict 0%nat k1 shape))).
  { apply sumf_ext. intros idx2 Hin. apply in_indices in Hin.
    destruct (list_eqb (restrict 0%nat k2 idx2) i3); auto. apply marginal_pointwise. exact Hin. }
  rewrite (sumf_ext _ (fun idx2 => sumf (fun idx => if list_eqb (restrict 0%nat k2 idx2) i3
                                                    then (if list_eqb (restrict 0%nat k1 idx) idx2 then get 0 shape a idx else 0) else 0) (indices shape))).
  2:{ intros idx2 _. destruct (list_eqb (restrict 0%nat k2 idx2) i3); auto. symmetry. apply sumf_zero. }
  rewrite sumf_swap. apply sumf_ext. intros idx Hidx. apply in_indices in Hidx.
  rewrite <- (restrict_restrict 0%nat k1 k2 idx H2).
  rewrite (sumf_ext _ (fun idx2 => if list_eqb (restrict 0%nat k1 idx) idx2
                                   then (fun z => if list_eqb (restrict 0%nat k2 z) i3 then get 0 shape a idx else 0) idx2 else 0)).
  2:{ intros idx2 _. cbv beta. destruct (list_eqb (restrict 0%nat k2 idx2) i3); destruct (list_eqb (restrict 0%nat k1 idx) idx2); auto. }
  rewrite (sumf_pick_list (restrict 0%nat k1 idx) (fun z => if list_eqb (restrict 0%nat k2 z) i3 then get 0 shape a idx else 0)).
  - reflexivity.
  - apply NoDup_indices.
  - apply in_indices. apply restrict_in_range; auto.
Qed.

(** * T is an involution (2-d) *)
Theorem transpose2_involutive n m a : length a = (n * m)%nat ->
  transpose2 [m; n] (transpose2 [n; m] a) = a.
Proof.
  intros Hl. unfold transpose2 at 1. cbn [rev app].
  transitivity (tabulate [n; m] (get 0 [n; m] a)); [|apply tabulate_get; simpl; lia].
  unfold tabulate. apply map_ext_in. intros idx Hin. apply in_indices in Hin.
  destruct idx as [|i [|j [|? ?]]]; simpl in Hin; try tauto.
  cbn [rev app]. unfold transpose2. cbn [rev app]. rewrite get_tabulate. reflexivity. simpl. tauto.
Qed.
