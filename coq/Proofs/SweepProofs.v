(** sort + searchsorted sweep = filter, for any type with a boolean strict total order *)
From Physt Require Import Calc1D.
From Coq Require Import Permutation Sorting.Sorted.
Local Arguments Nat.sub : simpl never.

Section Sweep.
  Context {K W : Type} (ltb : K -> K -> bool).
  Hypothesis ltb_irrefl : forall x, ltb x x = false.
  Hypothesis ltb_trans : forall x y z, ltb x y = true -> ltb y z = true -> ltb x z = true.
  Hypothesis ltb_total : forall x y, ltb x y = false -> ltb y x = false -> x = y.
  Notation leb := (leb' ltb).
  Notation insert := (@insert K W ltb).
  Notation isort := (@isort K W ltb).

  Definition sorted (l : list (K * W)) := StronglySorted (fun p q => leb (fst p) (fst q) = true) l.

  Lemma insert_perm p l : Permutation (p :: l) (insert p l).
  Proof. induction l as [|q r IH]; simpl; auto. destruct (ltb _ _); auto.
    eapply perm_trans. apply perm_swap. constructor. exact IH. Qed.
  Lemma isort_perm l : Permutation l (isort l).
  Proof. induction l as [|p r IH]; simpl; auto. eapply perm_trans. 2: apply insert_perm. constructor; auto. Qed.

  Lemma leb_trans x y z : leb x y = true -> leb y z = true -> leb x z = true.
  Proof. unfold leb'. rewrite !negb_true_iff. intros H1 H2.
    destruct (ltb z x) eqn:E; auto.
    destruct (ltb y z) eqn:E2.
    - rewrite (ltb_trans _ _ _ E2 E) in H1. discriminate.
    - assert (y = z) by (apply ltb_total; auto). subst. congruence. Qed.

  Lemma lt_le x y : ltb x y = true -> leb x y = true.
  Proof. intros E. unfold leb'. destruct (ltb y x) eqn:E2; auto.
    pose proof (ltb_trans _ _ _ E E2) as HH. rewrite ltb_irrefl in HH. discriminate. Qed.

  Lemma insert_sorted p l : sorted l -> sorted (insert p l).
  Proof. induction 1 as [|q r Hs IH Hall]; simpl. repeat constructor.
    destruct (ltb (fst p) (fst q)) eqn:E.
    - constructor. constructor; auto. constructor.
      + apply lt_le; auto.
      + rewrite Forall_forall in *. intros y Hy. eapply leb_trans. 2: apply Hall, Hy. apply lt_le; auto.
    - constructor; auto. rewrite Forall_forall in *. intros y Hy.
      apply (Permutation_in _ (Permutation_sym (insert_perm p r))) in Hy. destruct Hy as [<-|Hy]; auto.
      unfold leb'. rewrite E. reflexivity. Qed.
  Lemma isort_sorted l : sorted (isort l).
  Proof. induction l; simpl. constructor. apply insert_sorted; auto. Qed.

  (** generic: on a list sorted w.r.t. a downward-closed predicate, prefix of length #P = filter P *)
  Lemma split_by (P : K -> bool) l :
    sorted l -> (forall x y, leb x y = true -> P y = true -> P x = true) ->
    firstn (length (filter (fun p => P (fst p)) l)) l = filter (fun p => P (fst p)) l /\
    skipn (length (filter (fun p => P (fst p)) l)) l = filter (fun p => negb (P (fst p))) l.
  Proof.
    intros Hs Hdown. induction Hs as [|q r Hs IH Hall]; simpl; auto.
    destruct (P (fst q)) eqn:E; simpl.
    - destruct IH as [IH1 IH2]. rewrite IH1, IH2. auto.
    - assert (Hnone : filter (fun p => P (fst p)) r = []).
      { clear IH. induction r as [|y r IHr]; simpl; auto.
        inversion Hall as [|? ? Hy Hall']; subst. inversion Hs; subst.
        destruct (P (fst y)) eqn:E2.
        - rewrite (Hdown _ _ Hy E2) in E. discriminate.
        - apply IHr; auto. }
      rewrite Hnone. simpl. split; auto. f_equal.
      clear -Hnone. induction r as [|a r IHr]; simpl in *; auto.
      destruct (P (fst a)); simpl in *. discriminate. f_equal; auto.
  Qed.

  Lemma lt_downward x : forall a b, leb a b = true -> ltb b x = true -> ltb a x = true.
  Proof.
    intros a b Hab Hb. destruct (ltb a x) eqn:E; auto.
    (* a >= x > b >= a *) unfold leb' in Hab. rewrite negb_true_iff in Hab.
    destruct (ltb x a) eqn:E2.
    - rewrite (ltb_trans _ _ _ Hb E2) in Hab. discriminate.
    - assert (a = x) by (apply ltb_total; auto). subst. congruence.
  Qed.
  Lemma le_downward x : forall a b, leb a b = true -> leb b x = true -> leb a x = true.
  Proof. intros a b. apply leb_trans. Qed.

  Lemma sorted_filter (P : K * W -> bool) l : sorted l -> sorted (filter P l).
  Proof.
    induction 1 as [|q r Hs IH Hall]; simpl. constructor.
    destruct (P q); auto. constructor; auto.
    rewrite Forall_forall in *. intros y Hy. apply filter_In in Hy. apply Hall. tauto.
  Qed.

  (** the slice between two "downward-closed" cut points is the filter of the difference *)
  Lemma slice_between (P Q : K -> bool) l :
    sorted l ->
    (forall x y, leb x y = true -> P y = true -> P x = true) ->
    (forall x y, leb x y = true -> Q y = true -> Q x = true) ->
    (forall x, P x = true -> Q x = true) ->
    slice (length (filter (fun p => P (fst p)) l)) (length (filter (fun p => Q (fst p)) l)) l
    = filter (fun p => negb (P (fst p)) && Q (fst p)) l.
  Proof.
    intros Hs HP HQ HPQ. unfold slice.
    destruct (split_by P l Hs HP) as [_ S2]. rewrite S2.
    set (l' := filter (fun p => negb (P (fst p))) l).
    assert (Hs' : sorted l') by (apply sorted_filter; auto).
    destruct (split_by Q l' Hs' HQ) as [T1 _].
    assert (Hcount : (length (filter (fun p => Q (fst p)) l) - length (filter (fun p => P (fst p)) l))%nat
                     = length (filter (fun p => Q (fst p)) l')).
    { unfold l'. clear -HPQ. induction l as [|a l IH]; simpl; auto.
      destruct (P (fst a)) eqn:EP; simpl.
      - rewrite (HPQ _ EP). simpl. exact IH.
      - destruct (Q (fst a)); simpl; auto.
        assert (G : (length (filter (fun p => P (fst p)) l) <= length (filter (fun p => Q (fst p)) l))%nat).
        { clear IH. induction l as [|b l IHl]; simpl; auto. destruct (P (fst b)) eqn:EPb; simpl.
          rewrite (HPQ _ EPb). simpl. lia. destruct (Q (fst b)); simpl; lia. }
        lia. }
    rewrite Hcount, T1. unfold l'. clear. induction l as [|a l IH]; simpl; auto.
    destruct (P (fst a)); simpl; auto. destruct (Q (fst a)); simpl; rewrite IH; auto.
  Qed.
End Sweep.
