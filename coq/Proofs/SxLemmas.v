(** decoders invert encoders *)
From Physt Require Import Sx Hist.

Lemma mapM_map {A} (d : sx -> option A) (e : A -> sx) :
  (forall a, d (e a) = Some a) -> forall l, mapM d (map e l) = Some l.
Proof. intros H. induction l as [|a l IH]; simpl; auto. rewrite H. simpl. rewrite IH. reflexivity. Qed.

Lemma d_q_QQ q : d_q (QQ q) = Some q. Proof. reflexivity. Qed.
Lemma d_x_e_x x : d_x (e_x x) = Some x. Proof. destruct x; reflexivity. Qed.
Lemma d_qs_e_qs l : d_list d_q (e_qs l) = Some l.
Proof. unfold e_qs, e_list, d_list. apply mapM_map. exact d_q_QQ. Qed.
Lemma d_xs_e_xs l : d_list d_x (e_list e_x l) = Some l.
Proof. unfold e_list, d_list. apply mapM_map. exact d_x_e_x. Qed.
Lemma d_bin_e_bin b : d_bin (e_bin b) = Some b.
Proof. destruct b; reflexivity. Qed.
Lemma d_bins_e_bins l : d_bins (e_bins l) = Some l.
Proof. unfold d_bins, e_bins, e_list, d_list. apply mapM_map. exact d_bin_e_bin. Qed.
Lemma d_binss_e_binss l : d_list d_bins (e_list e_bins l) = Some l.
Proof. unfold e_list, d_list. apply mapM_map. exact d_bins_e_bins. Qed.
Lemma d_bool_e_bool b : d_bool (e_bool b) = Some b. Proof. destruct b; reflexivity. Qed.
