From Physt Require Import Atomic OrderQc DtypeProofs FillOrder.

Lemma dcoerce_keeps h d :
  y_freq (dcoerce h d) = y_freq h /\ y_err2 (dcoerce h d) = y_err2 h /\ y_missed (dcoerce h d) = y_missed h /\ y_axes (dcoerce h d) = y_axes h.
Proof. unfold dcoerce. destruct (dt_eqb _ _); cbn; auto. Qed.

(** * a call that raises leaves every content, squared error, missed counter and bin where it was
      (at most the dtype has been promoted) *)
Theorem failure_atomic h o h' : dstep h o = (h', true) ->
  y_freq h' = y_freq h /\ y_err2 h' = y_err2 h /\ y_missed h' = y_missed h /\ y_axes h' = y_axes h.
Proof.
  destruct o; cbn [dstep]; intros H.
  - destruct (kind_dt k); inversion H; subst; auto.
  - inversion H.
  - repeat match type of H with
           | (if ?c then _ else _) = _ => destruct c
           | (match ?x with _ => _ end) = _ => destruct x
           | (let '_ := ?x in _) = _ => destruct x
           end; inversion H; subst; auto; apply dcoerce_keeps.
  - repeat match type of H with (if ?c then _ else _) = _ => destruct c end; inversion H; subst; auto.
  - destruct (kind_dt k); [|inversion H; subst; auto].
    destruct (Qcltb c 0); [inversion H; subst; auto|].
    destruct (negb (nonneg _)); inversion H; subst. apply dcoerce_keeps.
  - destruct (kind_dt k); [|inversion H; subst; auto].
    destruct (Qcltb c 0); [inversion H; subst; auto|].
    destruct (negb (nonneg _)); inversion H; subst. apply dcoerce_keeps.
  - inversion H.
  - destruct (bins_apply_map _ _); inversion H; subst; auto.
  - destruct (set_dtype h t); inversion H; subst; auto.
Qed.

(** the whole history: whatever calls fail, the state they leave is the state they found *)
Theorem failures_change_nothing : forall ops h,
  Forall (fun p => snd (snd p) = true ->
                   y_freq (fst (snd p)) = y_freq (fst p) /\ y_err2 (fst (snd p)) = y_err2 (fst p) /\ y_missed (fst (snd p)) = y_missed (fst p))
         (combine ((fix pre (h : dh) (ops : list dop) := match ops with [] => [] | o :: r => h :: pre (fst (dstep h o)) r end) h ops)
                  (drun h ops)).
Proof.
  induction ops as [|o ops IH]; intros h; cbn [combine drun]. constructor.
  constructor.
  - cbn [fst snd]. intros Hr. destruct (dstep h o) as [h' r] eqn:E. cbn [fst snd] in *. subst r.
    destruct (failure_atomic h o h' E) as [A [B [C _]]]. auto.
  - apply IH.
Qed.

(** * sign invariants are kept by every accepted arithmetic call *)
Lemma nonneg_vadd a b : nonneg a = true -> nonneg b = true -> nonneg (vadd a b) = true.
Proof.
  unfold nonneg, vadd. revert b. induction a as [|x a IH]; intros [|y b] Ha Hb; simpl in *; auto.
  apply andb_true_iff in Ha. apply andb_true_iff in Hb. destruct Ha as [A1 A2], Hb as [B1 B2].
  rewrite IH by auto. apply Qcleb_le in A1, B1. replace (Qcleb 0 (x + y)) with true; auto.
  symmetry. apply Qcleb_le. qc2q; lra.
Qed.

Theorem accepted_arithmetic_keeps_signs h o h' :
  nonneg (y_freq h) = true -> nonneg (y_err2 h) = true ->
  match o with
  | DAdd x | DSub x => nonneg (y_freq x) = true /\ nonneg (y_err2 x) = true /\ same_axes h x = true
  | DMul _ _ | DDiv _ _ => True
  | _ => False end ->
  dstep h o = (h', false) -> nonneg (y_freq h') = true.
Proof.
  intros Hf He Ho H. destruct o; try contradiction; cbn [dstep] in H.
  - destruct Ho as [O1 [O2 O3]]. rewrite O3 in H. cbn [negb] in H.
    destruct (negb (Nat.eqb _ _)); [inversion H|]. inversion H; subst. cbn [y_freq].
    apply nonneg_vadd; auto. destruct (dcoerce_keeps h (y_dt o)) as [A _]. rewrite A. exact Hf.
  - destruct Ho as [O1 [O2 O3]]. rewrite O3 in H. cbn [negb] in H.
    destruct (negb (nonneg _)) eqn:E; [inversion H|]. inversion H; subst. cbn [y_freq]. apply negb_false_iff in E. exact E.
  - destruct (kind_dt k); [|inversion H]. destruct (Qcltb c 0); [inversion H|]. destruct (negb (nonneg _)) eqn:E; [inversion H|]. inversion H; subst. cbn [y_freq].
    apply negb_false_iff in E. exact E.
  - destruct (kind_dt k); [|inversion H]. destruct (Qcltb c 0); [inversion H|]. destruct (negb (nonneg _)) eqn:E; [inversion H|]. inversion H; subst. cbn [y_freq].
    apply negb_false_iff in E. exact E.
Qed.

(** the observation predicate itself: keeping contents per interval is reflexive (a refused call that changes nothing passes) *)
Lemma iv_eqb_refl iv : iv_eqb iv iv = true.
Proof. unfold iv_eqb. induction iv as [|b r IH]; simpl; auto. rewrite !Qceqb_refl, IH. reflexivity. Qed.
