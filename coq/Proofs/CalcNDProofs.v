From Physt Require Import Fill OrderQc FindProofs IndexProofs SxLemmas.

Lemma mapM_ext_in {A B} (f g : A -> option B) l : (forall a, In a l -> f a = g a) -> mapM f l = mapM g l.
Proof.
  induction l as [|a l IH]; intros H; simpl; auto.
  rewrite (H a (or_introl eq_refl)). destruct (g a); simpl; auto.
  rewrite IH; auto. intros a' Ha'. apply H. right; auto.
Qed.

Definition axes_ok (axes : list (list bin * bool)) : Prop :=
  Forall (fun a => risingb (fst a) = true /\ fst a <> []) axes.

Lemma row_cell_coded_spec axes row : axes_ok axes ->
  row_cell axis_index_coded axes row = row_cell axis_index_spec axes row.
Proof.
  intros H. unfold row_cell. apply mapM_ext_in. intros [[bins incl] x] Hin. cbn [fst snd].
  apply in_combine_l in Hin. unfold axes_ok in H. rewrite Forall_forall in H.
  destruct (H _ Hin) as [H1 H2]. apply axis_index_coded_is_spec; auto.
Qed.

Lemma cells_coded_spec axes rows f : axes_ok axes ->
  cells axis_index_coded axes rows f = cells axis_index_spec axes rows f.
Proof.
  intros H. unfold cells. f_equal.
  replace (map (fun r => (row_cell axis_index_coded axes (fst r), f (snd r))) rows)
    with (map (fun r => (row_cell axis_index_spec axes (fst r), f (snd r))) rows); auto.
  apply map_ext. intros r. rewrite row_cell_coded_spec; auto.
Qed.

Theorem calc_nd_coded_is_spec axes rows : axes_ok axes ->
  calc_nd axis_index_coded axes rows = calc_nd axis_index_spec axes rows.
Proof. intros H. unfold calc_nd. rewrite !cells_coded_spec; auto. Qed.

Lemma invalid_nd_axes_ok c : invalid_nd c = false -> axes_ok (b_axes c).
Proof.
  unfold invalid_nd. intros H.
  repeat (apply orb_false_iff in H; destruct H as [H ?]).
  match goal with H1 : existsb _ (b_axes c) = false |- _ => rename H1 into Hax end.
  unfold axes_ok. rewrite Forall_forall. intros a Ha.
  assert (G : (negb (risingb (fst a)) || Nat.eqb (length (fst a)) 0) = false).
  { destruct (negb (risingb (fst a)) || Nat.eqb (length (fst a)) 0) eqn:E; auto.
    assert (existsb (fun a0 => negb (risingb (fst a0)) || Nat.eqb (length (fst a0)) 0) (b_axes c) = true).
    { apply existsb_exists. exists a. auto. }
    congruence. }
  apply orb_false_iff in G. destruct G as [G1 G2]. apply negb_false_iff in G1. split; auto.
  intros E. rewrite E in G2. discriminate.
Qed.

(** Refinement for N-D construction: the checker accepts the algorithm as coded, for every case *)
Theorem check_nd_accepts_run c :
  check_nd c (match run_nd c with Some r => e_resN r | None => LL [SS "refused"] end) = true.
Proof.
  unfold run_nd. destruct (invalid_nd c) eqn:Einv.
  - simpl. exact Einv.
  - unfold e_resN, check_nd. rewrite Einv. cbn [negb andb].
    rewrite !d_qs_e_qs. cbn [d_q].
    unfold spec_nd. rewrite (calc_nd_coded_is_spec _ _ (invalid_nd_axes_ok c Einv)).
    rewrite !closel0_refl, !Qceqb_refl. cbn [andb].
    apply Qceqb_eq. unfold calc_nd. cbn [n_freq n_missed]. ring.
Qed.
