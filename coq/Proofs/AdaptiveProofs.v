(** C04: _force_bin_existence_single in exact arithmetic puts the value inside the bins; grid and old range are kept. *)
From Physt Require Import Adaptive OrderQc.
From Coq Require Import Qround.
Lemma qz_this z : this (qz z) == inject_Z z.
Proof. unfold qz, Q2Qc. cbn [this]. apply Qred_correct. Qed.
Lemma one_this : this 1%Qc == 1%Q. Proof. reflexivity. Qed.
Lemma floor_spec q : qz (qfloor q) <= q /\ q < qz (qfloor q) + 1.
Proof.
  unfold qfloor. split.
  - unfold Qcle. rewrite qz_this. apply Qfloor_le.
  - unfold Qclt, Qcplus, Q2Qc. cbn [this]. rewrite Qred_correct, qz_this.
    pose proof (Qlt_floor (this q)) as H. rewrite inject_Z_plus in H. exact H.
Qed.
Lemma ceil_spec q : q <= qz (qceil q) /\ qz (qceil q) < q + 1.
Proof.
  unfold qceil. split.
  - unfold Qcle. rewrite qz_this. apply Qle_ceiling.
  - unfold Qclt, Qcplus, Q2Qc. cbn [this]. rewrite Qred_correct, qz_this.
    pose proof (Qceiling_lt (this q)) as H.
    replace (Qceiling (this q) - 1)%Z with (Qceiling (this q) + - 1)%Z in H by lia.
    rewrite inject_Z_plus in H. change (inject_Z (-1)) with (-1)%Q in H. change (Qred 1) with 1%Q. lra.
Qed.
Lemma qz_add a b : qz (a + b) = qz a + qz b.
Proof. apply Qc_is_canon. unfold Qcplus, Q2Qc. cbn [this]. rewrite !Qred_correct, !qz_this, inject_Z_plus. reflexivity. Qed.
Lemma qz_opp a : qz (- a) = - qz a.
Proof. apply Qc_is_canon. unfold Qcopp, Q2Qc. cbn [this]. rewrite !Qred_correct, !qz_this, inject_Z_opp. reflexivity. Qed.
Lemma qz_0 : qz 0 = 0. Proof. apply Qc_is_canon. reflexivity. Qed.
Lemma qz_1 : qz 1 = 1. Proof. apply Qc_is_canon. reflexivity. Qed.
Lemma qz_le a b : (a <= b)%Z -> qz a <= qz b.
Proof. intros H. unfold Qcle. rewrite !qz_this. rewrite <- Zle_Qle. exact H. Qed.
Lemma ceil_nonneg q : 0 <= q -> (0 <= qceil q)%Z.
Proof.
  intros H. destruct (ceil_spec q) as [H2 _].
  destruct (Z_lt_le_dec (qceil q) 0) as [L|L]; auto. exfalso.
  assert (H0 : qz (qceil q) <= qz (-1)) by (apply qz_le; lia).
  replace (-1)%Z with (- (1))%Z in H0 by lia. rewrite qz_opp, qz_1 in H0. qc2q; lra.
Qed.
Lemma pos_neq0' (w : Qc) : 0 < w -> w <> 0.
Proof. intros H E. subst. apply Qcltb_lt in H. rewrite Qcltb_irrefl in H. discriminate. Qed.
Lemma div_nonneg (x w : Qc) : 0 <= x -> 0 < w -> 0 <= x / w.
Proof.
  intros Hx Hw. destruct (Qclt_le_dec (x / w) 0) as [L|L]; auto. exfalso.
  assert (D : x / w * w = x) by (field; apply pos_neq0'; exact Hw).
  assert (G : x / w * w < 0) by (qc2q; nra). rewrite D in G. qc2q; lra.
Qed.

Lemma mul_le_pos (a x w : Qc) : a <= x -> 0 < w -> a * w <= x * w.
Proof. intros. qc2q. nra. Qed.
Lemma mul_lt_pos (a x w : Qc) : a < x -> 0 < w -> a * w < x * w.
Proof. intros. qc2q. nra. Qed.

Lemma edge_succ b i : fw_edge b (S i) = fw_edge b i + f_w b.
Proof. unfold fw_edge. rewrite Nat2Z.inj_succ. replace (f_tmin b + Z.succ (Z.of_nat i))%Z with ((f_tmin b + Z.of_nat i) + 1)%Z by lia.
  rewrite qz_add, qz_1. ring. Qed.

Lemma edge0 b : fw_edge b 0 = qz (f_tmin b) * f_w b + f_shift b.
Proof. unfold fw_edge. rewrite Z.add_0_r. reflexivity. Qed.
Lemma edge_n b n : fw_edge b n = fw_edge b 0 + qz (Z.of_nat n) * f_w b.
Proof. unfold fw_edge. rewrite Z.add_0_r, qz_add. ring. Qed.

(* closed arithmetic facts, proved in a clean context *)
Lemma ar1 (a s v : Qc) : a <= v - s -> a + s <= v. Proof. intros. qc2q. lra. Qed.
Lemma ar2 (a w s v : Qc) : v - s < (a + 1) * w -> v < a * w + s + 1 * w. Proof. intros. qc2q. nra. Qed.
Lemma ar3 (a v : Qc) : a + (v - a) <= v. Proof. qc2q. lra. Qed.
Lemma ar4 (a v w : Qc) : 0 < w -> v < a + (v - a) + 1 * w. Proof. intros. qc2q. lra. Qed.
Lemma ar5 (f v al w s c : Qc) : f - v <= al * w -> v < f -> 0 <= c -> 0 < w -> f = s ->
  (s + - al * w <= v) /\ v < s + - al * w + (c + al) * w.
Proof. intros. subst. split; qc2q; nra. Qed.
Lemma ar6 (l v w : Qc) : l = v -> 0 < w -> v < l + w. Proof. intros. subst. qc2q. lra. Qed.
Lemma ar7 (l v x : Qc) : v - l <= x -> l + x <> v -> v < l + x.
Proof. intros H Hne. destruct (Qcle_lt_or_eq _ _ H) as [Hlt|Heq]. qc2q; lra. exfalso. apply Hne. rewrite <- Heq. ring. Qed.

Theorem force_single_covers b v : 0 < f_w b ->
  let b' := fst (force_single b v false) in
  (1 <= f_count b')%nat /\ fw_edge b' 0 <= v /\ v < fw_edge b' (f_count b') /\ f_w b' = f_w b.
Proof.
  intros Hw. unfold force_single.
  pose proof (pos_neq0' _ Hw) as Hw0.
  destruct (Nat.eqb (f_count b) 0) eqn:E0.
  - cbn [fst f_count f_w]. split; [lia|].
    destruct (floor_spec ((v - f_shift b) / f_w b)) as [F1 F2].
    set (t := qfloor ((v - f_shift b) / f_w b)) in *.
    rewrite (edge_n _ 1%nat), !edge0. cbn [f_tmin f_w f_shift]. change (Z.of_nat 1) with 1%Z. rewrite qz_1.
    assert (D : (v - f_shift b) / f_w b * f_w b = v - f_shift b) by (field; exact Hw0).
    pose proof (mul_le_pos _ _ _ F1 Hw) as G1. pose proof (mul_lt_pos _ _ _ F2 Hw) as G2.
    rewrite D in G1, G2.
    destruct (f_align b); repeat split; auto.
    + apply ar1; exact G1.
    + apply ar2; exact G2.
    + apply ar3.
    + apply ar4; exact Hw.
  - apply Nat.eqb_neq in E0.
    destruct (Qcltb v (fw_edge b 0)) eqn:E1.
    + apply Qcltb_lt in E1. cbn [fst].
      assert (Hd : 0 <= (fw_edge b 0 - v) / f_w b).
      { apply div_nonneg; auto. assert (A : forall x y : Qc, x < y -> 0 <= y - x) by (intros; qc2q; lra). apply A; exact E1. }
      destruct (ceil_spec ((fw_edge b 0 - v) / f_w b)) as [C1 C2].
      pose proof (ceil_nonneg _ Hd) as Cn.
      set (al := qceil ((fw_edge b 0 - v) / f_w b)) in *.
      cbn [f_count f_w]. split; [lia|].
      assert (D : (fw_edge b 0 - v) / f_w b * f_w b = fw_edge b 0 - v) by (field; exact Hw0).
      pose proof (mul_le_pos _ _ _ C1 Hw) as G. rewrite D in G.
      rewrite (edge_n _ (f_count b + Z.to_nat al)). rewrite !edge0. cbn [f_tmin f_w f_shift].
      rewrite Z2Nat.id by exact Cn. replace (f_tmin b - al)%Z with (f_tmin b + - al)%Z by lia.
      rewrite Nat2Z.inj_add, Z2Nat.id by exact Cn. rewrite !qz_add, qz_opp.
      assert (Hc : 0 <= qz (Z.of_nat (f_count b))) by (rewrite <- qz_0; apply qz_le; lia).
      destruct (ar5 (fw_edge b 0) v (qz al) (f_w b) (qz (f_tmin b) * f_w b + f_shift b) (qz (Z.of_nat (f_count b))) G E1 Hc Hw (edge0 b)) as [R1 R2].
      split; [|split; [|reflexivity]].
      * replace ((qz (f_tmin b) + - qz al) * f_w b + f_shift b) with (qz (f_tmin b) * f_w b + f_shift b + - qz al * f_w b) by ring. exact R1.
      * replace ((qz (f_tmin b) + - qz al) * f_w b + f_shift b + (qz (Z.of_nat (f_count b)) + qz al) * f_w b)
          with (qz (f_tmin b) * f_w b + f_shift b + - qz al * f_w b + (qz (Z.of_nat (f_count b)) + qz al) * f_w b) by ring. exact R2.
    + apply Qcltb_ge in E1.
      destruct (Qcleb (fw_edge b (f_count b)) v) eqn:E2.
      * apply Qcleb_le in E2.
        assert (Hd : 0 <= (v - fw_edge b (f_count b)) / f_w b).
        { apply div_nonneg; auto. assert (A : forall x y : Qc, x <= y -> 0 <= y - x) by (intros; qc2q; lra). apply A; exact E2. }
        destruct (ceil_spec ((v - fw_edge b (f_count b)) / f_w b)) as [C1 C2].
        pose proof (ceil_nonneg _ Hd) as Cn.
        set (ar := qceil ((v - fw_edge b (f_count b)) / f_w b)) in *.
        assert (D : (v - fw_edge b (f_count b)) / f_w b * f_w b = v - fw_edge b (f_count b)) by (field; exact Hw0).
        pose proof (mul_le_pos _ _ _ C1 Hw) as G. rewrite D in G.
        set (b1 := mkFw (f_w b) (f_shift b) (f_tmin b) (f_count b + Z.to_nat ar) (f_align b)).
        assert (L1 : fw_edge b1 (f_count b1) = fw_edge b (f_count b) + qz ar * f_w b).
        { unfold b1. cbn [f_count]. rewrite (edge_n _ (f_count b + Z.to_nat ar)), (edge_n b (f_count b)), !edge0. cbn [f_tmin f_w f_shift].
          rewrite Nat2Z.inj_add, Z2Nat.id by exact Cn. rewrite qz_add. ring. }
        cbn [negb]. rewrite andb_true_r.
        destruct (Qceqb (fw_edge b1 (f_count b1)) v) eqn:E3; cbn [fst].
        -- apply Qceqb_eq in E3. cbn [f_count f_w]. split; [lia|]. split; [exact E1|]. split; [|reflexivity].
           change (fw_edge (mkFw (f_w b) (f_shift b) (f_tmin b) (S (f_count b1)) (f_align b)) (S (f_count b1)))
             with (fw_edge b1 (S (f_count b1))).
           rewrite edge_succ. unfold b1 at 2. cbn [f_w]. apply ar6; auto.
        -- split; [unfold b1; cbn [f_count]; lia|]. split; [exact E1|]. split; [|reflexivity].
           rewrite L1. apply ar7; auto. intros Heq. rewrite <- L1 in Heq. rewrite Heq, Qceqb_refl in E3. discriminate.
      * apply Qcleb_gt in E2. cbn [fst]. repeat split; auto. lia.
Qed.

(** the bins stay on the same grid, only grow, and the bin map says where the old contents go *)
Theorem force_single_grid b v incl : (0 < f_count b)%nat ->
  let '(b', m) := force_single b v incl in
  f_w b' = f_w b /\ f_shift b' = f_shift b /\ (f_tmin b' <= f_tmin b)%Z /\
  (f_tmin b + Z.of_nat (f_count b) <= f_tmin b' + Z.of_nat (f_count b'))%Z /\
  match m with
  | BNone => b' = b
  | BShift s => Z.of_nat s = (f_tmin b - f_tmin b')%Z
  | BEmpty => False end.
Proof.
  intros Hc. unfold force_single. replace (Nat.eqb (f_count b) 0) with false by (symmetry; apply Nat.eqb_neq; lia).
  destruct (Qcltb v (fw_edge b 0)).
  - generalize (Z.to_nat (qceil ((fw_edge b 0 - v) / f_w b))). intros al.
    cbn [f_w f_shift f_tmin f_count].
    split; [reflexivity|]. split; [reflexivity|]. split; [lia|]. split; [lia|].
    destruct (Nat.eqb_spec al 0) as [E|E].
    + subst al. destruct b; cbn. f_equal; lia.
    + lia.
  - destruct (Qcleb (fw_edge b (f_count b)) v).
    + generalize (Z.to_nat (qceil ((v - fw_edge b (f_count b)) / f_w b))). intros ar.
      match goal with |- context [Qceqb ?x v && negb incl] => generalize (Qceqb x v && negb incl) end. intros ex.
      destruct ex; cbn [f_w f_shift f_tmin f_count].
      * split; [reflexivity|]. split; [reflexivity|]. split; [lia|]. split; [lia|]. rewrite andb_false_r. lia.
      * split; [reflexivity|]. split; [reflexivity|]. split; [lia|]. split; [lia|].
        destruct (Nat.eqb_spec ar 0) as [E|E]; cbn [andb negb].
        -- subst ar. destruct b; cbn. f_equal; lia.
        -- lia.
    + split; [reflexivity|]. split; [reflexivity|]. split; [lia|]. split; [lia|]. reflexivity.
Qed.

(** growth never uncovers a value that was covered *)
Theorem range_monotone b b' v : f_w b' = f_w b -> f_shift b' = f_shift b -> 0 < f_w b ->
  (f_tmin b' <= f_tmin b)%Z -> (f_tmin b + Z.of_nat (f_count b) <= f_tmin b' + Z.of_nat (f_count b'))%Z ->
  fw_edge b 0 <= v -> v < fw_edge b (f_count b) ->
  fw_edge b' 0 <= v /\ v < fw_edge b' (f_count b').
Proof.
  intros Ew Es Hw H1 H2 L R. unfold fw_edge in *. rewrite Ew, Es. rewrite Z.add_0_r in *.
  assert (A : qz (f_tmin b') <= qz (f_tmin b)) by (apply qz_le; exact H1).
  assert (B : qz (f_tmin b + Z.of_nat (f_count b)) <= qz (f_tmin b' + Z.of_nat (f_count b'))) by (apply qz_le; exact H2).
  pose proof (mul_le_pos _ _ _ A Hw) as A'. pose proof (mul_le_pos _ _ _ B Hw) as B'.
  assert (C : forall a b0 c s x : Qc, a <= b0 -> b0 + s <= x -> a + s <= x) by (intros; qc2q; lra).
  assert (D : forall a b0 s x : Qc, x < a + s -> a <= b0 -> x < b0 + s) by (intros; qc2q; lra).
  split; [apply (C _ _ 0 _ _ A' L)|apply (D _ _ _ _ R B')].
Qed.
