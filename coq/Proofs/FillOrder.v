(** Order- and chunk-independence of filling (specification level): every operation adds a vector
    that depends on the bins and the operation only, never on the contents already recorded. *)
From Physt Require Import Fill OrderQc ArrLemmas FillProofs.
From Coq Require Import Permutation.

Definition zeros (n : nat) : list Qc := repeat 0 n.
Definition unit (n i : nat) (w : Qc) : list Qc := map (fun k => if Nat.eqb k i then w else 0) (seq 0 n).

Lemma vadd_comm a b : vadd a b = vadd b a.
Proof. unfold vadd. revert b. induction a as [|x a IH]; destruct b as [|y b]; simpl; auto. rewrite IH. f_equal. ring. Qed.
Lemma vadd_assoc a : forall b c, vadd (vadd a b) c = vadd a (vadd b c).
Proof. unfold vadd. induction a as [|x a IH]; intros [|y b] [|z c]; simpl; auto. rewrite IH. f_equal. ring. Qed.
Lemma vadd_swap a b c : vadd (vadd a b) c = vadd (vadd a c) b.
Proof. rewrite !vadd_assoc. f_equal. apply vadd_comm. Qed.
Lemma vadd_length a b : length a = length b -> length (vadd a b) = length a.
Proof. unfold vadd. rewrite map_length, combine_length. lia. Qed.
Lemma vadd_zero_map {A} a (l : list A) : (length a <= length l)%nat -> vadd a (map (fun _ => 0) l) = a.
Proof.
  unfold vadd. revert l. induction a as [|x a IH]; intros l H; simpl; auto.
  destruct l as [|y l]; simpl in *; [lia|]. rewrite IH by lia. f_equal. ring.
Qed.
Lemma zeros_as_map n : zeros n = map (fun _ => 0) (seq 0 n).
Proof. unfold zeros. generalize 0%nat. induction n as [|n IH]; intros s; simpl; auto. f_equal. apply IH. Qed.
Lemma vadd_zeros a n : (length a <= n)%nat -> vadd a (zeros n) = a.
Proof. intros H. rewrite zeros_as_map. apply vadd_zero_map. rewrite seq_length. exact H. Qed.
Lemma unit_length n i w : length (unit n i w) = n.
Proof. unfold unit. rewrite map_length, seq_length. reflexivity. Qed.
Lemma zeros_length n : length (zeros n) = n.
Proof. apply repeat_length. Qed.

Lemma add_at_vadd_gen w : forall l i s,
  add_at i w l = vadd l (map (fun k => if Nat.eqb k (s + i) then w else 0) (seq s (length l))).
Proof.
  induction l as [|x l IH]; intros i s.
  - destruct i; reflexivity.
  - destruct i as [|i'].
    + cbn [add_at length seq map]. unfold vadd. cbn [combine map fst snd].
      replace (Nat.eqb s (s + 0)) with true by (symmetry; apply Nat.eqb_eq; lia). f_equal.
      change (l = vadd l (map (fun k => if Nat.eqb k (s + 0) then w else 0) (seq (S s) (length l)))).
      rewrite (map_ext_in _ (fun _ => 0)).
      * symmetry. apply vadd_zero_map. rewrite seq_length. lia.
      * intros k Hk. apply in_seq in Hk. replace (Nat.eqb k (s + 0)) with false by (symmetry; apply Nat.eqb_neq; lia). reflexivity.
    + cbn [add_at length seq map]. unfold vadd. cbn [combine map fst snd].
      replace (Nat.eqb s (s + S i')) with false by (symmetry; apply Nat.eqb_neq; lia). f_equal. ring.
      change (add_at i' w l = vadd l (map (fun k => if Nat.eqb k (s + S i') then w else 0) (seq (S s) (length l)))).
      rewrite (IH i' (S s)). f_equal. apply map_ext. intros k. replace (S s + i')%nat with (s + S i')%nat by lia. reflexivity.
Qed.
Lemma add_at_vadd i w l : add_at i w l = vadd l (unit (length l) i w).
Proof. unfold unit. apply (add_at_vadd_gen w l i 0). Qed.

(** the vector an operation adds to the contents ([sq] = false) or to the squared errors ([sq] = true) *)
Definition dvec (sq : bool) (s : fstate) (o : fop) : list Qc :=
  let n := size (s_shape s) in
  let f := fun w : Qc => if sq then w * w else w in
  match o with
  | Fill v w =>
      if negb (Nat.eqb (length v) (length (s_axes s))) then zeros n else
      if existsb is_nan v then zeros n else
      if is1d s then
        match find_axis_spec (fst (nth 0 (s_axes s) ([], true))) true (hd NaN v) with
        | FIn i => unit n i (f w) | _ => zeros n end
      else match find_nd find_axis_spec s v with
           | Some idx => unit n (flat_pos (s_shape s) idx) (f w) | None => zeros n end
  | FillN rows ws wok =>
      if (match ws with Some _ => negb wok | None => false end)
         || existsb (fun r => negb (Nat.eqb (length r) (length (s_axes s)))) rows then zeros n else
      if is1d s then
        map (fun p : Qc * Qc => if sq then snd p else fst p)
            (spec_bins1 (pairs_1d rows ws) (fst (nth 0 (s_axes s) ([], true))))
      else cells axis_index_spec (s_axes s) (rows_of rows ws) f
  end.

Definition wf_len (s : fstate) : Prop :=
  length (s_freq s) = size (s_shape s) /\ length (s_err2 s) = size (s_shape s).

Lemma spec_bins1_length ps bins : length (spec_bins1 ps bins) = length bins.
Proof. induction bins as [|b r IH]; simpl; auto. Qed.

Lemma size_1d s : is1d s = true -> size (s_shape s) = length (fst (nth 0 (s_axes s) ([], true))).
Proof.
  unfold is1d, s_shape. destruct (s_axes s) as [|a [|a' r]]; try discriminate. intros _. simpl. lia.
Qed.

Lemma cells_length idx axes rows f : length (cells idx axes rows f) = size (map (fun a : list bin * bool => length (fst a)) axes).
Proof. unfold cells. rewrite tabulate_length, indices_length. reflexivity. Qed.

Lemma spec_bins1_nil bins : spec_bins1 [] bins = map (fun _ => (0, 0)) bins.
Proof. induction bins as [|b r IH]; simpl; auto. rewrite IH. reflexivity. Qed.
Lemma cells_nil idx axes f : cells idx axes [] f = map (fun _ => 0) (indices (map (fun a : list bin * bool => length (fst a)) axes)).
Proof. unfold cells, tabulate. reflexivity. Qed.

Lemma calc1_spec_fst ps bins : fst (fst (calc1_spec ps bins)) = spec_bins1 ps bins.
Proof. unfold calc1_spec. destruct (consecutive_tol bins); reflexivity. Qed.

(** every specification step adds [dvec]; lengths are preserved *)
Theorem step_adds s o : wf_len s ->
  let s' := fst (step_spec s o) in
  s_freq s' = vadd (s_freq s) (dvec false s o) /\ s_err2 s' = vadd (s_err2 s) (dvec true s o) /\
  s_axes s' = s_axes s /\ wf_len s'.
Proof.
  intros [Hf He]. unfold step_spec, step, dvec. cbv zeta.
  assert (Z1 : forall l, length l = size (s_shape s) -> l = vadd l (zeros (size (s_shape s)))).
  { intros l Hl. symmetry. apply vadd_zeros. lia. }
  assert (LEN : forall i x l, length l = size (s_shape s) -> length (add_at i x l) = size (s_shape s)).
  { intros i x l Hl. rewrite add_at_vadd, vadd_length; rewrite ?unit_length; auto. }
  destruct o as [v w|rows ws wok].
  - destruct (negb (Nat.eqb (length v) (length (s_axes s)))); [cbn [fst]; repeat split; auto|].
    cbn [andb]. destruct (existsb is_nan v); [cbn [fst]; repeat split; auto|].
    destruct (is1d s) eqn:E1.
    + unfold fill_1d. destruct (find_axis_spec _ true (hd NaN v)); cbn [fst s_freq s_err2 s_axes]; repeat split; auto;
        try (rewrite add_at_vadd; congruence);
        try (unfold s_shape; cbn [s_freq s_err2 s_axes]; fold (s_shape s); auto).
    + unfold fill_nd. destruct (find_nd find_axis_spec s v); cbn [fst s_freq s_err2 s_axes]; repeat split; auto;
        try (rewrite add_at_vadd; congruence);
        try (unfold s_shape; cbn [s_freq s_err2 s_axes]; fold (s_shape s); auto).
  - destruct (_ || _); [cbn [fst]; repeat split; auto|].
    destruct (is1d s) eqn:E1.
    + destruct (pairs_1d rows ws) as [|p0 ps0] eqn:Ep.
      * cbn [fst]. rewrite spec_bins1_nil, !map_map. repeat split; auto;
          symmetry; apply vadd_zero_map; rewrite <- (size_1d s E1); lia.
      * rewrite <- Ep.
        destruct (calc1_spec (pairs_1d rows ws) (fst (nth 0 (s_axes s) ([], true)))) as [[fe u] o'] eqn:Ec.
        pose proof (calc1_spec_fst (pairs_1d rows ws) (fst (nth 0 (s_axes s) ([], true)))) as Hfe. rewrite Ec in Hfe. cbn [fst] in Hfe. subst fe.
        cbn [fst s_freq s_err2 s_axes]. repeat split; auto;
        unfold s_shape; cbn [s_freq s_err2 s_axes]; fold (s_shape s);
        rewrite vadd_length; rewrite ?map_length, ?spec_bins1_length, <- ?(size_1d s E1); auto.
    + destruct (rows_of rows ws) as [|r0 rs0] eqn:Er.
      * cbn [fst]. rewrite !cells_nil. repeat split; auto;
          symmetry; apply vadd_zero_map; rewrite indices_length; unfold s_shape in *; lia.
      * rewrite <- Er. cbn [fst s_freq s_err2 s_axes]. repeat split; auto;
        unfold s_shape; cbn [s_freq s_err2 s_axes]; fold (s_shape s);
        unfold calc_nd; cbn [n_freq n_err2]; rewrite vadd_length; rewrite ?cells_length; auto.
Qed.

Lemma dvec_axes sq s s' o : s_axes s = s_axes s' -> dvec sq s o = dvec sq s' o.
Proof. intros E. unfold dvec, is1d, s_shape, find_nd. rewrite E. reflexivity. Qed.

Theorem final_is_sum : forall ops s, wf_len s ->
  let t := final_state step_spec s ops in
  s_freq t = fold_left vadd (map (dvec false s) ops) (s_freq s) /\
  s_err2 t = fold_left vadd (map (dvec true s) ops) (s_err2 s) /\ s_axes t = s_axes s.
Proof.
  induction ops as [|o ops IH]; intros s Hw; cbn [final_state fold_left map]; auto.
  destruct (step_adds s o Hw) as [A1 [A2 [A3 A4]]].
  destruct (IH _ A4) as [B1 [B2 B3]]. unfold final_state in *.
  rewrite B1, B2, B3, A1, A2, A3. repeat split; auto.
  - f_equal. apply map_ext. intros o'. apply dvec_axes. exact A3.
  - f_equal. apply map_ext. intros o'. apply dvec_axes. exact A3.
Qed.

Lemma fold_vadd_perm l l' : Permutation l l' -> forall a, fold_left vadd l a = fold_left vadd l' a.
Proof.
  induction 1 as [|x l l' _ IH|x y l|l l' l'' _ IH1 _ IH2]; intros a; cbn [fold_left]; auto.
  - rewrite vadd_swap. reflexivity.
  - rewrite IH1. apply IH2.
Qed.

(** ** any order of the same calls leaves the same contents and squared errors *)
Theorem fill_order_irrelevant ops ops' s : wf_len s -> Permutation ops ops' ->
  s_freq (final_state step_spec s ops) = s_freq (final_state step_spec s ops') /\
  s_err2 (final_state step_spec s ops) = s_err2 (final_state step_spec s ops').
Proof.
  intros Hw Hp.
  destruct (final_is_sum ops s Hw) as [A1 [A2 _]]. destruct (final_is_sum ops' s Hw) as [B1 [B2 _]].
  rewrite A1, A2, B1, B2. split; apply fold_vadd_perm; apply Permutation_map; exact Hp.
Qed.

(** ** chunking: a batch split into two batches adds the same vector *)
Lemma filter_app_sum {A} (f : A -> Qc) (P : A -> bool) l m :
  sumq (map f (filter P (l ++ m))) = sumq (map f (filter P l)) + sumq (map f (filter P m)).
Proof. rewrite filter_app, map_app. apply sumq_app. Qed.

Lemma cells_app idx axes r1 r2 f :
  cells idx axes (r1 ++ r2) f = vadd (cells idx axes r1 f) (cells idx axes r2 f).
Proof.
  unfold cells, tabulate, vadd. rewrite map_app.
  induction (indices (map (fun a : list bin * bool => length (fst a)) axes)) as [|c cs IH]; simpl; auto.
  rewrite filter_app_sum. f_equal. exact IH.
Qed.

Lemma spec_bins1_app p1 p2 bins :
  spec_bins1 (p1 ++ p2) bins =
  map (fun x => (fst (fst x) + fst (snd x), snd (fst x) + snd (snd x))) (combine (spec_bins1 p1 bins) (spec_bins1 p2 bins)).
Proof.
  induction bins as [|b r IH]; simpl; auto. rewrite IH. f_equal.
  unfold wsum, w2sum. rewrite !filter_app, !map_app, !sumq_app. reflexivity.
Qed.

Lemma rows_of_app d1 d2 : rows_of (d1 ++ d2) None = rows_of d1 None ++ rows_of d2 None.
Proof.
  unfold rows_of. rewrite map_app.
  assert (G : forall (l1 l2 : list (list xnum)) (u1 u2 : list Qc), length l1 = length u1 ->
              combine (l1 ++ l2) (u1 ++ u2) = combine l1 u1 ++ combine l2 u2).
  { induction l1 as [|x l1 IH]; intros l2 [|u u1] u2 H; simpl in *; try discriminate; auto. f_equal. apply IH. lia. }
  rewrite G by (rewrite map_length; reflexivity). rewrite filter_app, map_app. reflexivity.
Qed.

Theorem chunk_invariance_nd s r1 r2 sq : is1d s = false ->
  Forall (fun r => length r = length (s_axes s)) (r1 ++ r2) ->
  dvec sq s (FillN (r1 ++ r2) None true) = vadd (dvec sq s (FillN r1 None true)) (dvec sq s (FillN r2 None true)).
Proof.
  intros E1 Hlen. unfold dvec. rewrite E1. cbn [orb].
  assert (G : forall l, Forall (fun r : list xnum => length r = length (s_axes s)) l ->
              existsb (fun r => negb (Nat.eqb (length r) (length (s_axes s)))) l = false).
  { induction 1 as [|x l Hx _ IH]; simpl; auto. rewrite Hx, Nat.eqb_refl. simpl. exact IH. }
  apply Forall_app in Hlen. destruct Hlen as [L1 L2].
  rewrite (G _ L1), (G _ L2), (G (r1 ++ r2)) by (apply Forall_app; auto).
  rewrite rows_of_app. apply cells_app.
Qed.
