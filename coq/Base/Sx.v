(** A universal interchange datatype: everything that crosses the boundary
    between the harness and the extracted model is an [sx]. Decoders are
    total Gallina functions, so the glue is inside the checked development. *)
From Coq Require Export String.
From Physt Require Export Num.
Open Scope string_scope.

Inductive sx := ZZ (z : Z) | QQ (q : Qc) | SS (s : string) | LL (l : list sx).

Definition ret {A} (a : A) : option A := Some a.
Definition bind {A B} (o : option A) (f : A -> option B) : option B :=
  match o with Some a => f a | None => None end.
Notation "x <- e ;; f" := (bind e (fun x => f)) (at level 61, e at next level, right associativity).
Notation "' p <- e ;; f" := (bind e (fun p => f)) (at level 61, p pattern, e at next level, right associativity).

Fixpoint mapM {A B} (f : A -> option B) (l : list A) : option (list B) :=
  match l with
  | [] => Some []
  | a :: r => b <- f a ;; bs <- mapM f r ;; ret (b :: bs)
  end.

Definition d_z (s : sx) : option Z := match s with ZZ z => Some z | _ => None end.
Definition d_nat (s : sx) : option nat :=
  match s with ZZ z => if (0 <=? z)%Z then Some (Z.to_nat z) else None | _ => None end.
Definition d_q (s : sx) : option Qc :=
  match s with QQ q => Some q | ZZ z => Some (qz z) | _ => None end.
Definition d_x (s : sx) : option xnum :=
  match s with
  | QQ q => Some (Fin q) | ZZ z => Some (Fin (qz z))
  | SS "nan" => Some NaN | SS "inf" => Some PInf | SS "-inf" => Some NInf
  | _ => None end.
Definition d_bool (s : sx) : option bool :=
  match s with SS "T" => Some true | SS "F" => Some false | _ => None end.
Definition d_str (s : sx) : option string := match s with SS s => Some s | _ => None end.
Definition d_list {A} (f : sx -> option A) (s : sx) : option (list A) :=
  match s with LL l => mapM f l | _ => None end.
Definition d_pair {A B} (f : sx -> option A) (g : sx -> option B) (s : sx) : option (A * B) :=
  match s with LL [a; b] => x <- f a ;; y <- g b ;; ret (x, y) | _ => None end.
Definition d_opt {A} (f : sx -> option A) (s : sx) : option (option A) :=
  match s with SS "none" => Some None | _ => x <- f s ;; ret (Some x) end.

(** association-list access: a record is [LL [LL [SS key; value]; ...]] *)
Fixpoint field (k : string) (l : list sx) : option sx :=
  match l with
  | LL [SS k'; v] :: r => if String.eqb k k' then Some v else field k r
  | _ :: r => field k r
  | [] => None end.
Definition fld (k : string) (s : sx) : option sx :=
  match s with LL l => field k l | _ => None end.

Definition e_bool (b : bool) : sx := SS (if b then "T" else "F").
Definition e_nat (n : nat) : sx := ZZ (Z.of_nat n).
Definition e_x (x : xnum) : sx :=
  match x with Fin q => QQ q | NaN => SS "nan" | PInf => SS "inf" | NInf => SS "-inf" end.
Definition e_list {A} (f : A -> sx) (l : list A) : sx := LL (map f l).
Definition e_pair {A B} (f : A -> sx) (g : B -> sx) (p : A * B) : sx := LL [f (fst p); g (snd p)].
Definition e_opt {A} (f : A -> sx) (o : option A) : sx := match o with Some a => f a | None => SS "none" end.
Definition e_rec (l : list (string * sx)) : sx := LL (map (fun p => LL [SS (fst p); snd p]) l).
Definition illformed : sx := SS "illformed".

(** structural equality on interchange values (used for finite-table comparisons) *)
Fixpoint sx_eqb (a b : sx) : bool :=
  match a, b with
  | ZZ x, ZZ y => Z.eqb x y
  | QQ x, QQ y => Qceqb x y
  | ZZ x, QQ y | QQ y, ZZ x => Qceqb (qz x) y
  | SS x, SS y => String.eqb x y
  | LL l, LL m => (fix go (l m : list sx) : bool :=
                     match l, m with
                     | [], [] => true
                     | x :: l', y :: m' => sx_eqb x y && go l' m'
                     | _, _ => false end) l m
  | _, _ => false end.
