(** Exact rationals (Qc), boolean order, sums, and extended numbers (NaN/inf). *)
From Coq Require Export List Bool ZArith QArith Qcanon Lia Lqa.
Export ListNotations.
Open Scope Qc_scope.

Ltac qc2q := unfold Qcminus in *; unfold Qcle, Qclt, Qcplus, Qcmult, Qcopp, Q2Qc in *;
             cbn [this] in *; rewrite ?Qred_correct in *.

Definition Qcltb (x y : Qc) : bool := match Qccompare x y with Lt => true | _ => false end.
Definition Qcleb (x y : Qc) : bool := match Qccompare x y with Gt => false | _ => true end.
Definition Qceqb (x y : Qc) : bool := match Qccompare x y with Eq => true | _ => false end.

Definition qz (z : Z) : Qc := Q2Qc (inject_Z z).
Definition mkq (n : Z) (d : positive) : Qc := Q2Qc (n # d).

Definition sumq (l : list Qc) : Qc := fold_right Qcplus 0 l.
Definition Qcabs (x : Qc) : Qc := if Qcltb x 0 then - x else x.
Definition Qcmax (x y : Qc) : Qc := if Qcltb x y then y else x.
Definition Qcmin (x y : Qc) : Qc := if Qcltb y x then y else x.

(** extended numbers: what a float64 field of physt may hold *)
Inductive xnum := Fin (q : Qc) | NaN | PInf | NInf.

Definition xeqb (a b : xnum) : bool :=
  match a, b with
  | Fin x, Fin y => Qceqb x y
  | NaN, NaN => true | PInf, PInf => true | NInf, NInf => true
  | _, _ => false end.

Definition xadd (a b : xnum) : xnum :=
  match a, b with
  | NaN, _ | _, NaN => NaN
  | Fin x, Fin y => Fin (x + y)
  | PInf, NInf | NInf, PInf => NaN
  | PInf, _ | _, PInf => PInf
  | NInf, _ | _, NInf => NInf
  end.

Definition xscale (c : Qc) (a : xnum) : xnum :=
  match a with
  | Fin x => Fin (c * x)
  | NaN => NaN
  | PInf => if Qceqb c 0 then NaN else if Qcltb 0 c then PInf else NInf
  | NInf => if Qceqb c 0 then NaN else if Qcltb 0 c then NInf else PInf
  end.

(** agreement within a relative tolerance eps (exact when eps = 0) *)
Definition close (eps a b : Qc) : bool :=
  Qcleb (Qcabs (a - b)) (eps * Qcmax 1 (Qcabs a)).
Definition xclose (eps : Qc) (a b : xnum) : bool :=
  match a, b with
  | Fin x, Fin y => close eps x y
  | _, _ => xeqb a b end.
Fixpoint all2 {A B} (f : A -> B -> bool) (l : list A) (m : list B) : bool :=
  match l, m with
  | [], [] => true
  | a :: l', b :: m' => f a b && all2 f l' m'
  | _, _ => false end.
Definition closel eps := all2 (close eps).
