(** Target language of tools/pytrans.py: what the Python scalar kernels of /repo/src/physt are translated into.
    The float arithmetic is an abstract signature [arith F]; the generated functions live in a Section over it.
    Two instances are used: exact extended rationals ([xarith], below) and — for the order-only theorems — any
    arithmetic whose comparisons obey four laws that IEEE-754 satisfies. No proofs in this file. *)
From Physt Require Export Num.
From Coq Require Export Qround.

Record arith (F : Type) := mkArith {
  fadd : F -> F -> F; fsub : F -> F -> F; fmul : F -> F -> F; fdiv : F -> F -> F;
  flt : F -> F -> bool; fle : F -> F -> bool; feq : F -> F -> bool;
  of_Z : Z -> F; ffloor : F -> Z; fceil : F -> Z; fisfinite : F -> bool;
  fconst : Z -> positive -> F;            (* a float literal of the source, as the rational it denotes *)
  fnan : F; fpinf : F; fninf : F;
  fminimum : F -> F -> F; fmaximum : F -> F -> F;   (* numpy.minimum / numpy.maximum *)
  ffloordiv : F -> F -> F; fmodulo : F -> F -> F;   (* python's // and % on floats *)
  fint : F -> Z                                     (* int(x): truncation towards zero *) }.
Arguments fadd {F}. Arguments fsub {F}. Arguments fmul {F}. Arguments fdiv {F}. Arguments flt {F}. Arguments fle {F}.
Arguments feq {F}. Arguments of_Z {F}. Arguments ffloor {F}. Arguments fceil {F}. Arguments fisfinite {F}.
Arguments fconst {F}. Arguments fnan {F}. Arguments fpinf {F}. Arguments fninf {F}. Arguments fminimum {F}.
Arguments fmaximum {F}. Arguments ffloordiv {F}. Arguments fmodulo {F}. Arguments fint {F}.

(** results of translated functions that may raise or loop *)
Inductive res (A : Type) := Done (a : A) | Raised | NoFuel.
Arguments Done {A}. Arguments Raised {A}. Arguments NoFuel {A}.
Definition rbind {A B} (r : res A) (k : A -> res B) : res B :=
  match r with Done a => k a | Raised => Raised | NoFuel => NoFuel end.

(** `while cond: body`; the body answers [false] for `break` *)
Fixpoint while_ {S} (fuel : nat) (cond : S -> bool) (body : S -> S * bool) (s : S) : res S :=
  if cond s then
    match fuel with
    | O => NoFuel
    | S n => let '(s', go) := body s in if go then while_ n cond body s' else Done s'
    end
  else Done s.

Fixpoint zrange_from (start : Z) (n : nat) : list Z :=
  match n with O => [] | S k => start :: zrange_from (start + 1)%Z k end.
Definition zrange (n : Z) : list Z := zrange_from 0 (Z.to_nat n).
Definition zenumerate {A} (l : list A) : list (Z * A) := combine (zrange_from 0 (length l)) l.

(** one of the two bin maps `_adapt` returns: None, (), or pairs (old index, new index) *)
Inductive adaptmap := AMNone | AMEmpty | AMList (l : list (Z * Z)).

(** what `_force_bin_existence_single` may return: (), an int, or None *)
Inductive optint := OITuple0 | OIInt (z : Z) | OINone.

(** ---------- exact instance: extended rationals ---------- *)
Definition xneg (a : xnum) : xnum := match a with Fin x => Fin (- x) | NaN => NaN | PInf => NInf | NInf => PInf end.
Definition xsub (a b : xnum) : xnum := xadd a (xneg b).
Definition xsign (a : xnum) : comparison :=
  match a with Fin x => Qccompare x 0 | PInf => Gt | NInf => Lt | NaN => Eq end.
Definition xmul (a b : xnum) : xnum :=
  match a, b with
  | NaN, _ | _, NaN => NaN
  | Fin x, Fin y => Fin (x * y)
  | _, _ => match xsign a, xsign b with
            | Eq, _ | _, Eq => NaN
            | Gt, Gt | Lt, Lt => PInf
            | _, _ => NInf end
  end.
(** division by a zero is NaN here; the Python kernels guard it (ZeroDivisionError / weight > 0 / width > 0) *)
Definition xdiv (a b : xnum) : xnum :=
  match a, b with
  | NaN, _ | _, NaN => NaN
  | Fin x, Fin y => if Qceqb y 0 then NaN else Fin (x / y)
  | Fin _, _ => Fin 0
  | _, Fin y => if Qceqb y 0 then NaN else match xsign a, Qccompare y 0 with Gt, Gt | Lt, Lt => PInf | _, _ => NInf end
  | _, _ => NaN end.
Definition xlt (a b : xnum) : bool :=
  match a, b with
  | Fin x, Fin y => Qcltb x y
  | NInf, Fin _ | NInf, PInf | Fin _, PInf => true
  | _, _ => false end.
Definition xle (a b : xnum) : bool :=
  match a, b with
  | NaN, _ | _, NaN => false
  | _, _ => negb (xlt b a) end.
Definition xfeq (a b : xnum) : bool :=
  match a, b with NaN, _ | _, NaN => false | _, _ => xeqb a b end.
Definition xfloor (a : xnum) : Z := match a with Fin x => Qfloor (this x) | _ => 0%Z end.
Definition xceil (a : xnum) : Z := match a with Fin x => Qceiling (this x) | _ => 0%Z end.
Definition xfinite (a : xnum) : bool := match a with Fin _ => true | _ => false end.
Definition xminimum (a b : xnum) : xnum :=
  match a, b with NaN, _ | _, NaN => NaN | _, _ => if xlt b a then b else a end.
Definition xmaximum (a b : xnum) : xnum :=
  match a, b with NaN, _ | _, NaN => NaN | _, _ => if xlt a b then b else a end.

(** python's floor division and modulo on exact numbers: a // b = floor(a / b), a % b = a - b * floor(a / b) (sign of the divisor);
    anything non-finite or a zero divisor is NaN here (python raises ZeroDivisionError: guarded in the theorems by width > 0) *)
Definition xfloordiv (a b : xnum) : xnum :=
  match a, b with Fin x, Fin y => if Qceqb y 0 then NaN else Fin (qz (Qfloor (this (x / y)))) | _, _ => NaN end.
Definition xmodulo (a b : xnum) : xnum :=
  match a, b with Fin x, Fin y => if Qceqb y 0 then NaN else Fin (x - y * qz (Qfloor (this (x / y)))) | _, _ => NaN end.
Definition xint (a : xnum) : Z :=
  match a with Fin x => Z.quot (Qnum (this x)) (Zpos (Qden (this x))) | _ => 0%Z end.

Definition xarith : arith xnum :=
  mkArith xnum xadd xsub xmul xdiv xlt xle xfeq (fun z => Fin (qz z)) xfloor xceil xfinite
          (fun n d => Fin (mkq n d)) NaN PInf NInf xminimum xmaximum xfloordiv xmodulo xint.
