(** N-dimensional arrays as (shape, flat row-major list). Every numpy axis
    operation used by physt is *defined* by tabulating its pointwise meaning. *)
From Physt Require Export Num.

Fixpoint indices (shape : list nat) : list (list nat) :=
  match shape with
  | [] => [[]]
  | n :: r => flat_map (fun i => map (cons i) (indices r)) (seq 0 n)
  end.

Fixpoint in_range (idx shape : list nat) : Prop :=
  match idx, shape with
  | [], [] => True
  | i :: j, n :: r => (i < n)%nat /\ in_range j r
  | _, _ => False end.

Fixpoint in_rangeb (idx shape : list nat) : bool :=
  match idx, shape with
  | [], [] => true
  | i :: j, n :: r => Nat.ltb i n && in_rangeb j r
  | _, _ => false end.

Fixpoint list_eqb (a b : list nat) : bool :=
  match a, b with
  | [], [] => true
  | x :: a', y :: b' => Nat.eqb x y && list_eqb a' b'
  | _, _ => false end.

Section Arr.
  Context {A : Type} (d : A).
  Definition tabulate (shape : list nat) (f : list nat -> A) : list A := map f (indices shape).
  Fixpoint lookup (idx : list nat) (ks : list (list nat)) (vs : list A) : A :=
    match ks, vs with
    | k :: ks', v :: vs' => if list_eqb idx k then v else lookup idx ks' vs'
    | _, _ => d end.
  Definition get (shape : list nat) (a : list A) (idx : list nat) : A := lookup idx (indices shape) a.
End Arr.

Definition size (shape : list nat) : nat := fold_right Nat.mul 1%nat shape.

(** replace / insert / delete the k-th component of an index tuple *)
Fixpoint set_at {A} (k : nat) (v : A) (l : list A) : list A :=
  match l, k with
  | [], _ => []
  | _ :: r, O => v :: r
  | x :: r, S k' => x :: set_at k' v r end.
Fixpoint ins_at {A} (k : nat) (v : A) (l : list A) : list A :=
  match k, l with
  | O, _ => v :: l
  | S k', x :: r => x :: ins_at k' v r
  | S _, [] => [v] end.
Fixpoint del_at {A} (k : nat) (l : list A) : list A :=
  match l, k with
  | [], _ => []
  | _ :: r, O => r
  | x :: r, S k' => x :: del_at k' r end.

Definition sumf {A} (f : A -> Qc) (l : list A) : Qc := sumq (map f l).

(** numpy: a.sum(axis=k) *)
Definition sum_axis (shape : list nat) (k : nat) (a : list Qc) : list Qc :=
  tabulate (del_at k shape)
    (fun i' => sumf (fun j => get 0 shape a (ins_at k j i')) (seq 0 (nth k shape 0%nat))).

(** physt _apply_bin_map with a list of (old,new) pairs, here [m] = new index of old bin i:
    new[.., j, ..] = sum of old[.., i, ..] over the i with m i = j *)
Definition remap_axis (shape : list nat) (k : nat) (m : list nat) (newn : nat) (a : list Qc) : list Qc :=
  tabulate (set_at k newn shape)
    (fun i' => sumf (fun i => if Nat.eqb (nth i m 0%nat) (nth k i' 0%nat)
                              then get 0 shape a (set_at k i i') else 0)
                    (seq 0 (nth k shape 0%nat))).
