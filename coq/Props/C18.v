(** C18 — Histograms stay well-formed; failed operations change nothing. *)
From Physt Require Import Atomic OrderQc DtypeProofs AtomicProofs.

(** Every in-place call of the model (fill, fill_n, +=, -=, *=, /=, normalize, merge_bins, dtype change) that raises —
    incompatible operand, over-subtraction, negative or non-numeric factor, refused dtype, merge across a gap — leaves
    contents, squared errors, missed counters and bins exactly as they were; at most the dtype was promoted. *)
Theorem C18_failure_atomic : forall h o h', dstep h o = (h', true) ->
  y_freq h' = y_freq h /\ y_err2 h' = y_err2 h /\ y_missed h' = y_missed h /\ y_axes h' = y_axes h.
Proof. exact failure_atomic. Qed.
Print Assumptions C18_failure_atomic.

(** ... at every position of every history *)
Theorem C18_histories : forall ops h,
  Forall (fun p => snd (snd p) = true ->
                   y_freq (fst (snd p)) = y_freq (fst p) /\ y_err2 (fst (snd p)) = y_err2 (fst p) /\ y_missed (fst (snd p)) = y_missed (fst p))
         (combine ((fix pre (h : dh) (ops : list dop) := match ops with [] => [] | o :: r => h :: pre (fst (dstep h o)) r end) h ops)
                  (drun h ops)).
Proof. exact failures_change_nothing. Qed.
Print Assumptions C18_histories.

(** accepted +=, -=, *=, /= never leave a negative content (a call that would is refused) *)
Theorem C18_no_negative_contents : forall h o h',
  nonneg (y_freq h) = true -> nonneg (y_err2 h) = true ->
  match o with
  | DAdd x | DSub x => nonneg (y_freq x) = true /\ nonneg (y_err2 x) = true /\ same_axes h x = true
  | DMul _ _ | DDiv _ _ => True
  | _ => False end ->
  dstep h o = (h', false) -> nonneg (y_freq h') = true.
Proof. exact accepted_arithmetic_keeps_signs. Qed.
Print Assumptions C18_no_negative_contents.

(** dtype and arrays agree after every call, failed ones included (shared with C13) *)
Theorem C18_dtype_consistent : forall ops h, cons h -> Forall op_cons ops -> Forall (fun x => cons (fst x)) (drun h ops).
Proof. exact dtype_inv. Qed.
Print Assumptions C18_dtype_consistent.

Example C18_example :
  let h := mkDh [AStatic [(qz 0, qz 1); (qz 1, qz 2)] true] I64 I64 I64 (map qz [3; 4]%Z) (map qz [3; 4]%Z) [Fin 0; Fin 0; Fin 0] in
  let big := mkDh [AStatic [(qz 0, qz 1); (qz 1, qz 2)] true] F64 F64 F64 (map qz [9; 1]%Z) (map qz [9; 1]%Z) [Fin 0; Fin 0; Fin 0] in
  map (fun x => (snd x, y_dt (fst x))) (drun h [DSub big; DMul (qz (-1)) "pyfloat"; DSet I16; DMul (qz 2) "bool"])
  = [(true, I64); (true, I64); (false, I16); (true, I16)] /\      (* the refused negative factor no longer promotes the dtype *)
  closel 0 (y_freq (fst (last (drun h [DSub big; DMul (qz (-1)) "pyfloat"]) (h, false)))) (map qz [3; 4]%Z) = true.
Proof. vm_compute. split; reflexivity. Qed.
