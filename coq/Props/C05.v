(** C05 — Adding histograms equals histogramming the combined data. *)
From Physt Require Import ArithCases OrderQc ArrLemmas FillOrder ArithProofs Calc1DProofs.

(** full refinement statement, exercised on every generated case by the correspondence harness *)
Definition C05_full_statement : Prop := forall c, wf_c05 c = true -> check_C05 c (run_C05 c) = true.

(** same bins: contents, squared errors and missed counters add pointwise; dtype = numpy promotion; statistics add *)
Theorem C05_same_bins_pointwise : forall a b, Nat.eqb (ah_ndim a) (ah_ndim b) = true -> has_same_bins a b = true ->
  iadd a b = Ok (mkAh (ah_axes a) (vadd (ah_freq a) (ah_freq b)) (vadd (ah_err2 a) (ah_err2 b))
                      (xvadd (ah_missed a) (ah_missed b)) (promote (ah_dt a) (ah_dt b))
                      (opt_stats_add (ah_stats a) (ah_stats b)) (ah_keep a)).
Proof. exact iadd_same_bins. Qed.
Print Assumptions C05_same_bins_pointwise.

Theorem C05_commutative : forall a b x y, iadd a b = Ok x -> iadd b a = Ok y ->
  has_same_bins a b = true -> has_same_bins b a = true ->
  ah_freq x = ah_freq y /\ ah_err2 x = ah_err2 y /\ ah_missed x = ah_missed y /\ ah_dt x = ah_dt y.
Proof. exact iadd_comm_same. Qed.
Print Assumptions C05_commutative.

(** associativity of the pointwise parts: contents / errors (lists), missed (NaN-aware), dtype (promotion lattice) *)
Theorem C05_associative_parts :
  (forall a b c, vadd (vadd a b) c = vadd a (vadd b c)) /\
  (forall a b c, xadd (xadd a b) c = xadd a (xadd b c)) /\
  (forall a b c, promote (promote a b) c = promote a (promote b c)) /\
  (forall a b, promote a b = promote b a) /\ (forall a, promote a a = a).
Proof. repeat split; [exact vadd_assoc3|exact xadd_assoc|exact promote_assoc|exact promote_comm|exact promote_idem]. Qed.
Print Assumptions C05_associative_parts.

(** h(A) + h(B) = h(A ++ B): the specification of construction is additive in the data *)
Theorem C05_union_of_data : forall p1 p2 bins,
  spec_bins1 (p1 ++ p2) bins =
  map (fun x => (fst (fst x) + fst (snd x), snd (fst x) + snd (snd x))) (combine (spec_bins1 p1 bins) (spec_bins1 p2 bins)).
Proof. exact spec_bins1_app. Qed.
Print Assumptions C05_union_of_data.

(** adaptive fixed-width addition (1-D): nothing is lost when both operands are moved onto the union grid *)
Theorem C05_adaptive_total : forall w sh t n incl ad w' sh' t' n' incl' ad' fa ea fb eb axs f1 e1 f2 e2,
  length fa = n -> length fb = n' -> length ea = n -> length eb = n' ->
  adapt_axes 0 [AFixed w sh t n incl ad] [AFixed w' sh' t' n' incl' ad'] [n] [n'] fa ea fb eb = Ok (axs, f1, e1, f2, e2) ->
  sumq (vadd f1 f2) = sumq fa + sumq fb /\ sumq (vadd e1 e2) = sumq ea + sumq eb.
Proof. exact iadd_adaptive_1d_total. Qed.
Print Assumptions C05_adaptive_total.

(** the grown range is exactly the union of both ranges and old contents keep their grid cell *)
Theorem C05_adaptive_range : forall w sh t n incl ad w' sh' t' n' incl' ad' na s1 s2 newn,
  adapt_axis (AFixed w sh t n incl ad) (AFixed w' sh' t' n' incl' ad') = Ok (na, s1, s2, newn) ->
  (match s1 with Some s => (s + n <= newn)%nat | None => newn = n end) /\
  (match s2 with Some s => (s + n' <= newn)%nat | None => newn = n' end).
Proof. exact adapt_axis_range. Qed.
Print Assumptions C05_adaptive_range.

(** moving contents along any axis of an N-d array into a grown grid conserves the sum *)
Theorem C05_shift_conserves : forall shape k newn sh a,
  (k < length shape)%nat -> length a = size shape ->
  match sh with Some s => (s + nth k shape 0 <= newn)%nat | None => True end ->
  sumq (fst (shift_axis shape k newn sh a)) = sumq a.
Proof. exact shift_axis_total. Qed.
Print Assumptions C05_shift_conserves.

Example C05_example :
  let a := mkAh [AFixed 1 0 0%Z 2 false true] (map qz [1; 2]%Z) (map qz [1; 2]%Z) [Fin 0; Fin 0; Fin 0] I64 None true in
  let b := mkAh [AFixed 1 0 3%Z 2 false true] (map qz [4; 8]%Z) (map qz [4; 8]%Z) [Fin 0; Fin 0; Fin 0] F32 None true in
  check_C05 (Build_c05 [a; b] (Plus (Leaf 0) (Leaf 1))) (run_C05 (Build_c05 [a; b] (Plus (Leaf 0) (Leaf 1)))) = true /\
  match iadd a b with Ok h => ah_freq h = map qz [1; 2; 0; 4; 8]%Z /\ ah_dt h = F64 | Err _ => False end.
Proof. vm_compute. repeat split; reflexivity. Qed.
