(** C20 — Plots show exactly the histogram's data and never modify it. *)
From Physt Require Import Plot PlotProofs GeometryProofs.
Local Open Scope Qc_scope.

(** Cumulative plots: the running sums of non-negative contents never decrease and end at the total. *)
Theorem C20_cumulative_monotone : forall l acc, Forall (fun x => 0 <= x) l -> nondecr (running acc l).
Proof. exact running_monotone. Qed.
Print Assumptions C20_cumulative_monotone.
Theorem C20_cumulative_ends_at_total : forall l acc, l <> [] -> last (running acc l) 0 = acc + sumq l.
Proof. exact running_ends_at_total. Qed.
Print Assumptions C20_cumulative_ends_at_total.

(** Density plots: the drawn value times the bin size is the content. *)
Theorem C20_density_value : forall f s, s <> 0 -> f / s * s = f.
Proof. exact density_times_size. Qed.
Print Assumptions C20_density_value.

(** The colour scale is monotone in the value (the judge demands a monotone colour-map parameter for every pair of cells). *)
Theorem C20_colour_monotone : forall lo hi v v', lo < hi -> v <= v' -> cnorm lo hi v <= cnorm lo hi v'.
Proof. exact cnorm_monotone. Qed.
Print Assumptions C20_colour_monotone.

(** Time ticks: the specification lists exactly the multiples of the unit inside the range. *)
Theorem C20_ticks_sound : forall lo hi u t, 0 < u -> In t (ticks_spec lo hi u) -> (exists k : Z, t = qz k * u) /\ lo <= t /\ t <= hi.
Proof. exact ticks_sound. Qed.
Print Assumptions C20_ticks_sound.
Theorem C20_ticks_complete : forall lo hi u (k : Z), 0 < u -> lo <= qz k * u -> qz k * u <= hi -> In (qz k * u) (ticks_spec lo hi u).
Proof. exact ticks_complete. Qed.
Print Assumptions C20_ticks_complete.

Example C20_example :
  all2 Qceqb (plot_data true false [qz 2; qz 6] [qz 1; qz 3]) [qz 2; qz 2] = true /\
  all2 Qceqb (plot_data false true [qz 2; qz 6] [qz 1; qz 3]) [qz 2; qz 8] = true /\
  all2 Qceqb (plot_data true true [qz 2; qz 6] [qz 1; qz 3]) [mkq 1 4; qz 1] = true /\
  all2 Qceqb (ticks_spec (mkq (-7) 2) (qz 130) (qz 60)) [qz 0; qz 60; qz 120] = true /\
  all2 Qceqb (image_layout 2 3 [qz 1; qz 2; qz 3; qz 4; qz 5; qz 6]) [qz 3; qz 6; qz 2; qz 5; qz 1; qz 4] = true.
Proof. vm_compute. repeat split; reflexivity. Qed.
