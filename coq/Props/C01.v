(** C01 — 1D construction: each value counted once, in the bin that contains it. *)
From Physt Require Import Calc1D OrderQc SweepProofs Calc1DProofs.

(** Refinement, for every case (all data incl. NaN, all weights, all rising/invalid bin sets, all
    dtype/keep_missed/dropna settings): the checker that states the property accepts what the
    algorithm-as-coded (sort + searchsorted sweep, shared NaN mask, tolerant consecutiveness test,
    missed-value storage) produces, including the refusals. *)
Theorem C01_holds : forall c,
  check_h1 c (match run_h1 c with Some r => e_res1 (a_bins c) r | None => LL [SS "refused"] end) = true.
Proof. exact check_accepts_run. Qed.
Print Assumptions C01_holds.

(** per bin: sort + searchsorted('left'/'right') sweep = filter-and-sum of weights and squared weights *)
Theorem C01_sweep_is_filter_and_sum : forall ps bins, bins_ok bins ->
  sweep (isortQ ps) bins = spec_bins1 ps bins.
Proof. exact sweep_is_spec. Qed.
Print Assumptions C01_sweep_is_filter_and_sum.

(** accounting: for consecutive bins, sum of contents + weight above the last edge = weight at or above
    the first edge; with the weight below it this is the total input weight *)
Theorem C01_accounting : forall ps bins lo, bins <> [] -> chain lo bins ->
  sumq (map fst (spec_bins1 ps bins)) + wsum (filter (fun p => Qcltb (last_hi bins) (fst p)) ps)
  = wsum (filter (fun p => Qcleb lo (fst p)) ps).
Proof. exact chain_accounting. Qed.
Print Assumptions C01_accounting.

(** generic engine lemma (any key type with a boolean strict total order): on a sorted list the slice
    between two downward-closed cut points is the filter of the difference *)
Theorem C01_slice_between : forall (K W : Type) (ltb : K -> K -> bool) (P Q : K -> bool) (l : list (K * W)),
  sorted ltb l ->
  (forall x y, leb' ltb x y = true -> P y = true -> P x = true) ->
  (forall x y, leb' ltb x y = true -> Q y = true -> Q x = true) ->
  (forall x, P x = true -> Q x = true) ->
  slice (length (filter (fun p => P (fst p)) l)) (length (filter (fun p => Q (fst p)) l)) l
  = filter (fun p => negb (P (fst p)) && Q (fst p)) l.
Proof. exact @slice_between. Qed.
Print Assumptions C01_slice_between.

(** a value is counted in a bin only if it lies between the bin's edges: gaps collect nothing *)
Theorem C01_in_bin_sound : forall b is_last v, in_bin b is_last v = true -> fst b <= v /\ v <= snd b.
Proof.
  intros b l v H. unfold in_bin in H. apply andb_true_iff in H. destruct H as [H1 H2]. split.
  - apply Qcleb_le. exact H1.
  - apply orb_true_iff in H2. destruct H2 as [H2|H2].
    + apply Qclt_le_weak. apply Qcltb_lt. exact H2.
    + apply andb_true_iff in H2. destruct H2 as [_ H2]. apply Qceqb_eq in H2. subst. apply Qcle_refl.
Qed.
Print Assumptions C01_in_bin_sound.

(** non-vacuity: value on an inner edge, on the last edge, in a gap, NaN with weight *)
Example C01_example :
  let c := Build_c01 [Fin (qz 1); Fin (qz 2); Fin (qz 5); NaN; Fin (mkq 5 2); Fin (qz 0)] (map qz [1; 2; 4; 8; 16; 32]%Z) WInt true
                     [(qz 0, qz 1); (qz 1, qz 2); (qz 3, qz 5)] None true true in
  invalid_input c = false /\
  option_map r_freq (run_h1 c) = Some (map qz [32; 1; 4]%Z) /\
  option_map r_under (run_h1 c) = Some NaN.
Proof. vm_compute. repeat split; reflexivity. Qed.
