(** C19 — Free-arithmetics switch is scoped, restored and isolated per context. *)
From Physt Require Import Ctx CtxProofs.
Local Open Scope nat_scope.

(** The context manager restores the previous value (and the previous nesting) on exit, for EVERY body — nested blocks to
    any depth, assignments inside the block, reads, spawns — whose own blocks are closed. *)
Theorem C19_cm_restores : forall x b body, balanced 0 body -> depth_after 0 body = 0 ->
  c_bind (run_ctx x (AEnter b :: body ++ [AExit])) = c_bind x /\ c_stack (run_ctx x (AEnter b :: body ++ [AExit])) = c_stack x.
Proof. exact cm_restores. Qed.
Print Assumptions C19_cm_restores.

(** ... also when the body raises at any nesting depth: every block opened since is left, the value before the outermost
    block is back. *)
Theorem C19_cm_restores_on_raise : forall x b body, c_stack x = [] ->
  (forall a, In a body -> a <> ARaise /\ a <> AExit) ->
  c_bind (run_ctx x (AEnter b :: body ++ [ARaise])) = c_bind x /\ c_stack (run_ctx x (AEnter b :: body ++ [ARaise])) = [].
Proof. exact cm_restores_on_raise. Qed.
Print Assumptions C19_cm_restores_on_raise.

(** Isolation under any interleaving: the state of context b after a schedule does not depend on the actions of other
    contexts; two schedules that differ only in what others do leave b in the same state. *)
Theorem C19_isolation : forall t w b, Forall (fun ca => ~ touches b ca) t -> wrun w t b = w b.
Proof. exact isolation. Qed.
Print Assumptions C19_isolation.
Theorem C19_schedule_independent : forall s t1 t2 w b,
  Forall (fun ca => ~ touches b ca) t1 -> Forall (fun ca => ~ touches b ca) t2 -> wrun w (s ++ t1) b = wrun w (s ++ t2) b.
Proof. exact schedule_independent. Qed.
Print Assumptions C19_schedule_independent.

(** A task starts from its creator's value at creation time, a thread from the process default; a context that never
    touched the option sees the environment default. *)
Theorem C19_spawn_snapshot : forall w c ch dflt, c <> ch ->
  get_val dflt (wstep w (c, ASpawnTask ch) ch) = get_val dflt (w c) /\ get_val dflt (wstep w (c, ASpawnThread ch) ch) = dflt.
Proof. exact spawn_snapshot. Qed.
Print Assumptions C19_spawn_snapshot.
Theorem C19_default : forall dflt sched c, Forall (fun ca => ~ touches c ca) sched -> get_val dflt (wrun init_world sched c) = dflt.
Proof. exact untouched_sees_default. Qed.
Print Assumptions C19_default.

(** What a passing check means: the i-th observation of a read is (v, v) — option value and acceptance of the guarded
    operation — with v the value of the acting context after the schedule prefix. *)
Theorem C19_observation : forall sched dflt w i c a, nth_error sched i = Some (c, a) ->
  nth_error (observe_sched dflt w sched) i =
  Some (match a with ARead => LL [e_bool (get_val dflt (wrun w (firstn i sched) c)); e_bool (get_val dflt (wrun w (firstn i sched) c))] | _ => SS "-" end).
Proof. exact observe_nth. Qed.
Print Assumptions C19_observation.

Example C19_example :
  let sched := [(0, ASet true); (0, ASpawnTask 1); (0, ASpawnThread 2); (1, AEnter false); (1, AEnter true); (2, ASet true);
                (0, ASet false); (1, ARead); (1, ARaise); (1, ARead); (2, ARead); (0, ARead)] in
  wf_sched init_world [0] sched = true /\
  observe_sched false init_world sched =
  [SS "-"; SS "-"; SS "-"; SS "-"; SS "-"; SS "-"; SS "-"; LL [SS "T"; SS "T"]; SS "-"; LL [SS "T"; SS "T"]; LL [SS "T"; SS "T"]; LL [SS "F"; SS "F"]].
Proof. vm_compute. split; reflexivity. Qed.
