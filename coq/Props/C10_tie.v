(** C10 — tie by translation: the bin maps that merge_bins builds, as translated from the CURRENT source of
    HistogramBase.merge_bins (tools/pytrans.py -> Gen/PyMerge.v), are the maps of the model for every input. *)
From Physt Require Import TieBase PyMerge Merge TieMerge.

(** `bin_map = [(i, i // amount) for i in range(n)]` *)
Theorem C10_tie_amount_map : forall n a,
  g_mb_amount_map (Z.of_nat n) (Z.of_nat a) = map (fun i => (Z.of_nat i, Z.of_nat (Nat.div i a))) (seq 0 n) /\
  map snd (g_mb_amount_map (Z.of_nat n) (Z.of_nat a)) = map Z.of_nat (amount_map n a).
Proof. intros. split; [apply gen_amount_map_is_model | apply gen_amount_map_new_indices]. Qed.
Print Assumptions C10_tie_amount_map.

(** the min_frequency loop (current_new / current_sum bookkeeping), for every list of frequencies and every threshold *)
Theorem C10_tie_minfreq_map : forall thr freqs,
  g_mb_minfreq_map xarith (map Fin freqs) (Fin thr) =
  combine (map Z.of_nat (seq 0 (length freqs))) (map Z.of_nat (mf_map thr freqs)).
Proof. exact gen_minfreq_map_is_model. Qed.
Print Assumptions C10_tie_minfreq_map.

Example C10_tie_example :
  g_mb_minfreq_map xarith (map Fin [qz 1; qz 5; qz 1; qz 1; qz 7]) (Fin (qz 3)) = [(0, 0); (1, 1); (2, 2); (3, 2); (4, 3)]%Z /\
  g_mb_amount_map 5 2 = [(0, 0); (1, 0); (2, 1); (3, 1); (4, 2)]%Z.
Proof. vm_compute. split; reflexivity. Qed.
