(** C04 — Adaptive fixed-width histograms never lose a value when bins grow. *)
From Physt Require Import Adaptive OrderQc AdaptiveProofs FWFloat ArithProofs.
From Coq Require Import PrimFloat.

Definition C04_full_statement : Prop := forall c, wf_c04 c = true -> z_exact c = true ->
  check_C04 c (LL [e_list e_astep (arun (z_init c) (z_ops c)); SS "skip"]) = true.

(** In exact arithmetic, after _force_bin_existence_single (first value, growth to the left, growth to the right, or
    no change) the value lies inside the bins: first edge <= v < last edge, for every positive width, shift, alignment. *)
Theorem C04_value_is_covered : forall b v, 0 < f_w b ->
  let b' := fst (force_single b v false) in
  (1 <= f_count b')%nat /\ fw_edge b' 0 <= v /\ v < fw_edge b' (f_count b') /\ f_w b' = f_w b.
Proof. exact force_single_covers. Qed.
Print Assumptions C04_value_is_covered.

(** The bins stay on the original grid (same width and shift, integer multiples), only grow, and the returned bin map
    is exactly the displacement of the old contents: contents recorded earlier stay attached to the same interval. *)
Theorem C04_grid_and_contents_kept : forall b v incl, (0 < f_count b)%nat ->
  let '(b', m) := force_single b v incl in
  f_w b' = f_w b /\ f_shift b' = f_shift b /\ (f_tmin b' <= f_tmin b)%Z /\
  (f_tmin b + Z.of_nat (f_count b) <= f_tmin b' + Z.of_nat (f_count b'))%Z /\
  match m with
  | BNone => b' = b
  | BShift s => Z.of_nat s = (f_tmin b - f_tmin b')%Z
  | BEmpty => False end.
Proof. exact force_single_grid. Qed.
Print Assumptions C04_grid_and_contents_kept.

(** Later growth never uncovers a value entered earlier. *)
Theorem C04_growth_keeps_earlier_values_covered : forall b b' v, f_w b' = f_w b -> f_shift b' = f_shift b -> 0 < f_w b ->
  (f_tmin b' <= f_tmin b)%Z -> (f_tmin b + Z.of_nat (f_count b) <= f_tmin b' + Z.of_nat (f_count b'))%Z ->
  fw_edge b 0 <= v -> v < fw_edge b (f_count b) ->
  fw_edge b' 0 <= v /\ v < fw_edge b' (f_count b').
Proof. exact range_monotone. Qed.
Print Assumptions C04_growth_keeps_earlier_values_covered.

(** Moving the contents into the grown array conserves them (any dimension, any axis). *)
Theorem C04_reshape_conserves : forall shape k newn s a,
  (k < length shape)%nat -> length a = size shape -> (s + nth k shape 0 <= newn)%nat ->
  sumq (reshape shape k newn (BShift s) a) = sumq a.
Proof. intros. unfold reshape. apply shift_axis_total; auto. Qed.
Print Assumptions C04_reshape_conserves.

(** Why the repaired code re-checks the edges: in binary64, floor((v - shift) / width) can be one too large. *)
Theorem C04_binary64_floor_is_not_enough :
  exists v w k, times_min v w 0%float = Some k /\ PrimFloat.ltb v (edge w 0%float k) = true.
Proof. exact floor_of_quotient_is_not_enough. Qed.
Print Assumptions C04_binary64_floor_is_not_enough.

Example C04_example :
  let s := mkA [mkFw (mkq 1 2) 0 0%Z 0 true] [] [] [Fin 0; Fin 0; Fin 0] true in
  let ops := [Fill [Fin (mkq 7 4)] 1; FillN [[Fin (qz (-1))]; [Fin (qz 3)]; [NaN]] None true; Fill [Fin (mkq 3 2)] (qz 2)] in
  map (fun x => (f_tmin (hd (mkFw 1 0 0 0 true) (a_axes (fst x))), f_count (hd (mkFw 1 0 0 0 true) (a_axes (fst x))))) (arun s ops)
  = [(3%Z, 1%nat); ((-2)%Z, 9%nat); ((-2)%Z, 9%nat)] /\
  closel 0 (a_freq (fst (last (arun s ops) (s, RVoid)))) (map qz [1; 0; 0; 0; 0; 3; 0; 0; 1]%Z) = true.
Proof. vm_compute. split; reflexivity. Qed.
