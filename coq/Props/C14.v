(** C14 — Statistics are those of the raw data entered, not of the bins. *)
From Physt Require Import StatsCases OrderQc StatsProofs ScaleProofs.

(** Refinement for every program (construction, fill, fill_n in any chunking, +, +=, copy, *=, /=, -, array +=):
    after each step the statistics the code keeps are the moments of the raw data the variable stands for, and are
    NaN in sum / sum2 / weight (hence mean, variance, std) when they cannot be maintained. *)
Theorem C14_holds : forall ops, Forall2 rel (srun [] ops) (vrun [] ops).
Proof. intros ops. apply run_related. constructor. Qed.
Print Assumptions C14_holds.

Theorem C14_chunking : forall p q, moments (p ++ q) = stats_add (moments p) (moments q).
Proof. exact moments_app. Qed.
Print Assumptions C14_chunking.

Theorem C14_fill_is_one_pair : forall s v w, nn (st_min s) -> nn (st_max s) -> fill_stats s v w = stats_add s (moments [(v, w)]).
Proof. exact fill_is_singleton. Qed.
Print Assumptions C14_fill_is_one_pair.

Theorem C14_rescaling : forall c ps, moments (scale_w c ps) = stats_mul (moments ps) c.
Proof. exact moments_scale. Qed.
Print Assumptions C14_rescaling.

(** variance() is the weighted population variance of the raw data *)
Theorem C14_variance_is_central_moment : forall ps : list (Qc * Qc),
  let W := sumq (map snd ps) in let S := sumq (map (fun p => fst p * snd p) ps) in
  0 < W ->
  st_var (moments ps) = Fin (sumq (map (fun p => snd p * ((fst p - S / W) * (fst p - S / W))) ps) / W).
Proof. exact variance_is_central_moment. Qed.
Print Assumptions C14_variance_is_central_moment.

(** invalid statistics never read as numbers: NaN in, NaN out, for every derived quantity *)
Theorem C14_invalid_reads_nan : forall s, st_sum s = NaN -> st_sum2 s = NaN -> st_weight s = NaN ->
  st_mean s = NaN /\ st_var s = NaN.
Proof. intros s A B C. unfold st_mean, st_var. rewrite A. split; reflexivity. Qed.
Print Assumptions C14_invalid_reads_nan.

Theorem C14_empty : st_weight empty_stats = Fin 0 /\ st_mean empty_stats = NaN.
Proof. vm_compute. split; reflexivity. Qed.

Example C14_example :
  let ops := [PNew [(qz 1, 1); (qz 3, 1); (qz 2, 1)] false; PFill 0 (qz 6) (qz 2); PNew [(qz 0, qz 4)] true; PAdd 0 1; PMul 2 (qz 2); PSub 2 0] in
  wf_c14 (Build_c14 ops 0) = true /\
  check_C14 (Build_c14 ops 0) (e_list e_stats_obs (srun [] ops)) = true /\
  all2 xeqb (map st_median (srun [] ops)) [Fin (qz 2); NaN; Fin 0; NaN; NaN; NaN] = true /\
  all2 xeqb (map st_mean (srun [] ops)) [Fin (qz 2); Fin (mkq 18 5); Fin 0; Fin (qz 2); Fin (qz 2); NaN] = true.
Proof. vm_compute. repeat split; reflexivity. Qed.
