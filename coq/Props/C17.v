(** C17 — Every supported input container gives the same histogram as its array. *)
From Physt Require Import Containers ContainersProofs FillOrder.
Local Open Scope Qc_scope.

(** What a container with NaN entries denotes: the rows without NaN together with THEIR weights, in order; nothing else is
    dropped. (The reference histogram of every check is physt's result on exactly these arrays.) *)
Theorem C17_dropna : forall rows ws, length rows = length ws ->
  let r' := fst (dropna rows ws) in let w' := snd (dropna rows ws) in
  length r' = length w' /\
  combine r' w' = filter (fun p => row_ok (fst p)) (combine rows ws) /\
  Forall (fun r => row_ok r = true) r' /\
  (forall r w, In (r, w) (combine rows ws) -> row_ok r = true -> In (r, w) (combine r' w')).
Proof. exact dropna_spec. Qed.
Print Assumptions C17_dropna.
Theorem C17_dropna_rows : forall rows r, In r (dropna_rows rows) <-> In r rows /\ row_ok r = true.
Proof. exact dropna_rows_spec. Qed.
Print Assumptions C17_dropna_rows.

(** Chunked in any way: the weighted tally of a data set into cells (by any placement function) is the cell-wise sum of
    the tallies of its chunks, for every split into any number of chunks of any sizes. *)
Theorem C17_two_chunks : forall A (place : A -> option nat) n a b, tally place n (a ++ b) = vadd (tally place n a) (tally place n b).
Proof. exact @tally_app. Qed.
Print Assumptions C17_two_chunks.
Theorem C17_any_chunking : forall A (place : A -> option nat) n chunks,
  tally place n (concat chunks) = fold_right vadd (zeros n) (map (tally place n) chunks).
Proof. exact @tally_chunks. Qed.
Print Assumptions C17_any_chunking.

Example C17_example :
  let rows := [[Fin (qz 1); Fin (qz 2)]; [NaN; Fin (qz 3)]; [Fin (qz 4); Fin (qz 5)]] in
  let ws := [qz 10; qz 20; qz 30] in
  length (fst (dropna rows ws)) = 2%nat /\ all2 Qceqb (snd (dropna rows ws)) [qz 10; qz 30] = true /\
  all2 Qceqb (tally (fun z : Z => if (z <? 2)%Z then Some (Z.to_nat z) else None) 2 [(0%Z, qz 1); (1%Z, qz 2); (5%Z, qz 9); (0%Z, qz 3)]) [qz 4; qz 2] = true.
Proof. vm_compute. repeat split; reflexivity. Qed.
