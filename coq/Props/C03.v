(** C03 — Incremental filling (fill / fill_n) equals batch construction. *)
From Physt Require Import Fill OrderQc FindProofs IndexProofs CalcNDProofs FillProofs FillOrder.
From Coq Require Import Permutation.

(** full statement: for every well-formed history the checker accepts the code's run *)
Definition C03_full_statement : Prop :=
  forall c, wf_c03 c = true ->
  all2 check_step (run_hist step_spec (f_init c) (f_ops c)) (map e_step (run_hist step_coded (f_init c) (f_ops c))) = true.

(** proved for every history in which no single fill() enters an INFINITE coordinate (rows containing a NaN are covered:
    they are skipped by the code as by the specification since /repo fix F19; infinite coordinates are not modelled) *)
Theorem C03_holds_partial : forall c, wf_axes (f_init c) = true -> forallb nan_free (f_ops c) = true ->
  all2 check_step (run_hist step_spec (f_init c) (f_ops c)) (map e_step (run_hist step_coded (f_init c) (f_ops c))) = true.
Proof. exact history_accepted. Qed.
Print Assumptions C03_holds_partial.

(** a value containing NaN is counted nowhere and leaves the histogram untouched (the former finding F19) *)
Theorem C03_nan_is_skipped : forall s v w, length v = length (s_axes s) -> existsb is_nan v = true ->
  step_coded s (Fill v w) = (s, RNone) /\ step_spec s (Fill v w) = (s, RNone).
Proof.
  intros s v w Hl Hn. unfold step_coded, step_spec, step. rewrite Hl, Nat.eqb_refl, Hn. split; reflexivity.
Qed.
Print Assumptions C03_nan_is_skipped.

(** find_bin (1-D, and per axis of N-D) returns the index of the bin that contains the value *)
Theorem C03_find_bin_is_spec : forall bins cl q, risingb bins = true -> bins <> [] ->
  find_axis_coded bins cl (Fin q) = find_axis_spec bins cl (Fin q).
Proof. exact find_coded_is_spec. Qed.
Print Assumptions C03_find_bin_is_spec.

(** one call of the code = one call of the specification (fill returns find_bin's index, fill_n = batch) *)
Theorem C03_step : forall s o, axes_ok (s_axes s) -> nan_free o = true -> step_coded s o = step_spec s o.
Proof. exact step_coded_is_spec. Qed.
Print Assumptions C03_step.

(** contents after a history = initial contents + sum of per-call vectors that do not depend on the contents *)
Theorem C03_final_is_sum : forall ops s, wf_len s ->
  let t := final_state step_spec s ops in
  s_freq t = fold_left vadd (map (dvec false s) ops) (s_freq s) /\
  s_err2 t = fold_left vadd (map (dvec true s) ops) (s_err2 s) /\ s_axes t = s_axes s.
Proof. exact final_is_sum. Qed.
Print Assumptions C03_final_is_sum.

(** any permutation of the same calls gives the same contents and squared errors *)
Theorem C03_order_irrelevant : forall ops ops' s, wf_len s -> Permutation ops ops' ->
  s_freq (final_state step_spec s ops) = s_freq (final_state step_spec s ops') /\
  s_err2 (final_state step_spec s ops) = s_err2 (final_state step_spec s ops').
Proof. exact fill_order_irrelevant. Qed.
Print Assumptions C03_order_irrelevant.

(** splitting a batch in two adds the same vector (N-D) *)
Theorem C03_chunk_invariance_nd : forall s r1 r2 sq, is1d s = false ->
  Forall (fun r => length r = length (s_axes s)) (r1 ++ r2) ->
  dvec sq s (FillN (r1 ++ r2) None true) = vadd (dvec sq s (FillN r1 None true)) (dvec sq s (FillN r2 None true)).
Proof. exact chunk_invariance_nd. Qed.
Print Assumptions C03_chunk_invariance_nd.

(** with keep_missed off an out-of-range value changes nothing (specification step) *)
Theorem C03_no_keep_no_change : forall axes f e m v w,
  length axes = 1%nat ->
  (find_axis_spec (fst (nth 0 axes ([], true))) true v = FUnder \/ find_axis_spec (fst (nth 0 axes ([], true))) true v = FOver) ->
  is_nan v = false ->
  fst (step_spec (Build_fstate axes f e m false) (Fill [v] w)) = Build_fstate axes f e m false.
Proof.
  intros axes f e m v w Hl Hf Hn. unfold step_spec, step. cbn [s_axes length]. rewrite Hl. cbn [Nat.eqb negb existsb orb andb].
  rewrite Hn. cbn [orb andb]. unfold is1d. cbn [s_axes]. rewrite Hl. cbn [Nat.eqb hd]. unfold fill_1d. cbn [s_axes s_keep].
  destruct Hf as [-> | ->]; reflexivity.
Qed.
Print Assumptions C03_no_keep_no_change.

Example C03_example :
  let s := Build_fstate [([(qz 0, qz 1); (qz 1, qz 2)], true)] [0; 0] [0; 0] [Fin 0; Fin 0; Fin 0] true in
  let ops := [Fill [Fin (qz 1)] (qz 2); FillN [[Fin (qz 2)]; [Fin (qz 5)]; [NaN]] None true; Fill [Fin (mkq (-1) 2)] 1] in
  wf_axes s = true /\ forallb nan_free ops = true /\
  s_freq (final_state step_coded s ops) = map qz [0; 3]%Z /\
  s_missed (final_state step_coded s ops) = [Fin (qz 1); Fin (qz 1); Fin 0].
Proof. vm_compute. repeat split; reflexivity. Qed.
