(** C10 — merge_bins conserves content and bin boundaries.
    Only theorem statements live here; proofs are in Proofs/MergeProofs.v. *)
From Physt Require Import Merge ArrLemmas MergeProofs.

(** Full refinement statement (the check applied to the model's own run). It is exercised on every
    generated case by the correspondence harness; its proved parts are the theorems below. *)
Definition C10_full_statement : Prop :=
  forall c, wf_c10 c = true -> check_C10 c (run_C10 c) = true.

(** Whatever the frequencies (negative ones included) and whatever the threshold, the map built by
    merge_bins(min_frequency=...) starts at 0, never decreases and rises by at most one per bin:
    every new bin is a union of adjacent old bins and no new index is skipped. *)
Theorem C10_minfreq_map_is_run_map : forall thr freqs, runs_from 0 (mf_map thr freqs).
Proof. exact mf_map_runs. Qed.
Print Assumptions C10_minfreq_map_is_run_map.

Theorem C10_minfreq_map_covers_every_bin : forall thr freqs, length (mf_map thr freqs) = length freqs.
Proof. exact mf_map_length. Qed.
Print Assumptions C10_minfreq_map_covers_every_bin.

Theorem C10_run_map_has_no_holes : forall l a, runs_from a l ->
  forall j, (a <= j)%nat -> (exists x, In x l /\ (j <= x)%nat) -> In j l.
Proof. exact runs_from_surj. Qed.
Print Assumptions C10_run_map_has_no_holes.

Theorem C10_amount_map_is_run_map : forall n a, (0 < a)%nat -> runs_from 0 (amount_map n a).
Proof. exact amount_map_runs. Qed.
Print Assumptions C10_amount_map_is_run_map.

(** Moving contents along any axis of an array of any dimension with any bin map conserves the sum. *)
Theorem C10_remap_conserves_sum : forall shape k m newn a,
  (k < length shape)%nat -> length a = size shape ->
  (forall i, (i < nth k shape 0)%nat -> (nth i m 0 < newn)%nat) ->
  sumq (remap_axis shape k m newn a) = sumq a.
Proof. exact remap_total. Qed.
Print Assumptions C10_remap_conserves_sum.

(** merge_bins as coded (amount or min_frequency, one axis or a list of axes, any dimension):
    if it is accepted, total, summed squared errors and missed counters are unchanged. *)
Theorem C10_merge_conserves : forall op ks h h',
  wfh h -> Forall (fun k => (k < length (h_bins h))%nat) ks -> merge_axes op h ks = Some h' ->
  total h' = total h /\ sumq (h_err2 h') = sumq (h_err2 h) /\ h_missed h' = h_missed h.
Proof. exact merge_axes_conserves. Qed.
Print Assumptions C10_merge_conserves.

(** non-vacuity: a concrete 2x3 histogram, merged by 2 along axis 1, meets the hypotheses and the check *)
Definition ex_h : hist :=
  mkHist [[(qz 0, qz 1); (qz 1, qz 3)]; [(qz 0, qz 1); (qz 1, qz 2); (qz 2, qz 4)]] [true; false]
         (map qz [1; 2; 3; 4; 5; 6]%Z) (map qz [1; 2; 3; 4; 5; 6]%Z) [Fin (qz 2)].
Example C10_example :
  wf_c10 (Build_c10 ex_h (Amount 2) [1%nat] true false) = true /\
  check_C10 (Build_c10 ex_h (Amount 2) [1%nat] true false) (run_C10 (Build_c10 ex_h (Amount 2) [1%nat] true false)) = true /\
  option_map h_freq (merge_axes (Amount 2) ex_h [1%nat]) = Some (map qz [3; 3; 9; 6]%Z).
Proof. vm_compute. repeat split; reflexivity. Qed.
