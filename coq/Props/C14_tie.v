(** C14 — tie by translation: Statistics.__add__ / mean / variance / INVALID_STATISTICS as translated from the CURRENT
    source of physt/statistics.py (tools/pytrans.py -> Gen/PyStats.v) are the model's functions. *)
From Physt Require Import TieBase PyStats Arith ScaleCases StatsCases TieStats.

Theorem C14_tie_add : forall a b, to_stats (g_ps_add xarith a b) = stats_add (to_stats a) (to_stats b).
Proof. exact gen_stats_add_is_model. Qed.
Print Assumptions C14_tie_add.

Theorem C14_tie_invalid : to_stats (g_ps_INVALID xarith) = invalid_stats.
Proof. exact gen_stats_invalid_is_model. Qed.
Print Assumptions C14_tie_invalid.

Theorem C14_tie_mean : forall s a w, ps_sum s = Fin a -> ps_weight s = Fin w -> g_ps_mean xarith s = st_mean (to_stats s).
Proof. exact gen_stats_mean_is_model. Qed.
Print Assumptions C14_tie_mean.

Theorem C14_tie_variance : forall s a b w, ps_sum s = Fin a -> ps_sum2 s = Fin b -> ps_weight s = Fin w ->
  g_ps_variance xarith s = st_var (to_stats s).
Proof. exact gen_stats_variance_is_model. Qed.
Print Assumptions C14_tie_variance.

Example C14_tie_example :
  let s := mk_ps (Fin (qz 6)) (Fin (qz 14)) (Fin (qz 1)) (Fin (qz 3)) (Fin (qz 3)) NaN in
  xeqb (g_ps_mean xarith s) (Fin (qz 2)) = true /\ xeqb (g_ps_variance xarith s) (Fin (mkq 2 3)) = true /\
  g_ps_mean xarith (g_ps_default xarith) = NaN /\ ps_min (g_ps_add xarith s (g_ps_INVALID xarith)) = NaN.
Proof. vm_compute. repeat split; reflexivity. Qed.

(** the statistics update inside Histogram1D.fill (translated from the current source of histogram1d.py) is the model's fill_stats *)
Theorem C14_tie_fill : forall s v w, to_stats (g_fill_stats xarith s (Fin v) (Fin w)) = fill_stats (to_stats s) v w.
Proof. exact gen_fill_stats_is_model. Qed.
Print Assumptions C14_tie_fill.
