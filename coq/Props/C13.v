(** C13 — Content dtype is consistent and never loses information. *)
From Physt Require Import DtypeCases ArithProofs DtypeProofs.

(** After any history (fill, fill_n, +, -, *, /, normalize, merge_bins, explicit dtype changes, refused calls included)
    the recorded dtype is the element type of frequencies and of errors2. *)
Theorem C13_dtype_invariant : forall ops h, cons h -> Forall op_cons ops -> Forall (fun x => cons (fst x)) (drun h ops).
Proof. exact dtype_inv. Qed.
Print Assumptions C13_dtype_invariant.

Theorem C13_unweighted_stays_int : forall h poss, dt_is_int (y_dt h) = true ->
  dt_is_int (y_dt (fst (dstep h (DFillN poss None I64)))) = true.
Proof. exact unweighted_stays_int. Qed.
Print Assumptions C13_unweighted_stays_int.

Theorem C13_int_weight_stays_int : forall h pos w k d, dt_is_int (y_dt h) = true -> kind_dt k = Some d -> dt_is_int d = true ->
  dt_is_int (y_dt (fst (dstep h (DFill pos w k)))) = true.
Proof. exact int_weight_stays_int. Qed.
Print Assumptions C13_int_weight_stays_int.

Theorem C13_float_weight_promotes : forall h pos w k d, kind_dt k = Some d -> dt_is_int d = false ->
  dt_is_int (y_dt (fst (dstep h (DFill pos w k)))) = false.
Proof. exact float_weight_promotes. Qed.
Print Assumptions C13_float_weight_promotes.

(** (a negative divisor is refused before anything is touched - /repo fix 24862f2 - hence the guard) *)
Theorem C13_division_promotes : forall h c k d, kind_dt k = Some d -> Qcltb c 0 = false ->
  dt_is_int (y_dt (fst (dstep h (DDiv c k)))) = false.
Proof. exact division_promotes. Qed.
Print Assumptions C13_division_promotes.

(** mixed-dtype arithmetic uses numpy's promotion, which is a semilattice join *)
Theorem C13_promotion_lattice :
  (forall a b, promote a b = promote b a) /\ (forall a b c, promote (promote a b) c = promote a (promote b c)) /\
  (forall a, promote a a = a) /\ (forall h d, y_dt (dcoerce h d) = promote (y_dt h) d).
Proof. repeat split; [exact promote_comm|exact promote_assoc|exact promote_idem|exact dcoerce_dt]. Qed.
Print Assumptions C13_promotion_lattice.

Theorem C13_float_to_int_only_if_integral_in_range : forall h t h', dt_is_int t = true -> dt_is_int (y_dt h) = false ->
  set_dtype h t = Some h' ->
  forallb is_integral (y_freq h) = true /\ forallb is_integral (y_err2 h) = true /\
  forallb (in_range_dt t) (y_freq h) = true /\ forallb (in_range_dt t) (y_err2 h) = true.
Proof. exact set_dtype_float_to_int. Qed.
Print Assumptions C13_float_to_int_only_if_integral_in_range.

Theorem C13_narrowing_only_in_range : forall h t h', can_cast (y_dt h) t = false -> t <> y_dt h ->
  set_dtype h t = Some h' ->
  forallb (in_range_dt t) (y_freq h) = true /\ forallb (in_range_dt t) (y_err2 h) = true.
Proof. exact set_dtype_narrowing_in_range. Qed.
Print Assumptions C13_narrowing_only_in_range.

Theorem C13_refused_change_changes_nothing : forall h t, set_dtype h t = None -> dstep h (DSet t) = (h, true).
Proof. exact set_dtype_refused_unchanged. Qed.
Print Assumptions C13_refused_change_changes_nothing.

Example C13_example :
  let h := mkDh [AStatic [(qz 0, qz 1); (qz 1, qz 2)] true] I16 I16 I16 (map qz [3; 4]%Z) (map qz [3; 4]%Z) [Fin 0; Fin 0; Fin 0] in
  map (fun x => (y_dt (fst x), snd x)) (drun h [DFill 0 (qz 2) "pyint"; DMul (mkq 1 2) "np.float32"; DSet I16; DFill 1 (mkq 1 2) "pyfloat"; DSet I16; DSet F16])
  = [(I64, false); (F64, false); (F64, true); (F64, false); (F64, true); (F16, false)].
Proof. vm_compute. reflexivity. Qed.
