(** C12 — Derived histograms are independent of their sources. *)
From Physt Require Import Heap HeapProofs.
Local Open Scope nat_scope.

(** Ownership is an invariant of every history of derivations and mutations: each live object's components lie below the
    allocation pointer and any two live objects have disjoint components. *)
Theorem C12_ownership_invariant : forall ops w, owned w -> owned (hrun w ops).
Proof. exact owned_run. Qed.
Print Assumptions C12_ownership_invariant.

(** Non-interference: a mutation through one object (fill incl. growth of its binning objects, in-place arithmetic, dtype
    change, metadata edit, in-place merge — any write to any of its components) leaves what every other live object shows
    exactly as it was. *)
Theorem C12_mutation_is_local : forall w tgt which v j ob, owned w -> j <> tgt ->
  nth_error (w_objs w) j = Some ob ->
  observe (w_heap (hstep w (HMutate tgt which v))) ob = observe (w_heap w) ob.
Proof. exact mutation_is_local. Qed.
Print Assumptions C12_mutation_is_local.

(** Operations that are not in-place never modify their operands: a derivation writes only what it allocates. *)
Theorem C12_derivation_is_pure : forall w src nb init j ob, owned w -> nth_error (w_objs w) j = Some ob ->
  observe (w_heap (hstep w (HDerive src nb init))) ob = observe (w_heap w) ob.
Proof. exact derivation_is_pure. Qed.
Print Assumptions C12_derivation_is_pure.

(** consequently, after ANY history, mutating one object changes no other *)
Theorem C12_holds : forall ops h0 tgt which v j ob, j <> tgt ->
  let w := hrun (mkW h0 0 []) ops in
  nth_error (w_objs w) j = Some ob ->
  observe (w_heap (hstep w (HMutate tgt which v))) ob = observe (w_heap w) ob.
Proof.
  intros ops h0 tgt which v j ob Hj w Hob. apply (mutation_is_local w tgt which v j ob); auto. apply owned_run. apply owned_empty.
Qed.
Print Assumptions C12_holds.

Example C12_example :
  let w := hrun (mkW (fun _ => 0) 0 []) [HDerive 0 2 (fun l => l); HDerive 0 1 (fun l => 10 + l); HMutate 0 0 99; HMutate 1 2 77] in
  map locs (w_objs w) = [[0; 1; 2; 3; 4; 5]; [6; 7; 8; 9; 10]] /\
  map (observe (w_heap w)) (w_objs w) = [[99; 1; 2; 3; 4; 5]; [16; 17; 77; 19; 20]].
Proof. vm_compute. split; reflexivity. Qed.
