(** C11 — Indexing and slicing follow numpy semantics on the bin grid. *)
From Physt Require Import Index ArrLemmas IndexProofs2.
From Coq Require Import Permutation Sorting.Sorted.

Definition C11_full_statement : Prop := forall c, wf_c11 c = true ->
  check_C11 c (e_iout (Nat.eqb (length (h_bins (nh (q_h c)))) 1) (run_C11 c)) = true.

(** a non-empty contiguous slice [start:stop] (any start/stop incl. negative, None, out of range) conserves
    total + underflow + overflow: what is cut off on the left/right is what is added to under/overflow *)
Theorem C11_slice_conserves : forall (f : list Qc) (a b : option Z),
  let n := length f in let s := slice_start n a in let e := slice_stop n b in
  (s <= e)%nat ->
  sumq (take_list 0 (range_step n s e 1) f) + sumq (firstn s f) + sumq (skipn e f) = sumq f.
Proof. exact slice_conserves. Qed.
Print Assumptions C11_slice_conserves.

Theorem C11_contiguous_slice_is_a_range : forall fuel s e, (e - s <= fuel)%nat -> range_step fuel s e 1 = seq s (e - s).
Proof. exact range_step_seq. Qed.
Print Assumptions C11_contiguous_slice_is_a_range.

Theorem C11_int_index : forall n z i, norm_int n z = Some i ->
  (i < n)%nat /\ Z.of_nat i = (if (z <? 0)%Z then z + Z.of_nat n else z)%Z.
Proof. exact norm_int_spec. Qed.
Print Assumptions C11_int_index.

(** index arrays: a sorted permutation of the requested bins *)
Theorem C11_index_array_increasing : forall l, Sorted le (sort_nat l) /\ Permutation l (sort_nat l).
Proof. intros l. split. apply sort_nat_sorted. apply sort_nat_perm. Qed.
Print Assumptions C11_index_array_increasing.

Theorem C11_nd_pointwise : forall shape sels a i', in_range i' (snd (take_nd shape sels a)) ->
  exists src, get 0 (snd (take_nd shape sels a)) (fst (take_nd shape sels a)) i' = get 0 shape a src.
Proof. exact take_nd_pointwise. Qed.
Print Assumptions C11_nd_pointwise.

Example C11_example :
  let h := Build_nhist (mkHist [[(qz 0, qz 1); (qz 1, qz 2); (qz 2, qz 3); (qz 3, qz 4)]] [true]
                               (map qz [1; 2; 4; 8]%Z) (map qz [1; 2; 4; 8]%Z) []) ["x"]%string in
  let c := Build_c11 h (Fin (qz 16)) (Fin (qz 32)) true [ISlice (Some (-3)%Z) (Some 3%Z) None] false in
  wf_c11 c = true /\ check_C11 c (e_iout true (run_C11 c)) = true /\
  match run_C11 c with OHist x u o => h_freq (nh x) = map qz [2; 4]%Z /\ u = Fin (qz 17) /\ o = Fin (qz 40) | _ => False end /\
  run_C11 (Build_c11 h (Fin 0) (Fin 0) true [ISlice None None (Some (-1)%Z)] false) = ORefused /\
  run_C11 (Build_c11 h (Fin 0) (Fin 0) true [IInt 4%Z] false) = ORefused.
Proof. vm_compute. repeat split; reflexivity. Qed.
