(** C06 — tie by translation: Statistics.__mul__ as translated from the CURRENT source of physt/statistics.py is the
    model's stats_mul (sum, sum2 and weight scale linearly; min, max and median stay). *)
From Physt Require Import TieBase PyStats Arith ScaleCases TieStats.

Theorem C06_tie_mul : forall a c, to_stats (g_ps_mul xarith a (Fin c)) = stats_mul (to_stats a) c.
Proof. exact gen_stats_mul_is_model. Qed.
Print Assumptions C06_tie_mul.

(** hence the translated mean is invariant under scaling by any non-zero factor (finite statistics) *)
Theorem C06_tie_mean_invariant : forall s a w c, ps_sum s = Fin a -> ps_weight s = Fin w -> c <> 0 ->
  g_ps_mean xarith (g_ps_mul xarith s (Fin c)) = g_ps_mean xarith s.
Proof. exact gen_mean_scale_invariant. Qed.
Print Assumptions C06_tie_mean_invariant.
