(** C05 — tie by translation: FixedWidthBinning._adapt (with _force_new_min_max / _set_min_and_count), translated from the
    CURRENT source of physt/binnings.py, computes the union grid and the two bin maps of the model's adapt_axis. *)
From Physt Require Import TieBase PyFW Arith TieAdapt.

(** model_adapt_fixed is literally the fixed / fixed branch of adapt_axis (what __iadd__ reaches when the bins differ) *)
Theorem C05_tie_model_branch : forall w sh t n incl ad w' sh' t' n' ad',
  let a := AFixed w sh t n incl ad in let b := AFixed w' sh' t' n' false ad' in
  adapt_axis a b =
  if bins_equal (axis_bins a) (axis_bins b) && Nat.eqb (axis_len a) (axis_len b)
  then Ok (a, None, None, axis_len a)
  else model_adapt_fixed w sh t n incl ad w' sh' t' n'.
Proof. exact model_adapt_fixed_is_adapt_axis. Qed.
Print Assumptions C05_tie_model_branch.

(** For every pair of fixed-width binnings (any widths, shifts, ranges, empty or not): the translated _adapt raises exactly when
    the model refuses (different width or shift); otherwise self becomes the model's new axis - the union of both ranges on the
    common grid - and the two returned bin maps are the model's left shifts: None (nothing moves), () (no old contents), or
    the pairs (i, i + shift) for every old bin. *)
Theorem C05_tie_adapt_is_model : forall fuel w sh t n al ir w' sh' t' n' al' ir' incl ad,
  match model_adapt_fixed w sh t n incl ad w' sh' t' n', g_fw_adapt xarith fuel (st_of w sh t n al ir) (st_of w' sh' t' n' al' ir') with
  | Err _, Raised => True
  | Ok (AFixed w2 sh2 t2 n2 _ _, s1, s2, newn), Done (st', (m1, m2)) =>
      st' = st_of w2 sh2 t2 n2 al ir /\ newn = n2 /\ amap_ok m1 s1 n /\ amap_ok m2 s2 n'
  | _, _ => False end.
Proof. exact gen_adapt_is_model. Qed.
Print Assumptions C05_tie_adapt_is_model.

Example C05_tie_example :
  g_fw_adapt xarith 0 (st_of 1 0 2 3 true false) (st_of 1 0 (-1) 2 true false) =
  Done (st_of 1 0 (-1) 6 true false, (AMList [(0, 3); (1, 4); (2, 5)]%Z, AMList [(0, 0); (1, 1)]%Z)).
Proof. vm_compute. reflexivity. Qed.
