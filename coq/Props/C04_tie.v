(** C04 — tie by translation: FixedWidthBinning._force_bin_existence_single / _cover_value / _drop_unneeded_bins as
    translated from the CURRENT source of physt/binnings.py (tools/pytrans.py -> Gen/PyFW.v). *)
From Physt Require Import TieBase PyFW Adaptive AdaptiveProofs TieFW TieFloat.
From Coq Require Import PrimFloat.

(** Whatever the rounding: for ANY float arithmetic whose comparisons obey four order laws (true of IEEE-754 binary64),
    whenever the code returns for a finite value, the value lies inside the edges as the code computes them:
    not (v < first_edge) and not (v > last_edge or (v == last_edge and the right edge is excluded)). *)
Theorem C04_tie_value_covered_whatever_the_rounding :
  forall (F : Type) (A : arith F),
  (forall a b, flt A a b = true -> flt A b a = false) ->
  (forall a b, flt A a b = true -> feq A a b = false) ->
  (forall a b, feq A a b = true -> flt A b a = false) ->
  (forall a b, fle A a b = true -> flt A b a = false) ->
  forall fuel st v incl st' r,
  fisfinite A v = true ->
  g_fw_force_bin_existence_single A fuel st v (Some incl) = Done (st', r) ->
  flt A v (g_fw_first_edge A st') = false /\
  flt A (g_fw_last_edge A st') v || (feq A v (g_fw_last_edge A st') && negb incl) = false.
Proof. intros F A. exact (force_single_covers_any_arith A). Qed.
Print Assumptions C04_tie_value_covered_whatever_the_rounding.

(** the premises are satisfiable: exact extended rationals obey the four laws *)
Theorem C04_tie_value_covered_exact : forall fuel st v incl st' r,
  g_fw_force_bin_existence_single xarith fuel st (Fin v) (Some incl) = Done (st', r) ->
  xlt (Fin v) (g_fw_first_edge xarith st') = false /\
  xlt (g_fw_last_edge xarith st') (Fin v) || (xfeq (Fin v) (g_fw_last_edge xarith st') && negb incl) = false.
Proof. exact force_single_covers_exact. Qed.
Print Assumptions C04_tie_value_covered_exact.

(** In exact arithmetic the current code IS the model: for every grid (positive width), value and fuel >= 1 the translated
    _force_bin_existence_single returns exactly the model's new binning and bin map — the loops added by the repair never
    iterate.  Hence C04_value_is_covered, C04_grid_and_contents_kept ... (Props/C04.v) speak about the current source. *)
Theorem C04_tie_code_is_model : forall fuel b v ir, 0 < f_w b -> (1 <= fuel)%nat ->
  g_fw_force_bin_existence_single xarith fuel (embed b ir) (Fin v) (Some false) =
  Done (embed (fst (force_single b v false)) ir, embed_ret (snd (force_single b v false))).
Proof. exact gen_force_single_is_model. Qed.
Print Assumptions C04_tie_code_is_model.

Example C04_tie_example :
  g_fw_force_bin_existence_single xarith 10 (mk_fw 0 0 (Fin (mkq 1 2)) (Fin 0) true false) (Fin (mkq 7 4)) None
  = Done (mk_fw 3 1 (Fin (mkq 1 2)) (Fin 0) true false, OITuple0) /\
  g_fw_force_bin_existence_single xarith 10 (mk_fw 3 1 (Fin (mkq 1 2)) (Fin 0) true false) (Fin (qz (-1))) None
  = Done (mk_fw (-2) 6 (Fin (mkq 1 2)) (Fin 0) true false, OIInt 5).
Proof. vm_compute. split; reflexivity. Qed.

(** the array branch (fill_n): after numpy reduced the batch to its minimum and maximum, the current code is the model's
    force_array - minimum first, then maximum, the first bin map that is not None is the one returned *)
Theorem C04_tie_array_branch_is_model : forall fuel b mn mx, 0 < f_w b -> (1 <= fuel)%nat ->
  g_fw_force_min_max xarith fuel (embed b false) (Fin mn) (Fin mx) None =
  Done (embed (fst (force_single (fst (force_single b mn false)) mx false)) false,
        embed_ret (match snd (force_single b mn false) with
                   | BNone => snd (force_single (fst (force_single b mn false)) mx false)
                   | r => r end)).
Proof. exact gen_force_min_max_is_model. Qed.
Print Assumptions C04_tie_array_branch_is_model.

(** ... and in binary64 itself (Coq's primitive floats, evaluated by the kernel exactly as IEEE-754 prescribes): whenever the
    current code returns for a finite double, the value lies inside the edges the code computes, whatever floor, ceil, the
    products and the sums round to.  Depends on the standard library's axioms FloatAxioms.ltb_spec / leb_spec / eqb_spec
    (specification of the primitive comparisons), listed by Print Assumptions below and named in the trusted base. *)
Theorem C04_tie_value_covered_binary64 : forall fuel (st : @fwst float) (v : float) incl st' r,
  pf_finite v = true ->
  g_fw_force_bin_existence_single parith fuel st v (Some incl) = Done (st', r) ->
  PrimFloat.ltb v (g_fw_first_edge parith st') = false /\
  (PrimFloat.ltb (g_fw_last_edge parith st') v || (PrimFloat.eqb v (g_fw_last_edge parith st') && negb incl)) = false.
Proof. exact force_single_covers_binary64. Qed.
Print Assumptions C04_tie_value_covered_binary64.

(** the translated code evaluated in binary64 on the input that defeated the unrepaired code (width 0.1, value 1.7, empty
    binning): one bin starting at 16 * 0.1, exactly what physt returns *)
Example C04_tie_binary64_example :
  g_fw_force_bin_existence_single parith 5 (mk_fw 0%Z 0%Z (0.1)%float 0%float true false) (1.7)%float None =
  Done (mk_fw 16%Z 1%Z (0.1)%float 0%float true false, OITuple0).
Proof. vm_compute. reflexivity. Qed.
