(** C07 — Every binning schema is well-formed, covers its data and obeys its rule. *)
From Physt Require Import Binning BinningProofs.
Local Open Scope Qc_scope.

(** The pair and edge representations determine each other: edges -> pairs -> edges is the identity, pairs -> edges -> pairs
    is the identity exactly for consecutive pairs, pairs built from edges are consecutive, and they are rising exactly when
    the edges are strictly increasing. *)
Theorem C07_edges_pairs_edges : forall a b r, to_edges (from_edges (a :: b :: r)) = a :: b :: r.
Proof. exact to_from_edges. Qed.
Print Assumptions C07_edges_pairs_edges.
Theorem C07_pairs_edges_pairs : forall l, l <> [] -> consecutive_exact l = true -> from_edges (to_edges l) = l.
Proof. exact from_to_edges. Qed.
Print Assumptions C07_pairs_edges_pairs.
Theorem C07_edges_give_consecutive : forall e, consecutive_exact (from_edges e) = true.
Proof. exact from_edges_consecutive. Qed.
Print Assumptions C07_edges_give_consecutive.
Theorem C07_rising_iff_increasing : forall e, risingb (from_edges e) = increasing e.
Proof. exact from_edges_rising. Qed.
Print Assumptions C07_rising_iff_increasing.

(** The masked-edge representation agrees with the pairs for every binning, gapped or not: the i-th mask entry is the
    position of the i-th bin's left edge and the following edge is its right edge. *)
Theorem C07_mask_agrees : forall l, l <> [] ->
  length (snd (edges_mask l)) = length l /\
  forall i, (i < length l)%nat ->
    nth (nth i (snd (edges_mask l)) O) (fst (edges_mask l)) 0 = fst (nth i l (0, 0)) /\
    nth (S (nth i (snd (edges_mask l)) O)) (fst (edges_mask l)) 0 = snd (nth i l (0, 0)).
Proof. exact mask_correct. Qed.
Print Assumptions C07_mask_agrees.

(** Every slice of a well-formed binning is well-formed. *)
Theorem C07_slices_well_formed : forall a b l, risingb l = true -> risingb (slice_bins a b l) = true.
Proof. exact slice_rising. Qed.
Print Assumptions C07_slices_well_formed.

(** "Nearest pretty width": when the raw width lies between the geometric means with the two neighbouring pretty widths, no
    width at or beyond a neighbour is closer on the logarithmic scale (ratio form: w/raw and raw/w against c/raw and raw/c). *)
Theorem C07_pretty_is_nearest : forall raw w lo hi c, 0 < raw -> 0 < lo -> lo < w -> w < hi ->
  raw * raw <= w * hi -> w * lo <= raw * raw -> 0 < c ->
  (hi <= c -> w <= c /\ raw * raw <= w * c) /\ (c <= lo -> c <= w /\ w * c <= raw * raw).
Proof. exact pretty_nearest. Qed.
Print Assumptions C07_pretty_is_nearest.

(** The integer inequalities that state k = ceil(log2 n) + 1, ceil(sqrt n), ceil(2 n^(1/3)) determine k. *)
Theorem C07_sturges_determined : forall n k k', sturges_ok n k = true -> sturges_ok n k' = true -> k = k'.
Proof. exact sturges_unique. Qed.
Print Assumptions C07_sturges_determined.
Theorem C07_sqrt_determined : forall n k k', sqrt_ok n k = true -> sqrt_ok n k' = true -> k = k'.
Proof. exact sqrt_unique. Qed.
Print Assumptions C07_sqrt_determined.
Theorem C07_rice_determined : forall n k k', rice_ok n k = true -> rice_ok n k' = true -> k = k'.
Proof. exact rice_unique. Qed.
Print Assumptions C07_rice_determined.

Example C07_example :
  let l := [(qz 0, qz 1); (qz 1, qz 3); (qz 4, qz 5)] in
  risingb l = true /\ edges_mask l = ([qz 0; qz 1; qz 3; qz 4; qz 5], [0; 1; 3]%nat) /\
  consecutive_exact l = false /\ is_regular_exact l = false /\
  pretty_ok (mkq 43 10) (qz 5) = true /\ pretty_ok (mkq 43 10) (qz 2) = false /\ pretty_ok (mkq 3 1000) (mkq 25 10000) = true /\
  sturges_ok 1024 11 = true /\ sturges_ok 1025 12 = true /\ rice_ok 1000 20 = true /\ rice_ok 1001 21 = true /\ sqrt_ok 10 4 = true.
Proof. vm_compute. repeat split; reflexivity. Qed.
