(** C06 — Scaling, division and normalisation are exactly linear. *)
From Physt Require Import ScaleCases OrderQc ArithProofs ScaleProofs.

Definition C06_full_statement : Prop := forall c, wf_c06 c = true ->
  check_C06 c (e_list e_sres (run_chain (k_h c) (k_ops c))) = true.

Theorem C06_mul_div_cancel : forall h c k k' x y, c <> 0 -> Forall not_inf (ah_missed h) ->
  imul_k h c k = Ok x -> idiv_k x c k' = Ok y ->
  ah_freq y = ah_freq h /\ ah_err2 y = ah_err2 h /\ ah_missed y = ah_missed h /\ ah_axes y = ah_axes h.
Proof. exact mul_div_cancel. Qed.
Print Assumptions C06_mul_div_cancel.

Theorem C06_chains_multiply : forall h c1 c2 k1 k2 x y, imul_k h c1 k1 = Ok x -> imul_k x c2 k2 = Ok y ->
  ah_freq y = map (Qcmult (c2 * c1)) (ah_freq h) /\ ah_err2 y = map (Qcmult ((c2 * c1) * (c2 * c1))) (ah_err2 h).
Proof. exact mul_mul. Qed.
Print Assumptions C06_chains_multiply.

Theorem C06_total_linear : forall h c k x, imul_k h c k = Ok x -> ah_total x = c * ah_total h.
Proof. exact mul_total. Qed.
Print Assumptions C06_total_linear.

Theorem C06_normalize_total_one : forall h k x, ah_total h <> 0 -> idiv_k h (ah_total h) k = Ok x -> ah_total x = 1.
Proof. exact normalize_total_one. Qed.
Print Assumptions C06_normalize_total_one.

Theorem C06_stats_invariant : forall s c sum sum2 w, c <> 0 ->
  st_sum s = Fin sum -> st_sum2 s = Fin sum2 -> st_weight s = Fin w -> w <> 0 ->
  st_mean (stats_mul s c) = st_mean s /\ st_min (stats_mul s c) = st_min s /\ st_max (stats_mul s c) = st_max s /\
  st_weight (stats_mul s c) = Fin (c * w).
Proof. exact stats_scale_invariant. Qed.
Print Assumptions C06_stats_invariant.

Theorem C06_variance_invariant : forall s c sum sum2 w, 0 < c ->
  st_sum s = Fin sum -> st_sum2 s = Fin sum2 -> st_weight s = Fin w -> 0 < w ->
  st_var (stats_mul s c) = st_var s.
Proof. exact variance_scale_invariant. Qed.
Print Assumptions C06_variance_invariant.

(** a negative factor (or divisor) is refused whatever the contents, also when they are all zero (/repo fix: before, h * -1 on
    empty contents went through and negated the missed counts) *)
Theorem C06_negative_factor_refused : forall h c k d, kind_dt k = Some d -> c < 0 ->
  imul_k h c k = Err EValue /\ idiv_k h c k = Err EValue.
Proof. intros. split; [eapply negative_factor_refused | eapply negative_divisor_refused]; eauto. Qed.
Print Assumptions C06_negative_factor_refused.

Example C06_example :
  let h := mkAh [AStatic [(qz 0, qz 1); (qz 1, qz 3)] true] (map qz [1; 3]%Z) (map qz [1; 3]%Z) [Fin (qz 2); Fin 0; Fin 0] I64
                (Some (mkStats (Fin (qz 6)) (Fin (qz 10)) (Fin 0) (Fin (qz 2)) (Fin (qz 4)) NaN)) true in
  let c := Build_c06 h [SMul (qz 2) "pyint" FCopy; SNorm false false; SMul (qz (-1)) "pyint" FInplace] 0 in
  wf_c06 c = true /\ check_C06 c (e_list e_sres (run_chain (k_h c) (k_ops c))) = true /\
  map (fun r => match r with SOk x => Some (ah_freq x) | _ => None end) (run_chain (k_h c) (k_ops c))
  = [Some (map qz [2; 6]%Z); Some [mkq 1 4; mkq 3 4]; None].
Proof. vm_compute. repeat split; reflexivity. Qed.
