(** C09 — Projections are exact marginals. *)
From Physt Require Import Project ArrLemmas MergeProofs ProjectProofs.

(** pointwise: each cell of the projection is the sum over all parent cells that agree with it on the kept axes *)
Theorem C09_marginal_pointwise : forall shape kept a i', in_range i' (restrict 0%nat kept shape) ->
  get 0 (restrict 0%nat kept shape) (marginal shape kept a) i' =
  sumf (fun idx => if list_eqb (restrict 0%nat kept idx) i' then get 0 shape a idx else 0) (indices shape).
Proof. exact marginal_pointwise. Qed.
Print Assumptions C09_marginal_pointwise.

(** the projection's total is the parent's total (any dimension, any kept axes; same for squared errors) *)
Theorem C09_total_preserved : forall shape kept a,
  length a = size shape -> Forall (fun k => (k < length shape)%nat) kept ->
  sumq (marginal shape kept a) = sumq a.
Proof. exact marginal_total. Qed.
Print Assumptions C09_total_preserved.

(** projecting in steps equals projecting once onto the final axes *)
Theorem C09_steps_equal_once : forall shape k1 k2 a,
  Forall (fun k => (k < length shape)%nat) k1 -> Forall (fun k => (k < length k1)%nat) k2 ->
  marginal (restrict 0%nat k1 shape) k2 (marginal shape k1 a) = marginal shape (restrict 0%nat k2 k1) a.
Proof. exact marginal_steps. Qed.
Print Assumptions C09_steps_equal_once.

Theorem C09_T_involutive : forall n m a, length a = (n * m)%nat -> transpose2 [m; n] (transpose2 [n; m] a) = a.
Proof. exact transpose2_involutive. Qed.
Print Assumptions C09_T_involutive.

(** refinement on a concrete chain: the checker accepts the model's own run; unknown/duplicate/empty axis lists are refused *)
Example C09_example :
  let h := Build_nhist (mkHist [[(qz 0, qz 1); (qz 1, qz 2)]; [(qz 0, qz 1); (qz 1, qz 2); (qz 2, qz 3)]] [true; true]
                               (map qz [1; 2; 3; 4; 5; 6]%Z) (map qz [1; 2; 3; 4; 5; 6]%Z) [Fin 0]) ["x"; "y"]%string in
  map (option_map (fun x => h_freq (nh x))) (prun h [PProject [1%Z]; PProject [0%Z; 0%Z]; PProject []; PProject [(-1)%Z]; PT])
  = [Some (map qz [5; 7; 9]%Z); None; None; None; None] /\
  option_map (fun x => h_freq (nh x)) (pstep h PT) = Some (map qz [1; 4; 2; 5; 3; 6]%Z) /\
  option_map (fun x => h_freq (nh x)) (pstep h (PAccumulate 1%Z)) = Some (map qz [1; 3; 6; 4; 9; 15]%Z).
Proof. vm_compute. repeat split; reflexivity. Qed.
