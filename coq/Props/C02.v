(** C02 — ND construction: each row counted once, in the cell that contains it. *)
From Physt Require Import Fill OrderQc FindProofs IndexProofs CalcNDProofs.

(** Refinement for every case (any dimension, any number of rows, NaN rows, weights, gapped /
    right-inclusive / right-exclusive axes, invalid input): the checker stating the property accepts
    what calculate_nd_frequencies + the facade compute. *)
Theorem C02_holds : forall c,
  check_nd c (match run_nd c with Some r => e_resN r | None => LL [SS "refused"] end) = true.
Proof. exact check_nd_accepts_run. Qed.
Print Assumptions C02_holds.

(** the per-axis engine: numpy.histogramdd over masked edges (+inf bin unless the right edge is
    included) finds exactly the bin with left <= x < right (last bin closed iff includes_right_edge);
    gaps and outside values give None *)
Theorem C02_axis_index : forall bins incl x, risingb bins = true -> bins <> [] ->
  axis_index_coded bins incl x = axis_index_spec bins incl x.
Proof. exact axis_index_coded_is_spec. Qed.
Print Assumptions C02_axis_index.

(** total + missed = input weight, by construction of the specification *)
Theorem C02_total_plus_missed : forall idx axes rows,
  sumq (n_freq (calc_nd idx axes rows)) + n_missed (calc_nd idx axes rows) = sumq (map snd rows).
Proof. intros. unfold calc_nd. cbn [n_freq n_missed]. ring. Qed.
Print Assumptions C02_total_plus_missed.

(** axes are never mixed: the cell of a row is found coordinate by coordinate, axis k looking at column k only *)
Theorem C02_axes_not_mixed : forall idx a axes x row,
  row_cell idx (a :: axes) (x :: row) =
  match idx (fst a) (snd a) x with
  | Some i => match row_cell idx axes row with Some l => Some (i :: l) | None => None end
  | None => None end.
Proof. intros. unfold row_cell. cbn [combine mapM fst snd]. destruct (idx (fst a) (snd a) x); reflexivity. Qed.
Print Assumptions C02_axes_not_mixed.

Example C02_example :
  let ax1 := ([(qz 0, qz 1); (qz 2, qz 3)], false) in
  let ax2 := ([(qz 0, qz 2); (qz 2, qz 4)], true) in
  let c := Build_c02 [[Fin (qz 0); Fin (qz 4)]; [Fin (qz 3); Fin (qz 1)]; [Fin (mkq 3 2); Fin (qz 1)]; [NaN; Fin (qz 1)]]
                     (Some (map qz [1; 2; 4; 8]%Z)) [ax1; ax2] true true in
  invalid_nd c = false /\
  option_map n_freq (run_nd c) = Some (map qz [0; 1; 0; 0]%Z) /\ option_map n_missed (run_nd c) = Some (qz 6).
Proof. vm_compute. repeat split; reflexivity. Qed.
