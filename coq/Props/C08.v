(** C08 — JSON round trip reproduces the histogram exactly. *)
From Physt Require Import Json JsonProofs.
Local Open Scope string_scope.

(** Reading the document of ANY well-formed histogram (every class, any number of axes, every binning type, every dtype,
    any contents / errors / missed counters incl. NaN markers in integer histograms, keep_missed on or off, arbitrary JSON
    metadata) succeeds and gives back the same class, binnings (types, parameters, adaptivity), dtype, contents, squared
    errors, missed counters, keep_missed and axis names, and metadata with the same value under every key. *)
Theorem C08_roundtrip : forall h, wf_rt h -> exists h', of_doc (to_doc h) = Some h' /\ same_but_meta h' h.
Proof. exact roundtrip. Qed.
Print Assumptions C08_roundtrip.

(** Serialising the parsed object again gives the same document (metadata compared key by key: JSON objects are unordered). *)
Theorem C08_same_document_again : forall h, wf_rt h -> exists h', of_doc (to_doc h) = Some h' /\
  to_doc (strip_meta h') = to_doc (strip_meta h) /\
  forall k, lookup k (j_meta h' ++ [("axis_names", jarr (j_names h'))])%list = lookup k (j_meta h ++ [("axis_names", jarr (j_names h))])%list.
Proof. exact roundtrip_twice. Qed.
Print Assumptions C08_same_document_again.

(** Collections: member by member. *)
Theorem C08_members : forall l, Forall wf_rt l -> exists l', mapM of_doc (map to_doc l) = Some l' /\ Forall2 same_but_meta l' l.
Proof. exact members_rt. Qed.
Print Assumptions C08_members.

(** Versions: the comparison is a total order on version keys (reflexive, antisymmetric, transitive, compatible with key
    equality); a document is refused exactly when the running version is older than the required one. *)
Theorem C08_version_order : Good vcmp.
Proof. exact good_vcmp. Qed.
Print Assumptions C08_version_order.
Theorem C08_refused_iff_newer : forall cur req, refuses cur req = true <-> vcmp cur req = Lt.
Proof. exact refuses_iff. Qed.
Print Assumptions C08_refused_iff_newer.
Theorem C08_refusal_monotone : forall cur req req', refuses cur req = true -> vcmp req req' <> Gt -> refuses cur req' = true.
Proof. exact refuses_monotone. Qed.
Print Assumptions C08_refusal_monotone.
Theorem C08_accepts_not_newer : forall cur req, vcmp req cur <> Gt -> refuses cur req = false.
Proof. exact accepts_older. Qed.
Print Assumptions C08_accepts_not_newer.

(** the hypotheses are satisfiable: an integer SphericalSurfaceHistogram over an adaptive fixed-width axis and a gapped
    static axis with custom metadata *)
Example C08_example :
  let h := mkJh "SphericalSurfaceHistogram"
             [mkJaxis (JFixed 2 (Fin (mkq 1 2)) (QQ (mkq 1 4)) (Some (-3)%Z)) true;
              mkJaxis (JStatic [(ZZ 0, ZZ 1); (ZZ 2, ZZ 5)]) false]
             I32 (map (fun z => Fin (qz z)) [1; 0; 7; 2]%Z) (map (fun z => Fin (qz z)) [1; 0; 9; 2]%Z) [Fin (qz 4)] false true
             [("name", jstr "n"); ("radius", QQ (mkq 5 2)); ("tags", jarr [ZZ 1; jnull])] [jstr "theta"; jnull] in
  wf_rt h /\ match of_doc (to_doc h) with Some h' => j_freq h' = j_freq h /\ lookup "radius" (j_meta h') = Some (QQ (mkq 5 2)) | None => False end.
Proof.
  cbv zeta. split.
  - constructor; cbn [j_cls j_axes j_dt j_freq j_err2 j_missed j_missed_float j_keep j_meta j_names].
    + exists false, None, ["theta"; "phi"], [("radius", ZZ 1)]. repeat split; try discriminate; try reflexivity.
      * cbn. intros k [<-|[]]. right. left. reflexivity.
      * exists (Fin (qz 4)). repeat split; reflexivity.
    + split; [|discriminate]. repeat constructor; cbn; try discriminate; try lia; auto.
    + split; [repeat constructor|reflexivity].
    + split; [repeat constructor|reflexivity].
    + split; [|split].
      * repeat constructor; cbn; intuition discriminate.
      * repeat constructor.
      * cbn. intuition discriminate.
    + discriminate.
  - vm_compute. split; reflexivity.
Qed.

Example C08_version_examples :
  let v r := mkVer 0 r None None None in
  vcmp (v [0; 10]%Z) (v [0; 9; 3]%Z) = Gt /\ vcmp (v [1; 0]%Z) (v [1; 0; 0]%Z) = Eq /\
  vcmp (mkVer 0 [1; 0]%Z (Some (2, 1)%Z) None None) (v [1; 0]%Z) = Lt /\
  vcmp (mkVer 0 [1; 0]%Z None None (Some 1%Z)) (mkVer 0 [1; 0]%Z (Some (0, 1)%Z) None None) = Lt /\
  vcmp (mkVer 0 [1; 0]%Z None (Some 1%Z) None) (v [1; 0]%Z) = Gt /\ refuses (v [0; 8; 4]%Z) (v [0; 8; 5]%Z) = true /\
  refuses (v [0; 8; 4]%Z) (v [0; 3; 20]%Z) = false.
Proof. vm_compute. repeat split; reflexivity. Qed.
