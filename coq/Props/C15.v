(** C15 — Transformed histograms bin points by their true coordinates. *)
From Physt Require Import Transform TransformProofs FindProofs ProjectProofs.
Local Open Scope Qc_scope.

(** The inverse formulas determine the coordinates: a pair (r, direction) with r >= 0 that reproduces the point has
    r^2 = x^2 + y^2, and two such pairs agree (the direction whenever r > 0); likewise in three dimensions. These are the
    exact statements whose toleranced form (coords_ok) is applied to every coordinate physt computes. *)
Theorem C15_polar_norm : forall x y r c s, x = r * c -> y = r * s -> c * c + s * s = 1 -> r * r = x * x + y * y.
Proof. exact polar_norm. Qed.
Print Assumptions C15_polar_norm.
Theorem C15_coordinates_unique : forall r c s r' c' s', 0 <= r -> 0 <= r' -> c * c + s * s = 1 -> c' * c' + s' * s' = 1 ->
  r * c = r' * c' -> r * s = r' * s' -> r = r' /\ (0 < r -> c = c' /\ s = s').
Proof. exact polar_unique. Qed.
Print Assumptions C15_coordinates_unique.
Theorem C15_spherical_norm : forall x y z r ct st c s, x = r * st * c -> y = r * st * s -> z = r * ct ->
  ct * ct + st * st = 1 -> c * c + s * s = 1 -> r * r = x * x + y * y + z * z.
Proof. exact spherical_norm. Qed.
Print Assumptions C15_spherical_norm.

(** The bin in which the coordinates are placed: the searchsorted lookup that fill / find_bin perform is the
    specification "the unique bin containing the value" (shared with C02 / C03), for every rising binning. *)
Theorem C15_lookup_is_spec : forall bins cl q, risingb bins = true -> bins <> [] ->
  find_axis_coded bins cl (Fin q) = find_axis_spec bins cl (Fin q).
Proof. exact find_coded_is_spec. Qed.
Print Assumptions C15_lookup_is_spec.

(** Projections hold the marginal contents: each cell is the sum of the parent cells that agree on the kept axes. *)
Theorem C15_projection_is_marginal : forall shape kept a i', in_range i' (restrict 0%nat kept shape) ->
  get 0 (restrict 0%nat kept shape) (marginal shape kept a) i' =
  sumf (fun idx => if list_eqb (restrict 0%nat kept idx) i' then get 0 shape a idx else 0) (indices shape).
Proof. exact marginal_pointwise. Qed.
Print Assumptions C15_projection_is_marginal.

Example C15_example :
  (* the point (0, -3) has r = 3, phi = 3 pi / 2 (cos = 0, sin = -1); with pi given to 1e-15 *)
  let pi := mkq 3141592653589793 1000000000000000 in
  polar_ok pi 0 (qz (-3)) (qz 3) (mkq 3 2 * pi) 0 (qz (-1)) = true /\
  polar_ok pi 0 (qz (-3)) (qz 3) (mkq 1 2 * pi) 0 (qz 1) = false /\
  place "PolarHistogram" [([(0, qz 2); (qz 2, qz 4)], true); ([(0, pi); (pi, qz 2 * pi)], true)] [qz 3; mkq 3 2 * pi] = LL [ZZ 1; ZZ 1] /\
  proj_class "CylindricalHistogram" [1; 2]%nat = "CylindricalSurfaceHistogram"%string.
Proof. vm_compute. repeat split; reflexivity. Qed.
