(** C16 — Densities, bin geometry and cumulative values are consistent. *)
From Physt Require Import Geometry GeometryProofs.
Local Open Scope Qc_scope.

(** Bin measures are additive when adjacent bins are merged — for every axis kind (width, (r2^2-r1^2)/2, pi (r2^2-r1^2),
    (r2^3-r1^3)/3, cos th1 - cos th2) and ANY function in the role of the cosine. *)
Theorem C16_measure_additive : forall (cosf : Qc -> Qc) pi k l x r, meas cosf pi k l x + meas cosf pi k x r = meas cosf pi k l r.
Proof. exact measure_additive. Qed.
Print Assumptions C16_measure_additive.

(** ... so the measures of any number of consecutive bins sum to the measure of the covered interval, *)
Theorem C16_measure_telescopes : forall (cosf : Qc -> Qc) pi k l x, chain x l ->
  sumq (map (fun b => meas cosf pi k (fst b) (snd b)) l) = meas cosf pi k x (end_of x l).
Proof. exact measure_telescopes. Qed.
Print Assumptions C16_measure_telescopes.

(** ... and the total over all cells of a product measure is the product of the per-axis totals (any number of axes). *)
Theorem C16_total_is_product : forall vs, sumq (outer vs) = fold_right (fun v acc => sumq v * acc) 1 vs.
Proof. exact outer_total. Qed.
Print Assumptions C16_total_is_product.

(** Put together for a whole histogram: over consecutive bins on every axis (any number of axes, any mix of axis kinds, the
    cosine table taken from any function), the bin sizes sum to the product of the per-axis measures of the covered intervals. *)
Theorem C16_sizes_sum_to_region : forall (cosf : Qc -> Qc) pi ks axes starts, length ks = length axes -> chains axes starts ->
  sumq (outer (map (fun p => axis_sizes (fst (fst p)) pi (snd (fst p)) (snd p)) (combine (combine ks axes) (map (cos_table cosf) axes)))) =
  region cosf pi ks axes starts.
Proof. exact sizes_sum_to_region. Qed.
Print Assumptions C16_sizes_sum_to_region.

(** Full angular ranges give pi R^2, 4 pi, 4/3 pi R^3 and pi R^2 H (for a function with cos 0 = 1, cos pi = -1). *)
Theorem C16_disc : forall (cosf : Qc -> Qc) pi R, meas cosf pi AHalfSq 0 R * meas cosf pi ALin 0 (qz 2 * pi) = pi * R * R.
Proof. exact disc_measure. Qed.
Print Assumptions C16_disc.
Theorem C16_sphere : forall (cosf : Qc -> Qc) pi, cosf 0 = 1 -> cosf pi = - (1) ->
  meas cosf pi ACos 0 pi * meas cosf pi ALin 0 (qz 2 * pi) = qz 4 * pi.
Proof. exact sphere_measure. Qed.
Print Assumptions C16_sphere.
Theorem C16_ball : forall (cosf : Qc -> Qc) pi, cosf 0 = 1 -> cosf pi = - (1) -> forall R,
  meas cosf pi AThirdCube 0 R * meas cosf pi ACos 0 pi * meas cosf pi ALin 0 (qz 2 * pi) = qz 4 / qz 3 * pi * R * R * R.
Proof. exact ball_measure. Qed.
Print Assumptions C16_ball.

(** densities * bin_sizes = frequencies; the running sum ends at the total *)
Theorem C16_density : forall f s, s <> 0 -> f / s * s = f.
Proof. exact density_times_size. Qed.
Print Assumptions C16_density.
Theorem C16_cumulative_ends_at_total : forall l acc, l <> [] -> last (running acc l) 0 = acc + sumq l.
Proof. exact running_ends_at_total. Qed.
Print Assumptions C16_cumulative_ends_at_total.

Example C16_example :
  let pi := mkq 355 113 in
  let s := bin_sizes "PolarHistogram" pi [[(0, qz 1); (qz 1, qz 3)]; [(0, pi); (pi, qz 2 * pi)]] [[(0, 0); (0, 0)]; [(0, 0); (0, 0)]] in
  all2 Qceqb s [mkq 1 2 * pi; mkq 1 2 * pi; qz 4 * pi; qz 4 * pi] = true /\
  Qceqb (sumq s) (pi * qz 3 * qz 3) = true /\
  all2 Qceqb (running 0 [qz 1; qz 2; qz 4]) [qz 1; qz 3; qz 7] = true.
Proof. vm_compute. repeat split; reflexivity. Qed.
