(** C20 — tie by translation: the tick bounds of TimeTickHandler.get_time_ticks, translated from the CURRENT source of
    physt/plotting/common.py, are those of the model's ticks_spec. *)
From Physt Require Import TieBase PyTicks Adaptive AdaptiveProofs Plot TieTicks.

Theorem C20_tie_tick_factors : forall lo hi u : Qc, 0 < u ->
  g_tick_factors xarith (Fin lo) (Fin hi) (Fin u) = (qceil (lo / u), qfloor (hi / u)).
Proof. exact gen_tick_factors_is_model. Qed.
Print Assumptions C20_tie_tick_factors.

(** hence the ticks np.arange(min_factor, max_factor + 1) * width are the model's ticks_spec (about which C20_ticks_sound /
    C20_ticks_complete are proved) *)
Theorem C20_tie_ticks_are_spec : forall lo hi u : Qc, 0 < u ->
  let '(a, b) := g_tick_factors xarith (Fin lo) (Fin hi) (Fin u) in
  map (fun k => qz (a + Z.of_nat k) * u) (seq 0 (Z.to_nat (b - a + 1))) = ticks_spec lo hi u.
Proof. intros lo hi u Hu. rewrite gen_tick_factors_is_model by exact Hu. reflexivity. Qed.
Print Assumptions C20_tie_ticks_are_spec.

Example C20_tie_example : g_tick_factors xarith (Fin (mkq (-7) 2)) (Fin (qz 130)) (Fin (qz 60)) = (0, 2)%Z.
Proof. vm_compute. reflexivity. Qed.
