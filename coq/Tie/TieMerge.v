(** Tie by translation, merge_bins (C10): the bin maps generated from the CURRENT source of
    HistogramBase.merge_bins (Gen/PyMerge.v) are the maps of the model (Model/Merge.v) for every input. *)
From Physt Require Import TieBase PyMerge Merge.

Theorem gen_amount_map_is_model : forall n a,
  g_mb_amount_map (Z.of_nat n) (Z.of_nat a) = map (fun i => (Z.of_nat i, Z.of_nat (Nat.div i a))) (seq 0 n).
Proof.
  intros n a. unfold g_mb_amount_map, zrange. rewrite Nat2Z.id.
  change 0%Z with (Z.of_nat 0). rewrite zrange_from_seq, map_map.
  apply map_ext. intros i. f_equal.
  destruct a as [|a]; [simpl; rewrite Zdiv_0_r; reflexivity|].
  rewrite Nat2Z.inj_div. reflexivity.
Qed.

Corollary gen_amount_map_new_indices : forall n a,
  map snd (g_mb_amount_map (Z.of_nat n) (Z.of_nat a)) = map Z.of_nat (amount_map n a).
Proof. intros. rewrite gen_amount_map_is_model. unfold amount_map. rewrite !map_map. reflexivity. Qed.


(** the min_frequency loop: fold with (current_sum, current_new, bin_map) = the recursive model *)
Definition mf_step (thr : xnum) : xnum * Z * list (Z * Z) -> Z * xnum -> xnum * Z * list (Z * Z) :=
  fun '(current_sum, current_new, bin_map) '(i, freq) =>
      if (fle xarith thr freq && flt xarith (of_Z xarith 0) current_sum)
      then let current_sum := 0%Z in let current_new := (current_new + 1)%Z in
           let bin_map := bin_map ++ [(i, current_new)] in
           let current_sum := fadd xarith (of_Z xarith current_sum) freq in
           if flt xarith thr current_sum
           then let current_sum := 0%Z in let current_new := (current_new + 1)%Z in (of_Z xarith current_sum, current_new, bin_map)
           else (current_sum, current_new, bin_map)
      else let bin_map := bin_map ++ [(i, current_new)] in
           let current_sum := fadd xarith current_sum freq in
           if flt xarith thr current_sum
           then let current_sum := 0%Z in let current_new := (current_new + 1)%Z in (of_Z xarith current_sum, current_new, bin_map)
           else (current_sum, current_new, bin_map).

(** the generated function IS this fold (by conversion: breaks if the source loop changes) *)
Lemma gen_minfreq_unfold check thr :
  g_mb_minfreq_map xarith check thr =
  let '(_, _, bm) := fold_left (mf_step thr) (zenumerate check) (of_Z xarith 0, 0%Z, []) in bm.
Proof. reflexivity. Qed.

Lemma mf_step_model thr cs cn acc k f :
  mf_step (Fin thr) (Fin cs, Z.of_nat cn, acc) (Z.of_nat k, Fin f) =
  let '(n1, s1) := if Qcleb thr f && Qcltb 0 cs then (S cn, 0) else (cn, cs) in
  let s2 := s1 + f in
  let '(n2, s3) := if Qcltb thr s2 then (S n1, 0) else (n1, s2) in
  (Fin s3, Z.of_nat n2, acc ++ [(Z.of_nat k, Z.of_nat n1)]).
Proof.
  unfold mf_step. cbn [fle flt fadd of_Z xarith]. change (qz 0) with (0:Qc).
  rewrite xle_fin, xlt_fin.
  destruct (Qcleb thr f && Qcltb 0 cs).
  - cbn [xadd]. rewrite xlt_fin. destruct (Qcltb thr (0 + f)).
    + repeat f_equal; lia.
    + repeat f_equal; lia.
  - cbn [xadd]. rewrite xlt_fin. destruct (Qcltb thr (cs + f)).
    + repeat f_equal; lia.
    + reflexivity.
Qed.

Lemma gen_minfreq_fold thr : forall freqs (k : nat) (cs : Qc) (cn : nat) (acc : list (Z * Z)),
  let '(_, _, bm) := fold_left (mf_step (Fin thr)) (combine (zrange_from (Z.of_nat k) (length freqs)) (map Fin freqs))
                               (Fin cs, Z.of_nat cn, acc) in
  bm = acc ++ combine (map Z.of_nat (seq k (length freqs))) (map Z.of_nat (mf_loop thr freqs cn cs)).
Proof.
  induction freqs as [|f rest IH]; intros k cs cn acc.
  - simpl. rewrite app_nil_r. reflexivity.
  - cbn [length zrange_from map combine fold_left mf_loop seq].
    rewrite mf_step_model.
    replace (Z.of_nat k + 1)%Z with (Z.of_nat (S k)) by lia.
    destruct (if Qcleb thr f && Qcltb 0 cs then (S cn, 0) else (cn, cs)) as [n1 s1].
    cbv zeta.
    destruct (if Qcltb thr (s1 + f) then (S n1, 0) else (n1, s1 + f)) as [n2 s3].
    specialize (IH (S k) s3 n2 (acc ++ [(Z.of_nat k, Z.of_nat n1)])).
    destruct (fold_left _ _ _) as [[a b] bm]. rewrite IH. rewrite <- app_assoc. reflexivity.
Qed.

Theorem gen_minfreq_map_is_model : forall thr freqs,
  g_mb_minfreq_map xarith (map Fin freqs) (Fin thr) =
  combine (map Z.of_nat (seq 0 (length freqs))) (map Z.of_nat (mf_map thr freqs)).
Proof.
  intros thr freqs. rewrite gen_minfreq_unfold. unfold mf_map, zenumerate. rewrite map_length.
  pose proof (gen_minfreq_fold thr freqs 0 0 0 []) as H.
  cbn [of_Z xarith]. change (qz 0) with (0:Qc). change (Z.of_nat 0) with 0%Z in H.
  destruct (fold_left _ _ _) as [[a b] bm]. exact H.
Qed.

