(** Tie by translation, time ticks (C20): the first and the last multiple of the unit inside the axis range as the CURRENT source of
    TimeTickHandler.get_time_ticks computes them (Gen/PyTicks.v: python // and % on floats) are ceil(lo / u) and floor(hi / u) - the
    bounds of the model ticks_spec (Model/Plot.v), for every range and every positive unit, in exact arithmetic. *)
From Physt Require Import TieBase PyTicks Adaptive AdaptiveProofs Plot.
From Coq Require Import Qreduction.
Local Open Scope Qc_scope.

Lemma qz_lt_inv a b : qz a < qz b -> (a < b)%Z.
Proof.
  intros H. destruct (Z_lt_le_dec a b) as [L|L]; [exact L|]. exfalso.
  pose proof (qz_le _ _ L) as H2. qc2q; lra.
Qed.
Lemma xint_qz z : xint (Fin (qz z)) = z.
Proof.
  unfold xint, qz, Q2Qc. cbn [this]. rewrite Qred_identity.
  - cbn [inject_Z Qnum Qden]. apply Z.quot_1_r.
  - cbn [inject_Z Qnum Qden]. apply Z.gcd_1_r.
Qed.
Lemma ceil_floor q : qceil q = if Qceqb q (qz (qfloor q)) then qfloor q else (qfloor q + 1)%Z.
Proof.
  destruct (floor_spec q) as [F1 F2]. destruct (ceil_spec q) as [C1 C2].
  destruct (Qceqb q (qz (qfloor q))) eqn:E.
  - apply Qceqb_eq in E.
    assert (A : (qfloor q <= qceil q)%Z).
    { destruct (Z_lt_le_dec (qceil q) (qfloor q)) as [L|L]; [|exact L]. exfalso.
      assert (H : qz (qceil q) <= qz (qfloor q - 1)) by (apply qz_le; lia).
      replace (qfloor q - 1)%Z with (qfloor q + - (1))%Z in H by lia. rewrite qz_add, qz_opp, qz_1 in H. rewrite <- E in H. qc2q; lra. }
    assert (B : (qceil q < qfloor q + 1)%Z).
    { apply qz_lt_inv. rewrite qz_add, qz_1. rewrite <- E. exact C2. }
    lia.
  - assert (Hlt : qz (qfloor q) < q).
    { destruct (Qcle_lt_or_eq _ _ F1) as [L|L]; [exact L|]. exfalso. assert (Qceqb q (qz (qfloor q)) = true) by (apply Qceqb_eq; symmetry; exact L). congruence. }
    assert (A : (qfloor q < qceil q)%Z) by (apply qz_lt_inv; qc2q; lra).
    assert (B : (qceil q < qfloor q + 2)%Z).
    { apply qz_lt_inv. replace (qfloor q + 2)%Z with (qfloor q + 1 + 1)%Z by lia. rewrite !qz_add, qz_1. qc2q; lra. }
    lia.
Qed.

Theorem gen_tick_factors_is_model (lo hi u : Qc) : 0 < u ->
  g_tick_factors xarith (Fin lo) (Fin hi) (Fin u) = (qceil (lo / u), qfloor (hi / u)).
Proof.
  intros Hu. pose proof (pos_neq0' _ Hu) as Hu0.
  assert (Hz : Qceqb u 0 = false) by (destruct (Qceqb u 0) eqn:E; [apply Qceqb_eq in E; contradiction|reflexivity]).
  unfold g_tick_factors. cbn [fint ffloordiv fmodulo feq of_Z xarith xfloordiv xmodulo]. rewrite Hz.
  change (Qfloor (this (lo / u))) with (qfloor (lo / u)). change (Qfloor (this (hi / u))) with (qfloor (hi / u)).
  rewrite !xint_qz. cbn [xfeq xeqb]. rewrite qz0.
  rewrite ceil_floor.
  assert (Heq : Qceqb (lo - u * qz (qfloor (lo / u))) 0 = Qceqb (lo / u) (qz (qfloor (lo / u)))).
  { set (f := qz (qfloor (lo / u))).
    destruct (Qceqb (lo / u) f) eqn:E.
    - apply Qceqb_eq in E. apply Qceqb_eq. rewrite <- E. field. exact Hu0.
    - destruct (Qceqb (lo - u * f) 0) eqn:E2; [|reflexivity]. apply Qceqb_eq in E2.
      assert (lo / u = f). { assert (H0 : lo = u * f) by (replace lo with ((lo - u * f) + u * f) by ring; rewrite E2; ring). rewrite H0. field. exact Hu0. }
      rewrite H, Qceqb_refl in E. discriminate. }
  rewrite Heq. destruct (Qceqb (lo / u) (qz (qfloor (lo / u)))); reflexivity.
Qed.
