(** Tie by translation, FixedWidthBinning._adapt / _force_new_min_max (C05): the union of two ranges on the common grid as the
    CURRENT source computes it (Gen/PyFW.v) is the fixed / fixed branch of the model adapt_axis (Model/Arith.v). *)
From Physt Require Import TieBase PyFW Arith.

Definition model_adapt_fixed (w sh : Qc) (tmin : Z) (n : nat) (incl ad : bool) (w' sh' : Qc) (tmin' : Z) (n' : nat)
  : result (axisd * option nat * option nat * nat) :=
      if negb (Qceqb w w') then Err EValue else
      if negb (Qceqb sh sh') then Err EValue else
      if Nat.eqb n' 0 then Ok (AFixed w sh tmin n incl ad, None, Some 0%nat, n) else
      if Nat.eqb n 0 then Ok (AFixed w sh tmin' n' incl ad, Some 0%nat, None, n') else
      let new_min := Z.min tmin tmin' in
      let new_max := Z.max (tmin + Z.of_nat n) (tmin' + Z.of_nat n') in
      let newn := Z.to_nat (new_max - new_min) in
      let mapfor (t : Z) (c : nat) :=
        let add_left := if (new_min <? t)%Z then Z.to_nat (t - new_min) else 0%nat in
        let add_right := if (Z.of_nat c <? new_max - t)%Z then Z.to_nat (new_max - t - Z.of_nat c) else 0%nat in
        if Nat.eqb add_left 0 && Nat.eqb add_right 0 then None else Some add_left in
      Ok (AFixed w sh new_min newn incl ad, mapfor tmin n, mapfor tmin' n', newn).

(** this IS the fixed / fixed branch of the model's adapt_axis (after the has-same-bins shortcut of __iadd__) *)
Lemma model_adapt_fixed_is_adapt_axis w sh t n incl ad w' sh' t' n' ad' :
  let a := AFixed w sh t n incl ad in let b := AFixed w' sh' t' n' false ad' in
  adapt_axis a b =
  if bins_equal (axis_bins a) (axis_bins b) && Nat.eqb (axis_len a) (axis_len b)
  then Ok (a, None, None, axis_len a)
  else model_adapt_fixed w sh t n incl ad w' sh' t' n'.
Proof. reflexivity. Qed.

Definition st_of (w sh : Qc) (t : Z) (n : nat) (al ir : bool) : @fwst xnum := mk_fw t (Z.of_nat n) (Fin w) (Fin sh) al ir.
Definition amap_ok (m : adaptmap) (o : option nat) (count : nat) : Prop :=
  match m, o with
  | AMNone, None => True
  | AMEmpty, Some O => True
  | AMList l, Some s => l = map (fun i => (i, (i + Z.of_nat s)%Z)) (zrange (Z.of_nat count))
  | _, _ => False end.

Lemma zofnat_eqb0' n : (Z.of_nat n =? 0)%Z = Nat.eqb n 0.
Proof. destruct n; reflexivity. Qed.

(** _force_new_min_max on a state, in terms of the model's mapfor *)
Lemma force_new_min_max_spec (w sh : xnum) t (n : nat) al ir lo hi : (lo <= t)%Z -> (t + Z.of_nat n <= hi)%Z ->
  let add_left := if (lo <? t)%Z then Z.to_nat (t - lo) else 0%nat in
  let add_right := if (Z.of_nat n <? hi - t)%Z then Z.to_nat (hi - t - Z.of_nat n) else 0%nat in
  let o := if Nat.eqb add_left 0 && Nat.eqb add_right 0 then None else Some add_left in
  exists m, g_fw_force_new_min_max (mk_fw t (Z.of_nat n) w sh al ir) lo hi =
            (mk_fw lo (Z.of_nat (Z.to_nat (hi - lo))) w sh al ir, m) /\
            amap_ok (match m with Some l => AMList l | None => AMNone end) o n.
Proof.
  intros H1 H2. unfold g_fw_force_new_min_max, g_fw_set_min_and_count, set_fw_bin_count, set_fw_times_min.
  cbn [fw_times_min fw_bin_count fw_bin_width fw_shift fw_align fw_includes_right_edge].
  destruct (Z.ltb_spec lo t) as [L|L]; destruct (Z.ltb_spec (Z.of_nat n) (hi - t)) as [R|R];
  repeat match goal with |- context [Z.eqb ?a 0] => destruct (Z.eqb_spec a 0) end; cbn [negb orb]; try lia.
  all: eexists; split; [try reflexivity|].
  all: try (f_equal; f_equal; lia).
  all: cbn [amap_ok].
  all: repeat match goal with |- context [Nat.eqb ?a 0] => destruct (Nat.eqb_spec a 0) end; cbn [andb]; try lia; auto.
  all: try (apply map_ext; intros; f_equal; lia).
Qed.

Theorem gen_adapt_is_model fuel w sh t n al ir w' sh' t' n' al' ir' incl ad :
  match model_adapt_fixed w sh t n incl ad w' sh' t' n', g_fw_adapt xarith fuel (st_of w sh t n al ir) (st_of w' sh' t' n' al' ir') with
  | Err _, Raised => True
  | Ok (AFixed w2 sh2 t2 n2 _ _, s1, s2, newn), Done (st', (m1, m2)) =>
      st' = st_of w2 sh2 t2 n2 al ir /\ newn = n2 /\ amap_ok m1 s1 n /\ amap_ok m2 s2 n'
  | _, _ => False end.
Proof.
  unfold model_adapt_fixed, g_fw_adapt, st_of.
  cbn [fw_times_min fw_bin_count fw_bin_width fw_shift fw_align fw_includes_right_edge feq xarith xfeq xeqb].
  destruct (Qceqb w w') eqn:Ew; cbn [negb]; [|exact I].
  destruct (Qceqb sh sh') eqn:Es; cbn [negb]; [|exact I].
  rewrite !zofnat_eqb0'.
  destruct (Nat.eqb n' 0) eqn:En'; [cbn [amap_ok]; auto|].
  destruct (Nat.eqb n 0) eqn:En.
  - unfold g_fw_set_min_and_count, set_fw_bin_count, set_fw_times_min.
    cbn [fw_times_min fw_bin_count fw_bin_width fw_shift fw_align fw_includes_right_edge amap_ok]. auto.
  - cbv zeta.
    set (lo := Z.min t t'). set (hi := Z.max (t + Z.of_nat n) (t' + Z.of_nat n')).
    destruct (force_new_min_max_spec (Fin w) (Fin sh) t n al ir lo hi) as [m1 [E1 A1]]; [unfold lo; lia | unfold hi; lia |].
    destruct (force_new_min_max_spec (Fin w') (Fin sh') t' n' al' ir' lo hi) as [m2 [E2 A2]]; [unfold lo; lia | unfold hi; lia |].
    rewrite E1, E2. cbv zeta in A1, A2.
    repeat split; auto.
Qed.
