(** Tie by translation, Statistics (C14 / C06): the methods generated from the CURRENT source of
    physt/statistics.py (Gen/PyStats.v) are the model's functions (Model/Arith.v, Model/ScaleCases.v). *)
From Physt Require Import TieBase PyStats Arith ScaleCases StatsCases.

Definition to_stats (s : @pystats xnum) : stats :=
  mkStats (ps_sum s) (ps_sum2 s) (ps_min s) (ps_max s) (ps_weight s) (ps_median s).

Lemma xminimum_np a b : xminimum a b = np_min a b.
Proof. destruct a, b; reflexivity. Qed.
Lemma xmaximum_np a b : xmaximum a b = np_max a b.
Proof. destruct a, b; reflexivity. Qed.

Theorem gen_stats_add_is_model : forall a b, to_stats (g_ps_add xarith a b) = stats_add (to_stats a) (to_stats b).
Proof.
  intros a b. unfold g_ps_add, to_stats, stats_add. cbn [negb].
  cbn [ps_sum ps_sum2 ps_min ps_max ps_weight ps_median st_sum st_sum2 st_min st_max st_weight st_median fadd fminimum fmaximum fnan xarith].
  rewrite xminimum_np, xmaximum_np. reflexivity.
Qed.

Lemma xmul_scale x c : xmul x (Fin c) = xscale c x.
Proof.
  destruct x as [q| | |]; cbn [xmul xscale xsign]; try reflexivity.
  - rewrite Qcmult_comm. reflexivity.
  - unfold Qceqb, Qcltb. rewrite (Qccompare_antisym 0 c). destruct (c ?= 0)%Qc; reflexivity.
  - unfold Qceqb, Qcltb. rewrite (Qccompare_antisym 0 c). destruct (c ?= 0)%Qc; reflexivity.
Qed.

Theorem gen_stats_mul_is_model : forall a c, to_stats (g_ps_mul xarith a (Fin c)) = stats_mul (to_stats a) c.
Proof.
  intros a c. unfold g_ps_mul, to_stats, stats_mul. cbn [negb].
  cbn [ps_sum ps_sum2 ps_min ps_max ps_weight ps_median st_sum st_sum2 st_min st_max st_weight st_median fmul xarith].
  rewrite !xmul_scale. reflexivity.
Qed.

Theorem gen_stats_invalid_is_model : to_stats (g_ps_INVALID xarith) = invalid_stats.
Proof. reflexivity. Qed.

Theorem gen_stats_mean_is_model : forall s a w, ps_sum s = Fin a -> ps_weight s = Fin w ->
  g_ps_mean xarith s = st_mean (to_stats s).
Proof.
  intros s a w Ha Hw. unfold g_ps_mean, st_mean, to_stats. cbn [st_sum st_weight feq of_Z fdiv fnan xarith].
  rewrite Ha, Hw. cbn [xfeq xeqb xdiv]. rewrite qz0. destruct (Qceqb w 0); reflexivity.
Qed.

Theorem gen_stats_variance_is_model : forall s a b w, ps_sum s = Fin a -> ps_sum2 s = Fin b -> ps_weight s = Fin w ->
  g_ps_variance xarith s = st_var (to_stats s).
Proof.
  intros s a b w Ha Hb Hw. unfold g_ps_variance, st_var, to_stats.
  cbn [st_sum st_sum2 st_weight flt of_Z fdiv fsub fmul fnan xarith]. rewrite Ha, Hb, Hw. rewrite xlt_fin, qz0.
  destruct (Qcltb 0 w) eqn:Hp; [|reflexivity].
  assert (Hz : Qceqb w 0 = false).
  { unfold Qceqb, Qcltb in *. rewrite (Qccompare_antisym w 0). destruct (0 ?= w)%Qc; try discriminate. reflexivity. }
  cbn [xmul xdiv xsub xneg xadd]. rewrite Hz. cbn [xneg xadd xdiv]. rewrite Hz. reflexivity.
Qed.


Theorem gen_mean_scale_invariant : forall s a w c, ps_sum s = Fin a -> ps_weight s = Fin w -> c <> 0 ->
  g_ps_mean xarith (g_ps_mul xarith s (Fin c)) = g_ps_mean xarith s.
Proof.
  intros s a w c Ha Hw Hc. unfold g_ps_mean, g_ps_mul. cbn [negb].
  cbn [ps_sum ps_weight feq of_Z fdiv fmul fnan xarith]. rewrite Ha, Hw. cbn [xmul xfeq xeqb xdiv]. rewrite qz0.
  destruct (Qceqb w 0) eqn:Hw0.
  - apply Qceqb_eq in Hw0. subst w. rewrite Qcmult_0_l. rewrite Qceqb_refl. reflexivity.
  - assert (Hn : Qceqb (w * c) 0 = false).
    { destruct (Qceqb (w * c) 0) eqn:E; [|reflexivity]. apply Qceqb_eq in E.
      apply Qcmult_integral in E. destruct E as [E|E]; [subst w; rewrite Qceqb_refl in Hw0; discriminate | contradiction]. }
    rewrite Hn. f_equal.
    assert (Hwn : w <> 0) by (intros E; subst w; rewrite Qceqb_refl in Hw0; discriminate).
    field. split; assumption.
Qed.

(** the statistics update inside Histogram1D.fill *)
Lemma xlt_xltb a b : xlt a b = xltb a b. Proof. destruct a, b; reflexivity. Qed.
Theorem gen_fill_stats_is_model : forall s v w,
  to_stats (g_fill_stats xarith s (Fin v) (Fin w)) = fill_stats (to_stats s) v w.
Proof.
  intros s v w. unfold g_fill_stats, fill_stats, to_stats, py_min, py_max.
  cbn [ps_sum ps_sum2 ps_min ps_max ps_weight ps_median st_sum st_sum2 st_min st_max st_weight st_median fadd fmul flt fnan xarith xmul].
  rewrite !xlt_xltb. reflexivity.
Qed.
