(** Tie by translation, FixedWidthBinning in binary64: Coq's primitive floats as an instance of the arithmetic the translated
    code is parametric in. The four order laws follow from the standard library's specification of the float comparisons
    (FloatAxioms.ltb_spec / leb_spec / eqb_spec - axioms of the standard library, named in the trusted base) by a case analysis of
    SpecFloat.SFcompare. *)
From Physt Require Import TieBase PyFW TieFW FWFloat.
From Coq Require Import ZArith Uint63 PrimFloat FloatOps FloatAxioms SpecFloat.

Lemma Pcompare_opp m1 m2 : Pos.compare_cont Eq m2 m1 = CompOpp (Pos.compare_cont Eq m1 m2).
Proof. change (Pos.compare m2 m1 = CompOpp (Pos.compare m1 m2)). apply Pos.compare_antisym. Qed.

Lemma SFcompare_antisym x y : SFcompare y x = option_map CompOpp (SFcompare x y).
Proof.
  destruct x as [sx|sx| |sx mx ex], y as [sy|sy| |sy my ey]; try reflexivity;
    try (destruct sx; reflexivity); try (destruct sy; reflexivity); try (destruct sx, sy; reflexivity).
  cbn [SFcompare option_map]. f_equal.
  destruct sx, sy; try reflexivity.
  - rewrite (Z.compare_antisym ex ey). destruct (ex ?= ey)%Z; cbn [CompOpp]; try reflexivity.
    rewrite Pcompare_opp. reflexivity.
  - rewrite (Z.compare_antisym ex ey). destruct (ex ?= ey)%Z; cbn [CompOpp]; try reflexivity.
    apply Pcompare_opp.
Qed.

(** ---------- binary64 (Coq's primitive floats) as an instance of the translator's arithmetic ---------- *)
Definition pf_finite (f : float) : bool :=
  match Prim2SF f with S754_zero _ | S754_finite _ _ _ => true | _ => false end.
Definition pf_floor (f : float) : Z := match floorZ f with Some z => z | None => 0%Z end.
Definition pf_ceil (f : float) : Z := (- pf_floor (PrimFloat.opp f))%Z.
Definition parith : arith float :=
  mkArith float PrimFloat.add PrimFloat.sub PrimFloat.mul PrimFloat.div PrimFloat.ltb PrimFloat.leb PrimFloat.eqb
          FWFloat.of_Z pf_floor pf_ceil pf_finite
          (fun n d => PrimFloat.div (FWFloat.of_Z n) (FWFloat.of_Z (Zpos d))) PrimFloat.nan PrimFloat.infinity PrimFloat.neg_infinity
          (fun a b => if PrimFloat.ltb b a then b else a) (fun a b => if PrimFloat.ltb a b then b else a)
          (* // , % and int() are not used by the FixedWidthBinning kernels; filled in by their textbook definitions *)
          (fun a b => FWFloat.of_Z (pf_floor (PrimFloat.div a b)))
          (fun a b => PrimFloat.sub a (PrimFloat.mul b (FWFloat.of_Z (pf_floor (PrimFloat.div a b)))))
          (fun a => if PrimFloat.ltb a 0%float then (- pf_floor (PrimFloat.opp a))%Z else pf_floor a).

Lemma pf_lt_asym a b : flt parith a b = true -> flt parith b a = false.
Proof.
  cbn [flt parith]. rewrite !ltb_spec. unfold SFltb. rewrite (SFcompare_antisym (Prim2SF a) (Prim2SF b)).
  destruct (SFcompare (Prim2SF a) (Prim2SF b)) as [[| |]|]; cbn; congruence.
Qed.
Lemma pf_lt_neq a b : flt parith a b = true -> feq parith a b = false.
Proof.
  cbn [flt feq parith]. rewrite ltb_spec, FloatAxioms.eqb_spec. unfold SFltb, SFeqb.
  destruct (SFcompare (Prim2SF a) (Prim2SF b)) as [[| |]|]; cbn; congruence.
Qed.
Lemma pf_eq_nlt a b : feq parith a b = true -> flt parith b a = false.
Proof.
  cbn [flt feq parith]. rewrite ltb_spec, FloatAxioms.eqb_spec. unfold SFltb, SFeqb. rewrite (SFcompare_antisym (Prim2SF a) (Prim2SF b)).
  destruct (SFcompare (Prim2SF a) (Prim2SF b)) as [[| |]|]; cbn; congruence.
Qed.
Lemma pf_le_nlt a b : fle parith a b = true -> flt parith b a = false.
Proof.
  cbn [flt fle parith]. rewrite ltb_spec, leb_spec. unfold SFltb, SFleb. rewrite (SFcompare_antisym (Prim2SF a) (Prim2SF b)).
  destruct (SFcompare (Prim2SF a) (Prim2SF b)) as [[| |]|]; cbn; congruence.
Qed.

(** the coverage theorem in binary64: whatever floor, ceil, the products and the sums round to *)
Theorem force_single_covers_binary64 fuel (st : @fwst float) (v : float) incl st' r :
  pf_finite v = true ->
  g_fw_force_bin_existence_single parith fuel st v (Some incl) = Done (st', r) ->
  PrimFloat.ltb v (g_fw_first_edge parith st') = false /\
  (PrimFloat.ltb (g_fw_last_edge parith st') v || (PrimFloat.eqb v (g_fw_last_edge parith st') && negb incl)) = false.
Proof. apply (force_single_covers_any_arith parith pf_lt_asym pf_lt_neq pf_eq_nlt pf_le_nlt). Qed.

(** and the code does return on the value that defeated the unrepaired code: width 0.1, value 1.7, empty binning *)
Example binary64_1_7 :
  exists st', g_fw_force_bin_existence_single parith 5 (mk_fw 0%Z 0%Z (0.1)%float 0%float true false) (1.7)%float None = Done (st', OITuple0) /\
              fw_times_min st' = 16%Z /\ fw_bin_count st' = 1%Z.
Proof. eexists. vm_compute. repeat split. Qed.
