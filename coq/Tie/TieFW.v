(** Tie by translation, FixedWidthBinning (C04): theorems about the functions generated from the CURRENT source of
    physt/binnings.py (Gen/PyFW.v). *)
From Physt Require Import TieBase PyFW Adaptive AdaptiveProofs.

(** ---------- FixedWidthBinning._force_bin_existence_single: coverage whatever the rounding (C04) ----------
    For ANY arithmetic whose comparisons obey four order laws (all true of IEEE-754 binary64 and of exact numbers),
    whenever the translated code returns, the value lies inside the edges AS THE CODE COMPUTES THEM:
    not (v < first_edge), and not (v > last_edge or (v == last_edge and the right edge is excluded)). *)
Section Cover.
Context {F : Type} (A : arith F).
Hypothesis lt_asym : forall a b, flt A a b = true -> flt A b a = false.
Hypothesis lt_neq : forall a b, flt A a b = true -> feq A a b = false.
Hypothesis eq_nlt : forall a b, feq A a b = true -> flt A b a = false.
Hypothesis le_nlt : forall a b, fle A a b = true -> flt A b a = false.

Definition left_ok (st : fwst) (v : F) : Prop := flt A v (g_fw_first_edge A st) = false.
Definition right_ok (st : fwst) (v : F) (incl : bool) : Prop :=
  flt A (g_fw_last_edge A st) v || (feq A v (g_fw_last_edge A st) && negb incl) = false.

Lemma cover_value_covers fuel st v incl st' r :
  fisfinite A v = true -> g_fw_cover_value A fuel st v incl = Done (st', r) -> left_ok st' v /\ right_ok st' v incl.
Proof.
  intros Hfin H. unfold g_fw_cover_value in H. rewrite Hfin in H. cbn [negb] in H.
  apply rbind_done in H. destruct H as [[s1 el] [H1 H]].
  apply rbind_done in H. destruct H as [[s2 er] [H2 H]].
  inversion H; subst; clear H.
  apply (while_inv (fun _ => True)) in H1; auto.
  destruct H1 as [_ [Hc | [x [_ [_ [Hb _]]]]]]; [|destruct x; discriminate].
  apply (while_inv (fun p => left_ok (fst p) v)) in H2.
  - destruct H2 as [Hl [Hc2 | [x [_ [_ [Hb _]]]]]]; [|destruct x; discriminate]. split; [exact Hl | exact Hc2].
  - intros [s e] Hp _. exact Hp.
  - exact Hc.
Qed.

Lemma last_edge_shift (s : @fwst F) : forall t c t' c', (t + c = t' + c')%Z ->
  g_fw_last_edge A (mk_fw t c (fw_bin_width s) (fw_shift s) (fw_align s) (fw_includes_right_edge s)) =
  g_fw_last_edge A (mk_fw t' c' (fw_bin_width s) (fw_shift s) (fw_align s) (fw_includes_right_edge s)).
Proof. intros t c t' c' H. unfold g_fw_last_edge. cbn [fw_times_min fw_bin_count fw_bin_width fw_shift]. rewrite H. reflexivity. Qed.

Lemma drop_keeps_cover fuel st v incl nl nr st' r :
  g_fw_drop_unneeded_bins A fuel st v incl nl nr = Done (st', r) ->
  left_ok st v -> right_ok st v incl -> left_ok st' v /\ right_ok st' v incl.
Proof.
  intros H Hl Hr. unfold g_fw_drop_unneeded_bins in H.
  destruct (negb (fisfinite A v)); [inversion H; subst; auto|].
  apply rbind_done in H. destruct H as [[s1 dl] [H1 H]].
  apply rbind_done in H. destruct H as [[s2 dr] [H2 H]].
  inversion H; subst; clear H.
  set (P := fun p : @fwst F * Z => left_ok (fst p) v /\ right_ok (fst p) v incl).
  eapply (while_inv P) in H1.
  - destruct H1 as [P1 _].
    eapply (while_inv P) in H2.
    + destruct H2 as [P2 _]. exact P2.
    + intros [s e] [Pl Pr] _. unfold P. cbn [fst] in *.
      destruct (flt A v _ || _) eqn:Hin; cbn [fst]; [|auto].
      split.
      * exact Pl.
      * unfold right_ok in *.
        destruct s as [t c w sh al ir]. unfold set_fw_bin_count. cbn [fw_times_min fw_bin_count fw_bin_width fw_shift fw_align fw_includes_right_edge] in *.
        unfold g_fw_last_edge in *. cbn [fw_times_min fw_bin_count fw_bin_width fw_shift] in *.
        replace (t + (c - 1))%Z with (t + c - 1)%Z by lia.
        set (ll := fadd A (fmul A (of_Z A (t + c - 1)%Z) w) sh) in *.
        apply orb_true_iff in Hin. destruct Hin as [Hlt | Heq].
        -- rewrite (lt_asym _ _ Hlt), (lt_neq _ _ Hlt). reflexivity.
        -- apply andb_true_iff in Heq. destruct Heq as [He Hi]. rewrite (eq_nlt _ _ He), Hi. cbn. apply andb_false_r.
    + exact P1.
  - intros [s e] [Pl Pr] Hc. unfold P. cbn [fst] in *.
    apply andb_true_iff in Hc. destruct Hc as [_ Hle].
    destruct s as [t c w sh al ir]. unfold set_fw_bin_count, set_fw_times_min.
    cbn [fst fw_times_min fw_bin_count fw_bin_width fw_shift fw_align fw_includes_right_edge] in *.
    split.
    + unfold left_ok, g_fw_first_edge. cbn [fw_times_min fw_bin_width fw_shift]. apply le_nlt. exact Hle.
    + unfold right_ok in *. unfold g_fw_last_edge in *. cbn [fw_times_min fw_bin_count fw_bin_width fw_shift] in *.
      replace (t + 1 + (c - 1))%Z with (t + c)%Z by lia. exact Pr.
  - unfold P. cbn [fst]. auto.
Qed.

Ltac tail_step H :=
  let x := fresh "x" in let H1 := fresh "Hc" in
  apply rbind_done in H; destruct H as [[? ?] [H1 H]].

Theorem force_single_covers_any_arith fuel st v incl st' r :
  fisfinite A v = true ->
  g_fw_force_bin_existence_single A fuel st v (Some incl) = Done (st', r) ->
  left_ok st' v /\ right_ok st' v incl.
Proof.
  intros Hfin H. unfold g_fw_force_bin_existence_single in H.
  repeat match type of H with
         | (if ?c then _ else _) = _ => destruct c
         | (let '(_, _) := ?p in _) = _ => destruct p
         end;
  (apply rbind_done in H; destruct H as [[s1 r1] [Hcv H]];
   repeat match type of H with (let '(_, _) := ?p in _) = _ => destruct p end;
   apply rbind_done in H; destruct H as [[s2 r2] [Hdr H]];
   repeat match type of H with
          | (if ?c then _ else _) = _ => destruct c
          | (let '(_, _) := ?p in _) = _ => destruct p
          end;
   inversion H; subst; clear H;
   pose proof (cover_value_covers _ _ _ _ _ _ Hfin Hcv) as [Hl Hr];
   eapply drop_keeps_cover; eauto).
Qed.
End Cover.

(** the four order laws hold for exact extended rationals, so the theorem applies to the exact model without premises *)
Lemma x_lt_asym a b : flt xarith a b = true -> flt xarith b a = false.
Proof.
  destruct a as [x| | |], b as [y| | |]; cbn; try discriminate; try reflexivity.
  intros H. apply Qcltb_lt in H. apply Qcltb_ge. apply Qclt_le_weak. exact H.
Qed.
Lemma x_lt_neq a b : flt xarith a b = true -> feq xarith a b = false.
Proof.
  destruct a as [x| | |], b as [y| | |]; cbn; try discriminate; try reflexivity.
  intros H. destruct (Qceqb x y) eqn:E; [|reflexivity]. apply Qceqb_eq in E. subst. rewrite Qcltb_irrefl in H. discriminate.
Qed.
Lemma x_eq_nlt a b : feq xarith a b = true -> flt xarith b a = false.
Proof.
  destruct a as [x| | |], b as [y| | |]; cbn; try discriminate; try reflexivity.
  intros H. apply Qceqb_eq in H. subst. apply Qcltb_irrefl.
Qed.
Lemma x_le_nlt a b : fle xarith a b = true -> flt xarith b a = false.
Proof.
  destruct a as [x| | |], b as [y| | |]; cbn; try discriminate; try reflexivity.
  intros H. apply negb_true_iff in H. exact H.
Qed.

Theorem force_single_covers_exact fuel st v incl st' r :
  g_fw_force_bin_existence_single xarith fuel st (Fin v) (Some incl) = Done (st', r) ->
  left_ok xarith st' (Fin v) /\ right_ok xarith st' (Fin v) incl.
Proof.
  apply (force_single_covers_any_arith xarith x_lt_asym x_lt_neq x_eq_nlt x_le_nlt). reflexivity.
Qed.

(** ---------- in exact arithmetic the translated code IS the model's force_single ----------
    The loops added by the repair (_cover_value, _drop_unneeded_bins) do nothing when floor and ceil are exact, so the
    theorems of Props/C04.v, proved about Model/Adaptive.force_single, are theorems about the current source. *)
Definition embed (b : fw) (ir : bool) : @fwst xnum :=
  mk_fw (f_tmin b) (Z.of_nat (f_count b)) (Fin (f_w b)) (Fin (f_shift b)) (f_align b) ir.
Definition embed_ret (m : bmap) : optint :=
  match m with BNone => OINone | BShift s => OIInt (Z.of_nat s) | BEmpty => OITuple0 end.

Lemma first_edge_x t c w sh al ir : g_fw_first_edge xarith (mk_fw t c (Fin w) (Fin sh) al ir) = Fin (qz t * w + sh).
Proof. reflexivity. Qed.
Lemma last_edge_x t c w sh al ir : g_fw_last_edge xarith (mk_fw t c (Fin w) (Fin sh) al ir) = Fin (qz (t + c) * w + sh).
Proof. reflexivity. Qed.

Lemma cover_noop fuel t c w sh al ir v :
  qz t * w + sh <= v -> v < qz (t + c) * w + sh ->
  g_fw_cover_value xarith fuel (mk_fw t c (Fin w) (Fin sh) al ir) (Fin v) false =
  Done (mk_fw t c (Fin w) (Fin sh) al ir, (0, 0)%Z).
Proof.
  intros H1 H2. unfold g_fw_cover_value. cbn [fisfinite xarith xfinite negb].
  rewrite while_false.
  2:{ rewrite first_edge_x. cbn [flt xarith]. rewrite xlt_fin. apply Qcltb_ge. exact H1. }
  cbn [rbind]. rewrite while_false.
  2:{ rewrite last_edge_x. cbn [flt feq xarith negb]. rewrite xlt_fin. rewrite andb_true_r.
      apply orb_false_iff. split.
      - apply Qcltb_ge. apply Qclt_le_weak. exact H2.
      - cbn [xfeq xeqb]. destruct (Qceqb v (qz (t + c) * w + sh)) eqn:E; [|reflexivity].
        apply Qceqb_eq in E. rewrite <- E in H2. apply Qcltb_lt in H2. rewrite Qcltb_irrefl in H2. discriminate. }
  reflexivity.
Qed.

Lemma drop_noop fuel t c w sh al ir v nl nr : (1 <= fuel)%nat ->
  ((nl <= 0)%Z \/ (c <= 1)%Z \/ v < qz (t + 1) * w + sh) ->
  ((nr <= 0)%Z \/ (c <= 1)%Z \/ qz (t + c - 1) * w + sh <= v) ->
  g_fw_drop_unneeded_bins xarith fuel (mk_fw t c (Fin w) (Fin sh) al ir) (Fin v) false nl nr =
  Done (mk_fw t c (Fin w) (Fin sh) al ir, (0, 0)%Z).
Proof.
  intros Hf HL HR. unfold g_fw_drop_unneeded_bins. cbn [fisfinite xarith xfinite negb].
  rewrite while_false.
  2:{ cbn [fw_times_min fw_bin_count fw_bin_width fw_shift fle fadd fmul of_Z xarith xmul xadd]. rewrite xle_fin.
      destruct HL as [H|[H|H]].
      - replace (0 <? nl)%Z with false by (symmetry; apply Z.ltb_ge; lia). reflexivity.
      - replace (1 <? c)%Z with false by (symmetry; apply Z.ltb_ge; lia). rewrite andb_false_r. reflexivity.
      - replace (Qcleb (qz (t + 1) * w + sh) v) with false by (symmetry; apply Qcleb_gt; exact H). apply andb_false_r. }
  cbn [rbind].
  destruct fuel as [|n]; [lia|]. cbn [while_].
  cbn [fw_times_min fw_bin_count fw_bin_width fw_shift flt feq fadd fmul of_Z xarith xmul xadd].
  destruct ((0 <? nr)%Z && (1 <? c)%Z) eqn:Hc; [|reflexivity].
  apply andb_true_iff in Hc. destruct Hc as [Hc1 Hc2]. apply Z.ltb_lt in Hc1. apply Z.ltb_lt in Hc2.
  destruct HR as [H|[H|H]]; [lia|lia|].
  rewrite xlt_fin, andb_false_r, orb_false_r.
  replace (Qcltb v (qz (t + c - 1) * w + sh)) with false by (symmetry; apply Qcltb_ge; exact H).
  reflexivity.
Qed.

Lemma w_nz (w : Qc) : 0 < w -> Qceqb w 0 = false.
Proof. intros H. destruct (Qceqb w 0) eqn:E; [|reflexivity]. apply Qceqb_eq in E. subst. apply Qcltb_lt in H. rewrite Qcltb_irrefl in H. discriminate. Qed.

Ltac fwcbn := unfold set_fw_times_min, set_fw_bin_count, set_fw_bin_width, set_fw_shift, set_fw_align, set_fw_includes_right_edge; cbn [set_fw_times_min set_fw_bin_count set_fw_bin_width set_fw_shift set_fw_align set_fw_includes_right_edge
                   fw_times_min fw_bin_count fw_bin_width fw_shift fw_align fw_includes_right_edge
                   f_w f_shift f_tmin f_count f_align fst snd].

Ltac fwcbn_in H := cbn [set_fw_times_min set_fw_bin_count set_fw_bin_width set_fw_shift set_fw_align set_fw_includes_right_edge
                   fw_times_min fw_bin_count fw_bin_width fw_shift fw_align fw_includes_right_edge
                   f_w f_shift f_tmin f_count f_align fst snd] in H.

Lemma ar_left (fe v al w : Qc) : 0 < w -> al < (fe - v) / w + 1 -> v < fe - al * w + w.
Proof.
  intros Hw H. assert (D : (fe - v) / w * w = fe - v) by (field; apply pos_neq0'; exact Hw).
  pose proof (mul_lt_pos _ _ _ H Hw) as G. rewrite Qcmult_plus_distr_l, D in G. qc2q; lra.
Qed.
Lemma ar_pos (x w al : Qc) : 0 < x -> 0 < w -> x / w <= al -> 0 < al.
Proof.
  intros Hx Hw H. assert (D : x / w * w = x) by (field; apply pos_neq0'; exact Hw).
  pose proof (mul_le_pos _ _ _ H Hw) as G. rewrite D in G. qc2q; nra.
Qed.
Lemma ar_right (le v ar w : Qc) : 0 < w -> ar < (v - le) / w + 1 -> le + ar * w - w <= v.
Proof.
  intros Hw H. assert (D : (v - le) / w * w = v - le) by (field; apply pos_neq0'; exact Hw).
  pose proof (mul_lt_pos _ _ _ H Hw) as G. rewrite Qcmult_plus_distr_l, D in G. qc2q; lra.
Qed.
Lemma qz_pos_inv z : 0 < qz z -> (1 <= z)%Z.
Proof.
  intros H. destruct (Z_lt_le_dec z 1) as [L|L]; [|exact L]. exfalso.
  assert (H0 : qz z <= qz 0) by (apply qz_le; lia). rewrite qz_0 in H0. qc2q; lra.
Qed.
Lemma zofnat_eqb0 n : (Z.of_nat n =? 0)%Z = Nat.eqb n 0.
Proof. destruct n; reflexivity. Qed.

Theorem gen_force_single_is_model fuel b v ir : 0 < f_w b -> (1 <= fuel)%nat ->
  g_fw_force_bin_existence_single xarith fuel (embed b ir) (Fin v) (Some false) =
  Done (embed (fst (force_single b v false)) ir, embed_ret (snd (force_single b v false))).
Proof.
  intros Hw Hf. pose proof (force_single_covers b v Hw) as HC. simpl in HC.
  pose proof (w_nz _ Hw) as Hwz. pose proof (pos_neq0' _ Hw) as Hw0.
  unfold g_fw_force_bin_existence_single, embed, force_single in *.
  fwcbn. rewrite zofnat_eqb0.
  destruct (Nat.eqb (f_count b) 0) eqn:Ec.
  - fwcbn. fwcbn_in HC.
    cbn [ffloor fdiv fsub fmul of_Z xarith xsub xneg xadd xdiv xmul] . rewrite Hwz. cbn [xfloor].
    set (t := qfloor ((v - f_shift b) / f_w b)) in *.
    change (Qfloor ((v + - f_shift b) / f_w b)%Qc) with t.
    change (v + - (qz t * f_w b)) with (v - qz t * f_w b).
    destruct HC as [_ [H1 [H2 _]]]. rewrite edge0 in H1. unfold fw_edge in H2. fwcbn_in H1. fwcbn_in H2.
    change (Z.of_nat 1) with 1%Z in *.
    destruct (f_align b); cbn [negb]; fwcbn.
    + rewrite cover_noop by assumption. cbn [rbind]. fwcbn.
      rewrite drop_noop; [reflexivity| exact Hf | right; left; lia | right; left; lia].
    + rewrite cover_noop by assumption. cbn [rbind]. fwcbn.
      rewrite drop_noop; [reflexivity| exact Hf | right; left; lia | right; left; lia].
  - apply Nat.eqb_neq in Ec.
    rewrite !first_edge_x, !last_edge_x. cbn [flt fle xarith]. rewrite xlt_fin, xle_fin.
    rewrite edge0 in *. 
    destruct (Qcltb v (qz (f_tmin b) * f_w b + f_shift b)) eqn:E1.
    + fwcbn. fwcbn_in HC. apply Qcltb_lt in E1.
      set (fe := qz (f_tmin b) * f_w b + f_shift b) in *.
      cbn [fceil fdiv fsub xarith xsub xneg xadd xdiv]. rewrite Hwz. cbn [xceil].
      change (Qceiling (this ((fe + - v) / f_w b)%Qc)) with (qceil ((fe - v) / f_w b)).
      destruct (ceil_spec ((fe - v) / f_w b)) as [C1 C2].
      set (al := qceil ((fe - v) / f_w b)) in *.
      assert (Hal : (1 <= al)%Z).
      { apply qz_pos_inv. apply (ar_pos (fe - v) (f_w b)); auto. qc2q; lra. }
      rewrite Z2Nat.id in * by lia.
      destruct HC as [_ [H1 [H2 _]]]. rewrite edge0 in H1. unfold fw_edge in H2. fwcbn_in H1. fwcbn_in H2.
      rewrite Nat2Z.inj_add, Z2Nat.id in H2 by lia.
      rewrite cover_noop; [| exact H1 | exact H2].
      cbn [rbind]. 
      rewrite drop_noop; [| exact Hf | right; right | left; lia].
      * cbn [rbind]. replace (al + 0 - 0 =? 0)%Z with false by (symmetry; apply Z.eqb_neq; lia). cbn [negb orb].
        replace (Z.to_nat al =? 0)%nat with false by (symmetry; apply Nat.eqb_neq; lia).
        cbn [embed_ret]. rewrite Z2Nat.id by lia. rewrite Nat2Z.inj_add, Z2Nat.id by lia.
        replace (al + 0 - 0)%Z with al by lia. reflexivity.
      * replace (f_tmin b - al + 1)%Z with (f_tmin b + (- al + 1))%Z by lia.
        rewrite qz_add, qz_add, qz_opp, qz_1.
        pose proof (ar_left fe v (qz al) (f_w b) Hw C2) as G. unfold fe in G.
        replace ((qz (f_tmin b) + (- qz al + 1)) * f_w b + f_shift b) with (qz (f_tmin b) * f_w b + f_shift b - qz al * f_w b + f_w b) by ring.
        exact G.
    + apply Qcltb_ge in E1.
      change (fw_edge b (f_count b)) with (qz (f_tmin b + Z.of_nat (f_count b)) * f_w b + f_shift b) in *.
      set (le := qz (f_tmin b + Z.of_nat (f_count b)) * f_w b + f_shift b) in *.
      destruct (Qcleb le v) eqn:E2.
      * apply Qcleb_le in E2.
        fwcbn. fwcbn_in HC.
        cbn [fceil fdiv fsub xarith xsub xneg xadd xdiv]. rewrite Hwz. cbn [xceil].
        change (Qceiling (this ((v + - le) / f_w b)%Qc)) with (qceil ((v - le) / f_w b)).
        assert (Hd : 0 <= (v - le) / f_w b).
        { apply div_nonneg; auto. qc2q; lra. }
        destruct (ceil_spec ((v - le) / f_w b)) as [C1 C2].
        pose proof (ceil_nonneg _ Hd) as Cn.
        set (ar := qceil ((v - le) / f_w b)) in *.
        unfold fw_edge in *. fwcbn. fwcbn_in HC.
        cbn [feq xarith xfeq xeqb negb]. rewrite !andb_true_r in *.
        rewrite !Nat2Z.inj_add, !Z2Nat.id in * by lia.
        set (l1 := qz (f_tmin b + (Z.of_nat (f_count b) + ar)) * f_w b + f_shift b) in *.
        assert (Hl1 : l1 = le + qz ar * f_w b).
        { unfold l1, le. rewrite Z.add_assoc, qz_add. ring. }
        destruct (Qceqb l1 v) eqn:E3.
        -- apply Qceqb_eq in E3. fwcbn.
           rewrite cover_noop; [| rewrite Z.add_0_r in HC; exact E1 |].
           2:{ replace (f_tmin b + (Z.of_nat (f_count b) + ar + 1))%Z with ((f_tmin b + (Z.of_nat (f_count b) + ar)) + 1)%Z by lia.
               rewrite qz_add, qz_1. fold l1. 
               replace ((qz (f_tmin b + (Z.of_nat (f_count b) + ar)) + 1) * f_w b + f_shift b) with (l1 + f_w b) by (unfold l1; ring).
               rewrite E3. qc2q; lra. }
           cbn [rbind].
           rewrite drop_noop; [| exact Hf | left; lia | right; right].
           2:{ replace (f_tmin b + (Z.of_nat (f_count b) + ar + 1) - 1)%Z with (f_tmin b + (Z.of_nat (f_count b) + ar))%Z by lia.
               fold l1. rewrite E3. apply Qcle_refl. }
           cbn [rbind]. replace (0 + 0 - 0 =? 0)%Z with true by reflexivity.
           replace (ar + 1 + 0 - 0 =? 0)%Z with false by (symmetry; apply Z.eqb_neq; lia). cbn [negb orb].
           rewrite andb_false_r. cbn [embed_ret fst snd]. fwcbn.
           rewrite Nat2Z.inj_succ, Nat2Z.inj_add, Z2Nat.id by lia.
           replace (Z.succ (Z.of_nat (f_count b) + ar)) with (Z.of_nat (f_count b) + ar + 1)%Z by lia. reflexivity.
        -- fwcbn. fwcbn_in HC. destruct HC as [_ [_ [H2 _]]].
           rewrite !Nat2Z.inj_add, !Z2Nat.id in H2 by lia. fold l1 in H2.
           rewrite cover_noop; [| exact E1 | exact H2].
           cbn [rbind].
           rewrite drop_noop; [| exact Hf | left; lia | right; right].
           2:{ replace (f_tmin b + (Z.of_nat (f_count b) + ar) - 1)%Z with ((f_tmin b + (Z.of_nat (f_count b) + ar)) + - (1))%Z by lia.
               rewrite qz_add, qz_opp, qz_1.
               pose proof (ar_right le v (qz ar) (f_w b) Hw C2) as G.
               replace ((qz (f_tmin b + (Z.of_nat (f_count b) + ar)) + - (1:Qc)) * f_w b + f_shift b) with (l1 - f_w b) by (unfold l1; ring).
               rewrite Hl1. exact G. }
           cbn [rbind]. replace (0 + 0 - 0 =? 0)%Z with true by reflexivity. cbn [negb orb]. rewrite andb_true_r.
           replace (ar + 0 - 0)%Z with ar by lia.
           destruct (Z.eqb_spec ar 0) as [Ea|Ea].
           ++ rewrite Ea. cbn [Z.to_nat Nat.eqb negb embed_ret]. rewrite Z.add_0_r, Nat.add_0_r. reflexivity.
           ++ replace (Z.to_nat ar =? 0)%nat with false by (symmetry; apply Nat.eqb_neq; lia).
              cbn [negb embed_ret]. rewrite Nat2Z.inj_add, Z2Nat.id by lia. reflexivity.
      * apply Qcleb_gt in E2. fwcbn.
        rewrite cover_noop; [| exact E1 | exact E2].
        cbn [rbind]. rewrite drop_noop; [| exact Hf | left; lia | left; lia].
        cbn [rbind]. cbn [Z.add Z.sub Z.eqb negb orb Z.opp embed_ret fst snd]. destruct b; reflexivity.
Qed.

(** the array branch of _force_bin_existence (minimum first, then maximum; the first answer that is not None is returned)
    is the model's force_array *)
Lemma force_single_none fuel b v :
  g_fw_force_bin_existence_single xarith fuel (embed b false) (Fin v) None =
  g_fw_force_bin_existence_single xarith fuel (embed b false) (Fin v) (Some false).
Proof. reflexivity. Qed.

Theorem gen_force_min_max_is_model fuel b mn mx : 0 < f_w b -> (1 <= fuel)%nat ->
  g_fw_force_min_max xarith fuel (embed b false) (Fin mn) (Fin mx) None =
  Done (embed (fst (force_single (fst (force_single b mn false)) mx false)) false,
        embed_ret (match snd (force_single b mn false) with
                   | BNone => snd (force_single (fst (force_single b mn false)) mx false)
                   | r => r end)).
Proof.
  intros Hw Hf. unfold g_fw_force_min_max. cbn [fisfinite xarith xfinite negb andb orb].
  rewrite force_single_none, gen_force_single_is_model by assumption. cbn [rbind].
  pose proof (force_single_covers b mn Hw) as HC. cbv zeta in HC. destruct HC as [_ [_ [_ Hw1]]].
  rewrite force_single_none, gen_force_single_is_model; [| rewrite Hw1; exact Hw | exact Hf]. cbn [rbind].
  destruct (snd (force_single b mn false)); reflexivity.
Qed.
