(** Tie by translation, FixedWidthBinning (C04): theorems about the functions generated from the CURRENT source of
    physt/binnings.py (Gen/PyFW.v). *)
From Physt Require Import TieBase PyFW Adaptive AdaptiveProofs.

(** ---------- FixedWidthBinning._force_bin_existence_single: coverage whatever the rounding (C04) ----------
    For ANY arithmetic whose comparisons obey four order laws (all true of IEEE-754 binary64 and of exact numbers),
    whenever the translated code returns, the value lies inside the edges AS THE CODE COMPUTES THEM:
    not (v < first_edge), and not (v > last_edge or (v == last_edge and the right edge is excluded)). *)
Section Cover.
Context {F : Type} (A : arith F).
Hypothesis lt_asym : forall a b, flt A a b = true -> flt A b a = false.
Hypothesis lt_neq : forall a b, flt A a b = true -> feq A a b = false.
Hypothesis eq_nlt : forall a b, feq A a b = true -> flt A b a = false.
Hypothesis le_nlt : forall a b, fle A a b = true -> flt A b a = false.

Definition left_ok (st : fwst) (v : F) : Prop := flt A v (g_fw_first_edge A st) = false.
Definition right_ok (st : fwst) (v : F) (incl : bool) : Prop :=
  flt A (g_fw_last_edge A st) v || (feq A v (g_fw_last_edge A st) && negb incl) = false.

Lemma cover_value_covers fuel st v incl st' r :
  fisfinite A v = true -> g_fw_cover_value A fuel st v incl = Done (st', r) -> left_ok st' v /\ right_ok st' v incl.
Proof.
  intros Hfin H. unfold g_fw_cover_value in H. rewrite Hfin in H. cbn [negb] in H.
  apply rbind_done in H. destruct H as [[s1 el] [H1 H]].
  apply rbind_done in H. destruct H as [[s2 er] [H2 H]].
  inversion H; subst; clear H.
  apply (while_inv (fun _ => True)) in H1; auto.
  destruct H1 as [_ [Hc | [x [_ [_ [Hb _]]]]]]; [|destruct x; discriminate].
  apply (while_inv (fun p => left_ok (fst p) v)) in H2.
  - destruct H2 as [Hl [Hc2 | [x [_ [_ [Hb _]]]]]]; [|destruct x; discriminate]. split; [exact Hl | exact Hc2].
  - intros [s e] Hp _. exact Hp.
  - exact Hc.
Qed.

Lemma last_edge_shift (s : @fwst F) : forall t c t' c', (t + c = t' + c')%Z ->
  g_fw_last_edge A (mk_fw t c (fw_bin_width s) (fw_shift s) (fw_align s) (fw_includes_right_edge s)) =
  g_fw_last_edge A (mk_fw t' c' (fw_bin_width s) (fw_shift s) (fw_align s) (fw_includes_right_edge s)).
Proof. intros t c t' c' H. unfold g_fw_last_edge. cbn [fw_times_min fw_bin_count fw_bin_width fw_shift]. rewrite H. reflexivity. Qed.

Lemma drop_keeps_cover fuel st v incl nl nr st' r :
  g_fw_drop_unneeded_bins A fuel st v incl nl nr = Done (st', r) ->
  left_ok st v -> right_ok st v incl -> left_ok st' v /\ right_ok st' v incl.
Proof.
  intros H Hl Hr. unfold g_fw_drop_unneeded_bins in H.
  destruct (negb (fisfinite A v)); [inversion H; subst; auto|].
  apply rbind_done in H. destruct H as [[s1 dl] [H1 H]].
  apply rbind_done in H. destruct H as [[s2 dr] [H2 H]].
  inversion H; subst; clear H.
  set (P := fun p : @fwst F * Z => left_ok (fst p) v /\ right_ok (fst p) v incl).
  eapply (while_inv P) in H1.
  - destruct H1 as [P1 _].
    eapply (while_inv P) in H2.
    + destruct H2 as [P2 _]. exact P2.
    + intros [s e] [Pl Pr] _. unfold P. cbn [fst] in *.
      destruct (flt A v _ || _) eqn:Hin; cbn [fst]; [|auto].
      split.
      * exact Pl.
      * unfold right_ok in *.
        destruct s as [t c w sh al ir]. unfold set_fw_bin_count. cbn [fw_times_min fw_bin_count fw_bin_width fw_shift fw_align fw_includes_right_edge] in *.
        unfold g_fw_last_edge in *. cbn [fw_times_min fw_bin_count fw_bin_width fw_shift] in *.
        replace (t + (c - 1))%Z with (t + c - 1)%Z by lia.
        set (ll := fadd A (fmul A (of_Z A (t + c - 1)%Z) w) sh) in *.
        apply orb_true_iff in Hin. destruct Hin as [Hlt | Heq].
        -- rewrite (lt_asym _ _ Hlt), (lt_neq _ _ Hlt). reflexivity.
        -- apply andb_true_iff in Heq. destruct Heq as [He Hi]. rewrite (eq_nlt _ _ He), Hi. cbn. apply andb_false_r.
    + exact P1.
  - intros [s e] [Pl Pr] Hc. unfold P. cbn [fst] in *.
    apply andb_true_iff in Hc. destruct Hc as [_ Hle].
    destruct s as [t c w sh al ir]. unfold set_fw_bin_count, set_fw_times_min.
    cbn [fst fw_times_min fw_bin_count fw_bin_width fw_shift fw_align fw_includes_right_edge] in *.
    split.
    + unfold left_ok, g_fw_first_edge. cbn [fw_times_min fw_bin_width fw_shift]. apply le_nlt. exact Hle.
    + unfold right_ok in *. unfold g_fw_last_edge in *. cbn [fw_times_min fw_bin_count fw_bin_width fw_shift] in *.
      replace (t + 1 + (c - 1))%Z with (t + c)%Z by lia. exact Pr.
  - unfold P. cbn [fst]. auto.
Qed.

Ltac tail_step H :=
  let x := fresh "x" in let H1 := fresh "Hc" in
  apply rbind_done in H; destruct H as [[? ?] [H1 H]].

Theorem force_single_covers_any_arith fuel st v incl st' r :
  fisfinite A v = true ->
  g_fw_force_bin_existence_single A fuel st v (Some incl) = Done (st', r) ->
  left_ok st' v /\ right_ok st' v incl.
Proof.
  intros Hfin H. unfold g_fw_force_bin_existence_single in H.
  repeat match type of H with
         | (if ?c then _ else _) = _ => destruct c
         | (let '(_, _) := ?p in _) = _ => destruct p
         end;
  (apply rbind_done in H; destruct H as [[s1 r1] [Hcv H]];
   repeat match type of H with (let '(_, _) := ?p in _) = _ => destruct p end;
   apply rbind_done in H; destruct H as [[s2 r2] [Hdr H]];
   repeat match type of H with
          | (if ?c then _ else _) = _ => destruct c
          | (let '(_, _) := ?p in _) = _ => destruct p
          end;
   inversion H; subst; clear H;
   pose proof (cover_value_covers _ _ _ _ _ _ Hfin Hcv) as [Hl Hr];
   eapply drop_keeps_cover; eauto).
Qed.
End Cover.

(** the four order laws hold for exact extended rationals, so the theorem applies to the exact model without premises *)
Lemma x_lt_asym a b : flt xarith a b = true -> flt xarith b a = false.
Proof.
  destruct a as [x| | |], b as [y| | |]; cbn; try discriminate; try reflexivity.
  intros H. apply Qcltb_lt in H. apply Qcltb_ge. apply Qclt_le_weak. exact H.
Qed.
Lemma x_lt_neq a b : flt xarith a b = true -> feq xarith a b = false.
Proof.
  destruct a as [x| | |], b as [y| | |]; cbn; try discriminate; try reflexivity.
  intros H. destruct (Qceqb x y) eqn:E; [|reflexivity]. apply Qceqb_eq in E. subst. rewrite Qcltb_irrefl in H. discriminate.
Qed.
Lemma x_eq_nlt a b : feq xarith a b = true -> flt xarith b a = false.
Proof.
  destruct a as [x| | |], b as [y| | |]; cbn; try discriminate; try reflexivity.
  intros H. apply Qceqb_eq in H. subst. apply Qcltb_irrefl.
Qed.
Lemma x_le_nlt a b : fle xarith a b = true -> flt xarith b a = false.
Proof.
  destruct a as [x| | |], b as [y| | |]; cbn; try discriminate; try reflexivity.
  intros H. apply negb_true_iff in H. exact H.
Qed.

Theorem force_single_covers_exact fuel st v incl st' r :
  g_fw_force_bin_existence_single xarith fuel st (Fin v) (Some incl) = Done (st', r) ->
  left_ok xarith st' (Fin v) /\ right_ok xarith st' (Fin v) incl.
Proof.
  apply (force_single_covers_any_arith xarith x_lt_asym x_lt_neq x_eq_nlt x_le_nlt). reflexivity.
Qed.
