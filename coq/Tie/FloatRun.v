(** Running the translated FixedWidthBinning code in binary64 (Coq's primitive floats) on concrete histories, for the
    bit-exact comparison with physt that harness/props/C04.py performs on every run (no proofs here). *)
From Physt Require Import TieBase PyFW TieFloat.
From Coq Require Import PrimFloat.

Definition snap (st : @fwst float) : Z * Z * float := (fw_times_min st, fw_bin_count st, fw_shift st).
Definition optint_eqb (a b : optint) : bool :=
  match a, b with
  | OITuple0, OITuple0 | OINone, OINone => true
  | OIInt x, OIInt y => Z.eqb x y
  | _, _ => false end.
Definition same_float (x y : float) : bool := PrimFloat.eqb x y.

(** one history: the values entered one by one through _force_bin_existence_single; after each call physt's
    (_times_min, _bin_count, _shift, returned value) must be what the translated code computes *)
Fixpoint run_single (fuel : nat) (st : @fwst float) (steps : list (float * (Z * Z * float * optint))) : bool :=
  match steps with
  | [] => true
  | (v, (t, c, s, r)) :: rest =>
      match g_fw_force_bin_existence_single parith fuel st v None with
      | Done (st', r') =>
          Z.eqb (fw_times_min st') t && Z.eqb (fw_bin_count st') c && same_float (fw_shift st') s && optint_eqb r' r &&
          run_single fuel st' rest
      | _ => false end
  end.

(** one batch: (min, max) through the array branch *)
Definition run_pair (fuel : nat) (st : @fwst float) (mn mx : float) (exp : Z * Z * float * optint) : bool :=
  match g_fw_force_min_max parith fuel st mn mx None with
  | Done (st', r') =>
      let '(t, c, s, r) := exp in
      Z.eqb (fw_times_min st') t && Z.eqb (fw_bin_count st') c && same_float (fw_shift st') s && optint_eqb r' r
  | _ => false end.
