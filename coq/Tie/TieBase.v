(** Shared lemmas for the tie by translation (see tools/pytrans.py, Gen/*.v): the loop combinator, the exact
    arithmetic instance. *)
From Physt Require Export PyArith OrderQc.
From Coq Require Export Lia.

(** ---------- generic facts about the loop combinator ---------- *)
Lemma while_inv {S} (P : S -> Prop) (cond : S -> bool) (body : S -> S * bool) :
  (forall x, P x -> cond x = true -> P (fst (body x))) ->
  forall fuel s s', P s -> while_ fuel cond body s = Done s' ->
  P s' /\ (cond s' = false \/ exists x, P x /\ cond x = true /\ snd (body x) = false /\ s' = fst (body x)).
Proof.
  intros Hstep. induction fuel as [|n IH]; intros s s' Hs Hw; simpl in Hw.
  - destruct (cond s) eqn:Hc; [discriminate|]. inversion Hw; subst. auto.
  - destruct (cond s) eqn:Hc.
    + destruct (body s) as [s1 go] eqn:Hb. destruct go.
      * apply IH in Hw; auto. specialize (Hstep s Hs Hc). rewrite Hb in Hstep. exact Hstep.
      * inversion Hw; subst. split.
        -- specialize (Hstep s Hs Hc). rewrite Hb in Hstep. exact Hstep.
        -- right. exists s. rewrite Hb. auto.
    + inversion Hw; subst. auto.
Qed.

Lemma while_false {S} (cond : S -> bool) body fuel (s : S) : cond s = false -> while_ fuel cond body s = Done s.
Proof. intros H. destruct fuel; simpl; rewrite H; reflexivity. Qed.

Lemma zrange_from_seq : forall n s, zrange_from (Z.of_nat s) n = map Z.of_nat (seq s n).
Proof.
  induction n as [|n IH]; intros s; simpl; [reflexivity|].
  f_equal. replace (Z.of_nat s + 1)%Z with (Z.of_nat (S s)) by lia. apply IH.
Qed.

Lemma qz0 : qz 0 = 0%Qc. Proof. apply Qc_is_canon. reflexivity. Qed.
Lemma xlt_fin a b : xlt (Fin a) (Fin b) = Qcltb a b. Proof. reflexivity. Qed.
Lemma Qccompare_antisym (a b : Qc) : (a ?= b)%Qc = CompOpp (b ?= a)%Qc.
Proof. unfold Qccompare. rewrite <- Qcompare_antisym. reflexivity. Qed.
Lemma xle_fin a b : xle (Fin a) (Fin b) = Qcleb a b.
Proof. unfold xle, xlt. rewrite Qcleb_negb_ltb. reflexivity. Qed.

Lemma rbind_done {X Y} (r : res X) (k : X -> res Y) y : rbind r k = Done y -> exists x, r = Done x /\ k x = Done y.
Proof. destruct r; simpl; intros H; try discriminate. eauto. Qed.

