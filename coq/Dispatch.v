(** Single entry point of the extracted model: request -> answer. *)
From Physt Require Import Sx Merge Calc1D CalcND Fill ArithCases ScaleCases Project Index StatsCases DtypeCases Adaptive Atomic Heap Ctx Json Binning Transform Geometry Containers Plot.

Definition run (req : sx) : sx :=
  match req with
  | LL [SS "echo"; x] => x
  | LL [SS "mkq"; ZZ n; ZZ (Zpos d)] => QQ (mkq n d)
  | LL [SS "C01"; c; o] => judge_C01 c o
  | LL [SS "C02"; c; o] => judge_C02 c o
  | LL [SS "C03"; c; o] => judge_C03 c o
  | LL [SS "C05"; c; o] => judge_C05 c o
  | LL [SS "C06"; c; o] => judge_C06 c o
  | LL [SS "C09"; c; o] => judge_C09 c o
  | LL [SS "C11"; c; o] => judge_C11 c o
  | LL [SS "C14"; c; o] => judge_C14 c o
  | LL [SS "C13"; c; o] => judge_C13 c o
  | LL [SS "C04"; c; o] => judge_C04 c o
  | LL [SS "C18"; c; o] => judge_C18 c o
  | LL [SS "C12"; c; o] => judge_C12 c o
  | LL [SS "C08"; c; o] => judge_C08 c o
  | LL [SS "C07"; c; o] => judge_C07 c o
  | LL [SS "C15"; c; o] => judge_C15 c o
  | LL [SS "C16"; c; o] => judge_C16 c o
  | LL [SS "C17"; c; o] => judge_C17 c o
  | LL [SS "C20"; c; o] => judge_C20 c o
  | LL [SS "C19"; c; o] => judge_C19 c o
  | LL [SS "C10"; c; o] => judge_C10 c o
  | LL [SS "sumq"; l] => match d_list d_q l with Some qs => QQ (sumq qs) | None => illformed end
  | _ => SS "unknown-request"
  end.
