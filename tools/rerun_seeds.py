#!/venv/bin/python
"""tools/rerun_seeds.py : apply every kept seed to /repo in turn (undoing it afterwards), run the quick check of its property and
record the outcome in seeded/<id>/meta.json (rerun_on_final_tree)."""
import glob, json, os, subprocess, sys
out = []
for d in sorted(glob.glob("/verif/seeded/*")):
    n = os.path.basename(d); prop = n.split("-")[0]
    patch = os.path.join(d, "patch.diff")
    if subprocess.run(["git", "-C", "/repo", "apply", "--check", patch], capture_output=True).returncode != 0:
        res = dict(applies=False, violations_reported=None)
    else:
        r = subprocess.run(["/verif/tools/try_seed.sh", patch, prop], capture_output=True, text=True).stdout
        res = dict(applies=True, violations_reported=sum(1 for l in r.split("\n") if l.startswith("VIOLATION")),
                   command="tools/try_seed.sh seeded/%s/patch.diff %s (quick tier)" % (n, prop))
    m = json.load(open(os.path.join(d, "meta.json")))
    m["rerun_on_final_tree"] = res
    if "status_on_current_tree" not in m:
        m["caught_by_quick_check"] = bool(res.get("violations_reported"))
    json.dump(m, open(os.path.join(d, "meta.json"), "w"), indent=1)
    out.append((n, res)); print(n, res.get("applies"), res.get("violations_reported"), flush=True)
bad = [n for n, r in out if not r.get("applies") or not r.get("violations_reported")]
print("NOT CAUGHT / NOT APPLYING:", bad)
