#!/venv/bin/python
"""Regenerate MANIFEST.json from harness/registry.py"""
import json, sys, os
sys.path.insert(0, os.path.dirname(os.path.dirname(os.path.abspath(__file__))))
from harness import registry as R
props = [json.loads(l) for l in open("/verif/properties.jsonl")]
checks, na = [], []
for p in props:
    pid = p["id"]
    e = R.CLAIMED.get(pid)
    if e is None:
        na.append(dict(property_id=pid, reason=R.NOT_CLAIMED.get(pid, "model and correspondence not built yet in this round; no check is registered (the technique applies, see DESIGN.md section 6)")))
        continue
    checks.append(dict(
        property_id=pid,
        quick_cmd="./check %s --tier quick" % pid,
        thorough_cmd="./check %s --tier thorough" % pid,
        evidence_file="/verif/evidence/%s.json" % pid,
        replay_cmd_template="./check %s --replay {path}" % pid,
        engine="coq-model+correspondence",
        level_claimed=dict(category="proof", text=e["text"] + ((" " + R.TIE[pid]) if pid in R.TIE else ""),
                           design_ref=e.get("design_ref", "DESIGN.md section 6, " + pid) + ("; section 0.9" if pid in R.TIE else "")),
        level_note=e["note"] + (R.TIE_NOTE if pid in R.TIE else ""),
        technique=e["technique"] + (R.TIE_TECHNIQUE if pid in R.TIE else "")))
m = dict(version=1, setup_cmd="./setup.sh",
         hooks=dict(guard="PHYST_VERIF", enable="none needed: no guarded instrumentation exists in /repo; checks run /repo/src directly via PYTHONPATH",
                    baseline_off_cmd="cd /repo && /venv/bin/python -m pytest -ra -q -p no:cacheprovider --timeout=900 --continue-on-collection-errors",
                    source_commits=R.SOURCE_COMMITS, add_only=True),
         engines=[dict(name="coq-model+correspondence", path="/verif/coq + /verif/ocaml + /verif/harness",
                       serves_properties=sorted(R.CLAIMED),
                       kind_free_text="hand-written Gallina model with theorems (Coq 8.16.1), extracted with ExtrOcamlBasic; every run executes the extracted model and checker and physt (from /repo/src) on the same generated cases and diffs the observations")],
         checks=checks, not_applicable=na,
         notes=R.NOTES)
json.dump(m, open("/verif/MANIFEST.json", "w"), indent=1)
print("claimed:", sorted(R.CLAIMED), "not claimed:", [x["property_id"] for x in na])
