#!/venv/bin/python
import json,sys,re
for f in sys.argv[1:]:
    d=json.load(open(f))
    short=lambda s: re.sub(r'\d{30,}','<big>',s)
    print('==',f, d.get('note')); print(' kind', d.get('kind'), 'verdict', d.get('verdict'))
    for k in ('case','impl_obs','model_obs'):
        print(' %s: %s' % (k, short(d.get(k,''))[:1500]))
