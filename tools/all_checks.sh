#!/bin/bash
# run every claimed check (quick tier) on the current tree; prints one summary line each
cd "$(dirname "$0")/.."
for p in $(/venv/bin/python -c "import json; print(' '.join(c['property_id'] for c in json.load(open('MANIFEST.json'))['checks']))"); do
  out=$(./check $p --tier ${1:-quick} 2>&1); rc=$?
  echo "$out" | grep -E "VIOLATION|KNOWN" | cut -c1-200
  echo "rc=$rc $(echo "$out" | tail -1)"
done
