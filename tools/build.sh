#!/bin/bash
# full build: all .vo (no -vos/-vok), extraction, OCaml driver. Incremental; serialised by a lock.
# Stage 1 (must succeed): Base, Model, Proofs, Dispatch, Props/Cxx.v, extraction, driver.
# Stage 2 (per group, failures isolated): the scalar Python kernels of /repo are RE-TRANSLATED from the current source
#   (tools/pytrans.py -> coq/Gen/Py*.v, fail-closed) and the tie theorems (coq/Tie/*.v, coq/Props/Cxx_tie.v) are re-checked
#   against what the code says now.  A group that no longer translates or whose proofs no longer check leaves no .vo
#   behind; the proof gate of the properties it serves then fails (harness/engine.py), the others are unaffected.
cd "$(dirname "$0")/.."
exec 9>/verif/.build.lock
flock 9
# PHYST_SKIP_TIE=1 (development runs through tools/try_seed.sh only): leave the translated groups alone
[ -n "$PHYST_SKIP_TIE" ] || /venv/bin/python tools/pytrans.py --src ${PHYST_SRC:-/repo/src/physt} --outdir coq/Gen 2> coq/.pytrans.log
tools/mkproject.sh
ulimit -s unlimited 2>/dev/null || true
cd coq
MAIN=$(ls Base/*.v Model/*.v Proofs/*.v Dispatch.v Props/C??.v | sed 's/\.v$/.vo/')
TIE=$(ls Gen/*.v Tie/*.v Props/C??_tie.v 2>/dev/null | sed 's/\.v$/.vo/')
timeout 3000 make -j16 $MAIN > .make.log 2>&1
rc=$?
cd ..
grep -v "^COQDEP\|^COQC\|^make\|^CLEAN" coq/.make.log
if [ $rc -ne 0 ]; then echo "build FAILED (make rc=$rc)"; exit 1; fi
if [ ! -x ocaml/driver ] || [ coq/Dispatch.vo -nt ocaml/driver ] || [ ocaml/driver.ml -nt ocaml/driver ] || [ coq/Extract.v -nt ocaml/driver ]; then
  (cd coq && timeout 900 coqc -Q . Physt Extract.v >/dev/null && mv model.ml model.mli ../ocaml/) || { echo "extraction FAILED"; exit 1; }
  (cd ocaml && timeout 900 ocamlfind ocamlopt -O3 -unboxed-types 2>/dev/null; timeout 900 ocamlfind ocamlopt -package zarith -linkpkg -w -a model.mli model.ml driver.ml -o driver) || { echo "ocaml FAILED"; exit 1; }
fi
# stage 2: never fatal here
if [ -n "$PHYST_SKIP_TIE" ]; then echo "build ok"; exit 0; fi
for t in $TIE; do rm -f coq/${t%.vo}.failed; done
(cd coq && timeout 3000 make -k -j16 $TIE > .tie.log 2>&1) || { cat coq/.pytrans.log; grep -B2 -A12 "^Error\|Error:" coq/.tie.log | head -60; echo "tie: some translated kernels no longer check (see coq/.tie.log)"; }
echo "build ok"
