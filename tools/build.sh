#!/bin/bash
# full build: all .vo (no -vos/-vok), extraction, OCaml driver. Incremental; serialised by a lock.
cd "$(dirname "$0")/.."
exec 9>/verif/.build.lock
flock 9
tools/mkproject.sh
ulimit -s unlimited 2>/dev/null || true
timeout 3000 make -C coq -j16 > coq/.make.log 2>&1
rc=$?
grep -v "^COQDEP\|^COQC\|^make\|^CLEAN" coq/.make.log
if [ $rc -ne 0 ]; then echo "build FAILED (make rc=$rc)"; exit 1; fi
if [ ! -x ocaml/driver ] || [ coq/Dispatch.vo -nt ocaml/driver ] || [ ocaml/driver.ml -nt ocaml/driver ] || [ coq/Extract.v -nt ocaml/driver ]; then
  (cd coq && timeout 900 coqc -Q . Physt Extract.v >/dev/null && mv model.ml model.mli ../ocaml/) || { echo "extraction FAILED"; exit 1; }
  (cd ocaml && timeout 900 ocamlfind ocamlopt -O3 -unboxed-types 2>/dev/null; timeout 900 ocamlfind ocamlopt -package zarith -linkpkg -w -a model.mli model.ml driver.ml -o driver) || { echo "ocaml FAILED"; exit 1; }
fi
echo "build ok"
