#!/bin/bash
# run the pinned baseline suite of /repo (or $1) and print the summary line
R=${1:-/repo}
cd $R && HYPOTHESIS_STORAGE_DIRECTORY=/tmp/hyp.$$ PYTHONPATH=$R/src /venv/bin/python -m pytest -ra -q -p no:cacheprovider --timeout=900 --continue-on-collection-errors 2>&1 | grep -E "^(FAILED|ERROR)|passed|failed" | tail -15
