#!/bin/bash
# regenerate coq/_CoqProject from the files present (Extract.v is compiled separately)
cd "$(dirname "$0")/../coq"
{ echo "-Q . Physt"; ls Base/*.v Gen/*.v Model/*.v Proofs/*.v Tie/*.v 2>/dev/null; echo Dispatch.v; ls Props/*.v 2>/dev/null; } > _CoqProject
coq_makefile -f _CoqProject -o Makefile >/dev/null
