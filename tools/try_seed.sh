#!/bin/bash
# run a check against a seeded change: apply to /repo, run, always undo.  usage: tools/try_seed.sh <patch.diff> <prop> [tier]
P=$(realpath $1); shift
[ -z "$(git -C /repo status --porcelain --untracked-files=no)" ] || { echo "/repo not clean"; exit 2; }
git -C /repo apply $P || exit 2
trap 'git -C /repo checkout -- .' EXIT
export PHYST_SKIP_TIE=1
for prop in "$@"; do (cd /verif && ./check $prop --tier quick --no-gate 2>&1 | grep -E "VIOLATION|KNOWN|tier=" | cut -c1-300); done
