#!/bin/bash
# does a check notice when a repair is taken back?  usage: tools/try_revert.sh <fix commit> <prop> [prop...]
C=$1; shift
[ -z "$(git -C /repo status --porcelain --untracked-files=no)" ] || { echo "/repo not clean"; exit 2; }
git -C /repo diff $C~1 $C | git -C /repo apply -R || exit 2
trap 'git -C /repo checkout -- .' EXIT
for prop in "$@"; do (cd /verif && ./check $prop --tier quick --no-gate 2>&1 | grep -E "VIOLATION|KNOWN|tier=" | cut -c1-200 | tail -3); done
