#!/venv/bin/python
"""tools/pytrans.py [--src /repo/src/physt] [--out coq/Gen/PySrc.v]

Fail-closed translator of the scalar pure-Python kernels of physt into Gallina (shallow embedding).
It reads the CURRENT source, finds the kernels named in KERNELS, and emits one Coq file in which every kernel is a
function over an abstract float arithmetic (Base/PyArith.v).  Anything outside the supported subset raises
Unsupported: the build then fails and the proof gate reports it (never a silent skip).

Subset: assignments (names, tuples of names, self attributes), augmented assignments, if / elif / else, while (with
break), for over range / enumerate, return, raise, list.append, list / generator comprehensions over range, calls of
other translated methods, int(np.floor(.)), int(np.ceil(.)), np.isfinite, np.minimum/np.maximum, dataclass
construction / dataclasses.replace, arithmetic + - * / // ** 2, comparisons, and / or / not, truthiness of ints.
Typing: python ints -> Z, floats -> F (abstract), bools -> bool; mixed arithmetic coerces the int (of_Z).
"""
import ast, sys, os, fractions

class Unsupported(Exception):
    pass

def fail(node, why):
    raise Unsupported("%s at line %s: %s" % (why, getattr(node, "lineno", "?"), ast.unparse(node)[:120] if isinstance(node, ast.AST) else node))

# ---------------------------------------------------------------- types
def ty_code(t):
    if t == "adaptmap": return "adaptmap"
    if t == "Z": return "Z"
    if t == "F": return "F"
    if t == "B": return "bool"
    if t == "unit": return "unit"
    if t == "optint": return "optint"
    if isinstance(t, tuple):
        if t[0] == "tuple": return "(" + " * ".join(ty_code(x) for x in t[1]) + ")"
        if t[0] == "list": return "(list %s)" % ty_code(t[1])
        if t[0] == "opt": return "(option %s)" % ty_code(t[1])
        if t[0] == "rec": return t[1]
    raise Unsupported("type %r" % (t,))

class Kernel:
    """one class (or code fragment) to translate"""
    def __init__(self, **kw):
        self.__dict__.update(kw)

class FnCtx:
    def __init__(self, tr, kernel, spec):
        self.tr, self.kernel, self.spec = tr, kernel, spec
        self.partial = spec.get("partial", False)
        self.mut = spec.get("mut", False)
        self.ret = spec["ret"]
        self.loops = []       # stack of (vars, types) for break

    # ---------------------------------------------------------- expressions
    def coerce(self, code, t, want, node):
        if t == want: return code
        if t == "Z" and want == "F": return "(of_Z A %s)" % code
        if want == ("opt", t): return "(Some %s)" % code
        fail(node, "cannot use %r where %r is expected" % (t, want))

    def truth(self, node, env):
        """python truthiness of an expression in a test position"""
        if isinstance(node, ast.BoolOp):
            parts = [self.truth(v, env) for v in node.values]
            op = "&&" if isinstance(node.op, ast.And) else "||"
            return "(" + (" %s " % op).join(parts) + ")"
        if isinstance(node, ast.UnaryOp) and isinstance(node.op, ast.Not):
            return "(negb %s)" % self.truth(node.operand, env)
        c, t = self.ex(node, env)
        if t == "B": return c
        if t == "Z": return "(negb (Z.eqb %s 0))" % c
        fail(node, "truthiness of type %r" % (t,))

    def const(self, node):
        v = node.value
        if v is None: return "tt", "none"
        if isinstance(v, bool): return ("true" if v else "false"), "B"
        if isinstance(v, int): return ("(%d)%%Z" % v), "Z"
        if isinstance(v, float):
            fr = fractions.Fraction(v)
            return "(fconst A (%d)%%Z %d%%positive)" % (fr.numerator, fr.denominator), "F"
        fail(node, "constant")

    def ex(self, node, env):
        k = self.kernel
        src = ast.unparse(node)
        if src in k.rewrite:
            return self.ex(ast.parse(k.rewrite[src], mode="eval").body, env)
        if src in ("np.nan", "numpy.nan"): return "(fnan A)", "F"
        if src in ("np.inf", "numpy.inf"): return "(fpinf A)", "F"
        if src in ("-np.inf", "-numpy.inf"): return "(fninf A)", "F"
        if isinstance(node, ast.Constant): return self.const(node)
        if isinstance(node, ast.Name):
            if node.id in env: return node.id.lstrip("_") if node.id != "self" else "self", env[node.id]
            if node.id in self.tr.constants: return self.tr.constants[node.id]
            fail(node, "unknown name")
        if isinstance(node, ast.Attribute) and isinstance(node.value, ast.Name) and node.value.id in env \
                and isinstance(env[node.value.id], tuple) and env[node.value.id][0] == "rec":
            owner = self.tr.kernels_by_record[env[node.value.id][1]]
            obj = node.value.id
            if node.attr in owner.field_types:
                return "(%s %s)" % (owner.fname(node.attr), obj), owner.field_types[node.attr]
            m = owner.method(node.attr)
            if m is not None and m.get("prop"):
                if m.get("partial") or m.get("mut"): fail(node, "property must be pure")
                return "(%s %s)" % (owner.mname(node.attr), obj), m["ret"]
            fail(node, "unknown attribute")
        if isinstance(node, ast.Tuple):
            if not node.elts: return "tt", "unit"
            parts = [self.ex(e, env) for e in node.elts]
            return "(" + ", ".join(p[0] for p in parts) + ")", ("tuple", [p[1] for p in parts])
        if isinstance(node, ast.List) and not node.elts:
            return "[]", ("list", None)
        if isinstance(node, ast.UnaryOp):
            if isinstance(node.op, ast.Not): return "(negb %s)" % self.truth(node.operand, env), "B"
            if isinstance(node.op, ast.USub):
                c, t = self.ex(node.operand, env)
                if t == "Z": return "(- %s)%%Z" % c, "Z"
                if t == "F": return "(fsub A (of_Z A 0%%Z) %s)" % c, "F"
            fail(node, "unary operator")
        if isinstance(node, ast.BinOp): return self.binop(node, env)
        if isinstance(node, ast.BoolOp): return self.truth(node, env), "B"
        if isinstance(node, ast.Compare): return self.compare(node, env)
        if isinstance(node, ast.Call): return self.call(node, env)
        if isinstance(node, (ast.ListComp, ast.GeneratorExp)): return self.comprehension(node, env)
        fail(node, "expression")

    def binop(self, node, env):
        a, ta = self.ex(node.left, env)
        if isinstance(node.op, ast.Pow):
            if not (isinstance(node.right, ast.Constant) and node.right.value == 2): fail(node, "only ** 2")
            if ta == "Z": return "(%s * %s)%%Z" % (a, a), "Z"
            if ta == "F": return "(fmul A %s %s)" % (a, a), "F"
            fail(node, "power")
        b, tb = self.ex(node.right, env)
        if ta not in ("Z", "F") or tb not in ("Z", "F"): fail(node, "arithmetic on %r, %r" % (ta, tb))
        opn = type(node.op).__name__
        if opn == "Div":
            return "(fdiv A %s %s)" % (self.coerce(a, ta, "F", node), self.coerce(b, tb, "F", node)), "F"
        if ta == "Z" and tb == "Z":
            sym = {"Add": "+", "Sub": "-", "Mult": "*", "FloorDiv": "/"}.get(opn)     # Z./ is floor division, like //
            if sym is None: fail(node, "integer operator")
            return "(%s %s %s)%%Z" % (a, sym, b), "Z"
        f = {"Add": "fadd", "Sub": "fsub", "Mult": "fmul", "FloorDiv": "ffloordiv", "Mod": "fmodulo"}.get(opn)
        if f is None: fail(node, "float operator")
        return "(%s A %s %s)" % (f, self.coerce(a, ta, "F", node), self.coerce(b, tb, "F", node)), "F"

    def compare(self, node, env):
        if len(node.ops) != 1: fail(node, "chained comparison")
        op = type(node.ops[0]).__name__
        l, r = node.left, node.comparators[0]
        if op in ("Is", "IsNot") and isinstance(r, ast.Constant) and r.value is None:
            c, t = self.ex(l, env)
            if t == "optint":
                code = "(match %s with OINone => true | _ => false end)" % c
                return (code if op == "Is" else "(negb %s)" % code), "B"
            if not (isinstance(t, tuple) and t[0] == "opt"): fail(node, "`is None` on a value that cannot be None")
            code = "(match %s with None => true | Some _ => false end)" % c
            return (code if op == "Is" else "(negb %s)" % code), "B"
        a, ta = self.ex(l, env); b, tb = self.ex(r, env)
        if ta == "B" and tb == "B" and op == "Eq": return "(Bool.eqb %s %s)" % (a, b), "B"
        if ta not in ("Z", "F") or tb not in ("Z", "F"): fail(node, "comparison of %r, %r" % (ta, tb))
        if ta == "Z" and tb == "Z":
            m = {"Lt": "(Z.ltb %s %s)", "LtE": "(Z.leb %s %s)", "Eq": "(Z.eqb %s %s)", "NotEq": "(negb (Z.eqb %s %s))"}
            if op in m: return m[op] % (a, b), "B"
            if op == "Gt": return "(Z.ltb %s %s)" % (b, a), "B"
            if op == "GtE": return "(Z.leb %s %s)" % (b, a), "B"
            fail(node, "comparison")
        a = self.coerce(a, ta, "F", node); b = self.coerce(b, tb, "F", node)
        m = {"Lt": "(flt A %s %s)", "LtE": "(fle A %s %s)", "Eq": "(feq A %s %s)", "NotEq": "(negb (feq A %s %s))"}
        if op in m: return m[op] % (a, b), "B"
        if op == "Gt": return "(flt A %s %s)" % (b, a), "B"          # a > b  is  b < a  (IEEE and python alike)
        if op == "GtE": return "(fle A %s %s)" % (b, a), "B"
        fail(node, "comparison")

    def call(self, node, env):
        f = ast.unparse(node.func)
        args = node.args
        if node.keywords and f not in self.tr.record_ctors and f != "dataclasses.replace": fail(node, "keyword arguments")
        if f == "int" and len(args) == 1:
            inner = args[0]
            if isinstance(inner, ast.Call) and ast.unparse(inner.func) in ("np.floor", "np.ceil") and len(inner.args) == 1:
                c, t = self.ex(inner.args[0], env)
                fn = "ffloor" if ast.unparse(inner.func) == "np.floor" else "fceil"
                return "(%s A %s)" % (fn, self.coerce(c, t, "F", node)), "Z"
            c, t = self.ex(inner, env)
            if t == "Z": return c, "Z"
            if t == "F": return "(fint A %s)" % c, "Z"          # truncation towards zero
            fail(node, "int() of this type")
        if f in ("float",) and len(args) == 1:
            c, t = self.ex(args[0], env)
            return self.coerce(c, t, "F", node), "F"
        if f == "cast" and len(args) == 2: return self.ex(args[1], env)
        if f == "np.isfinite" and len(args) == 1:
            c, t = self.ex(args[0], env)
            return "(fisfinite A %s)" % self.coerce(c, t, "F", node), "B"
        if f == "np.isinf" and len(args) == 1:
            c, t = self.ex(args[0], env)
            c = self.coerce(c, t, "F", node)
            return "(negb (fisfinite A %s) && feq A %s %s)" % (c, c, c), "B"       # not finite and not NaN
        if f in ("np.minimum", "np.maximum") and len(args) == 2:
            a, ta = self.ex(args[0], env); b, tb = self.ex(args[1], env)
            fn = "fminimum" if f == "np.minimum" else "fmaximum"
            return "(%s A %s %s)" % (fn, self.coerce(a, ta, "F", node), self.coerce(b, tb, "F", node)), "F"
        if f in ("min", "max") and len(args) == 2:
            a, ta = self.ex(args[0], env); b, tb = self.ex(args[1], env)
            if ta == "Z" and tb == "Z": return "(Z.%s %s %s)" % (f, a, b), "Z"
            if ta in ("Z", "F") and tb in ("Z", "F"):
                # python's min(a, b) is `b if b < a else a`, max(a, b) is `b if b > a else a` (a NaN never wins a comparison)
                a = self.coerce(a, ta, "F", node); b = self.coerce(b, tb, "F", node)
                if f == "min": return "(if flt A %s %s then %s else %s)" % (b, a, b, a), "F"
                return "(if flt A %s %s then %s else %s)" % (a, b, b, a), "F"
            fail(node, "min/max")
        if f == "np.isscalar" and len(args) == 1:
            c, t = self.ex(args[0], env)
            if t in ("Z", "F"): return "true", "B"          # statically typed scalar parameter
            fail(node, "np.isscalar")
        if f == "isinstance" and len(args) == 2 and isinstance(args[0], ast.Name):
            t = env.get(args[0].id)
            cls = ast.unparse(args[1])
            if isinstance(t, tuple) and t[0] == "rec" and self.tr.kernels_by_record[t[1]].cls == cls:
                return "true", "B"                           # statically typed record parameter
            fail(node, "isinstance")
        if f in self.tr.record_ctors:
            owner = self.tr.record_ctors[f]
            given = {}
            if args: fail(node, "positional constructor arguments")
            for kw in node.keywords:
                c, t = self.ex(kw.value, env)
                given[kw.arg] = self.coerce(c, t, owner.field_types[kw.arg], node)
            vals = []
            for fld, _ in owner.fields:
                if fld in given: vals.append(given[fld])
                elif fld in owner.defaults: vals.append(owner.defaults[fld])
                else: fail(node, "missing field %s" % fld)
            return "(%s %s)" % (owner.ctor(), " ".join(vals)), ("rec", owner.record, True)
        if f == "dataclasses.replace" and len(args) == 1:
            c, t = self.ex(args[0], env)
            if not (isinstance(t, tuple) and t[0] == "rec"): fail(node, "replace on a non-record")
            owner = self.tr.kernels_by_record[t[1]]
            given = {}
            for kw in node.keywords:
                cc, tt = self.ex(kw.value, env)
                given[kw.arg] = self.coerce(cc, tt, owner.field_types[kw.arg], node)
            vals = [given.get(fld, "(%s %s)" % (owner.fname(fld), c)) for fld, _ in owner.fields]
            return "(%s %s)" % (owner.ctor(), " ".join(vals)), t
        if f == "range" and len(args) == 1:
            c, t = self.ex(args[0], env)
            if t != "Z": fail(node, "range of a non-int")
            return "(zrange %s)" % c, ("list", "Z")
        if f == "enumerate" and len(args) == 1:
            c, t = self.ex(args[0], env)
            if not (isinstance(t, tuple) and t[0] == "list"): fail(node, "enumerate of a non-list")
            return "(zenumerate %s)" % c, ("list", ("tuple", ["Z", t[1]]))
        fail(node, "call")

    def comprehension(self, node, env):
        if len(node.generators) != 1 or node.generators[0].ifs or node.generators[0].is_async: fail(node, "comprehension shape")
        g = node.generators[0]
        it, tit = self.ex(g.iter, env)
        if not (isinstance(tit, tuple) and tit[0] == "list"): fail(node, "comprehension over a non-list")
        pat, env2 = self.bind_pattern(g.target, tit[1], env)
        c, t = self.ex(node.elt, env2)
        return "(map (fun %s => %s) %s)" % (pat, c, it), ("list", t)

    def bind_pattern(self, target, t, env):
        env2 = dict(env)
        if isinstance(target, ast.Name):
            env2[target.id] = t
            return target.id.lstrip("_"), env2
        if isinstance(target, ast.Tuple) and isinstance(t, tuple) and t[0] == "tuple" and len(t[1]) == len(target.elts) \
                and all(isinstance(e, ast.Name) for e in target.elts):
            for e, te in zip(target.elts, t[1]): env2[e.id] = te
            return "'(" + ", ".join(e.id.lstrip("_") for e in target.elts) + ")", env2
        fail(target, "binding pattern")

    # ---------------------------------------------------------- statements (continuation passing)
    def to_adaptmap(self, code, t, node):
        if t == "none": return "AMNone"
        if t == "unit": return "AMEmpty"
        if isinstance(t, tuple) and t[0] == "opt" and isinstance(t[1], tuple) and t[1][0] == "list":
            return "(match %s with Some l__ => AMList l__ | None => AMNone end)" % code
        fail(node, "value %r where a bin map (None, () or a list of pairs) is expected" % (t,))

    def finish(self, code, t, node):
        """the value of the whole function"""
        want = self.ret
        if want == ("tuple", ["adaptmap", "adaptmap"]):
            if not (isinstance(node, ast.Return) and isinstance(node.value, ast.Tuple) and len(node.value.elts) == 2):
                fail(node, "a pair of bin maps must be returned as a literal pair")
            parts = []
            for e in node.value.elts:
                c, te = self.ex(e, self.cur_env)
                parts.append(self.to_adaptmap(c, te, node))
            code = "(%s, %s)" % tuple(parts)
            if self.mut: code = "(self, %s)" % code
            if self.partial: code = "(Done %s)" % code
            return code
        if want == "optint":
            if t == "unit": code = "OITuple0"
            elif t == "none": code = "OINone"
            elif t == "Z": code = "(OIInt %s)" % code
            elif t == "optint": pass
            else: fail(node, "return value for optint")
        elif isinstance(want, tuple) and want[0] == "opt":
            if t == "none": code = "None"
            elif t == want[1] or (isinstance(t, tuple) and t[0] == "list" and want[1][0] == "list"): code = "(Some %s)" % code
            else: fail(node, "return type %r, declared %r" % (t, want))
        elif want == "unit":
            if t not in ("none", "unit"): fail(node, "return value in a procedure")
            code = "tt"
        else:
            if isinstance(want, tuple) and want[0] == "rec" and isinstance(t, tuple) and t[0] == "rec" and t[1] == want[1]: pass
            elif isinstance(want, tuple) and want[0] == "list" and isinstance(t, tuple) and t[0] == "list": pass
            else: code = self.coerce(code, t, want, node)
        if self.mut: code = "(self, %s)" % code
        if self.partial: code = "(Done %s)" % code
        return code

    def block(self, stmts, env, k):
        self.recv_ok = lambda n, env=env: isinstance(env.get(n), tuple) and env[n][0] == "rec" and env[n][1] == self.kernel.record
        if not stmts: return k(env)
        return self.stmt(stmts[0], env, lambda e: self.block(stmts[1:], e, k))

    def assigned(self, stmts):
        out = []
        for s in stmts:
            for n in ast.walk(s):
                if isinstance(n, (ast.Assign, ast.AugAssign)):
                    for t in (n.targets if isinstance(n, ast.Assign) else [n.target]):
                        for x in ([t] if not isinstance(t, ast.Tuple) else t.elts):
                            if isinstance(x, ast.Name) and x.id not in out: out.append(x.id)
                            if isinstance(x, ast.Attribute) and ast.unparse(x.value) == "self" and "self" not in out \
                                    and x.attr not in self.kernel.dropped: out.append("self")
                if isinstance(n, ast.Call) and isinstance(n.func, ast.Attribute) and isinstance(n.func.value, ast.Name):
                    m = self.kernel.method(n.func.attr)
                    if m is not None and m.get("mut") and n.func.value.id not in out: out.append(n.func.value.id)
                if isinstance(n, ast.Call) and isinstance(n.func, ast.Attribute) and n.func.attr == "append" \
                        and isinstance(n.func.value, ast.Name) and n.func.value.id not in out: out.append(n.func.value.id)
        return out

    def tuple_of(self, names):
        names = [n.lstrip("_") if n != "self" else n for n in names]
        return names[0] if len(names) == 1 else "(" + ", ".join(names) + ")"
    def pat_of(self, names):
        names = [n.lstrip("_") if n != "self" else n for n in names]
        return names[0] if len(names) == 1 else "'(" + ", ".join(names) + ")"

    def set_field(self, attr, code):
        return "(%s self %s)" % (self.kernel.setter(attr), code)

    def method_call(self, node, env, k_val):
        """self.m(args) for a translated method; k_val(code_of_result, type, env) -> code of the rest"""
        m = self.kernel.method(node.func.attr)
        if m is None: fail(node, "call of an untranslated method")
        rv = node.func.value.id           # the receiver: self, or another variable of the record type
        if rv != "self" and not (isinstance(env.get(rv), tuple) and env[rv][0] == "rec" and env[rv][1] == self.kernel.record):
            fail(node, "receiver of another type")
        if len(node.args) + len(node.keywords) > len(m["params"]): fail(node, "too many arguments")
        argc = []
        given = {}
        for (pn, pt), a in zip(m["params"], node.args): given[pn] = a
        for kw in node.keywords: given[kw.arg] = kw.value
        for pn, pt in m["params"]:
            if pn in given:
                c, t = self.ex(given[pn], env)
                argc.append(self.coerce(c, t, pt, node))
            elif isinstance(pt, tuple) and pt[0] == "opt": argc.append("None")
            else: fail(node, "missing argument %s" % pn)
        head = "(%s %s%s %s)" % (self.kernel.mname(m["py"]), "fuel " if m.get("partial") else "", rv, " ".join(argc))
        head = head.replace("  ", " ").replace(" )", ")")
        rt = m["ret"]
        tname = "r__"
        if m.get("mut"):
            env2 = dict(env)
            body = k_val(tname, rt, env2)
            pat = "'(%s, %s)" % (rv, tname)
        else:
            body = k_val(tname, rt, env)
            pat = tname
        if m.get("partial"):
            if not self.partial: fail(node, "partial callee in a total function")
            return "(rbind %s (fun %s =>\n %s))" % (head, pat, body)
        return "(let %s := %s in\n %s)" % (pat, head, body)

    def is_self_call(self, node):
        """a call of a translated method on self or on another object of the same record type"""
        if not (isinstance(node, ast.Call) and isinstance(node.func, ast.Attribute) and isinstance(node.func.value, ast.Name)): return False
        name = node.func.value.id
        if name == "self": return True
        return getattr(self, "recv_ok", lambda n: False)(name) and self.kernel.method(node.func.attr) is not None

    def stmt(self, s, env, k):
        kern = self.kernel
        if isinstance(s, ast.Expr):
            if isinstance(s.value, ast.Constant) and isinstance(s.value.value, str): return k(env)      # docstring
            if self.is_self_call(s.value):
                return self.method_call(s.value, env, lambda c, t, e: k(e))
            v = s.value
            if isinstance(v, ast.Call) and isinstance(v.func, ast.Attribute) and v.func.attr == "append" \
                    and isinstance(v.func.value, ast.Name) and len(v.args) == 1:
                name = v.func.value.id
                lt = env.get(name)
                if not (isinstance(lt, tuple) and lt[0] == "list"): fail(s, "append to a non-list")
                c, t = self.ex(v.args[0], env)
                if lt[1] is not None and lt[1] != t: fail(s, "heterogeneous list")
                env2 = dict(env); env2[name] = ("list", t)
                n = name.lstrip("_")
                return "(let %s := (%s ++ [%s]) in\n %s)" % (n, n, c, k(env2))
            fail(s, "expression statement")
        if isinstance(s, ast.Pass): return k(env)
        if isinstance(s, ast.Assign):
            if len(s.targets) > 1:        # a = b = e
                if not all(isinstance(t, ast.Name) for t in s.targets): fail(s, "chained assignment")
                c, t = self.ex(s.value, env)
                env2 = dict(env)
                code_k = None
                names = [t.id for t in s.targets]
                for n in names: env2[n] = t
                inner = k(env2)
                for n in reversed(names): inner = "(let %s := %s in\n %s)" % (n.lstrip("_"), c, inner)
                return inner
            tg = s.targets[0]
            if isinstance(tg, ast.Attribute) and ast.unparse(tg.value) == "self":
                if tg.attr in kern.dropped:
                    if not (isinstance(s.value, ast.Constant) and s.value.value is None): fail(s, "cache attribute set to a value")
                    return k(env)
                if tg.attr not in kern.field_types: fail(s, "unknown attribute")
                c, t = self.ex(s.value, env)
                c = self.coerce(c, t, kern.field_types[tg.attr], s)
                return "(let self := %s in\n %s)" % (self.set_field(tg.attr, c), k(env))
            if self.is_self_call(s.value):
                def kv(c, t, e):
                    pat, e2 = self.bind_pattern(tg, t, e)
                    return "(let %s := %s in\n %s)" % (pat, c, k(e2))
                return self.method_call(s.value, env, kv)
            c, t = self.ex(s.value, env)
            pat, env2 = self.bind_pattern(tg, t, env)
            return "(let %s := %s in\n %s)" % (pat, c, k(env2))
        if isinstance(s, ast.AugAssign):
            binop = ast.BinOp(left=s.target, op=s.op, right=s.value)
            ast.copy_location(binop, s)
            new = ast.Assign(targets=[s.target], value=binop)
            ast.copy_location(new, s); ast.fix_missing_locations(new)
            return self.stmt(new, env, k)
        if isinstance(s, ast.Return):
            self.cur_env = env
            if self.ret == ("tuple", ["adaptmap", "adaptmap"]): return self.finish(None, None, s)
            if s.value is None or (isinstance(s.value, ast.Constant) and s.value.value is None):
                return self.finish("tt", "none", s)
            if self.is_self_call(s.value):
                return self.method_call(s.value, env, lambda c, t, e: self.finish(c, t, s))
            c, t = self.ex(s.value, env)
            return self.finish(c, t, s)
        if isinstance(s, ast.Raise):
            if not self.partial: fail(s, "raise in a total function")
            return "Raised"
        if isinstance(s, ast.Break):
            if not self.loops: fail(s, "break outside a loop")
            names, types = self.loops[-1]
            return "(%s, false)" % self.loop_tuple(names, types, env, s)
        if isinstance(s, ast.If):
            t = s.test
            # `if x is None: x = e`  for an optional parameter
            if isinstance(t, ast.Compare) and isinstance(t.ops[0], ast.Is) and isinstance(t.left, ast.Name) \
                    and isinstance(env.get(t.left.id), tuple) and env[t.left.id][0] == "opt" and not s.orelse \
                    and len(s.body) == 1 and isinstance(s.body[0], ast.Assign) and ast.unparse(s.body[0].targets[0]) == t.left.id:
                c, ct = self.ex(s.body[0].value, env)
                inner = env[t.left.id][1]
                env2 = dict(env); env2[t.left.id] = inner
                n = t.left.id.lstrip("_")
                return "(let %s := match %s with Some v__ => v__ | None => %s end in\n %s)" % (n, n, self.coerce(c, ct, inner, s), k(env2))
            cond = self.truth(t, env)
            return "(if %s\n then %s\n else %s)" % (cond, self.block(s.body, env, k), self.block(s.orelse, env, k))
        if isinstance(s, ast.While):
            if s.orelse: fail(s, "while-else")
            if not self.partial: fail(s, "while in a total function")
            names = [n for n in self.assigned(s.body) if n in env]
            if not names: fail(s, "loop without state")
            types = [env[n] for n in names]
            cond = self.truth(s.test, env)
            self.loops.append((names, types))
            body = self.block(s.body, env, lambda e: "(%s, true)" % self.loop_tuple(names, types, e, s))
            self.loops.pop()
            return "(rbind (while_ fuel (fun %s => %s)\n (fun %s =>\n %s)\n %s) (fun %s =>\n %s))" % (
                self.pat_of(names), cond, self.pat_of(names), body, self.tuple_of(names), self.pat_of(names), k(env))
        if isinstance(s, ast.For):
            if s.orelse: fail(s, "for-else")
            it, tit = self.ex(s.iter, env)
            if not (isinstance(tit, tuple) and tit[0] == "list"): fail(s, "for over a non-list")
            names = [n for n in self.assigned(s.body) if n in env]
            if not names: fail(s, "loop without state")
            # loop-invariant types: an int initial value may become a float inside the body
            types = [env[n] for n in names]
            for attempt in range(3):
                env_in = dict(env)
                for n, t in zip(names, types): env_in[n] = t
                pat, env_body = self.bind_pattern(s.target, tit[1], env_in)
                seen = {}
                def kend(e, seen=seen):
                    seen.update({n: e[n] for n in names})
                    return self.loop_tuple(names, types, e, s, allow_promote=True)
                try:
                    self.loops.append(None)
                    body = self.block(s.body, env_body, kend)
                finally:
                    self.loops.pop()
                new_types = [("F" if (t == "Z" and seen.get(n) == "F") else
                              (seen.get(n) if (isinstance(t, tuple) and t[0] == "list" and t[1] is None) else t)) for n, t in zip(names, types)]
                if new_types == types: break
                types = new_types
            else:
                fail(s, "loop state types do not stabilise")
            init = []
            for n, t in zip(names, types):
                nm = n.lstrip("_") if n != "self" else n
                init.append(self.coerce(nm, env[n], t, s) if env[n] != t and not (isinstance(t, tuple) and t[0] == "list") else nm)
            init_code = init[0] if len(init) == 1 else "(" + ", ".join(init) + ")"
            env2 = dict(env)
            for n, t in zip(names, types): env2[n] = t
            return "(let %s := fold_left (fun %s %s =>\n %s)\n %s %s in\n %s)" % (
                self.pat_of(names), self.pat_of(names), pat if pat.startswith("'") else pat, body, it, init_code, k(env2))
        if isinstance(s, ast.Try):
            # try: return A / B  except ZeroDivisionError: return C      (python floats: division by zero raises)
            if len(s.body) == 1 and isinstance(s.body[0], ast.Return) and isinstance(s.body[0].value, ast.BinOp) \
                    and isinstance(s.body[0].value.op, ast.Div) and len(s.handlers) == 1 and not s.orelse and not s.finalbody \
                    and ast.unparse(s.handlers[0].type) == "ZeroDivisionError" and len(s.handlers[0].body) == 1 \
                    and isinstance(s.handlers[0].body[0], ast.Return):
                d, td = self.ex(s.body[0].value.right, env)
                d = self.coerce(d, td, "F", s)
                return "(if feq A %s (of_Z A 0%%Z)\n then %s\n else %s)" % (
                    d, self.stmt(s.handlers[0].body[0], env, k), self.stmt(s.body[0], env, k))
            fail(s, "try statement")
        fail(s, "statement")

    def loop_tuple(self, names, types, env, node, allow_promote=False):
        if names is None: fail(node, "break in a for loop")
        parts = []
        for n, t in zip(names, types):
            nm = n.lstrip("_") if n != "self" else n
            have = env[n]
            if have == t or (isinstance(t, tuple) and t[0] == "list"): parts.append(nm)
            elif have == "Z" and t == "F": parts.append("(of_Z A %s)" % nm)
            elif allow_promote and have == "F" and t == "Z": parts.append(nm)     # next attempt promotes the state
            else: fail(node, "loop variable %s changes type %r -> %r" % (n, t, have))
        return parts[0] if len(parts) == 1 else "(" + ", ".join(parts) + ")"


class Rewriter(ast.NodeTransformer):
    """replace every expression whose source text is a key of the kernel's rewrite table (outermost match first)"""
    def __init__(self, table): self.table = table
    def visit(self, node):
        if isinstance(node, ast.expr):
            src = ast.unparse(node)
            if src in self.table:
                new = ast.parse(self.table[src], mode="eval").body
                return ast.copy_location(new, node)
        return self.generic_visit(node)

def rewrite_all(stmts, table):
    if not table: return stmts
    out = [ast.fix_missing_locations(Rewriter(table).visit(s)) for s in stmts]
    return out

class Translator:
    def __init__(self, src):
        self.src = src
        self.kernels = []
        self.kernels_by_record = {}
        self.record_ctors = {}
        self.constants = {}
        self.out = []

    def parse(self, file):
        return ast.parse(open(os.path.join(self.src, file)).read())

    def add_record_kernel(self, kern):
        self.kernels.append(kern)
        kern.field_types = dict(kern.fields)
        kern.fname = lambda a, p=kern.prefix: "%s_%s" % (p, a.lstrip("_"))
        kern.setter = lambda a, p=kern.prefix: "set_%s_%s" % (p, a.lstrip("_"))
        kern.mname = lambda a, p=kern.prefix: "g_%s_%s" % (p, a.strip("_"))
        kern.ctor = lambda p=kern.prefix: "mk_%s" % p
        kern.method = lambda name, ms=kern.methods: next((m for m in ms if m["py"] == name), None)
        self.kernels_by_record[kern.record] = kern
        if getattr(kern, "ctor_name", None): self.record_ctors[kern.ctor_name] = kern

    def emit_record(self, kern):
        polym = any(t == "F" for _, t in kern.fields)
        kern.polym = polym
        o = self.out
        flds = "; ".join("%s : %s" % (kern.fname(f), ty_code(t)) for f, t in kern.fields)
        o.append("Record %s := %s { %s }." % (kern.record, kern.ctor(), flds))
        for f, t in kern.fields:
            vals = " ".join(("v" if g == f else "(%s r)" % kern.fname(g)) for g, _ in kern.fields)
            o.append("Definition %s (r : %s) (v : %s) : %s := %s %s." % (kern.setter(f), kern.record, ty_code(t), kern.record, kern.ctor(), vals))

    def emit_method(self, kern, cls_node, m):
        fn = next((n for n in cls_node.body if isinstance(n, ast.FunctionDef) and n.name == m["py"]), None)
        if fn is None: raise Unsupported("method %s.%s not found" % (kern.cls, m["py"]))
        argnames = [a.arg for a in fn.args.args] + [a.arg for a in fn.args.kwonlyargs]
        want = ["self"] + [p for p, _ in m["params"]]
        if argnames != want or fn.args.vararg or fn.args.kwarg:
            raise Unsupported("signature of %s.%s changed: %r (expected %r)" % (kern.cls, m["py"], argnames, want))
        ctx = FnCtx(self, kern, m)
        env = {"self": ("rec", kern.record, True)}
        for p, t in m["params"]: env[p] = t
        def k_end(e):
            return ctx.finish("tt", "none", fn)
        body = ctx.block(rewrite_all(fn.body, kern.rewrite), env, k_end)
        ret = m["ret"]
        rt = ty_code(ret if not isinstance(ret, tuple) or ret[0] != "rec" else ret)
        if isinstance(ret, tuple) and ret[0] == "rec": rt = ret[1]
        if m.get("mut"): rt = "(%s * %s)" % (kern.record, rt)
        if m.get("partial"): rt = "res %s" % rt
        params = "".join(" (%s : %s)" % (p.lstrip("_"), ty_code(t) if not (isinstance(t, tuple) and t[0] == "rec") else t[1]) for p, t in m["params"])
        self.out.append("(* %s.%s, %s line %d *)" % (kern.cls, m["py"], kern.file, fn.lineno))
        self.out.append("Definition %s%s (self : %s)%s : %s :=\n %s." % (
            kern.mname(m["py"]), " (fuel : nat)" if m.get("partial") else "", kern.record, params, rt, body))

    def emit_fragment(self, kern, frag):
        """a code fragment inside a function: statements located by frag['locate'], translated as a function of
        the declared parameters whose value is the variable frag['result']"""
        stmts = rewrite_all(frag["locate"](self.parse(kern.file)), kern.rewrite)
        on_self = frag.get("on_self", False)       # the fragment reads / changes the object: translated like a method body
        ctx = FnCtx(self, kern, dict(ret=frag["ret"], partial=frag.get("partial", False), mut=on_self))
        env = dict(frag["params"])
        if on_self: env["self"] = ("rec", kern.record, True)
        res = frag.get("result")
        def k_end(e):
            if res is None: return ctx.finish("tt", "none", stmts[0])
            if isinstance(res, (list, tuple)):
                for r_ in res:
                    if r_ not in e: raise Unsupported("fragment %s does not define %s" % (frag["name"], r_))
                return ctx.finish("(" + ", ".join(r_.lstrip("_") for r_ in res) + ")", ("tuple", [e[r_] for r_ in res]), stmts[0])
            if res not in e: raise Unsupported("fragment %s does not define %s" % (frag["name"], res))
            return ctx.finish(res.lstrip("_"), e[res], stmts[0])
        body = ctx.block(stmts, env, k_end)
        params = "".join(" (%s : %s)" % (p.lstrip("_"), ty_code(t)) for p, t in frag["params"])
        rt = ty_code(frag["ret"])
        if on_self: rt = "(%s * %s)" % (kern.record, rt); params = " (self : %s)" % kern.record + params
        if frag.get("partial"): rt = "res %s" % rt; params = " (fuel : nat)" + params
        self.out.append("(* fragment of %s, %s line %d *)" % (frag["where"], kern.file, stmts[0].lineno))
        self.out.append("Definition %s%s : %s :=\n %s." % (frag["name"], params, rt, body))


# ------------------------------------------------------------------ the kernels
def find_class(tree, name):
    for n in tree.body:
        if isinstance(n, ast.ClassDef) and n.name == name: return n
    raise Unsupported("class %s not found" % name)

def find_method(tree, cls, name):
    c = find_class(tree, cls)
    for n in c.body:
        if isinstance(n, ast.FunctionDef) and n.name == name: return n
    raise Unsupported("method %s.%s not found" % (cls, name))

def locate_merge_amount(tree):
    fn = find_method(tree, "HistogramBase", "merge_bins")
    for n in ast.walk(fn):
        if isinstance(n, ast.If) and ast.unparse(n.test) == "amount is not None":
            # [if not amount == int(amount): raise ...; bin_map = [...]]
            if len(n.body) != 2 or not isinstance(n.body[0], ast.If) or not isinstance(n.body[1], ast.Assign):
                raise Unsupported("merge_bins: shape of the `amount` branch changed")
            if ast.unparse(n.body[0].test) != "not amount == int(amount)" or not isinstance(n.body[0].body[0], ast.Raise):
                raise Unsupported("merge_bins: integrality guard of `amount` changed")
            return [n.body[1]]
    raise Unsupported("merge_bins: `amount` branch not found")

def locate_merge_minfreq(tree):
    fn = find_method(tree, "HistogramBase", "merge_bins")
    for n in ast.walk(fn):
        if isinstance(n, ast.If) and ast.unparse(n.test) == "min_frequency is not None":
            body = n.body
            # [if self.ndim == 1: check = ... else: ...; bin_map = []; current_new = 0; current_sum = 0; for ...]
            if len(body) != 5 or not isinstance(body[0], ast.If) or not isinstance(body[4], ast.For):
                raise Unsupported("merge_bins: shape of the `min_frequency` branch changed")
            return body[1:]
    raise Unsupported("merge_bins: `min_frequency` branch not found")

def locate_fill_stats(tree):
    fn = find_method(tree, "Histogram1D", "fill")
    hits = [n for n in ast.walk(fn) if isinstance(n, ast.Assign) and ast.unparse(n.targets[0]) == "self._stats"
            and isinstance(n.value, ast.Call) and ast.unparse(n.value.func) == "dataclasses.replace"]
    if len(hits) != 1: raise Unsupported("Histogram1D.fill: the statistics update (dataclasses.replace) was not found exactly once")
    if ast.unparse(hits[0].value.args[0]) != "self.statistics": raise Unsupported("Histogram1D.fill: statistics update no longer starts from self.statistics")
    new = ast.Assign(targets=[ast.Name(id="new_stats", ctx=ast.Store())], value=hits[0].value)
    ast.copy_location(new, hits[0]); ast.fix_missing_locations(new)
    return [new]

def locate_force_pair(tree):
    fn = find_method(tree, "FixedWidthBinning", "_force_bin_existence")
    if not (len(fn.body) == 1 and isinstance(fn.body[0], ast.If) and ast.unparse(fn.body[0].test) == "np.isscalar(values)"):
        raise Unsupported("_force_bin_existence: scalar / array dispatch changed")
    tail = fn.body[0].orelse
    # [if np.size(values) == 0: return None; min_, max_ = np.min(values), np.max(values); <rest>]
    if len(tail) < 3 or ast.unparse(tail[0].test) != "np.size(values) == 0" or ast.unparse(tail[1]) != "min_, max_ = (np.min(values), np.max(values))":
        raise Unsupported("_force_bin_existence: head of the array branch changed: %s" % ast.unparse(tail[1]) if len(tail) > 1 else "?")
    return tail[2:]

def locate_tick_factors(tree):
    fn = find_method(tree, "TimeTickHandler", "get_time_ticks")
    body = [n for n in fn.body if not (isinstance(n, ast.Expr) and isinstance(n.value, ast.Constant))]
    # [if edge: return; if center: return; width = ...; min_factor = ...; if ...: min_factor += 1; max_factor = ...; return list(np.arange(min_factor, max_factor + 1) * width)]
    if len(body) != 7 or ast.unparse(body[2].targets[0]) != "width" or ast.unparse(body[6]) != "return list(np.arange(min_factor, max_factor + 1) * width)":
        raise Unsupported("TimeTickHandler.get_time_ticks: shape changed")
    if ast.unparse(body[2].value) != "level[1] * self.LEVELS[level[0]]": raise Unsupported("TimeTickHandler.get_time_ticks: width changed")
    return body[3:6]

def build_ticks(src):
    tr = Translator(src)
    o = tr.out; o.extend([HEADER[0] % "src/physt"] + HEADER[1:])
    tk = Kernel(name="TK", file="plotting/common.py", cls="TimeTickHandler", record=None, prefix="tk", fields=[], dropped=set(), defaults={}, rewrite={}, methods=[])
    tk.field_types = {}; tk.method = lambda name: None
    tr.emit_fragment(tk, dict(name="g_tick_factors", where="TimeTickHandler.get_time_ticks (first and last multiple)", locate=locate_tick_factors,
                              params=[("min_", "F"), ("max_", "F"), ("width", "F")], result=["min_factor", "max_factor"], ret=("tuple", ["Z", "Z"])))
    o.append("")
    o.append("End PySrc.")
    return "\n".join(o) + "\n"

def kernels(tr):
    fw = Kernel(name="FW", file="binnings.py", cls="FixedWidthBinning", record="fwst", prefix="fw", ctor_name=None,
                fields=[("_times_min", "Z"), ("_bin_count", "Z"), ("_bin_width", "F"), ("_shift", "F"), ("_align", "B"),
                        ("_includes_right_edge", "B")],
                dropped={"_bins", "_numpy_bins"}, defaults={},
                rewrite={"self.bin_width": "self._bin_width", "self.includes_right_edge": "self._includes_right_edge",
                         "self.numpy_bins[0]": "self.first_edge", "self.numpy_bins[-1]": "self.last_edge",
                         "self.bin_count": "self._bin_count", "other.bin_width": "other._bin_width", "other.bin_count": "other._bin_count",
                         "other.as_fixed_width()": "other", "other.copy()": "other"},      # the operand arrives as a private fixed-width copy
                methods=[
                    dict(py="first_edge", params=[], ret="F", prop=True),
                    dict(py="last_edge", params=[], ret="F", prop=True),
                    dict(py="_cover_value", params=[("value", "F"), ("includes_right_edge", "B")], ret=("tuple", ["Z", "Z"]), mut=True, partial=True),
                    dict(py="_drop_unneeded_bins", params=[("value", "F"), ("includes_right_edge", "B"), ("new_left", "Z"), ("new_right", "Z")],
                         ret=("tuple", ["Z", "Z"]), mut=True, partial=True),
                    dict(py="_force_bin_existence_single", params=[("value", "F"), ("includes_right_edge", ("opt", "B"))], ret="optint", mut=True, partial=True),
                    dict(py="_set_min_and_count", params=[("times_min", "Z"), ("bin_count", "Z")], ret="unit", mut=True),
                    dict(py="_force_new_min_max", params=[("new_min", "Z"), ("new_max", "Z")], ret=("opt", ("list", ("tuple", ["Z", "Z"]))), mut=True),
                    dict(py="_adapt", params=[("other", ("rec", "fwst", True))], ret=("tuple", ["adaptmap", "adaptmap"]), mut=True, partial=True),
                ])
    tr.add_record_kernel(fw)
    st = Kernel(name="ST", file="statistics.py", cls="Statistics", record="pystats", prefix="ps", ctor_name="Statistics",
                fields=[("sum", "F"), ("sum2", "F"), ("min", "F"), ("max", "F"), ("weight", "F"), ("median", "F")],
                dropped=set(), defaults={}, rewrite={},
                methods=[
                    dict(py="mean", params=[], ret="F"),
                    dict(py="variance", params=[], ret="F"),
                    dict(py="__add__", params=[("other", ("rec", "pystats", True))], ret=("rec", "pystats", True)),
                    dict(py="__mul__", params=[("other", "F")], ret=("rec", "pystats", True)),
                ])
    tr.add_record_kernel(st)
    mb = Kernel(name="MB", file="histogram_base.py", cls="HistogramBase", record=None, prefix="mb", fields=[], dropped=set(), defaults={},
                rewrite={"self.shape[axis]": "n"}, methods=[])
    mb.field_types = {}; mb.method = lambda name: None
    mb.frags = [
        dict(name="g_mb_amount_map", where="HistogramBase.merge_bins (amount)", locate=locate_merge_amount,
             params=[("n", "Z"), ("amount", "Z")], result="bin_map", ret=("list", ("tuple", ["Z", "Z"]))),
        dict(name="g_mb_minfreq_map", where="HistogramBase.merge_bins (min_frequency)", locate=locate_merge_minfreq,
             params=[("check", ("list", "F")), ("min_frequency", "F")], result="bin_map", ret=("list", ("tuple", ["Z", "Z"]))),
    ]
    return fw, st, mb

HEADER = ["(** GENERATED by tools/pytrans.py from the current source of physt (%s) - do not edit; regenerated on every build. *)",
          "From Physt Require Export PyArith.", "Set Implicit Arguments.", "Section PySrc.", "Context {F : Type} (A : arith F).", ""]

def build_fw(src):
    tr = Translator(src); fw, st, mb = kernels(tr)
    o = tr.out; o.extend([HEADER[0] % "src/physt"] + HEADER[1:])
    tr.emit_record(fw); o.append("")
    cls = find_class(tr.parse(fw.file), fw.cls)
    for m in fw.methods:
        tr.emit_method(fw, cls, m); o.append("")
    # the array branch of _force_bin_existence after numpy reduced the batch to its minimum and maximum
    tr.emit_fragment(fw, dict(name="g_fw_force_min_max", where="FixedWidthBinning._force_bin_existence (array branch)", locate=locate_force_pair,
                              params=[("min_", "F"), ("max_", "F"), ("includes_right_edge", ("opt", "B"))], ret="optint", on_self=True, partial=True))
    o.append("")
    o.append("End PySrc.")
    return "\n".join(o) + "\n"

def build_stats(src):
    tr = Translator(src); fw, st, mb = kernels(tr)
    o = tr.out; o.extend([HEADER[0] % "src/physt"] + HEADER[1:])
    # defaults of the dataclass fields, then the module constant INVALID_STATISTICS
    sttree = tr.parse(st.file)
    stcls = find_class(sttree, st.cls)
    ctx0 = FnCtx(tr, st, dict(ret="F"))
    seen_fields = []
    for n in stcls.body:
        if isinstance(n, ast.AnnAssign) and isinstance(n.target, ast.Name):
            seen_fields.append(n.target.id)
            if n.value is not None:
                c, t = ctx0.ex(n.value, {})
                st.defaults[n.target.id] = ctx0.coerce(c, t, "F", n)
    if seen_fields != [f for f, _ in st.fields]:
        raise Unsupported("fields of Statistics changed: %r" % seen_fields)
    tr.emit_record(st); o.append("")
    o.append("Definition g_ps_default : pystats := %s %s." % (st.ctor(), " ".join(st.defaults[f] for f, _ in st.fields)))
    inv = None
    for n in sttree.body:
        if isinstance(n, (ast.Assign, ast.AnnAssign)):
            tg = n.targets[0] if isinstance(n, ast.Assign) else n.target
            if ast.unparse(tg) == "INVALID_STATISTICS": inv = n.value
    if inv is None: raise Unsupported("INVALID_STATISTICS not found")
    c, t = ctx0.ex(inv, {})
    o.append("Definition g_ps_INVALID : pystats := %s." % c)
    tr.constants["INVALID_STATISTICS"] = ("g_ps_INVALID", ("rec", "pystats", True))
    o.append("")
    for m in st.methods:
        tr.emit_method(st, stcls, m); o.append("")
    # the statistics update inside Histogram1D.fill (histogram1d.py)
    fk = Kernel(name="FS", file="histogram1d.py", cls="Histogram1D", record=None, prefix="fs", fields=[], dropped=set(), defaults={},
                rewrite={"self.statistics": "stats"}, methods=[])
    fk.field_types = {}; fk.method = lambda name: None
    tr.emit_fragment(fk, dict(name="g_fill_stats", where="Histogram1D.fill (statistics update)", locate=locate_fill_stats,
                              params=[("stats", ("rec", "pystats", True)), ("value", "F"), ("weight", "F")], result="new_stats",
                              ret=("rec", "pystats", True)))
    o.append("")
    o.append("End PySrc.")
    return "\n".join(o) + "\n"

def build_merge(src):
    tr = Translator(src); fw, st, mb = kernels(tr)
    o = tr.out; o.extend([HEADER[0] % "src/physt"] + HEADER[1:])
    for fr in mb.frags:
        tr.emit_fragment(mb, fr); o.append("")
    o.append("End PySrc.")
    return "\n".join(o) + "\n"

GROUPS = [("PyFW", build_fw), ("PyStats", build_stats), ("PyMerge", build_merge), ("PyTicks", build_ticks)]

def main():
    src = "/repo/src/physt"; outdir = None
    a = sys.argv[1:]
    while a:
        if a[0] == "--src": src = a[1]; a = a[2:]
        elif a[0] == "--outdir": outdir = a[1]; a = a[2:]
        else: sys.exit("usage: pytrans.py [--src dir] [--outdir dir]")
    rc = 0
    if outdir: os.makedirs(outdir, exist_ok=True)
    for name, fn in GROUPS:
        try:
            text = fn(src); err = None
        except (Unsupported, SyntaxError, OSError, KeyError, IndexError, AttributeError) as e:
            text = None; err = "%s: %s" % (type(e).__name__, e)
        if outdir is None:
            sys.stdout.write(text if text is not None else "(* %s: UNSUPPORTED: %s *)\n" % (name, err)); continue
        out = os.path.join(outdir, name + ".v"); errf = os.path.join(outdir, name + ".err")
        if err is not None:
            # fail closed: no stale model may survive
            for ext in (".v", ".vo", ".vok", ".vos", ".glob"):
                if os.path.exists(os.path.join(outdir, name + ext)): os.unlink(os.path.join(outdir, name + ext))
            open(errf, "w").write(err + "\n")
            sys.stderr.write("pytrans: %s UNSUPPORTED: %s\n" % (name, err)); rc = 3
            continue
        if os.path.exists(errf): os.unlink(errf)
        if not os.path.exists(out) or open(out).read() != text:
            open(out, "w").write(text)
    sys.exit(rc)

if __name__ == "__main__":
    main()
