#!/venv/bin/python
"""tools/keep_seed.py <Cxx> <m1|m2> "<caught-by summary>"  : confirm in a scratch worktree, run the check, store under seeded/"""
import sys, os, subprocess, json, shutil, re
prop, m, = sys.argv[1], sys.argv[2]
rest = sys.argv[3:]
dest = m
if "--as" in rest:
    i = rest.index("--as"); dest = rest[i + 1]; rest = rest[:i] + rest[i + 2:]
props = rest or [prop]
src = "%s/%s.out/%s" % (os.environ.get("MUT_ROOT", "/tmp/mut"), prop, m)
if os.path.exists(src + "/confirm.log") and "CONFIRMED" in open(src + "/confirm.log").read():
    conf = open(src + "/confirm.log").read()        # confirmed beforehand (tools/confirm_seed.sh run in parallel)
else:
    conf = subprocess.run(["/verif/tools/confirm_seed.sh", src], capture_output=True, text=True).stdout
print(conf.strip())
if "CONFIRMED" not in conf: sys.exit("not confirmed")
res = subprocess.run(["/verif/tools/try_seed.sh", src + "/patch.diff"] + props, capture_output=True, text=True).stdout
print(res.strip())
caught = "VIOLATION" in res
dst = "/verif/seeded/%s-%s" % (prop, dest)
os.makedirs(dst, exist_ok=True)
for f in ("patch.diff", "demo.py", "notes.md"): shutil.copy(os.path.join(src, f), dst)
notes = open(os.path.join(src, "notes.md")).read()
json.dump(dict(property=prop, needs_to_manifest=notes[:1500], confirmed=conf.strip().split("\n")[-2:],
               ran=["tools/confirm_seed.sh (scratch worktree: demo passes without, fails with the change; full suite passes with it)",
                    "tools/try_seed.sh patch.diff " + " ".join(props)],
               caught_by_quick_check=caught, check_output=[l for l in res.split("\n") if l.strip()][-8:]),
          open(os.path.join(dst, "meta.json"), "w"), indent=1)
print("KEPT", dst, "caught" if caught else "MISSED")
