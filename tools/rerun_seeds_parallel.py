#!/venv/bin/python
"""tools/rerun_seeds_parallel.py [jobs]: like rerun_seeds.py, but every seed gets its own scratch worktree of /repo (the patch is
applied there, VERIF_REPO points the check at it), so several run at once and /repo itself is never touched."""
import glob, json, os, subprocess, sys
from concurrent.futures import ThreadPoolExecutor
jobs = int(sys.argv[1]) if len(sys.argv) > 1 else 8
seeds = sorted(glob.glob("/verif/seeded/*"))
subprocess.run(["bash", "-c", "cd /verif && PHYST_SKIP_TIE=1 tools/build.sh"], capture_output=True)
def one(d):
    n = os.path.basename(d); prop = n.split("-")[0]
    w = "/tmp/rs/" + n
    subprocess.run(["rm", "-rf", w]); os.makedirs("/tmp/rs", exist_ok=True)
    subprocess.run(["git", "-C", "/repo", "worktree", "add", "-q", "--detach", w, "HEAD"], capture_output=True)
    try:
        if subprocess.run(["git", "-C", w, "apply", os.path.join(d, "patch.diff")], capture_output=True).returncode != 0:
            res = dict(applies=False, violations_reported=None)
        else:
            env = dict(os.environ, VERIF_REPO=w, PHYST_SKIP_TIE="1")
            r = subprocess.run(["bash", "-c", "cd /verif && ./check %s --tier quick --no-gate 2>&1 | grep -E 'VIOLATION|tier='" % prop],
                               capture_output=True, text=True, env=env).stdout
            res = dict(applies=True, violations_reported=sum(1 for l in r.split("\n") if l.startswith("VIOLATION")),
                       command="VERIF_REPO=<scratch worktree with patch.diff applied> ./check %s --tier quick --no-gate" % prop,
                       summary=[l for l in r.split("\n") if "tier=" in l][-1:])
    finally:
        subprocess.run(["git", "-C", "/repo", "worktree", "remove", "--force", w], capture_output=True)
    if os.environ.get("RERUN_DRY"):      # another VERIF_SEED, say: report only
        print(n, res.get("applies"), res.get("violations_reported"), flush=True)
        return n, res
    m = json.load(open(os.path.join(d, "meta.json")))
    m["rerun_on_final_tree"] = res
    if "status_on_current_tree" not in m:
        m["caught_by_quick_check"] = bool(res.get("violations_reported"))
    json.dump(m, open(os.path.join(d, "meta.json"), "w"), indent=1)
    print(n, res.get("applies"), res.get("violations_reported"), flush=True)
    return n, res
with ThreadPoolExecutor(jobs) as ex: out = list(ex.map(one, seeds))
bad = [n for n, r in out if not r.get("applies") or not r.get("violations_reported")]
print("NOT CAUGHT / NOT APPLYING:", bad)
