#!/bin/bash
# independent re-check of every compiled file with coqchk; prints the axioms of all loaded libraries (-o)
cd "$(dirname "$0")/../coq"
mods=$(find . -name "*.vo" | sed 's|^\./||; s|\.vo$||; s|/|.|g' | sed 's/^/Physt./' | tr '\n' ' ')
timeout 3600 coqchk -silent -o -Q . Physt $mods
