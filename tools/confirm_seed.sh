#!/bin/bash
# confirm a seeded change in a scratch worktree: applies cleanly, suite passes, demo fails with / passes without
# usage: tools/confirm_seed.sh <dir with patch.diff demo.py>
D=$(realpath $1); W=/tmp/confirm.$$
git -C /repo worktree add -q --detach $W HEAD || exit 2
cd $W
PYTHONPATH=$W/src /venv/bin/python $D/demo.py > $D/demo_pristine.log 2>&1; rc0=$?
git apply $D/patch.diff || { echo "patch does not apply"; git -C /repo worktree remove --force $W; exit 2; }
PYTHONPATH=$W/src /venv/bin/python $D/demo.py > $D/demo_mutated.log 2>&1; rc1=$?
out=$(HYPOTHESIS_STORAGE_DIRECTORY=/tmp/hyp.$$ PYTHONPATH=$W/src /venv/bin/python -m pytest -q -ra -p no:cacheprovider --timeout=900 2>&1)
t=$(echo "$out" | grep -E "passed|failed" | tail -1)
bad=$(echo "$out" | grep -E "^(FAILED|ERROR)" | grep -v -E "test_polars.py::TestExtraNDArray::test_fails_with_wrong_types|test_polars.py::TestH1::test_with_series|test_polars.py::TestExtraNDArray::test_same_result_as_with_arrays")
if [ -z "$bad" ]; then t=$(echo "$t" | sed -E 's/[0-9]+ failed, //'); t="$t (only known-flaky polars failures, if any)"; else echo "$bad"; fi
cd /; git -C /repo worktree remove --force $W
echo "demo pristine rc=$rc0 mutated rc=$rc1 tests: $t"
[ $rc0 -eq 0 ] && [ $rc1 -ne 0 ] && echo "$t" | grep -q "passed" && ! echo "$t" | grep -q "failed" && echo CONFIRMED
