"""What MANIFEST.json claims per property (tools/mkmanifest.py turns this into the manifest)."""
BASE_NOTE = ("Trusted: Coq 8.16.1 kernel (vm_compute for witnesses/examples only, no native_compute); no axioms of our own; "
             "extraction via ExtrOcamlBasic only + OCaml 4.13.1 + ocaml/driver.ml (s-expression glue, Zarith only for integer I/O); "
             "the correspondence harness (generators, exact-rational canonicalisation, observation mapping); CPython 3.12/numpy "
             "float64 semantics on the exact (dyadic) input families. The theorems are about the Gallina model; the tie to /repo/src "
             "is the correspondence run on every check (sampled, not proved). ")
SOURCE_COMMITS = ["bc49a1c", "e3a7f92", "9ed7728", "007ee91", "c29e4c1", "17a47e5", "867807e", "949de5f", "5cc174a", "d64e197", "df761a4", "5d29398", "7a3c11a", "0a21c22", "aeeccf6", "59481a8", "b5aca95", "679700e", "ca2559c", "e1a34e7", "3b48309", "af04624", "d811d2c", "621ca2a", "dac1774", "93d477c", "102736c", "02123fe", "911bb12", "3ef9ffd", "15e9860", "9b7c6c3", "10af766", "15aa013", "cad1090", "07de623", "4bf9c77", "9c0254b", "b710d24", "8e8da8b", "9e7b056", "a4a8ff4", "df1fc35", "225eedd", "002f13e", "2da9632", "35ceb05", "6a01a15", "f3711c2", "2b4f29d", "986482c", "3e97820", "86d8c17", "fcacfc0", "94d6ae0", "bbf0167", "3836edd", "aca11d8", "78a437a", "4732675", "811491b", "ebe9183", "db19043", "a2108fd", "29fb3c3", "1a1df06", "d27c9ab", "d20d771", "d543b2b", "249da10", "b4eb3c9", "5ffe4db", "36ea95c", "dec93b6", "24862f2", "f398ee8"]   # "fix:" commits only (no guarded hooks exist)
NOTES = ("Every check: (1) rebuilds the Coq development incrementally and re-checks coq/Props/<id>.v (grep gate for Admitted/Axiom/...); "
         "(2) runs physt from /repo/src and the extracted model on the same seeded cases; (3) applies the extracted check_<id> to the "
         "implementation's observation. VIOLATION lines carry a replay file; 'no-failing-input-found' is appended when only the "
         "correspondence or a proof broke. Known genuine defects are listed in known_findings.json. For C04 C05 C06 C10 C14 C20 step (1) also "
         "re-translates the scalar pure-Python kernels of the current /repo/src/physt into Gallina (tools/pytrans.py -> coq/Gen) and re-checks "
         "coq/Props/<id>_tie.v: theorems that the regenerated functions equal the models for all inputs (DESIGN.md 0.9); C04 additionally "
         "compares the translated code, evaluated in binary64 by vm_compute, with physt bit for bit on random histories.")
NOT_CLAIMED = {
 "C01": dict(
   technique="Coq proof of refinement (sort+searchsorted sweep = filter-and-sum, accounting) + extracted-model correspondence",
   text=("C01_holds is proved for every case without size bound and closed under the global context: the decidable checker that "
         "states the property (per-bin weight and squared-weight sums with half-open bins and a right-closed last bin, exact "
         "under/overflow and total+under+over = input weight for exactly consecutive bins, NaN markers for gapped bins, NaN rows "
         "dropped with their weights, refusal exactly for invalid input) accepts the output of the algorithm as coded. The same "
         "extracted checker is applied to physt's real output on every generated case and the model's output is diffed against it."),
   note=BASE_NOTE + "Modelled, not verified: numpy argsort/searchsorted/sum/allclose (documented meaning, compared on every run); "
        "binning factories used for int/method-name bins (bins are read back; their correctness is C07)."),}
CLAIMED = {
 "C01": dict(
   technique="Coq proof of refinement (sort+searchsorted sweep = filter-and-sum, accounting) + extracted-model correspondence",
   text=("C01_holds is proved for every case without size bound and closed under the global context: the decidable checker that "
         "states the property (per-bin weight and squared-weight sums with half-open bins and a right-closed last bin, exact "
         "under/overflow and total+under+over = input weight for exactly consecutive bins, NaN markers for gapped bins, NaN rows "
         "dropped with their weights, refusal exactly for invalid input) accepts the output of the algorithm as coded. The same "
         "extracted checker is applied to physt's real output on every generated case and the model's output is diffed against it."),
   note=BASE_NOTE + "Modelled, not verified: numpy argsort/searchsorted/sum/allclose (documented meaning, compared on every run); "
        "binning factories used for int/method-name bins (bins are read back; their correctness is C07)."),
 "C02": dict(
   technique="Coq proof of refinement (histogramdd over masked edges = per-axis bin membership) + extracted-model correspondence",
   text=("C02_holds is proved for every case (any dimension, any rows, weights, gapped / right-inclusive / right-exclusive axes), "
         "closed under the global context: the checker stating the property (cell = weight of rows whose every coordinate lies in "
         "that axis' bin, last bin closed iff includes_right_edge; squared errors; missed = input weight - in-cell weight; NaN rows "
         "dropped with weights; refusal exactly for invalid input) accepts calculate_nd_frequencies as coded "
         "(to_numpy_bins_with_mask + numpy.histogramdd index rule + inf bin + mask selection). The extracted checker runs on "
         "physt's real output for h / h2 / h3 on every generated case."),
   note=BASE_NOTE + "Modelled, not verified: numpy.histogramdd (index rule transcribed from numpy 2.5's source), np.ix_ selection; "
        "per-axis binning factories (bins are read from the objects handed in)."),
 "C03": dict(
   technique="Coq proof by induction over fill/fill_n histories (+ permutation/chunk invariance) + extracted-model correspondence",
   text=("Theorems for histories of any length: each call of the code equals the specification's call (find_bin = bin that "
         "contains the value, fill returns it, fill_n = batch), hence the checker accepts every step (C03_holds_partial, guard: "
         "single fills enter no infinite coordinate); a value containing NaN is skipped by code and specification alike "
         "(C03_nan_is_skipped; the former finding F19 was repaired in /repo, f3711c2); contents = initial + sum of "
         "content-independent per-call vectors, so any permutation of the calls and any split of a batch gives the same "
         "contents/errors2. Every generated history is executed on physt step by step (returned index, find_bin before the "
         "call, state untouched by find_bin, contents, errors2, missed) and compared with one-shot construction."),
   note=BASE_NOTE + "Modelled, not verified: dtype coercion inside fill/fill_n (C13), statistics update (C14), adaptive growth (C04)."),
 "C04": dict(
   technique="Coq proofs in exact arithmetic (coverage after growth, grid/contents kept, monotone range, conservation) + binary64 witness + extracted-model correspondence with arithmetic-independent invariants",
   text=("Theorems (exact rationals, any positive width / shift / alignment): after _force_bin_existence_single the value lies "
         "inside the bins; width and shift are unchanged, the range only grows and the returned bin map is the displacement of "
         "the old contents; later growth never uncovers an earlier value; moving contents into the grown array conserves them "
         "(any dimension). A vm_compute witness over PrimFloat shows why binary64 needs the re-check that the repair added. "
         "Exact family (dyadic widths/values): edges, contents, returned indices and the exact span are compared with the "
         "extracted model after every call. Float family (0.1, 0.2, 0.3, 0.7, 1e-3, 2.5, 1e6/3; literals such as 1.7; nextafter "
         "neighbours of edges): the extracted checker verifies on physt's own edges that every value lies in the bin reported "
         "for it, total = weight entered, nothing missed, and the result equals one-shot construction over the final bins."),
   note=BASE_NOTE + "binary64 arithmetic of the grid is NOT modelled beyond the witness; for the float family the model is not "
        "the oracle, only the invariants are. N-d arrays are kept small (the model's lookups are quadratic)."),
 "C18": dict(
   technique="Coq proof of failure atomicity by case analysis of every in-place operation, lifted to histories + extracted-model correspondence with a per-interval snapshot predicate",
   text=("Theorems: for each in-place operation of the model (validation and mutation in source order), a call that raises leaves "
         "contents, squared errors, missed counters and bins unchanged (dtype possibly promoted); lifted to every position of every "
         "history; accepted arithmetic never stores a negative content; dtype/arrays consistent after every call. Histories with "
         "~35% invalid calls (incl. 20 kinds of calls outside the model) run on physt; before/after snapshots keyed by bin "
         "interval, missed counters and shape invariants are checked by the extracted predicate, and raised / not-raised plus "
         "resulting contents are compared with the model for modelled calls."),
   note=BASE_NOTE + "Calls outside DtypeCases.dstep are checked only through the observation predicate (the property itself), "
        "not through a model; HistogramCollection constructor/add refusals are exercised in C12's cases."),
 "C07": dict(
   technique="Coq proofs about the representations (edges <-> pairs, masked edges agree with the pairs for gapped binnings, slices stay well-formed), the nearest-pretty-width cell and the integer bin-count rules + extracted decidable rule predicates applied to every binning physt produces",
   text=("Theorems: edges -> pairs -> edges is the identity, pairs -> edges -> pairs is the identity exactly for consecutive pairs, "
         "pairs are rising iff edges increase strictly; for EVERY binning the i-th mask entry of the masked-edge form points at "
         "bin i's left edge and the next edge is its right edge; slices of rising bins are rising; inside the geometric-mean "
         "cell no width beyond a neighbour is closer on the log scale; the inequalities for sturges / sqrt / rice determine the "
         "count. Every binning physt produces (constructors of the 4 classes; numpy / fixed_width / integer / pretty / quantile / "
         "exponential / static factories and bin-count names through calculate_1d_bins) is read back and judged by the extracted "
         "predicates: rising, covers data or range, on the grid (1e-9 relative), integer-centred (exact), pretty width nearest "
         "to range/bin_count, quantiles by linear interpolation, geometric edges, numpy edges bit-identical to "
         "numpy.histogram_bin_edges, counts by exact integer inequalities (Doane on squared quantities); all derived attributes are "
         "recomputed by the model from the pairs and compared; invalid specifications must be refused, valid ones accepted."),
   note=BASE_NOTE + "The factories' floating-point arithmetic is not modelled (rules are checked on the result within stated "
        "tolerances); of the astropy-based methods scott / freedman / blocks are covered (edges identical to astropy's, Scott and Freedman-Diaconis width formulas on cubes), knuth needs scipy which is not installed; "
        "is_regular is compared with numpy.allclose's absolute-tolerance meaning, which is what the code documents."),
 "C08": dict(
   technique="Coq proof of the document round trip (of_doc (to_doc h) = h for every well-formed histogram, same document again, member-wise for collections) and of the version order (total order on PEP 440 keys; refused iff older) + extracted-model correspondence on documents, readers and version decisions",
   text=("Theorems: for every well-formed histogram of the model (any class / number of axes / binning types / dtype / contents / "
         "errors / missed incl. NaN markers / keep_missed / JSON metadata) reading its document succeeds and returns the same "
         "class, binnings, dtype, contents, squared errors, missed, keep_missed, axis names and metadata (key by key); the second "
         "serialisation is the same document; collections member by member; the version comparison is a total order and a document "
         "is refused iff the running version is older. Every generated histogram (direct constructors and facade routes, then "
         "to_json / parse_json / to_json / save+load_json) is snapshotted before and after through public and private "
         "attributes; the extracted predicate demands identical snapshots (bit-identical doubles as exact rationals), identical "
         "second document, == and same class; physt's document is compared with the model's to_doc, physt's reader with the "
         "model's of_doc on physt's own document and on hand-written / damaged documents; version decisions with the model order."),
   note=BASE_NOTE + "Modelled, not verified: json.dumps/json.loads text layer (float repr, NaN/Infinity tokens, escapes), numpy "
        "tolist/asarray, packaging.version parsing (its parsed components are the model's input). includes_right_edge / align of "
        "binnings and Statistics are not part of the documents (not named by the property; observed but not judged). "
        "float128 contents are written as decimal strings (repair of the former finding F27); the harness reads them back with np.longdouble, the generated float128 values are binary64-exact, genuinely extended-precision values are exercised by physt's own round trip only."),
 "C15": dict(
   technique="Coq proofs that the inverse formulas determine the coordinates (norm, uniqueness), reuse of the proved find-bin and marginal specifications + extracted toleranced predicate applied to every coordinate and every entry path of physt",
   text=("Theorems: coordinates (r >= 0, unit direction) that reproduce a point satisfy r^2 = x^2+y^2(+z^2) and are unique "
         "(direction for r > 0); the searchsorted lookup equals the containing-bin specification for every rising binning; a "
         "projection cell is the sum of the parent cells agreeing on the kept axes. For every generated point set and class the "
         "extracted predicate checks the coordinates returned by Class.transform (array, single point, float32 / list input) "
         "against the inverse formulas with ranges r >= 0, phi in [0, 2 pi], theta in [0, pi], z unchanged (cos / sin of the "
         "returned angles from numpy, 1e-9 relative), then demands that find_bin, find_bin(transformed), fill, "
         "fill(transformed), fill_n, fill_n(transformed), the facade and the facade(transformed) all equal the model placement "
         "of those coordinates, that every projection has the mapped class and the marginal contents, and that wrong input "
         "dimensions are refused by transform / find_bin / fill / fill_n."),
   note=BASE_NOTE + "numpy hypot / arctan2 / cos / sin are trusted numerics (the check is of physt's use of them); points exactly on "
        "inner bin edges are not generated on purpose (edges are random doubles), the last-edge convention is the binning's."),
 "C16": dict(
   technique="Coq proofs of measure additivity / telescoping / product totals / closed forms for an arbitrary cosine function, density and running-sum identities + extracted measure model compared with every geometry attribute of physt",
   text=("Theorems: for every axis kind the measure of merged adjacent bins is the sum of their measures, consecutive bins "
         "telescope to the measure of the covered interval, the total of a product measure is the product of the per-axis totals, "
         "full angular ranges give pi R^2, 4 pi, 4/3 pi R^3, pi R^2 H; d = f/s gives d*s = f; the running sum ends at the total. "
         "For every generated histogram of every class the extracted model recomputes bin_sizes from the bins (exact rationals, "
         "numpy's pi and cosines of the theta edges) and demands agreement (1e-12 relative) with h.bin_sizes, densities * bin_sizes "
         "= frequencies, left / right / centre / width arrays and their mesh forms, edges (also of a sub-histogram sliced after "
         "the edges were cached), total_size / total_width / total, cumulative_frequencies, closed forms for full ranges, and "
         "bin_sizes after merging adjacent bins along every axis."),
   note=BASE_NOTE + "pi and cos are numbers supplied by numpy with each observation (the theorems hold for any function with "
        "cos 0 = 1, cos pi = -1); RadialHistogram's measure is pi (r2^2 - r1^2) for 2-D and 3-D sources alike, as the property "
        "states; AzimuthalHistogram / CylindricalSurfaceHistogram ignore their radius in bin_sizes, as the property states."),
 "C17": dict(
   technique="Coq proofs of the container denotation (NaN rows dropped with their weights, order kept, nothing else dropped) and of additivity of weighted tallies over any chunking + extracted judge comparing every container's histogram with the one from the denoted arrays",
   text=("Theorems: dropna keeps exactly the (row, weight) pairs whose row has no NaN, in order; the weighted tally into cells is "
         "additive over concatenation and hence equals the cell-wise sum over ANY chunking. For every generated data set the "
         "model computes the denoted clean arrays; physt's histogram of those arrays (numpy path, settled by C01/C02) is the "
         "reference, and every container (list, tuple, iterator, (n,1) array, pandas Series / accessor / DataFrame accessor with "
         "weight column, polars Series / namespace, list of rows, columns, pandas / polars DataFrames and accessors, dask arrays "
         "in uneven chunks) must give the identical snapshot (bins, contents, errors2, missed, dtype) and the axis names "
         "prescribed by the model (explicit > Series / column names > the facade's default); NaN with dropna=False, non-numeric "
         "values, polars nulls, wrong shapes and weights of another length must be refused by every container. Conversions "
         "(xarray, to_dataframe / to_series / IntervalIndex, Geant4 CSV written by the harness) must reproduce bins, contents, "
         "errors and underflow / overflow."),
   note=BASE_NOTE + "pandas / polars / dask / xarray are exercised, not verified; the dask path is only defined for adaptive "
        "fixed-width binning without weights (the library refuses the rest); HistogramND has no xarray / pandas conversions."),
 "C20": dict(
   technique="Coq proofs about the prescribed plot data (cumulative monotone and ending at the total, density * size = content, monotone colour scale, tick specification sound and complete) + extracted judge applied to the marks read back from matplotlib artists, plotly traces and ASCII output",
   text=("Theorems: running sums of non-negative contents never decrease and end at the total; density value times bin size is the "
         "content; the colour normalisation is monotone; the tick specification lists exactly the multiples of the unit inside the "
         "range. For every generated 1-D / 2-D histogram, plot kind and option set the marks handed to the drawing library are read "
         "back (rectangle x / width / height, scatter offsets, line and step data, fill polygon vertices, error-bar segments, value "
         "texts, image array and extent, map rectangles with face colours mapped back onto the colour map, plotly x / y / width / z, "
         "ASCII bar lengths) and judged against the model: positions at edges / centres (exact), heights = frequencies / densities "
         "/ cumulative values (1e-12), error half-lengths squared = errors2 (/ size^2), one map cell per bin (zero cells omitted "
         "with show_zero=False) with colours monotone in the value, image layout and extent, labels from metadata unless "
         "overridden, requested tick positions, histogram snapshot unchanged; wrong dimension / unknown backend / unknown kind and "
         "errors with cumulative must be refused."),
   note=BASE_NOTE + "matplotlib / plotly rendering is outside the model (the artists are what is judged); vega / folium backends, "
        "bar3d and polar_map are covered, globe_map / cylinder_map / surface_map / pair_bars and show_stats boxes are "
        "not; plotly has no density option for maps."),
 "C19": dict(
   technique="Coq proofs over a per-context binding + token-stack model (restoration for every balanced body and on raise, isolation by induction over schedules, spawn snapshot) + extracted-model correspondence under forced interleavings of real threads / asyncio tasks",
   text=("Theorems: enter/exit restores the previous value and nesting for EVERY balanced body (nested blocks, assignments inside, "
         "spawns); an exception at any depth restores the value before the outermost block; the state of a context after a schedule "
         "is independent of all actions of other contexts (any interleaving); a task starts from its creator's value, a thread "
         "from the environment default; a passing check means every read saw (v, v) with v the model value. Generated schedules "
         "are forced, action by action, onto real asyncio tasks and threads in processes started with each value of "
         "PHYST_FREE_ARITHMETICS; config.free_arithmetics and the acceptance of ten guarded operations are compared at every read."),
   note=BASE_NOTE + "Modelled, not verified: CPython contextvars/asyncio/threading (copy at task creation, empty context in a new "
        "thread); preemption inside one physt call is not forced (each action is atomic in the schedule) — the ContextVar is the "
        "only state involved, so a data race inside a call cannot change another context's binding. Generators/executors that "
        "move a with-block across contexts are out of scope."),
 "C05": dict(
   technique="Coq proofs (pointwise sum, commutativity/associativity, promotion lattice, conservation on the union grid) + extracted-model correspondence",
   text=("Theorems: same-bins addition is the pointwise sum of contents/errors2/missed with dtype = promote_types (a semilattice "
         "join: comm/assoc/idempotent by exhaustive case analysis) and added statistics; commutativity; associativity of every "
         "component; construction is additive in the data (h(A)+h(B)=h(A++B) at spec level); adaptive fixed-width addition moves "
         "both operands onto exactly the union range and conserves totals (1-D end-to-end; per-axis shift conservation for any "
         "dimension). The full refinement statement check_C05 c (run_C05 c) = true is exercised, not proved: every generated "
         "expression tree (+, folds, sum()) over 2-5 operands is evaluated by physt and by the extracted model, and the extracted "
         "order-free specification (union grid + embedding) is applied to physt's result; operands are snapshotted before/after."),
   note=BASE_NOTE + "Modelled, not verified: np.allclose in has_same_bins (exact-rational transcription), dask chunk reduction "
        "(C17), _merge_meta_data."),
 "C06": dict(
   technique="Coq proofs of the field identities (cancel, chain, linear total, normalisation, moment invariance, refusal) + extracted-model correspondence",
   text=("Theorems over exact rationals for histograms of any size/dimension: (h*c)/c reproduces contents, squared errors and "
         "missed counters; chains of scalings multiply; total is linear; dividing by the total gives total 1; recorded mean, min, "
         "max and variance are invariant under positive scaling while the weight scales by c; a negative factor on a positive "
         "content is refused. The refinement statement is exercised on every generated chain: physt and the extracted model are "
         "run step by step (h*c, c*h, h*=c, h/c, h/=c, normalize, partial_normalize, forbidden forms) and the extracted `laws` "
         "predicate (the property's clauses per step, incl. line sums of partial_normalize and operand untouched) is applied to "
         "physt's own output; exact for dyadic factors, tolerance 1e-11 (1e-6 with float32 scalars) otherwise."),
   note=BASE_NOTE + "Float rounding for non-dyadic factors is bounded by the stated tolerance, not modelled; collection "
        "normalize_bins/normalize_all are observed through C12/C18's collection cases only."),
 "C09": dict(
   technique="Coq proofs over N-d arrays (pointwise marginal, total, Fubini: steps = once, T involutive) + extracted-model correspondence",
   text=("Theorems for arrays of any dimension and shape: a projection cell is the sum of the parent cells that agree on the kept "
         "axes; the total (and summed errors2) is preserved; projecting in steps equals projecting once onto the composed axes; "
         "T.T = original. Every generated chain (projection by index / name / mixed order, T, accumulate, invalid axis lists) runs "
         "on physt and on the extracted model; bins, names, contents, errors2 and totals are compared step by step, and for "
         "histograms built from in-range rows the projection is compared with direct construction from the kept columns."),
   note=BASE_NOTE + "Modelled, not verified: numpy sum(axis=tuple)/cumsum/T by their documented meaning; the special-class "
        "projection map of transformed histograms is C15's subject."),
 "C11": dict(
   technique="Coq proofs (slice conservation, contiguity, index normalisation, sorted index arrays, pointwise N-d selection) + extracted-model correspondence",
   text=("Theorems: for every start/stop (negative, None, out of range) a non-empty [start:stop] slice keeps total + underflow + "
         "overflow; step-1 slices are contiguous ranges; integer indices normalise as in numpy and are refused out of range; index "
         "arrays are taken as a sorted permutation; every cell of an N-d selection is a source cell. The executable model of "
         "Histogram1D.__getitem__ / HistogramND.select/__getitem__ is compared with physt on every generated index expression "
         "(ints, slices with steps, masks, index arrays, tuples incl. too many entries), including bins, names, under/overflow, "
         "refusals and 'source never modified'."),
   note=BASE_NOTE + "Degenerate results (empty selection, duplicated index-array entries) are outside the property and only "
        "recorded. numpy indexing itself is compared, not verified."),
 "C14": dict(
   technique="Coq proof by induction over operation programs (relation between kept statistics and moments of the raw data) + extracted-model correspondence",
   text=("C14_holds: for every program of constructions, fills, fill_n batches, additions, copies, rescalings, subtractions and "
         "array operations, the statistics record the code maintains is related at every step to the moments (sum w*v, sum "
         "w*v^2, min, max, sum w; median after unweighted construction) of the raw data the variable stands for, and has NaN sum/"
         "sum2/weight when it cannot be maintained; plus chunk-additivity, fill = one pair, rescaling, variance = central moment, "
         "NaN propagation to mean/variance. Every generated program is executed on physt; all six fields, mean(), variance() and "
         "std()**2 are read after every step and checked by the extracted specification."),
   note=BASE_NOTE + "Data are generated strictly inside the bins (as the property states) with dyadic values/weights so that "
        "float sums are exact; np.median and python min/max are modelled by their documented meaning."),
 "C12": dict(
   technique="Coq proof of an ownership invariant and non-interference over arbitrary derive/mutate histories + sharing-graph correspondence",
   text=("Theorems: if every derivation returns freshly allocated components (binning objects, the three arrays, the metadata "
         "dict) then for every history all live objects own pairwise disjoint components, a mutation through one object never "
         "changes what another shows, and derivations do not touch existing objects. The premise is what is checked against "
         "physt on every run: for 19 derivations x 9 mutations (parent or child, incl. adaptive growth and right operands over "
         "another range) the harness reads the sharing graph (identity of binning objects / metadata dicts, np.shares_memory of "
         "frequencies, errors2, missed), snapshots the other object and both operands before/after, checks shape/dtype "
         "invariants, and for copies equality, class, dtype, metadata, statistics and usability of the empty copy."),
   note=BASE_NOTE + "Python object semantics are not derived from the source: the footprint of each physt operation is observed "
        "(sharing graph), the theorem is about the ownership discipline. Cached edge arrays / frozen Statistics / immutable "
        "metadata values are treated as values, not locations. Sibling members of one HistogramCollection share their binning "
        "by design (see finding F15 under C18)."),
 "C13": dict(
   technique="Coq proof of the dtype invariant by induction over histories (recorded dtype vs array dtypes as separate fields) + exhaustive table check + extracted-model correspondence",
   text=("C13_dtype_invariant: for every history of fill / fill_n / + / - / * / / / normalize / merge_bins / dtype changes (refused "
         "calls included, adaptive additions included) the recorded dtype equals the element type of frequencies and errors2; "
         "integer counting stays integer, float weights / factors / division promote to float (never truncate), promotion is "
         "numpy's join; float->int changes are accepted only for integral in-range contents and errors2, narrowing only in range, "
         "a refusal changes nothing. numpy's promote_types / can_cast / iinfo / finfo tables are compared EXHAUSTIVELY (7x7) with "
         "the model's on every run; every generated history is executed on physt with dtype, frequencies.dtype, errors2.dtype and "
         "all values read after each call (values exact, with the model rounding to the float format on astype)."),
   note=BASE_NOTE + "numpy's result-dtype rules (NEP 50 weak python scalars) are transcribed and compared, not verified; "
        "subnormal rounding is not modelled; integer overflow inside numpy sums is outside the property (values are generated "
        "below the limits except for the range tests of explicit dtype changes)."),
 "C10": dict(
   technique="Coq proof (induction over arbitrary frequency lists / N-d arrays) + extracted-model correspondence",
   text=("Theorems (all sizes, all dimensions, closed under the global context): the min_frequency loop always yields a gap-free "
         "run map for any rational frequencies/threshold; the amount map is a run map; re-mapping any axis of an N-d array with any "
         "total map conserves the sum; merge_bins as coded conserves total, summed errors2 and missed. The full refinement "
         "statement check_C10 c (run_C10 c) = true is stated (C10_full_statement) and is exercised, not proved, on every generated "
         "case; the executable spec (runs of adjacent bins, recovered greedily from the observed edges for min_frequency) is applied "
         "to physt's own output."),
   note=BASE_NOTE + "Modelled, not verified: numpy slicing/+= inside _apply_bin_map, copy() on the non-inplace path."),
}


# second tie (DESIGN.md 0.9): theorems about the functions that tools/pytrans.py regenerates from /repo's current source on every build
TIE = {
 "C04": ("Tie by translation (coq/Props/C04_tie.v, re-checked on every run against coq/Gen/PyFW.v = the current source of "
         "FixedWidthBinning.first_edge / last_edge / _cover_value / _drop_unneeded_bins / _force_bin_existence_single translated by "
         "tools/pytrans.py): C04_tie_code_is_model - in exact arithmetic the translated code returns exactly the model's force_single for "
         "every grid, value and fuel >= 1 (the repair loops never iterate); C04_tie_value_covered_whatever_the_rounding - for ANY float "
         "arithmetic obeying four order laws (true of IEEE-754), whenever the code returns for a finite value, the value lies inside the "
         "edges as the code computes them (loop invariants through both while loops); C04_tie_array_branch_is_model - the array branch "
         "of _force_bin_existence (minimum, then maximum) is the model's force_array; C04_tie_value_covered_binary64 - the same coverage "
         "for Coq's primitive binary64 floats (depends on the standard library's axioms FloatAxioms.ltb_spec / leb_spec / eqb_spec, the "
         "specification of the primitive comparisons)."),
 "C05": ("Tie by translation (coq/Props/C05_tie.v against coq/Gen/PyFW.v = the current source of FixedWidthBinning._adapt / "
         "_force_new_min_max / _set_min_and_count): for every pair of fixed-width binnings the translated _adapt raises exactly when the "
         "model refuses (different width or shift), otherwise self becomes the model's union axis and the two returned bin maps are the "
         "model's left shifts (C05_tie_adapt_is_model); model_adapt_fixed is literally the fixed/fixed branch of adapt_axis "
         "(C05_tie_model_branch)."),
 "C06": ("Tie by translation (coq/Props/C06_tie.v against coq/Gen/PyStats.v = the current source of Statistics.__mul__ / mean): the "
         "translated __mul__ is the model's stats_mul; the translated mean is invariant under any non-zero factor."),
 "C10": ("Tie by translation (coq/Props/C10_tie.v against coq/Gen/PyMerge.v = the two bin-map builders inside the current source of "
         "HistogramBase.merge_bins): the translated list comprehension and min_frequency loop are the model's amount_map and mf_map for "
         "every bin count, amount, list of frequencies and threshold."),
 "C14": ("Tie by translation (coq/Props/C14_tie.v against coq/Gen/PyStats.v = the current source of physt/statistics.py): the "
         "translated Statistics.__add__, INVALID_STATISTICS, mean and variance are the model's stats_add, invalid_stats, st_mean, st_var; the "
         "statistics update inside Histogram1D.fill (histogram1d.py) is the model's fill_stats (C14_tie_fill)."),
 "C20": ("Tie by translation (coq/Props/C20_tie.v against coq/Gen/PyTicks.v = the tick-bound statements inside the current source of "
         "TimeTickHandler.get_time_ticks, python // and % on floats): in exact arithmetic the first and last multiple are ceil(lo/u) and "
         "floor(hi/u) for every range and positive unit, so the ticks are the model's ticks_spec, about which soundness and completeness are proved."),
}
TIE_TECHNIQUE = " + tie by translation: Python->Gallina translator re-run on the current source, equivalence to the model proved for all inputs"
TIE_NOTE = (" The translator tools/pytrans.py (fail-closed Python-ast -> Gallina, subset and typing rules in DESIGN.md 0.9) and its kernel "
            "table (which attributes are state, which are caches) are trusted for the tie theorems.")
