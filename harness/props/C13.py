"""C13 Content dtype is consistent and never loses information."""
from fractions import Fraction as Fr
from harness import sx, common as C

N_QUICK, N_THOROUGH = 2000, 60000
RULE = ("case 0: numpy.promote_types / can_cast / iinfo / finfo over all 7 supported dtypes compared exhaustively with the model's "
        "tables; then histories of 1..8 operations (fill with python/numpy int/float weights, fill_n with int64/float64/float32 "
        "weight arrays or none, + and - with operands of every dtype, *, /, normalize, merge_bins, explicit dtype change to every "
        "dtype) on 1-D/2-D histograms of every dtype with values at the range limits of int16/int32/float16 and integral / "
        "non-integral floats; after every call dtype, frequencies.dtype, errors2.dtype and all values are read. non-trivial = "
        "history with >=2 dtype-changing events or a refused dtype change")
MODELLED = ("HistogramBase.__init__ dtype inference, _eval_dtype, set_dtype, _coerce_dtype and every coercion point of fill/fill_n/"
            "__iadd__/__isub__/__imul__/__itruediv__/normalize/merge_bins are modelled in coq/Model/DtypeCases.v with the recorded "
            "dtype and the two array dtypes as separate fields; numpy's result-dtype rules (NEP 50) are transcribed, compared on "
            "every run")
KINDS = ["pyint", "pyfloat", "np.int64", "np.int32", "np.int16", "np.float64", "np.float32", "np.float16", "np.float128"]
LIMITS = {"int16": 32767, "int32": 2 ** 31 - 1, "float16": 65504}

def gen_dh(rng, axes, dtype=None, big=False):
    dtype = dtype or rng.choice(C.DTYPES)
    size = 1
    for a in axes: size *= C.axisd_len(a)
    if dtype.startswith("int"):
        pool = [0, 0, 1, 2, 3, 7]
        if big: pool += [LIMITS.get(dtype, 2 ** 40), LIMITS.get(dtype, 2 ** 40) - 1, 32768, 40000, 70000]
        freq = [min(rng.choice(pool), LIMITS.get(dtype, 2 ** 62)) for _ in range(size)]
    else:
        pool = [Fr(0), Fr(1), Fr(2), Fr(5, 2), Fr(3, 8), Fr(7), Fr(12)]
        # only values that the dtype represents exactly (the model keeps exact values)
        if big: pool += [Fr(32752), Fr(32768), Fr(65504), Fr(2048)]
        if big and dtype != "float16": pool += [Fr(70000), Fr(32767), Fr(2 ** 31), Fr(2 ** 31 - 128)]
        if big and dtype in ("float64", "float128"): pool += [Fr(2 ** 31 - 1), Fr(2 ** 63), Fr(2 ** 62)]
        freq = [rng.choice(pool) for _ in range(size)]
    r = rng.random()
    if r < 0.5: err2 = list(freq)
    elif r < 0.8 or not big: err2 = [x if rng.random() < 0.5 else rng.choice([0, 1, 4]) for x in freq]
    else: err2 = [rng.choice(pool) if dtype.startswith("float") else min(rng.choice(pool), LIMITS.get(dtype, 2 ** 62)) for _ in freq]   # errors2 beyond the contents
    nd = len(axes)
    missed = [rng.choice([0, 0, 1, 2]) for _ in range(3 if nd == 1 else 1)] if (not big and rng.random() < 0.4) else [0] * (3 if nd == 1 else 1)
    return [["axes", axes], ["dtype", dtype], ["freq", freq], ["err2", err2], ["missed", missed],
            ["stats", "none"], ["keep", "T"], ["names", ["ax%d" % i for i in range(nd)]]]

def gen(rng, n, tier):
    yield [["bucket", "tables"], ["table", "T"]]
    for i in range(n):
        nd = rng.choice([1, 1, 2])
        adaptive = rng.random() < 0.25
        if adaptive:
            params = [(Fr(rng.choice([1, 2, 4, 3]), rng.choice([1, 2, 4])), Fr(rng.choice([0, 0, 1]), 8)) for _ in range(nd)]
            axes = [C.gen_axisd(rng, "fixed", w=w, shift=sh, adaptive=True, maxbins=4) for (w, sh) in params]
        else:
          axes = [C.gen_axisd(rng, rng.choice(["static", "fixed"]), adaptive=False, maxbins=4) for _ in range(nd)]
        axes = [(a if a[0] != "static" or all(a[1][j][1] == a[1][j + 1][0] for j in range(len(a[1]) - 1)) else C.gen_axisd(rng, "fixed", adaptive=False, maxbins=4)) for a in axes]
        big = rng.random() < 0.35 and not adaptive
        h = gen_dh(rng, axes, big=big)
        size = len(sx.rec(h)["freq"])
        ops = []
        for _ in range(rng.choice([1, 2, 3, 5, 8])):
            r = rng.random()
            if big: r = 0.9      # values at the limits: only dtype changes
            if r < 0.2:
                k = rng.choice(KINDS)
                w = Fr(rng.randint(0, 5)) if "int" in k else Fr(rng.randint(0, 20), 4)
                ops.append(["fill", rng.randrange(size), w, k])
            elif r < 0.35:
                m = rng.randint(1 if adaptive else 0, 4); poss = [rng.randrange(size) for _ in range(m)]
                wd = rng.choice(["none", "int64", "float64", "float32"])
                if wd == "none": ops.append(["fill_n", poss, "none", "int64"])
                else: ops.append(["fill_n", poss, [Fr(rng.randint(0, 5)) if wd == "int64" else Fr(rng.randint(0, 20), 4) for _ in poss], wd])
            elif r < 0.5:
                if adaptive and not any(o[0] == "merge" for o in ops):
                    ax2 = [C.gen_axisd(rng, "fixed", w=w, shift=sh, adaptive=True, maxbins=4) for (w, sh) in params]
                    ops.append(["add", gen_dh(rng, ax2)])
                elif adaptive: continue
                else: ops.append(["add", gen_dh(rng, axes)])
            elif r < 0.6:
                if adaptive and any(o[0] == "add" for o in ops): continue      # the grid may have grown: operand bins unknown here
                ops.append(["sub", gen_dh(rng, axes)])
            elif r < 0.7:
                k = rng.choice(KINDS); c = Fr(rng.choice([1, 2, 3])) if "int" in k else Fr(rng.choice([1, 2, 3, 5]), rng.choice([1, 2, 4]))
                ops.append(["mul", c, k])
            elif r < 0.76:
                k = rng.choice(KINDS); ops.append(["div", Fr(rng.choice([1, 2, 4, 8])), k])
            elif r < 0.8: ops.append(["normalize"])
            elif r < 0.85:
                a = rng.randint(1, 3); ops.append(["merge", a])
                n0 = C.axisd_len(axes[0]); size = size // n0 * ((n0 + a - 1) // a)
                axes = [["static", [[Fr(j), Fr(j + 1)] for j in range((n0 + a - 1) // a)], "F"]] + axes[1:]
            else: ops.append(["set", rng.choice(C.DTYPES)])
        if not ops: continue
        yield [["bucket", "%dd/%s/%s%s" % (nd, sx.rec(h)["dtype"], "big" if big else "small", "/adaptive" if adaptive else "")], ["hist", h], ["ops", ops]]

def _scalar(c, kind):
    import numpy as np
    if kind == "pyint": return int(c)
    if kind == "pyfloat": return float(c)
    return getattr(np, kind[3:].replace("float128", "longdouble"))(float(c) if "float" in kind else int(c))

def _obs(tag, h):
    import numpy as np
    return [tag, C.dtype_name(h.dtype), C.dtype_name(h.frequencies.dtype), C.dtype_name(h.errors2.dtype),
            [float(x) for x in np.asarray(h.frequencies).ravel().tolist()], [float(x) for x in np.asarray(h.errors2).ravel().tolist()]]

def impl(case):
    import numpy as np, warnings
    d = sx.rec(case)
    if "table" in d:
        dts = [np.dtype(x if x != "float128" else "longdouble") for x in C.DTYPES]
        prom = [[C.dtype_name(np.promote_types(a, b)) for b in dts] for a in dts]
        cast = [[bool(np.can_cast(a, b)) for b in dts] for a in dts]
        def lim(a, which):
            if a.kind == "i": return Fr(int(getattr(np.iinfo(a), which)))
            if a == np.dtype("longdouble"): return "none"
            return Fr(float(getattr(np.finfo(a), which)))
        return [prom, cast, [lim(a, "max") for a in dts], [lim(a, "min") for a in dts]]
    h = C.mk_ah(d["hist"])
    out = []
    with warnings.catch_warnings():
        warnings.simplefilter("ignore")
        for op in d["ops"]:
            k = op[0]
            try:
                if k == "fill":
                    idx = np.unravel_index(op[1], h.shape)
                    v = [float(h.get_bin_centers(i)[j]) for i, j in enumerate(idx)] if h.ndim > 1 else float(h.bin_centers[idx[0]])
                    h.fill(v, _scalar(op[2], op[3]))
                elif k == "fill_n":
                    rows = []
                    for p in op[1]:
                        idx = np.unravel_index(p, h.shape)
                        rows.append([float(h.get_bin_centers(i)[j]) for i, j in enumerate(idx)] if h.ndim > 1 else float(h.bin_centers[idx[0]]))
                    arr = np.array(rows, dtype=float).reshape(-1, h.ndim) if h.ndim > 1 else np.array(rows, dtype=float)
                    if op[2] == "none": h.fill_n(arr)
                    else: h.fill_n(arr, weights=np.array([float(x) for x in op[2]], dtype=np.dtype(op[3])))
                elif k == "add": h += C.mk_ah(op[1])
                elif k == "sub": h -= C.mk_ah(op[1])
                elif k == "mul": h *= _scalar(op[1], op[2])
                elif k == "div": h /= _scalar(op[1], op[2])
                elif k == "normalize": h.normalize(inplace=True)
                elif k == "merge": h.merge_bins(op[1], axis=0, inplace=True)
                else: h.dtype = np.dtype(op[1] if op[1] != "float128" else "longdouble")
                out.append(_obs("ok", h))
            except Exception as e:
                out.append(_obs("refused", h))
    return out

def corr_equal(case, a, b):
    d = sx.rec(case)
    if "ops" in d:      # nothing is specified from a normalize() of an all-zero histogram on
        for i, op in enumerate(d["ops"]):
            if op[0] == "normalize" and i < len(a) and (a[i][0] == "refused" or any(x == "nan" for x in a[i][4])):
                a, b = a[:i], b[:i]; break
    def eq(x, y):
        if isinstance(x, list) and isinstance(y, list): return len(x) == len(y) and all(eq(p, q) for p, q in zip(x, y))
        if isinstance(x, str) or isinstance(y, str): return x == y
        fx, fy = float(x), float(y)
        return abs(fx - fy) <= 1e-3 * max(1.0, abs(fx))
    return eq(a, b)

def nontrivial(case, obs):
    d = sx.rec(case)
    if "table" in d: return True
    dts = [o[1] for o in obs]
    return len(set(dts)) >= 2 or any(o[0] == "refused" for o in obs)

def shrink(case):
    d = sx.rec(case)
    if "table" in d: return
    ops = d["ops"]
    if len(ops) > 1:
        d2 = dict(d); d2["ops"] = ops[:-1]; yield [[k, v] for k, v in d2.items()]
        d3 = dict(d); d3["ops"] = ops[1:]; yield [[k, v] for k, v in d3.items()]
