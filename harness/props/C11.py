"""C11 Indexing and slicing follow numpy semantics on the bin grid."""
from fractions import Fraction as Fr
from harness import sx, common as C

N_QUICK, N_THOROUGH = 4000, 120000
RULE = ("1-D..4-D histograms; 1-D: every int in -n-2..n+2, slices with start/stop in that range or None and step in "
        "{None,1,2,3,-1,0}, boolean masks of right/wrong length, index arrays (sorted, unsorted, negative, out of range); N-D: int, "
        "slice, tuples mixing ints and slices incl. too many entries; keep_missed on/off. non-trivial = accepted selection that "
        "drops at least one bin or axis")
MODELLED = ("python slice.indices, numpy integer/boolean/fancy indexing, Histogram1D.__getitem__ under/overflow bookkeeping, "
            "HistogramND.select/__getitem__ axis bookkeeping and BinningBase/StaticBinning.__getitem__ are modelled in "
            "coq/Model/Index.v; numpy's own indexing is compared on every run, not verified")

def rnd_idx(rng, n): return rng.randint(-n - 2, n + 2)
def rnd_slice(rng, n, steps=(None, None, None, 1, 1, 2, 3, -1, 0)):
    return ["slice", rng.choice(["none", rnd_idx(rng, n)]), rng.choice(["none", rnd_idx(rng, n)]),
            (lambda s: "none" if s is None else s)(rng.choice(steps))]

def gen(rng, n, tier):
    for i in range(n):
        nd = rng.choice([1, 1, 1, 2, 2, 3, 4])
        h = C.gen_hist(rng, ndim=nd, maxbins=5, gapped=0.2, weights=rng.choice(["int", "float"]))
        d = sx.rec(h)
        shape = [len(b) for b in d["bins"]]
        keep = "T" if rng.random() < 0.8 else "F"
        tup = "F"
        if nd == 1:
            m = shape[0]
            r = rng.random()
            if r < 0.25: items = [["int", rnd_idx(rng, m)]]
            elif r < 0.65: items = [rnd_slice(rng, m)]
            elif r < 0.8:
                ln = m if rng.random() < 0.8 else rng.choice([m - 1, m + 1])
                items = [["mask", [rng.choice(["T", "F"]) for _ in range(max(ln, 0))]]]
            else:
                k = rng.randint(1, m)
                l = rng.sample(range(m), k)
                l = [(x - m if rng.random() < 0.3 else x) for x in l]
                if rng.random() < 0.15: l.append(rng.choice([m, -m - 1, m + 3]))
                if rng.random() < 0.5: l.sort()
                items = [["arr", l]]
        else:
            r = rng.random()
            if r < 0.15: items = [["int", rnd_idx(rng, shape[0])]]
            elif r < 0.3: items = [rnd_slice(rng, shape[0], steps=(None, None, 1, 2, -1))]
            else:
                tup = "T"
                ln = rng.choice([1, 2, nd, nd, nd, nd + 1] if nd > 1 else [1])
                items = []
                for k in range(ln):
                    mk = shape[k] if k < nd else 3
                    items.append(["int", rnd_idx(rng, mk) if rng.random() < 0.3 else rng.randrange(mk)] if rng.random() < 0.5
                                 else rnd_slice(rng, mk, steps=(None, None, None, 1, 2, -1)))
        m0 = d["missed"]
        yield [["bucket", "%dd/%s" % (nd, "+".join(it[0] for it in items))], ["hist", h], ["names", d["names"]],
               ["under", m0[0] if nd == 1 else 0], ["over", m0[1] if nd == 1 else 0], ["keep", keep], ["items", items], ["tuple", tup],
               ["npint", rng.choice(["F", "F", "int64", "int32"])], ["peek", rng.choice(["T", "F"])], ["aslist", "T" if (nd == 1 and rng.random() < 0.4) else "F"]]      # integer indices spelled as numpy integers (impl side only)

def _py_item(it):
    import numpy as np
    if it[0] == "int": return int(it[1])
    if it[0] == "slice": return slice(*[None if x == "none" else int(x) for x in it[1:]])
    if it[0] == "mask": return np.array([x == "T" for x in it[1]], dtype=bool)
    return np.array([int(x) for x in it[1]], dtype=int)

def impl(case):
    import numpy as np
    d = sx.rec(case); hd = sx.rec(d["hist"])
    hd["keep_missed"] = d["keep"]
    h = C.mk_hist(hd)
    nd = h.ndim
    before = C.snap(h)
    items = [_py_item(it) for it in d["items"]]
    if d.get("npint", "F") != "F": items = [(getattr(np, d["npint"])(x) if isinstance(x, int) else x) for x in items]
    if d.get("aslist", "F") == "T":      # index arrays and masks written as plain python lists
        items = [(x.tolist() if isinstance(x, np.ndarray) and x.size else x) for x in items]
    idx = tuple(items) if d["tuple"] == "T" else items[0]
    if d.get("peek", "F") == "T":      # the source's edge representations were looked at (and cached) before the selection
        for b in h._binnings: _ = (b.numpy_bins if b.is_consecutive() else None, b.first_edge, b.last_edge, b.bins)
        try: _ = h[0:1] if nd == 1 else h[(slice(0, 1),) * nd]
        except Exception: pass
    try:
        r = h[idx]
    except Exception as e:
        return ["refused"] if C.same_snap(before, C.snap(h)) else ["source-modified"]
    if not C.same_snap(before, C.snap(h)): return ["source-modified"]
    if isinstance(r, tuple):
        edges, v = r
        e = np.asarray(edges, dtype=float).reshape(-1, 2).tolist()
        return ["scalar", e, float(v)]
    uo = "nd"
    if nd == 1: uo = [float(r.underflow), float(r.overflow)]
    out = ["ok", C.snap_bins(r), np.asarray(r.frequencies).ravel().tolist(), np.asarray(r.errors2).ravel().tolist(),
           list(r.axis_names), uo]
    # every representation of the selected bins agrees with the pairs
    for b in r._binnings:
        bb = np.asarray(b.bins, dtype=float).reshape(-1, 2)
        if len(bb) == 0: continue
        if float(b.first_edge) != bb[0, 0] or float(b.last_edge) != bb[-1, 1]: return ["edges-inconsistent"]
        if b.is_consecutive() and np.asarray(b.numpy_bins, dtype=float).tolist() != np.concatenate([bb[:1, 0], bb[:, 1]]).tolist():
            return ["edges-inconsistent"]
    # the selection is a histogram of its own: filling it leaves the source as it was
    try:
        if r is not h and (r.bin_count if r.ndim == 1 else all(r.shape)):      # h[:] without a real selection is h itself
            centre = [float((np.asarray(b.bins, dtype=float).reshape(-1, 2)[0]).mean()) for b in r._binnings]
            r.fill(centre[0] if r.ndim == 1 else centre, weight=3)
    except Exception:
        pass
    if not C.same_snap(before, C.snap(h)): return ["source-modified"]
    return out

def nontrivial(case, obs):
    if obs[0] == "scalar": return True
    if obs[0] != "ok": return False
    d = sx.rec(case)
    return sum(len(b) for b in obs[1]) < sum(len(b) for b in sx.rec(d["hist"])["bins"])
