"""C12 Derived histograms are independent of their sources."""
from fractions import Fraction as Fr
from harness import sx, common as C
from harness.props import C13

N_QUICK, N_THOROUGH = 1500, 40000
RULE = ("source: 1-D/2-D/3-D histogram (static, numpy-like or adaptive fixed-width bins, every dtype) or a collection; derivation: "
        "copy, copy(include_frequencies=False), a+b, 0+a, a-b, a*c, c*a, a/c, normalize, merge_bins (copy), projection, "
        "select(int), h[slice], h[mask], T, partial_normalize, accumulate, parse_json(to_json), collection.copy; then a mutation "
        "of the parent or of the child: fill (incl. growth of adaptive bins), fill_n, +=, *=, dtype change, metadata edit, "
        "in-place merge. Read: the sharing graph (identity of binning objects and metadata dicts, np.shares_memory of "
        "frequencies / errors2 / missed), public snapshots of the other object before/after, shape invariants of both, and for "
        "copies equality / class / dtype / metadata / statistics. non-trivial = every case (derivation and mutation both executed)")
MODELLED = ("the ownership discipline (every derivation returns freshly allocated components, mutations write through the receiver) "
            "is the model (coq/Model/Heap.v); which components each physt operation actually allocates is observed through the "
            "sharing graph on every run, not derived from the source")

DERIV_1D = ["copy", "copy_nofreq", "add", "radd0", "sum1", "sub", "mul", "rmul", "div", "normalize", "merge", "slice", "slice_full", "mask", "json"]
DERIV_ND = ["copy", "copy_nofreq", "add", "radd0", "sub", "mul", "div", "normalize", "merge", "projection", "select_int", "slice", "accumulate", "json"]
DERIV_2D = DERIV_ND + ["T", "partial_normalize"]
MUT = ["fill_in", "fill_out", "fill_n", "iadd", "imul", "set_dtype", "meta", "imerge", "idiv"]

def gen(rng, n, tier):
    for i in range(n):
        nd = rng.choice([1, 1, 2, 2, 3])
        adaptive = rng.random() < 0.4
        if rng.random() < 0.08:
            yield [["bucket", "collection"], ["kind", "collection"], ["adaptive", "T" if adaptive else "F"], ["mut", rng.choice(MUT)],
                   ["target", rng.choice(["parent", "child"])], ["seed", rng.randint(0, 10 ** 6)]]
            continue
        if adaptive:
            axes = [C.gen_axisd(rng, "fixed", w=Fr(rng.choice([1, 2, 4]), rng.choice([1, 2])), shift=Fr(0), adaptive=True, maxbins=4) for _ in range(nd)]
        else:
            axes = [C.gen_axisd(rng, rng.choice(["static", "fixed"]), adaptive=False, maxbins=4) for _ in range(nd)]
            axes = [(a if a[0] != "static" or all(a[1][j][1] == a[1][j + 1][0] for j in range(len(a[1]) - 1)) else C.gen_axisd(rng, "fixed", adaptive=False, maxbins=4)) for a in axes]
        h = C13.gen_dh(rng, axes, dtype=rng.choice(["int64", "int32", "float64", "float32"]))
        deriv = rng.choice(DERIV_1D if nd == 1 else DERIV_2D if nd == 2 else DERIV_ND)
        nanm = "T" if rng.random() < 0.12 else "F"
        if nanm == "T" and nd == 1 and rng.random() < 0.6: deriv = rng.choice(["copy", "copy", "mul", "slice_full"])
        other = "none"
        if adaptive and deriv in ("add", "sub") and rng.random() < 0.7:      # a right operand over another range of the same grid
            ad2 = rng.random() < 0.5      # the right operand itself need not be adaptive (it must stay what it was)
            ax2 = [C.gen_axisd(rng, "fixed", w=a[1], shift=a[2], adaptive=ad2, maxbins=4) for a in axes]
            other = C13.gen_dh(rng, ax2, dtype=sx.rec(h)["dtype"]); od = sx.rec(other); od["missed"] = [0] * len(od["missed"]); other = [[k, v] for k, v in od.items()]
        yield [["bucket", "%dd/%s/%s" % (nd, "adaptive" if adaptive else "fixed", deriv)], ["kind", "hist"], ["hist", h], ["deriv", deriv], ["other", other],
               ["mut", rng.choice(MUT)], ["target", rng.choice(["parent", "child"])], ["seed", rng.randint(0, 10 ** 6)],
               ["nan_missed", nanm]]

def _snap(h):
    import numpy as np
    st = "none"
    if hasattr(h, "_stats") and h._stats is not None:
        s = h._stats; st = [float(s.sum), float(s.sum2), float(s.min), float(s.max), float(s.weight)]
    md = {k: (list(v) if isinstance(v, (tuple, list)) else v) for k, v in h.meta_data.items()}
    return [C.snap_bins(h), np.asarray(h.frequencies).ravel().tolist(), np.asarray(h.errors2).ravel().tolist(),
            [float(x) for x in np.asarray(h._missed, dtype=float).ravel().tolist()], C.dtype_name(h.dtype), st, sorted((str(k), str(v)) for k, v in md.items()),
            bool(h.is_adaptive())]

def _wf(h):
    import numpy as np
    shape = tuple(b.bin_count for b in h._binnings)
    return (np.asarray(h.frequencies).shape == shape and np.asarray(h.errors2).shape == shape and
            all(b.bins.shape == (b.bin_count, 2) for b in h._binnings) and C.dtype_name(h.frequencies.dtype) == C.dtype_name(h.dtype))

def _shared(a, r):
    import numpy as np
    out = []
    for i, x in enumerate(r._binnings):
        for j, y in enumerate(a._binnings):
            if x is y: out.append("binning%d-is-source-binning%d" % (i, j))
    for nr, ar_ in (("frequencies", r._frequencies), ("errors2", r._errors2), ("missed", r._missed)):
        for na, aa in (("frequencies", a._frequencies), ("errors2", a._errors2), ("missed", a._missed)):
            if np.shares_memory(np.asarray(ar_), np.asarray(aa)): out.append("%s-shares-memory-with-source-%s" % (nr, na))
    if r._meta_data is a._meta_data: out.append("meta_data-dict-is-source-dict")
    return out

def _derive(a, b, deriv, rng):
    import numpy as np, physt.io
    if deriv == "copy": return a.copy()
    if deriv == "copy_nofreq": return a.copy(include_frequencies=False)
    if deriv == "add": return a + b
    if deriv == "radd0": return 0 + a
    if deriv == "sum1": return sum([a])
    if deriv == "sub":
        if a.shape == b.shape and a.has_same_bins(b):
            z = b.copy(); z *= 0
            return a - z
        return (a + b) - b
    if deriv == "mul": return a * 2
    if deriv == "rmul": return 2 * a
    if deriv == "div": return a / 2
    if deriv == "normalize": return a.normalize()
    if deriv == "merge": return a.merge_bins(2)
    if deriv == "projection": return a.projection(rng.randrange(a.ndim))
    if deriv == "select_int": return a.select(rng.randrange(a.ndim), 0)
    if deriv == "slice": return a[0:max(1, a.shape[0] - 1)] if a.ndim == 1 else a[0:1]
    if deriv == "slice_full": return a[0:a.shape[0]]
    if deriv == "mask": return a[np.ones(a.shape[0], dtype=bool)]
    if deriv == "T": return a.T
    if deriv == "partial_normalize": return a.partial_normalize(rng.randrange(2))
    if deriv == "accumulate": return a.accumulate(rng.randrange(a.ndim))
    if deriv == "json": return physt.io.parse_json(a.to_json())
    raise KeyError(deriv)

def _mutate(x, mut, rng):
    import numpy as np
    nd = x.ndim
    if x.bin_count == 0: raise ValueError("nothing to mutate")
    centers = [float(x.get_bin_centers(i)[0]) for i in range(nd)] if nd > 1 else [float(x.bin_centers[0])]
    far = [float(x.get_bin_right_edges(i)[-1]) + 7.25 for i in range(nd)] if nd > 1 else [float(x.bin_right_edges[-1]) + 7.25]
    if mut == "fill_in": x.fill(centers[0] if nd == 1 else centers, 2)
    elif mut == "fill_out": x.fill(far[0] if nd == 1 else far, 1)
    elif mut == "fill_n": x.fill_n(np.array([centers[0], far[0]]) if nd == 1 else np.array([centers, far]))
    elif mut == "iadd": x += x.copy()
    elif mut == "imul": x *= 3
    elif mut == "idiv": x /= 2
    elif mut == "set_dtype": x.dtype = np.float64 if C.dtype_name(x.dtype) != "float64" else np.longdouble
    elif mut == "meta":
        x.name = "changed"; x.title = "changed title"; x.meta_data["custom"] = [1, 2]
        if isinstance(x.meta_data.get("tags"), list):      # an edit inside a mutable entry
            x.meta_data["tags"].append("more"); x.meta_data["tags"][1]["k"].append(2)
        x.axis_names = tuple("m%d" % i for i in range(nd))
    elif mut == "imerge": x.merge_bins(2, inplace=True)
    else: raise KeyError(mut)

def impl(case):
    import numpy as np, warnings, random, physt
    from physt.histogram_collection import HistogramCollection
    d = sx.rec(case)
    rng = random.Random(d["seed"])
    with warnings.catch_warnings():
        warnings.simplefilter("ignore")
        if d["kind"] == "collection":
            from physt.binnings import FixedWidthBinning
            binning = FixedWidthBinning(bin_width=1.0, bin_count=4, bin_times_min=0, bin_shift=0.0, adaptive=(d["adaptive"] == "T"))
            col = HistogramCollection(binning=binning, name="col")
            col.create("a", [0.5, 1.5, 1.7]); col.create("b", [2.5, 3.5])
            cp = col.copy()
            shared = []
            for i, (m1, m2) in enumerate(zip(col.histograms, cp.histograms)):
                shared += ["member%d:%s" % (i, s) for s in _shared(m1, m2)]
            if cp.binning is col.binning: shared.append("collection-binning-is-source-binning")
            parent, child = col.histograms[0], cp.histograms[0]
            ok = (cp == col) and len(cp) == len(col)
        else:
            a = C.mk_ah(d["hist"]); a.name = "src"; a.meta_data["custom"] = "x"; a.meta_data["tags"] = ["t", {"k": [1]}]      # a mutable entry
            bd = sx.rec(d["hist"])
            if "other" in d and d["other"] != "none": b = C.mk_ah(d["other"])
            else: b = C.mk_ah(d["hist"])
            if rng.random() < 0.5: b.name = "src"; b.meta_data["custom"] = "x"; b.meta_data["tags"] = ["t", {"k": [1]}]      # operands with identical metadata
            if d.get("nan_missed", "F") == "T" and a.ndim == 1:      # an unknown underflow (as after a fill into a gap), also on integer contents
                a.underflow = np.nan
            a0, b0 = _snap(a), _snap(b)
            try:
                r = _derive(a, b, d["deriv"], rng)
            except Exception as e:
                return [[], "T", "T", "T"]        # the derivation is not available for this histogram (e.g. merge of one bin): nothing to check
            if not hasattr(r, "frequencies"): return [[], "T", "T", "T"]
            shared = _shared(a, r) + ["operand:" + x for x in _shared(b, r)]
            parent, child = a, r
            # operations that are not in-place never modify their operands
            ok = sx.enc(_snap(a)) == sx.enc(a0) and sx.enc(_snap(b)) == sx.enc(b0) and _wf(b)
            if d["deriv"] in ("add", "sub") and rng.random() < 0.5: parent = b      # the later mutation may also go through the right operand
            if d["deriv"] == "copy":
                ok = ok and bool(r == a) and type(r) is type(a) and C.dtype_name(r.dtype) == C.dtype_name(a.dtype) and sx.enc(_snap(r)) == sx.enc(_snap(a))
            if d["deriv"] == "copy_nofreq":
                ok = ok and (float(np.asarray(r.frequencies).sum()) == 0.0 and float(np.asarray(r.errors2).sum()) == 0.0 and
                      C.snap_bins(r) == C.snap_bins(a) and type(r) is type(a))
                try:
                    t = r.copy(); _mutate(t, "fill_in", rng); ok = ok and t.total == 2
                except Exception: ok = False
        tgt, other = (parent, child) if d["target"] == "parent" else (child, parent)
        before = _snap(other)
        try:
            _mutate(tgt, d["mut"], rng)
        except Exception as e:
            pass       # a refused mutation must not change anything either
        unchanged = sx.enc(_snap(other)) == sx.enc(before)
        wf = _wf(parent) and _wf(child)
    return [shared, unchanged, wf, ok]

def nontrivial(case, obs): return True
