"""C17 Every supported input container gives the same histogram as its array."""
from fractions import Fraction as Fr
import math
from harness import sx

N_QUICK, N_THOROUGH = 500, 15000
CASE_TIMEOUT = 60
RULE = ("kind=container (85%): data sets of 0..40 rows x 1..3 columns of doubles / small ints with 0-30% NaN entries, optional "
        "weights (floats, aligned with rows), dropna on/off, bins as explicit edges / a bin count / adaptive fixed width, explicit or "
        "inherited axis names; every applicable container is built from the same rows: list, tuple, iterator, (n,1) array, pandas "
        "Series (+ .physt accessor, + DataFrame accessor with column and weight-column names), polars Series (+ namespace), list of "
        "rows, ndarray, float32 arrays / lists / Series / frames of float32-exact values, separate columns (h2 / h3), pandas DataFrame (+ accessor), polars DataFrame (+ namespace), dask arrays in "
        "1..7 uneven chunks; defects: non-numeric values, polars nulls, wrong shapes (DataFrame to h1, 3 columns to h2, ragged "
        "rows, weights of another length). kind=convert (15%): 1-D histograms with irregular / gapped / integer bins, weights, "
        "under/overflow through to_xarray/from_xarray, to_dataframe / to_series + index_to_binning, binning_to_index, and Geant4 "
        "CSV files written by the harness. non-trivial = container case with NaN rows and weights, or >=2 columns")
MODELLED = ("what a container denotes (rows, NaN rows dropped with their weights, names) is the model (coq/Model/Containers.v); the "
            "reference histogram is physt's own result on the equivalent numpy arrays (settled by C01/C02); pandas / polars / dask / "
            "xarray themselves are exercised, not verified")

def fl(x): return Fr(float(x))

def gen(rng, n, tier):
    for i in range(n):
        if rng.random() < 0.15:
            nb = rng.randint(1, 5)
            x = fl(rng.uniform(-5, 5)); pairs = []
            gap = rng.random() < 0.3
            for _ in range(nb):
                if gap and pairs and rng.random() < 0.5: x = fl(float(x) + rng.uniform(0.1, 1))
                y = fl(float(x) + rng.uniform(0.2, 2)); pairs.append([x, y]); x = y
            ints = rng.random() < 0.4
            freq = [rng.randint(0, 20) if ints else fl(rng.random() * 10) for _ in range(nb)]
            err2 = list(freq) if rng.random() < 0.5 else [rng.randint(0, 30) if ints else fl(rng.random() * 20) for _ in range(nb)]
            missed = [0, 0, 0] if rng.random() < 0.3 else [rng.randint(0, 5) if ints else fl(rng.random() * 3) for _ in range(3)]
            yield [["bucket", "convert"], ["kind", "convert"], ["pairs", pairs], ["freq", freq], ["err2", err2], ["missed", missed], ["ints", "T" if ints else "F"],
                   ["name", rng.choice(["none", "h", "my name"])], ["g4", [rng.randint(1, 6), fl(rng.uniform(-3, 0)), fl(rng.uniform(0.5, 4))]]]
            continue
        nd = rng.choice([1, 1, 1, 2, 2, 3])
        nrows = rng.choice([0, 1, 2, 5, 12, 40]) if rng.random() < 0.9 else 3
        ints = rng.random() < 0.25
        pnan = rng.choice([0, 0, 0.1, 0.3])
        iscale = rng.choice([1, 1, 200, 50000]) if ints else 1
        rows = [[("nan" if rng.random() < pnan else (Fr(rng.randint(-5, 15) * iscale) if ints else fl(rng.uniform(-3, 12)))) for _ in range(nd)] for _ in range(nrows)]
        f32 = (not ints) and rng.random() < 0.25
        weights = "none" if rng.random() < 0.5 else [fl(rng.choice([1.0, 0.5, 2.0, rng.random() * 3])) for _ in range(nrows)]
        dropna = rng.random() < 0.75
        bk = rng.choice(["edges", "edges", "int", "fixed"])
        if bk != "edges":
            if nrows < 3: bk = "edges"
            else:
                for k in range(3): rows[k] = [(Fr((k * 2 + c) * iscale) if ints else fl(k * 2.5 + c * 0.3)) for c in range(nd)]
        if bk == "edges" and nd >= 2 and nrows >= 1 and not ints and rng.random() < 0.15:
            # a row that holds both infinities (1/x beside log x at x = 0): it is no NaN row, it stays (and falls outside the bins)
            k0 = rng.randrange(nrows); rows[k0] = ["inf", "-inf"] + [fl(rng.uniform(-3, 12)) for _ in range(nd - 2)]
        if bk == "edges": bins = ["edges", [[fl((-1 + 3.1 * k + 0.1 * a) * iscale) for k in range(rng.randint(2, 6))] for a in range(nd)]]
        elif bk == "int": bins = ["int", rng.randint(1, 6)]
        else: bins = ["fixed", fl(rng.choice({1: [0.5, 1.0, 2.5, 0.1], 2: [1.0, 2.5], 3: [2.5, 5.0]}[nd]) * iscale)]
        names = ["c%d_%s" % (k, rng.choice(["x", "pt", "E"])) for k in range(nd)]
        explicit = "none" if rng.random() < 0.7 else ["ax%d" % k for k in range(nd)]
        defect = "none" if rng.random() < 0.85 else rng.choice(["nonnumeric", "null", "shape", "weights_length"])
        if defect == "weights_length" and (weights == "none" or nrows == 0): defect = "none"
        if defect in ("nonnumeric", "null") and nrows == 0: defect = "none"
        if f32:      # values that single precision holds exactly: float32 containers must give the float64 result
            import struct
            rows = [[(x if isinstance(x, str) else Fr(struct.unpack("f", struct.pack("f", float(x)))[0])) for x in r] for r in rows]
        chunks = sorted(rng.sample(range(1, max(2, nrows)), min(rng.randint(0, 6), max(0, nrows - 1)))) if nrows > 1 else []
        yield [["bucket", "container/%dd/%s/%s" % (nd, bk, defect)], ["kind", "container"], ["rows", rows], ["weights", weights], ["dropna", "T" if dropna else "F"],
               ["bins", bins], ["names", names], ["explicit", explicit], ["defect", defect], ["chunks", chunks], ["ints", "T" if ints else "F"], ["f32", "T" if f32 else "F"]]

def snap(h):
    import numpy as np
    def f(a): return [float(x) for x in np.asarray(a, dtype=float).ravel()]
    out = [[[[float(a), float(b)] for a, b in bb.bins.tolist()] for bb in h._binnings], f(h.frequencies), f(h.errors2), f(h._missed), str(h.dtype)]
    st = getattr(h, "_stats", None)
    if h.ndim == 1 and st is not None:
        out.append([float(st.sum), float(st.sum2), float(st.min), float(st.max), float(st.weight)])
    return out

def impl(case):
    import numpy as np, warnings, os, tempfile
    import physt
    from physt import h1, h2, h3, h
    d = sx.rec(case)
    with warnings.catch_warnings():
        warnings.simplefilter("ignore")
        if d["kind"] == "convert": return _convert(d)
        import pandas as pd, polars as pl
        nd = len(d["names"]); rows = d["rows"]; n = len(rows)
        arr = np.array([[sx.fl(x) for x in r] for r in rows], dtype=float).reshape(n, nd)
        w = None if d["weights"] == "none" else np.array([float(x) for x in d["weights"]])
        dropna = d["dropna"] == "T"; defect = d["defect"]
        bk = d["bins"]
        kw = {}
        if bk[0] == "edges": bins = [np.array([float(x) for x in e]) for e in bk[1]]; bins1 = bins[0]
        elif bk[0] == "int": bins = bk[1]; bins1 = bk[1]
        else: bins = "fixed_width"; bins1 = "fixed_width"; kw = dict(bin_width=float(bk[1]), adaptive=True)
        explicit = None if d["explicit"] == "none" else list(d["explicit"])
        names = list(d["names"])
        def call(f):
            try: g = f()
            except (ValueError, TypeError, KeyError, AttributeError, IndexError) as e: return "refused"
            nm = [None if x is None else str(x) for x in g.axis_names]
            return g
        has_nan = bool(np.isnan(arr).any())
        must_refuse = defect != "none" or (not dropna and has_nan)
        out = []
        # reference: the equivalent clean numpy arrays
        keep = ~np.isnan(arr).any(axis=1) if n else np.zeros(0, dtype=bool)
        clean = arr[keep]; cw = None if w is None else w[keep]
        if not must_refuse:
            if nd == 1:
                ref = h1(clean[:, 0], bins1, weights=cw, dropna=False, **kw)
            else:
                ref = h(clean, bins, weights=cw, dropna=False, **kw)
            out += [["ref_input", [[[float(x) for x in r] for r in clean], "none" if cw is None else [float(x) for x in cw]]], ["ref", snap(ref)],
                    ["ref_names", [("null" if x is None else str(x)) for x in ref.axis_names]]]
        res = []
        def add(kind, f, named):
            g = call(f)
            if g == "refused": res.append([kind, "refused"]); return
            s = snap(g)
            if kind == "dask" and len(s) == 6 and not must_refuse:
                # per-chunk float sums are added in another order: statistics are compared with a relative tolerance
                r6 = snap(ref)[5]
                if all(abs(a - b) <= 1e-12 * max(abs(a), abs(b), 1e-300) for a, b in zip(s[5], r6)): s[5] = r6
            res.append([kind, s, [("null" if x is None else str(x)) for x in g.axis_names], "T" if named is True else (named if isinstance(named, list) else "F")])
        akw = dict(kw, dropna=dropna)
        if explicit is not None and nd == 1: akw["axis_name"] = explicit[0]
        if explicit is not None and nd > 1: akw["axis_names"] = explicit
        col = arr[:, 0] if nd == 1 else None
        ww = w
        if defect == "weights_length": ww = np.concatenate([w, [1.0]])
        def pyv(x):
            x = float(x); return x if (d["ints"] == "F" or math.isnan(x)) else int(x)
        if nd == 1:
            py = [pyv(x) for x in col]
            if defect == "nonnumeric":
                py2 = ["a%d" % k for k in range(n)]
                add("list", lambda: h1(py2, bins1, weights=ww, **akw), False)
                add("pd_series", lambda: h1(pd.Series(py2, name=names[0]), bins1, weights=ww, **akw), True)
                add("pd_series_acc", lambda: pd.Series(py2, name=names[0]).physt.h1(bins1, weights=ww, **akw), True)
                add("pl_series", lambda: h1(pl.Series(names[0], py2), bins1, weights=ww, **akw), True)
            elif defect == "null":
                pyn = [None if k == 0 else (None if math.isnan(x) else x) for k, x in enumerate(py)]
                add("pl_series", lambda: h1(pl.Series(names[0], pyn, dtype=pl.Float64), bins1, weights=ww, **akw), True)
                add("pl_series_acc", lambda: pl.Series(names[0], pyn, dtype=pl.Float64).physt.h1(bins1, weights=ww, **akw), True)
            elif defect == "shape":
                add("pd_df_to_h1", lambda: h1(pd.DataFrame({names[0]: py, "other": py}), bins1, **akw), True)
                add("pl_df_to_h1", lambda: h1(pl.DataFrame({names[0]: py, "other": py}), bins1, **akw), True)
                add("ragged", lambda: h1([[1.0, 2.0], [3.0]], bins1, **akw), False)
            else:
                add("array", lambda: h1(col, bins1, weights=ww, **akw), False)
                add("list", lambda: h1(py, bins1, weights=(None if ww is None else list(ww)), **akw), False)
                add("tuple", lambda: h1(tuple(py), bins1, weights=ww, **akw), False)
                add("iter", lambda: h1((x for x in py), bins1, weights=ww, **akw), False)
                if d.get("f32") == "T":
                    c32 = col.astype(np.float32)
                    add("array_f32", lambda: h1(c32, bins1, weights=ww, **akw), False)
                    add("list_f32", lambda: h1(list(c32), bins1, weights=ww, **akw), False)
                    add("array2d_f32", lambda: h1(c32.reshape(-1, 1), bins1, weights=(None if ww is None else ww.reshape(-1, 1)), **akw), False)
                    add("pd_series_f32", lambda: h1(pd.Series(c32, name=names[0]), bins1, weights=ww, **akw), True)
                    add("pl_series_f32", lambda: h1(pl.Series(names[0], c32), bins1, weights=ww, **akw), True)
                add("array2d", lambda: h1(col.reshape(-1, 1), bins1, weights=(None if ww is None else ww.reshape(-1, 1)), **akw), False)
                if n >= 4 and n % 2 == 0 and (ww is None or len(ww) == n):
                    # multi-dimensional input that is not C-contiguous (Fortran order, a transposed view): values and weights pair up
                    # by their logical position, whatever the memory layout
                    mF = np.asfortranarray(col.reshape(2, n // 2)); wC = None if ww is None else ww.reshape(2, n // 2)
                    add("array2d_F", lambda: h1(mF, bins1, weights=wC, **akw), False)
                    if not has_nan: add("array2d_F_keepna", lambda: h1(mF, bins1, weights=wC, **dict(akw, dropna=False)), False)
                    mT = col.reshape(n // 2, 2).T; wT = None if ww is None else np.ascontiguousarray(ww.reshape(n // 2, 2).T)
                    if ww is None or all(float(x) in (0.5, 1.0, 2.0) for x in ww):      # another logical order: only where the float sums are exact in any order
                        add("array2d_T", lambda: h1(mT, bins1, weights=wT, **akw), False)
                add("pd_series", lambda: h1(pd.Series(col, name=names[0]), bins1, weights=ww, **akw), True)
                if d["ints"] == "T" and not has_nan and n:
                    for dt in ("int16", "int32", "int64", "uint8"):
                        if np.all(col == col.astype(dt)):
                            add("pd_series_" + dt, lambda dt=dt: h1(pd.Series(col.astype(dt), name=names[0]), bins1, weights=ww, **akw), True)
                            add("array_" + dt, lambda dt=dt: h1(col.astype(dt), bins1, weights=ww, **akw), False)
                            add("pl_series_" + dt, lambda dt=dt: h1(pl.Series(names[0], col.astype(dt)), bins1, weights=ww, **akw), True)
                def nullable(dtype):
                    vals = [pd.NA if math.isnan(x) else (int(x) if dtype == "Int64" else float(x)) for x in col]
                    return pd.Series(vals, dtype=dtype, name=names[0])
                add("pd_series_Float64", lambda: h1(nullable("Float64"), bins1, weights=ww, **akw), True)
                if d["ints"] == "T": add("pd_series_Int64", lambda: h1(nullable("Int64"), bins1, weights=ww, **akw), True)
                add("pd_series_replabels", lambda: h1(pd.Series(col, name=names[0], index=[k % max(1, (n + 1) // 2) for k in range(n)]), bins1, weights=ww, **akw), True)
                add("pd_series_wseries", lambda: h1(pd.Series(col, name=names[0]), bins1, weights=(None if ww is None else pd.Series(ww)), **akw), True)
                add("pd_series_acc", lambda: pd.Series(col, name=names[0]).physt.h1(bins1, weights=ww, **akw), True)
                add("pd_df_acc", lambda: pd.DataFrame({names[0]: col, "w": (np.ones(n) if ww is None else ww)}).physt.h1(names[0], bins1, weights=(None if ww is None else "w"), **akw), True)
                # an unrelated column with holes of its own must not cost any row
                add("pd_df_acc_extra", lambda: pd.DataFrame({names[0]: col, "w": (np.ones(n) if ww is None else ww), "unrelated": np.where(np.arange(n) % 2 == 0, np.nan, 1.0)}).physt.h1(names[0], bins1, weights=(None if ww is None else "w"), **akw), True)
                if not (d["ints"] == "T" and has_nan):
                    add("pl_series", lambda: h1(pl.Series(names[0], col), bins1, weights=ww, **akw), True)
                    add("pl_series_wseries", lambda: h1(pl.Series(names[0], col), bins1, weights=(None if ww is None else pl.Series("w", ww)), **akw), True)
                    add("pl_series_acc", lambda: pl.Series(names[0], col).physt.h1(bins1, weights=ww, **akw), True)
                    add("pl_df_acc", lambda: pl.DataFrame({names[0]: col}).physt.h(names[0], bins=bins1, weights=ww, **akw), True)
                if bk[0] == "fixed" and ww is None and n >= 1 and not has_nan:
                    import dask.array as da
                    from physt.compat import dask as pd_dask
                    cuts = [0] + list(d["chunks"]) + [n]
                    sizes = tuple(b - a for a, b in zip(cuts[:-1], cuts[1:]) if b > a)
                    dkw = {k: v for k, v in akw.items() if k != "dropna"}
                    add("dask", lambda: pd_dask.h1(da.from_array(col, chunks=(sizes,)), "fixed_width", **dkw), False)
        else:
            cols = [arr[:, k] for k in range(nd)]
            if defect == "nonnumeric":
                add("pd_df", lambda: h(pd.DataFrame({nm: (["s"] * n if k == 0 else c) for k, (nm, c) in enumerate(zip(names, cols))}), bins, weights=ww, **akw), True)
                add("pl_df", lambda: h(pl.DataFrame({nm: (["s"] * n if k == 0 else c) for k, (nm, c) in enumerate(zip(names, cols))}), bins, weights=ww, **akw), True)
                add("list_rows", lambda: h([["s"] + [float(x) for x in r[1:]] for r in arr], bins, weights=ww, **akw), False)
            elif defect == "null":
                add("pl_df", lambda: h(pl.DataFrame({nm: [None] + [float(x) for x in c[1:]] for nm, c in zip(names, cols)}, schema={nm: pl.Float64 for nm in names}), bins, weights=ww, **akw), True)
            elif defect == "shape":
                if nd == 2:
                    if n: add("h2_from_rows3", lambda: h2(arr[:, 0], arr, bins, **akw), False)
                    add("h2_from_3col_df", lambda: pd.DataFrame({"a": cols[0], "b": cols[1], "c": cols[0]}).physt.h2(bins=bins, **akw), True)
                add("series_to_h", lambda: h(pd.Series(cols[0]), bins, **akw), True)
                add("ragged", lambda: h([[1.0, 2.0], [3.0]], bins, **akw), False)
            else:
                add("array", lambda: h(arr, bins, weights=ww, **akw), False)
                if d.get("f32") == "T":
                    a32 = arr.astype(np.float32)
                    add("array_f32", lambda: h(a32, bins, weights=ww, **akw), False)
                    add("pd_df_f32", lambda: h(pd.DataFrame(dict(zip(names, [a32[:, k] for k in range(nd)]))), bins, weights=ww, **akw), True)
                    add("pl_df_f32", lambda: h(pl.DataFrame(dict(zip(names, [a32[:, k] for k in range(nd)]))), bins, weights=ww, **akw), True)
                if n: add("list_rows", lambda: h([[pyv(x) for x in r] for r in arr], bins, weights=ww, **akw), False)
                if nd == 2:
                    ccols = [clean[:, k] for k in range(nd)]
                    colref = h2(*ccols, bins, weights=cw, **kw)
                    add("columns", lambda: h2(*cols, bins, weights=ww, **akw), [("null" if x is None else str(x)) for x in colref.axis_names])
                add("pd_df", lambda: h(pd.DataFrame(dict(zip(names, cols))), bins, weights=ww, **akw), True)
                add("pd_df_acc", lambda: pd.DataFrame(dict(zip(names, cols))).physt.histogram(bins=bins, weights=ww, **akw), True)
                # a frame whose index repeats its labels (two pieces concatenated without ignore_index): rows are rows, whatever they are called
                add("pd_df_replabels", lambda: h(pd.DataFrame(dict(zip(names, cols)), index=[k % max(1, (n + 1) // 2) for k in range(n)]), bins, weights=ww, **akw), True)
                add("pl_df", lambda: h(pl.DataFrame(dict(zip(names, cols))), bins, weights=ww, **akw), True)
                add("pl_df_acc", lambda: pl.DataFrame(dict(zip(names, cols))).physt.h(bins=bins, weights=ww, **akw), True)
                if nd == 2:
                    add("pd_series_pair", lambda: h2(pd.Series(cols[0], name=names[0]), pd.Series(cols[1], name=names[1]), bins, weights=ww, **akw), True)
                if bk[0] == "fixed" and ww is None and n >= 1 and not has_nan:
                    import dask.array as da
                    from physt.compat import dask as pd_dask
                    cuts = [0] + list(d["chunks"]) + [n]
                    sizes = tuple(b - a for a, b in zip(cuts[:-1], cuts[1:]) if b > a)
                    dkw = {k: v for k, v in akw.items() if k != "dropna"}
                    add("dask", lambda: pd_dask.histogramdd(da.from_array(arr, chunks=(sizes, (nd,))), "fixed_width", **dkw), False)
        out.append(["results", res])
        return out

def _convert(d):
    import numpy as np, os, tempfile
    import pandas as pd
    from physt.histogram1d import Histogram1D
    from physt.binnings import StaticBinning
    from physt.compat import pandas as cp, xarray as cx, geant4
    ints = d["ints"] == "T"
    bins = np.array([[float(a), float(b)] for a, b in d["pairs"]])
    conv = int if ints else float
    h = Histogram1D(StaticBinning(bins), np.array([conv(x) for x in d["freq"]]), errors2=np.array([conv(x) for x in d["err2"]]),
                    underflow=conv(d["missed"][0]), overflow=conv(d["missed"][1]), inner_missed=conv(d["missed"][2]), name=(None if d["name"] == "none" else d["name"]))
    def f(a): return [float(x) for x in np.asarray(a, dtype=float).ravel()]
    full = lambda g: [f(g.bins), f(g.frequencies), f(g.errors2), f(g._missed), "null" if g.name is None else str(g.name)]
    afters = []
    def tryadd(k, fa, fb):
        try: afters.append([k, fa(), fb()])
        except Exception as e: afters.append([k, "error:" + type(e).__name__ + ":" + str(e)[:60], fb()])
    tryadd("xarray", lambda: full(Histogram1D.from_xarray(h.to_xarray())), lambda: full(h))
    def df():
        t = h.to_dataframe(); b = cp.index_to_binning(t.index)
        return [f(b.bins), f(t["frequency"].values), f(t["error"].values), "null" if t.index.name is None else str(t.index.name)]
    tryadd("dataframe", df, lambda: [f(h.bins), f(h.frequencies), f(h.errors), "null" if h.name is None else str(h.name)])
    def ser():
        t = h.to_series(); b = cp.index_to_binning(t.index)
        return [f(b.bins), f(t.values)]
    tryadd("series", ser, lambda: [f(h.bins), f(h.frequencies)])
    tryadd("interval_index", lambda: f(cp.index_to_binning(cp.binning_to_index(h.binning)).bins), lambda: f(h.bins))
    # Geant4 CSV: a fixed-width histogram written in the tools' format
    nb, lo, width = d["g4"]; lo = float(lo); hi = lo + float(width) * nb
    rs = np.random.RandomState(nb)
    ent = rs.randint(0, 9, nb + 2); sw = ent * 1.0; sw2 = ent * 1.5
    fd, path = tempfile.mkstemp(suffix=".csv", dir="/dev/shm" if os.path.isdir("/dev/shm") else None); os.close(fd)
    try:
        with open(path, "w") as fh:
            fh.write("#class tools::histo::h1d\n#title my g4 histogram\n#dimension 1\n#axis fixed %d %r %r\n#planes_Sxyw 0\n#annotation axis_x.title \n#bin_number %d\n" % (nb, lo, hi, nb + 2))
            fh.write("entries,Sw,Sw2,Sxw0,Sx2w0\n")
            for k in range(nb + 2): fh.write("%d,%r,%r,%r,%r\n" % (ent[k], float(sw[k]), float(sw2[k]), 0.5 * k, 0.25 * k))
        def g4():
            g = geant4.load_csv(path)
            e = np.asarray(g.numpy_bins, dtype=float); want = np.linspace(lo, hi, nb + 1)
            grid = bool(len(e) == nb + 1 and np.all(np.abs(e - want) <= 1e-12 * max(abs(lo), abs(hi), hi - lo)))
            return [int(g.bin_count), "T" if grid else "F", f(g.frequencies), f(g.errors2), float(g.underflow), float(g.overflow), str(g.name)]
        tryadd("geant4", g4, lambda: [int(nb), "T", f(sw[1:-1]), f(sw2[1:-1]), float(sw[0]), float(sw[-1]), "my g4 histogram"])
    finally:
        os.unlink(path)
    return [["afters", afters]]

def corr_view(case, obs): return "-"
def corr_equal(case, a, b): return True

def nontrivial(case, obs):
    d = sx.rec(case)
    if d["kind"] != "container": return True
    return (any("nan" in r for r in d["rows"]) and d["weights"] != "none") or len(d["names"]) >= 2
