"""C04 Adaptive fixed-width histograms never lose a value when bins grow."""
from fractions import Fraction as Fr
import math
from harness import sx, common as C

N_QUICK, N_THOROUGH = 1500, 40000
RULE = ("adaptive fixed-width histograms in 1-3 dimensions, started empty (aligned or not, with or without shift) or pre-filled; "
        "histories of 1..12 fill / fill_n calls; exact family: dyadic widths/shifts/values (model compared exactly: edges, "
        "contents, span); float family: widths 0.1 0.2 0.3 0.7 1e-3 2.5 1e6/3 with decimal literals (1.7 ...), exact multiples "
        "of the width and nextafter neighbours of edges (arithmetic-independent invariants only: every value lies in the bin "
        "reported for it on the observed edges, total = weight entered, nothing missed); far-away values bounded to <= 300 new "
        "bins; NaN rows, weights; 35%: the values entered are also binned by the non-adaptive fixed_width / pretty / integer factories (every value inside the edges, nothing missed). non-trivial = >=1 growth to the left and >=1 to the right, or a value exactly on an edge")
MODELLED = ("FixedWidthBinning._force_bin_existence(_single) in exact arithmetic, numpy_bins/first_edge/last_edge, "
            "_reshape_data/_apply_bin_map with an integer shift and the adaptive branches of fill/fill_n are modelled in "
            "coq/Model/Adaptive.v; binary64 rounding of floor/ceil/edge arithmetic is modelled separately in coq/Model/FWFloat.v")
FLOAT_W = [0.1, 0.2, 0.3, 0.7, 1e-3, 2.5, 1e6 / 3]

def gen(rng, n, tier):
    import numpy as np
    for i in range(n):
        nd = rng.choice([1, 1, 1, 2, 3])
        exact = rng.random() < 0.6
        axes = []
        for k in range(nd):
            if exact: w = Fr(rng.choice([1, 2, 4, 1, 3, 5]), rng.choice([1, 2, 4, 8]) if nd < 3 else 1)
            else: w = Fr(rng.choice(FLOAT_W if nd == 1 else [0.1, 0.2, 0.3, 0.7, 2.5] if nd == 2 else [0.3, 0.7, 2.5]))
            empty = rng.random() < 0.5
            shift = Fr(0)
            if rng.random() < 0.3: shift = Fr(rng.randint(1, 7), 8) if exact else Fr(rng.choice([0.05, 0.5, 0.25]))
            align = "T" if (not empty or rng.random() < 0.7) else "F"
            if align == "F": shift = Fr(0)
            axes.append([w, shift, rng.randint(-3, 3), 0 if empty else rng.randint(1, 3), align])
        if any(a[3] == 0 for a in axes): axes = [[a[0], a[1], a[2], 0, a[4]] for a in axes]      # an empty axis empties the array anyway
        size = 1
        for a in axes: size *= a[3]
        freq = [rng.choice([0, 1, 2, 5]) for _ in range(size)]
        init = [["axes", axes], ["freq", freq], ["err2", list(freq)], ["missed", [0] * (3 if nd == 1 else 1)],
                ["keep_missed", "F" if rng.random() < 0.15 else "T"]]      # tracking of missed values off: adaptive bins must grow all the same
        def val(k):
            w, sh = axes[k][0], axes[k][1]
            r = rng.random()
            reach = 12 if nd == 1 else (5 if nd == 2 else 2)      # the model is O(size^2): keep N-d arrays small
            j = rng.randint(-reach, reach)
            if r < 0.35: v = sh + j * w if exact else Fr(float(j) * float(w) + float(sh))      # a multiple of the width
            elif r < 0.5 and not exact and float(w) in (0.1, 0.2, 0.3, 0.7) and nd == 1: v = Fr(rng.choice([1.7, 0.3, 2.9, -0.7, 0.15, 1.1, 0.35]))
            elif r < 0.6 and not exact: v = Fr(float(np.nextafter(float(sh + j * w), rng.choice([-math.inf, math.inf]))))
            elif r < 0.67 and nd == 1: v = sh + w * rng.choice([-1, 1]) * rng.randint(30, 60)
            else:
                frac = Fr(rng.randint(-8 * reach, 8 * reach), 8)
                v = sh + frac * w if exact else Fr(float(frac) * float(w) * rng.choice([1.0, 0.999999, 1.000001]))
            return Fr(float(v))
        ops = []
        for _ in range(rng.choice([1, 2, 3, 5, 8, 12])):
            if rng.random() < 0.5:
                ops.append(["fill", [val(k) for k in range(nd)], rng.choice([1, 1, Fr(rng.randint(1, 12), 4)])])
            else:
                m = rng.choice([0, 1, 2, 3, 6])
                rows = [[("nan" if rng.random() < 0.03 else val(k)) for k in range(nd)] for _ in range(m)]
                ws = "none" if rng.random() < 0.6 else [Fr(rng.randint(0, 12), 4) for _ in range(m)]
                ops.append(["fill_n", rows, ws, "T"])
        yield [["bucket", "%dd/%s/%s" % (nd, "exact" if exact else "float", "empty" if size == 0 else "pre")],
               ["init", init], ["ops", ops], ["exact", "T" if exact else "F"], ["peek", "T" if rng.random() < 0.3 else "F"],
               ["derived", "T" if rng.random() < 0.35 else "F"]]

def _mk(init):
    import numpy as np
    from physt.binnings import FixedWidthBinning
    from physt.histogram1d import Histogram1D
    from physt.histogram_nd import HistogramND, Histogram2D
    d = sx.rec(init)
    bs = []
    for w, sh, t, n, al in d["axes"]:
        kw = dict(bin_width=float(w), bin_count=n, adaptive=True, align=(al == "T"))
        if n > 0: kw.update(bin_times_min=int(t), bin_shift=float(sh))
        elif sh != 0: kw.update(bin_shift=float(sh))
        bs.append(FixedWidthBinning(**kw))
    shape = [a[3] for a in d["axes"]]
    freq = np.array([float(x) for x in d["freq"]], dtype=float).reshape(shape)
    keep = d.get("keep_missed", "T") == "T"
    if len(bs) == 1: return Histogram1D(bs[0], freq, errors2=freq.copy(), keep_missed=keep)
    cls = Histogram2D if len(bs) == 2 else HistogramND
    return cls(bs, freq, errors2=freq.copy(), keep_missed=keep)

def _obs(ret, h):
    import numpy as np
    edges = [[float(x) for x in b.numpy_bins] if b.bin_count > 0 else [] for b in h._binnings]
    if h.ndim == 1: m = [float(h.underflow), float(h.overflow), float(h.inner_missed)]
    else: m = [float(h.missed)]
    return [ret, edges, np.asarray(h.frequencies).ravel().tolist(), np.asarray(h.errors2).ravel().tolist(), m]

def impl(case):
    import numpy as np, physt, warnings
    d = sx.rec(case)
    h = _mk(d["init"]); nd = h.ndim
    init_edges = [[float(x) for x in b.numpy_bins] if b.bin_count > 0 else [] for b in h._binnings]
    peek = d.get("peek", "F") == "T"
    empty0 = all(x == 0 for x in sx.rec(d["init"])["freq"])
    steps = []; allv = []; allw = []; anyrefused = False
    with warnings.catch_warnings():
        warnings.simplefilter("ignore")
        for op in d["ops"]:
            if peek:      # looking at the histogram between calls must not matter (cached arrays)
                _ = (h.bins, h.bin_sizes, h.densities, [b.numpy_bins for b in h._binnings]); _ = h.bin_left_edges if nd == 1 else h.get_bin_left_edges(0)
            try:
                if op[0] == "fill":
                    v = [sx.fl(x) for x in op[1]]; w = op[2]; w = float(w) if isinstance(w, Fr) and w.denominator != 1 else int(w)
                    r = h.fill(v[0] if nd == 1 else v, w) if w != 1 else h.fill(v[0] if nd == 1 else v)
                    ret = "none" if r is None else ([int(x) for x in r] if isinstance(r, tuple) else [int(r)])
                    allv.append(v); allw.append(w)
                else:
                    rows = np.array([[sx.fl(x) for x in r] for r in op[1]], dtype=float).reshape(-1, nd)
                    ws = None if op[2] == "none" else np.array([float(x) for x in op[2]])
                    h.fill_n(rows[:, 0] if nd == 1 else rows, weights=ws) if ws is not None else h.fill_n(rows[:, 0] if nd == 1 else rows)
                    ret = "void"
                    for k, row in enumerate(rows.tolist()):
                        if not any(math.isnan(x) for x in row): allv.append(row); allw.append(1 if ws is None else ws[k].item())
            except Exception as e:
                ret = "refused"; anyrefused = True
            steps.append(_obs(ret, h))
    batch = "skip"
    if empty0 and allv and not anyrefused and all(b.bin_count > 0 for b in h._binnings):
        arr = np.array(allv, dtype=float).reshape(-1, nd); wa = np.array(allw, dtype=float)
        bs = [b.copy() for b in h._binnings]
        for b in bs: b._adaptive = False
        g = physt.h1(arr[:, 0], bs[0], weights=wa) if nd == 1 else physt.h(arr, bs, weights=wa)
        same = (np.asarray(g.frequencies).tolist() == np.asarray(h.frequencies).tolist() and
                np.asarray(g.errors2).tolist() == np.asarray(h.errors2).tolist())
        batch = "T" if same else "F"
    # the same coverage for NON-adaptive binnings derived from the data entered (fixed_width / pretty / integer)
    derived = "skip"
    if d.get("derived", "F") == "T" and len(allv) >= 2 and not anyrefused:
        arr = np.array(allv, dtype=float).reshape(-1, nd)
        # (a column spanning only a few representable numbers cannot carry a float grid at all: left out)
        if all(arr[:, k].max() - arr[:, k].min() > 1e-6 * max(1.0, abs(arr[:, k]).max()) for k in range(nd)):
            derived = []
            w0 = float(sx.rec(d["init"])["axes"][0][0])
            for meth, kw in (("fixed_width", dict(bin_width=w0)), ("pretty", {}), ("integer", {})):
                if meth == "integer" and (arr.max() - arr.min() > 500): continue
                with warnings.catch_warnings():
                    warnings.simplefilter("ignore")
                    g = physt.h1(arr[:, 0], meth, **kw) if nd == 1 else physt.h(arr, meth, **kw)
                edges = [[float(x) for x in b.numpy_bins] for b in g._binnings]
                incl = ["T"] if nd == 1 else [("T" if b.includes_right_edge else "F") for b in g._binnings]
                mis = float(g.underflow + g.overflow) if nd == 1 else float(g.missed)
                derived.append([edges, incl, float(g.total), mis])
    return [steps, batch, init_edges, derived]

def corr_view(case, obs): return obs[0]
def corr_equal(case, a, b):
    if sx.rec(case)["exact"] == "F": return True       # the exact-arithmetic model is not the oracle for the float family
    return sx.norm(a) == sx.norm(b)

def nontrivial(case, obs):
    edges = [s[1] for s in obs[0] if isinstance(s, list) and len(s) == 5]
    if len(edges) < 2: return False
    lo = [e[0][0] for e in edges if e and e[0]]; hi = [e[0][-1] for e in edges if e and e[0]]
    return len(lo) >= 2 and (min(lo) < lo[0] or max(hi) > hi[0])

def classify(case, obs, model, verdict, corr, detail=None):
    return None

def shrink(case):
    d = sx.rec(case); ops = d["ops"]
    for i in range(len(ops)):
        d2 = dict(d); d2["ops"] = ops[:i] + ops[i + 1:]
        yield [[k, v] for k, v in d2.items()]


def extra_check(tier, seed):
    """validation of the translator's reading of Python float arithmetic: the code translated from the current source, evaluated
    by Coq's kernel on primitive binary64 floats, reproduces physt's grid bookkeeping bit for bit on random histories"""
    from harness import floatrun
    shards = 1 if tier == "quick" else 6
    total = 0; failing = []; log = ""
    for k in range(shards):
        r = floatrun.float_tie(seed + 1000 * k, 150 if tier == "quick" else 500)
        total += r["cases"]; failing += r["failing"]; log += r["log"]
        if not r["ok"] and not r["failing"]: failing.append(dict(index=-1, note="the comparison file did not compile or gave unexpected output", log=r["log"]))
    return dict(name="binary64-tie", ok=not failing, cases=total, failing=failing[:5],
                what=("corr: FixedWidthBinning._force_bin_existence(_single) as translated from the current source (coq/Gen/PyFW.v) and evaluated in "
                      "binary64 by vm_compute (coq/Tie/FloatRun.v) differs from physt's own _times_min / _bin_count / _shift / returned value"))
