"""C01 1D construction: each value counted once, in the bin that contains it."""
from fractions import Fraction as Fr
import math
from harness import sx, common as C

N_QUICK, N_THOROUGH = 2500, 100000
RULE = ("data: 0..40 values drawn from the bin edges, their nextafter neighbours, mid-points, gap interiors, far outliers "
        "(+-1e300), duplicates, 10% NaN, shapes (n,), (a,b), (a,b,c); weights none/int/dyadic; bins regular/irregular/gapped/"
        "near-gapped/gapped at scale 1e-6/single (7%: weights 2^60 beside 1, one region heavy) given as edge array, pair array, list, binning object (Static/Numpy/FixedWidth), int or method name "
        "(bins read back); dtype x keep_missed x dropna; malformed stream (unsorted/overlapping bins, wrong weight shape, int "
        "dtype + float weights, NaN without dropna). non-trivial = accepted, >=1 value inside a bin and >=1 value exactly on an "
        "edge, in a gap or outside")
MODELLED = ("extract_1d_array/extract_weights masks, calculate_1d_frequencies (sort + searchsorted sweep), Histogram1D.__init__ "
            "missed storage are modelled in coq/Model/Calc1D.v; numpy argsort/searchsorted/sum are modelled by their documented "
            "meaning and compared on every run; the binning factories used for int/method bins are C07's subject (bins are read back)")

def _neighbours(x):
    import numpy as np
    f = float(x)
    return [Fr(float(np.nextafter(f, -math.inf))), Fr(float(np.nextafter(f, math.inf)))]

def gen(rng, n, tier):
    import numpy as np
    for i in range(n):
        nb = rng.choice([1, 1, 2, 3, 4, 5, 6, 8])
        style = rng.choice(["regular", "irregular", "irregular", "gapped", "gapped", "neargap", "tinygapped", "fargapped"])
        bins = C.gen_bins(rng, nb, gapped=(style in ("gapped", "tinygapped", "fargapped")), regular=(style == "regular"))
        if style == "fargapped":       # unit gaps at an offset of 1e6..1e9: far below a tolerance relative to the edge values
            off = Fr(10) ** rng.choice([6, 7, 9])
            bins = [[a + off, b + off] for a, b in bins]
        if style == "tinygapped":      # edges around 1e-6: gaps of 1e-7 are far above the tolerance of 1e-8 there
            s = Fr(1, 2 ** rng.choice([20, 22, 24]))
            bins = [[a * s, b * s] for a, b in bins]
        if style == "neargap" and nb > 1:
            k = rng.randrange(1, nb)
            for j in range(k, nb):
                bins[j] = [bins[j][0] + Fr(1, 2 ** 40), bins[j][1] + Fr(1, 2 ** 40)]
        fixed_args = "none"
        if rng.random() < 0.08:
            # a fixed-width binning with a decimal width (0.1, 0.3, 0.7 ...): the case records the edges physt computes, the values are
            # those edges, their neighbours and decimal literals - an index computed as int((v - first) / width) goes wrong here
            from physt.binnings import FixedWidthBinning
            w_ = rng.choice([0.1, 0.3, 0.7, 0.05, 0.6, 0.2]); nb = rng.randint(3, 12); st_ = round(rng.randint(-20, 20) * w_, 10)
            fb_ = FixedWidthBinning(bin_width=w_, bin_count=nb, min=st_)
            bins = [[Fr(float(a)), Fr(float(b))] for a, b in fb_.bins]
            fixed_args = [Fr(w_), nb, Fr(st_)]; style = "decimalfixed"
        consecutive = all(bins[j][1] == bins[j + 1][0] for j in range(nb - 1))
        regular = consecutive and len({b[1] - b[0] for b in bins}) == 1
        # how the bins are handed over
        forms = ["pairs", "binning-static"]
        if consecutive: forms += ["edges", "edges", "list", "binning-numpy"]
        if regular: forms += ["binning-fixed"]
        form = rng.choice(forms)
        if fixed_args != "none": form = "binning-fixedw"
        malformed = "none"
        r = rng.random()
        if fixed_args != "none": r = 1.0
        if r < 0.04 and nb > 1:
            malformed = "unsorted"; j = rng.randrange(nb - 1); bins[j], bins[j + 1] = bins[j + 1], bins[j]; form = "pairs"
        elif r < 0.07 and nb > 1:
            malformed = "overlap"; j = rng.randrange(nb - 1); bins[j][1] = bins[j + 1][0] + Fr(1, 16); form = "pairs"
        elif r < 0.09:
            malformed = "emptywidth"; j = rng.randrange(nb); bins[j][1] = bins[j][0]; form = "pairs"
        # values
        pool = []
        for b in bins:
            pool += [b[0], b[1], (b[0] + b[1]) / 2] + _neighbours(b[0]) + _neighbours(b[1])
        for j in range(nb - 1):
            if bins[j][1] < bins[j + 1][0]: pool.append((bins[j][1] + bins[j + 1][0]) / 2)
        lo, hi = min(b[0] for b in bins), max(b[1] for b in bins)
        pool += [lo - 1, hi + 1, lo - Fr(1, 8), hi + Fr(1, 8), Fr(10) ** 300, -Fr(10) ** 300, Fr(0)]
        m = rng.choice([0, 1, 2, 3, 5, 8, 12, 20, 40])
        nanp = rng.choice([0, 0, 0.1, 0.3])
        data = []
        for _ in range(m):
            if rng.random() < nanp: data.append("nan")
            elif rng.random() < 0.75: data.append(rng.choice(pool))
            else: data.append(C.dy(rng, int(lo) - 3, int(hi) + 3))
        if m and rng.random() < 0.3: data += [rng.choice(data) for _ in range(rng.randint(1, 3))]
        m = len(data)
        shape = [m]
        if m >= 4 and rng.random() < 0.3:
            for a in (2, 3, 4):
                if m % a == 0:
                    shape = [a, m // a]
                    if (m // a) % 2 == 0 and rng.random() < 0.4: shape = [a, 2, m // a // 2]
                    break
        spread = "F"
        wkind = rng.choice(["none", "none", "int", "float"])
        if wkind == "int": weights = [rng.randint(0, 5) for _ in range(m)]
        elif wkind == "float": weights = [Fr(rng.randint(0, 40), 8) for _ in range(m)]
        else: weights = []
        if malformed == "none" and m >= 2 and rng.random() < 0.07:
            # weights of widely different magnitude (2^60 beside 1): every bin's own sum stays exactly representable because
            # one region (a bin's interior, the underflow or the overflow region) holds only multiples of 2^60 and the others
            # only small weights; sums ACROSS regions (prefix sums, totals) are not representable
            regions = ["under", "over"] + list(range(nb))
            big = rng.choice(regions)
            rv = {"under": lo - 1, "over": hi + 1}
            for j in range(nb): rv[j] = (bins[j][0] + bins[j][1]) / 2
            picks = [big] + [rng.choice(regions) for _ in range(m - 1)]
            rng.shuffle(picks)
            data = [rv[r_] for r_ in picks]
            wkind = "float"
            weights = [(Fr(2 ** 60) * rng.randint(1, 4) if r_ == big else Fr(rng.randint(1, 5))) for r_ in picks]
            shape = [m]; spread = "T"
        wshape_ok = "T"
        if wkind != "none" and m > 1 and rng.random() < 0.04:
            weights = weights[:-1]; wshape_ok = "F"; malformed = "wshape"
        dtype = rng.choice(["none", "none", "none", "int32", "int64", "float32", "float64"])
        dropna = "T" if rng.random() < 0.85 else "F"
        keep = "T" if rng.random() < 0.8 else "F"
        incl = "T" if rng.random() < 0.5 else "F"
        layout = "F" if len(shape) > 1 and rng.random() < 0.4 else "C"      # memory order of the data array only
        named = "T" if rng.random() < 0.15 else "F"                         # the (name, data) form of a pandas groupby item
        yield [["bucket", "%s/%s/%s/w%s" % (style, form.split("-")[0], malformed, wkind)], ["data", data], ["shape", shape], ["incl", incl],
               ["layout", layout], ["named", named], ["spread", spread], ["sliced", "T" if (malformed == "none" and rng.random() < 0.5) else "F"], ["fixed_args", fixed_args],
               ["wkind", wkind], ["weights", weights], ["wshape_ok", wshape_ok], ["bins", bins], ["form", form],
               ["dtype", dtype], ["keep_missed", keep], ["dropna", dropna]]

def impl(case):
    import numpy as np, physt
    d = sx.rec(case)
    data = np.array([sx.fl(x) for x in d["data"]], dtype=float).reshape(d["shape"])
    if d.get("layout") == "F": data = np.asfortranarray(data) if data.ndim == 2 else np.ascontiguousarray(data.transpose(2, 1, 0)).transpose(2, 1, 0)
    if d.get("container") == "list": data = data.tolist()
    if d.get("named") == "T": data = ("nm", data)
    kw = {}
    if d["wkind"] != "none":
        w = np.array([float(x) for x in d["weights"]], dtype=(np.int64 if d["wkind"] == "int" else np.float64))
        if d["wshape_ok"] == "T": w = w.reshape(d["shape"])
        kw["weights"] = w
    if d["dtype"] != "none": kw["dtype"] = np.dtype(d["dtype"])
    kw["keep_missed"] = d["keep_missed"] == "T"
    kw["dropna"] = d["dropna"] == "T"
    pairs = [[float(a), float(b)] for a, b in d["bins"]]
    form = d["form"]
    try:
        if form == "pairs": bins = np.array(pairs)
        elif form == "edges": bins = np.array([pairs[0][0]] + [p[1] for p in pairs])
        elif form == "list": bins = [pairs[0][0]] + [p[1] for p in pairs]
        elif form == "binning-fixedw":
            from physt.binnings import FixedWidthBinning
            fa = d["fixed_args"]; bins = FixedWidthBinning(bin_width=float(fa[0]), bin_count=int(fa[1]), min=float(fa[2]))
        else: bins = C.mk_binning(d["bins"], form.split("-")[1], d["incl"] == "T")
        if form == "binning-static" and d.get("sliced", "F") == "T":
            # the same bins obtained as a selection from a larger binning whose representations were looked at (and cached) before
            from physt.binnings import StaticBinning
            pr = sorted(pairs)
            consecutive = all(pr[k][1] == pr[k + 1][0] for k in range(len(pr) - 1))
            if consecutive:
                parent = StaticBinning(np.array(pr + [[pr[-1][1] + 1.0, pr[-1][1] + 2.0]]), includes_right_edge=d["incl"] == "T")
                _ = (parent.is_consecutive(), parent.bins, parent.first_edge, parent.last_edge)
                bins = parent[0:len(pr)]
            else:
                full = []
                for k, b_ in enumerate(pr):
                    full.append(b_)
                    if k + 1 < len(pr) and b_[1] < pr[k + 1][0]: full.append([b_[1], pr[k + 1][0]])
                parent = StaticBinning(np.array(full), includes_right_edge=d["incl"] == "T")
                _ = (parent.is_consecutive(), parent.numpy_bins, parent.bins)
                bins = parent[np.array([b_ in pr for b_ in full])]
        h = physt.h1(data, bins, **kw)
    except Exception as e:
        return ["refused"]
    if d.get("named") == "T" and h.name != "nm": return ["ok-but-name-lost"]
    total = h.total
    if d.get("spread") == "T":      # the total of 2^60 beside 1 is not a float: read it as the exact sum of the contents shown
        total = sum((Fr(float(x)) for x in h.frequencies.tolist()), Fr(0))
    return ["ok", h.frequencies.tolist(), h.errors2.tolist(), float(h.underflow), float(h.overflow), total,
            C.snap_bins(h)[0], str(h.dtype)]

def nontrivial(case, obs):
    if not obs or obs[0] != "ok": return False
    d = sx.rec(case)
    vals = [v for v in d["data"] if v != "nan"]
    bins = d["bins"]
    inside = any(any(b[0] < v < b[1] for b in bins) for v in vals)
    special = any(any(v == b[0] or v == b[1] for b in bins) or not any(b[0] <= v <= b[1] for b in bins) for v in vals)
    return inside and special

def classify(case, obs, model, verdict, corr):
    d = sx.rec(case)
    bins = d["bins"]
    gapped = any(bins[j][1] != bins[j + 1][0] for j in range(len(bins) - 1))
    if obs == ["refused"] and model == ["refused"] and verdict == "bad":
        intdt = d["dtype"] in ("int32", "int64") or (d["dtype"] == "none" and d["wkind"] in ("none", "int"))
        if gapped and intdt and d["keep_missed"] == "T": return "F10"
    return None

def shrink(case):
    d = sx.rec(case)
    n = len(d["data"])
    if d["shape"] != [n]: return
    for i in range(n):
        d2 = dict(d); d2["data"] = d["data"][:i] + d["data"][i + 1:]; d2["shape"] = [n - 1]
        if d["wkind"] != "none" and d["wshape_ok"] == "T": d2["weights"] = d["weights"][:i] + d["weights"][i + 1:]
        elif d["wkind"] != "none": continue
        yield [[k, v] for k, v in d2.items()]
