"""C14 Statistics are those of the raw data entered, not of the bins."""
from fractions import Fraction as Fr
from harness import sx, common as C

N_QUICK, N_THOROUGH = 1500, 50000
RULE = ("programs of 1..12 operations over 1-D histogram variables on shared consecutive bins (75%) or adaptive fixed-width bins that additions have to adapt (25%): h1(data, weights), empty and "
        "bare-frequency construction, fill, fill_n (any chunking incl. empty batches), +, +=, a refused += (incompatible operand), copy, *= c, /= c, -, array += under "
        "free arithmetics; data strictly inside the bins, dyadic values and weights (sums of products exact). After every "
        "operation the six statistics fields, mean(), variance(), std()**2 of the affected histogram are read. non-trivial = "
        ">=3 operations of >=2 different kinds touching >=1 non-empty data set")
MODELLED = ("Statistics (dataclass, __add__, __mul__, mean/variance/std), the statistics block of calculate_1d_frequencies, "
            "Histogram1D.fill/fill_n/copy updates and the invalidation points of __iadd__/__isub__/__imul__/__itruediv__ are "
            "modelled in coq/Model/StatsCases.v; np.median and python min/max by their documented meaning")

EDGES = [Fr(x) for x in (-16, -12, -10, -4, 0, 1, 3, 8, 16)]

def gen_data(rng, weighted, maxn=8):
    n = rng.choice([0, 1, 2, 3, 5, maxn])
    out = []
    for _ in range(n):
        j = rng.randrange(len(EDGES) - 1)
        lo, hi = EDGES[j], EDGES[j + 1]
        v = lo + (hi - lo) * Fr(rng.randint(1, 7), 8)
        w = Fr(rng.randint(0, 16) if rng.random() < 0.8 else 0, 4) if weighted else Fr(1)
        out.append([v, w])
    if weighted and out and rng.random() < 0.2:
        w0 = out[0][1]; out = [[v, w0] for v, w in out]        # equal (non-unit) weights: median is defined
    return out

def gen(rng, n, tier):
    for i in range(n):
        adaptive = rng.random() < 0.25      # every variable is an adaptive fixed-width histogram: additions have to adapt the bins
        ops = []; nv = 0
        for _ in range(rng.choice([1, 2, 3, 4, 6, 8, 12])):
            r = rng.random()
            if nv == 0 or r < 0.2:
                k = rng.random()
                if k < 0.75:
                    wt = rng.random() < 0.5; ops.append(["new", gen_data(rng, wt), "T" if wt else "F"])
                elif k < 0.9: ops.append(["empty"])
                else: ops.append(["bare"])
                nv += 1
            elif r < 0.35:
                j = rng.randrange(len(EDGES) - 1); lo, hi = EDGES[j], EDGES[j + 1]
                ops.append(["fill", rng.randrange(nv), lo + (hi - lo) * Fr(rng.randint(1, 7), 8), rng.choice([Fr(1), Fr(rng.randint(1, 12), 4)])])
            elif r < 0.5:
                wt = rng.random() < 0.5; ops.append(["fill_n", rng.randrange(nv), gen_data(rng, wt, 5), "T" if wt else "F"])
            elif r < 0.62: ops.append(["add", rng.randrange(nv), rng.randrange(nv)]); nv += 1
            elif r < 0.67: ops.append(["iadd", rng.randrange(nv), rng.randrange(nv)])
            elif r < 0.7: ops.append(["badiadd", rng.randrange(nv)])
            elif r < 0.78: ops.append(["copy", rng.randrange(nv)]); nv += 1
            elif r < 0.86: ops.append(["mul", rng.randrange(nv), Fr(rng.choice([2, 3, 4, 1, 5]), rng.choice([1, 2, 4]))])
            elif r < 0.92: ops.append(["div", rng.randrange(nv), Fr(rng.choice([2, 4, 8, 1]), rng.choice([1, 2]))])
            elif adaptive: ops.append(["copy", rng.randrange(nv)]); nv += 1
            elif r < 0.96: ops.append(["sub", rng.randrange(nv), rng.randrange(nv)]); nv += 1
            else: ops.append(["arr", rng.randrange(nv)])
        if adaptive: ops = [(["empty"] if o[0] == "bare" else o) for o in ops]
        # normalisation in place = division by the total weight, which is known here because every value lies inside the bins
        W = []; ops2 = []
        for o in ops:
            k = o[0]
            if k == "new": W.append(sum((w for v, w in o[1]), Fr(0)))
            elif k == "empty": W.append(Fr(0))
            elif k in ("bare", "sub"): W.append(None)
            elif k == "fill" and W[o[1]] is not None: W[o[1]] += o[3]
            elif k == "fill_n" and W[o[1]] is not None: W[o[1]] += sum((w for v, w in o[2]), Fr(0))
            elif k == "add": W.append(None if W[o[1]] is None or W[o[2]] is None else W[o[1]] + W[o[2]])
            elif k == "iadd": W[o[1]] = None if W[o[1]] is None or W[o[2]] is None else W[o[1]] + W[o[2]]
            elif k == "copy": W.append(W[o[1]])
            elif k == "mul" and W[o[1]] is not None: W[o[1]] *= o[2]
            elif k == "div" and W[o[1]] is not None: W[o[1]] /= o[2]
            elif k == "arr": W[o[1]] = None
            ops2.append(o)
            live = [x for x, w_ in enumerate(W) if w_ is not None and w_ > 0]
            if live and rng.random() < 0.08:
                x = rng.choice(live); ops2.append(["normalize", x, W[x]]); W[x] = Fr(1)
        ops = ops2
        if nv and rng.random() < 0.12 and not adaptive:      # subtraction under free arithmetics may leave negative contents: last operation only
            ops.append(["subf", rng.randrange(nv), rng.randrange(nv)])
        # impl-side spelling of an operation (the model sees the plain one): an empty histogram obtained as
        # other.copy(include_frequencies=False), an integral value entered as numpy.int8, an array division done by
        # HistogramCollection.normalize_bins
        calls = []; seen = 0
        for o in ops:
            c = o[0]
            if c == "empty" and seen > 0 and rng.random() < 0.6: c = "emptycopy:%d" % rng.randrange(seen)
            elif c == "fill" and o[2].denominator == 1 and rng.random() < 0.7: c = "fill:int8"
            elif c == "arr" and rng.random() < 0.5: c = "arr:normalize_bins"
            if o[0] in ("new", "empty", "bare", "add", "copy", "sub", "subf"): seen += 1
            calls.append(c)
        scale = Fr(1)
        if not adaptive and rng.random() < 0.12:
            # the same programme at the scale of 2^-30 (about a nanometre): every moment scales exactly; variances are far below 1e-16
            scale = Fr(1, 2 ** 30)
            def sc(o):
                if o[0] == "new": return ["new", [[v * scale, w] for v, w in o[1]], o[2]]
                if o[0] == "fill": return ["fill", o[1], o[2] * scale, o[3]]
                if o[0] == "fill_n": return ["fill_n", o[1], [[v * scale, w] for v, w in o[2]], o[3]]
                return o
            ops = [sc(o) for o in ops]
            calls = [c.replace("fill:int8", "fill") for c in calls]
        yield [["bucket", "len%d/%s%s%s" % (len(ops), "adaptive/" if adaptive else "", "tiny/" if scale != 1 else "", "+".join(sorted(set(o[0] for o in ops))))], ["ops", ops],
               ["eps", Fr(1, 10 ** 12) if any(o[0] == "normalize" for o in ops) else Fr(0)],      # a division by a total is not exact in binary64
               ["adaptive", "T" if adaptive else "F"], ["calls", calls], ["scale", scale]]

def impl(case):
    import numpy as np, warnings, physt
    from physt.histogram1d import Histogram1D
    from physt.binnings import NumpyBinning
    from physt.config import config
    d = sx.rec(case)
    edges = np.array([float(e * d.get("scale", 1)) for e in EDGES])
    def binning(): return NumpyBinning(edges)
    env = []; out = []
    def arrs(data, wt):
        v = np.array([float(x[0]) for x in data], dtype=float); w = np.array([float(x[1]) for x in data], dtype=float)
        return v, (w if wt == "T" else None)
    with warnings.catch_warnings():
        warnings.simplefilter("ignore")
        for op, call in zip(d["ops"], d.get("calls") or [o[0] for o in d["ops"]]):
            k = op[0]; variant = call.partition(":")[2]
            if k == "empty" and variant:
                env.append(env[int(variant)].copy(include_frequencies=False)); x = len(env) - 1
            elif k == "arr" and variant:
                from physt.histogram_collection import HistogramCollection
                x = op[1]
                col = HistogramCollection(env[x], env[x].copy())
                assert col.histograms[0] is env[x]
                col.normalize_bins(inplace=True)
            elif k == "new" and d.get("adaptive") == "T":
                v, w = arrs(op[1], op[2])
                env.append(physt.h1(v if len(v) else None, "fixed_width", bin_width=2, adaptive=True, weights=(w if len(v) else None))); x = len(env) - 1
            elif k == "empty" and d.get("adaptive") == "T":
                env.append(physt.h1(None, "fixed_width", bin_width=2, adaptive=True)); x = len(env) - 1
            elif k == "new":
                v, w = arrs(op[1], op[2]); env.append(physt.h1(v, binning(), weights=w)); x = len(env) - 1
            elif k == "empty": env.append(Histogram1D(binning())); x = len(env) - 1
            elif k == "bare": env.append(Histogram1D(binning(), np.arange(len(edges) - 1))); x = len(env) - 1
            elif k == "fill":
                x = op[1]; w = float(op[3]); env[x].fill(np.int8(int(op[2])) if variant else float(op[2]), w if w != 1 else 1)
            elif k == "fill_n":
                x = op[1]; v, w = arrs(op[2], op[3]); env[x].fill_n(v, weights=w)
            elif k == "add": env.append(env[op[1]] + env[op[2]]); x = len(env) - 1
            elif k == "iadd":
                x = op[1]; other = env[op[2]] if op[2] != x else env[x].copy(); env[x] += other
            elif k == "normalize":
                x = op[1]; env[x].normalize(inplace=True)
            elif k == "badiadd":
                # an in-place addition that must be refused: bins elsewhere (not adaptive), or an operand of another dimension
                x = op[1]
                other = physt.h1(np.array([100.5, 101.5]), np.array([100.0, 101.0, 102.0, 103.0])) if not env[x].is_adaptive() \
                    else physt.h2(np.array([1.0, 2.0]), np.array([1.0, 2.0]), [np.array([0.0, 4.0]), np.array([0.0, 4.0])])
                try: env[x] += other
                except Exception: pass
            elif k == "copy": env.append(env[op[1]].copy()); x = len(env) - 1
            elif k == "mul":
                x = op[1]; c = op[2]; env[x] *= (int(c) if c.denominator == 1 else float(c))
            elif k == "div":
                x = op[1]; c = op[2]; env[x] /= (int(c) if c.denominator == 1 else float(c))
            elif k == "subf":
                with config.enable_free_arithmetics():
                    env.append(env[op[1]] - env[op[2]])
                x = len(env) - 1
            elif k == "sub":
                try: env.append(env[op[1]] - env[op[2]])
                except Exception:      # over-subtraction is refused: the new variable is still "not maintainable"
                    env.append(Histogram1D(binning(), np.zeros(len(edges) - 1)))
                x = len(env) - 1
            else:
                x = op[1]
                with config.enable_free_arithmetics():
                    env[x] += np.ones(len(edges) - 1)
            s = env[x].statistics
            out.append([float(s.sum), float(s.sum2), float(s.min), float(s.max), float(s.weight), float(s.median),
                        float(s.mean()), float(s.variance()), float(s.std()) ** 2])
    return out

def corr_equal(case, a, b):
    def eq(x, y):
        if isinstance(x, list) and isinstance(y, list): return len(x) == len(y) and all(eq(p, q) for p, q in zip(x, y))
        if isinstance(x, str) or isinstance(y, str): return x == y
        fx, fy = float(x), float(y)
        return abs(fx - fy) <= 1e-9 * max(1.0, abs(fx))
    return eq(a, b)

def nontrivial(case, obs):
    ops = sx.rec(case)["ops"]
    return len(ops) >= 3 and len(set(o[0] for o in ops)) >= 2 and any(o[0] in ("new", "fill_n") and len(o[1 if o[0] == "new" else 2]) > 0 for o in ops)

def shrink(case):
    d = sx.rec(case); ops = d["ops"]
    if len(ops) > 1:
        d2 = dict(d); d2["ops"] = ops[:-1]; d2["calls"] = (d.get("calls") or [o[0] for o in ops])[:-1]; yield [[k, v] for k, v in d2.items()]
