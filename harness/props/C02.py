"""C02 ND construction: each row counted once, in the cell that contains it."""
from fractions import Fraction as Fr
import math
from harness import sx, common as C

N_QUICK, N_THOROUGH = 2000, 80000
RULE = ("d in 2..4, n in 0..30 rows drawn per axis from edge pools (every edge incl. the last, nextafter neighbours, "
        "mid-points, gap interiors, outside), 8% NaN cells; per-axis binnings Numpy(right-inclusive)/Fixed(not)/Static gapped "
        "with random includes_right_edge, asymmetric bin counts; given as binning objects, edge arrays, pair arrays, or method "
        "name with per-axis argument lists (bins read back); weights none/int/dyadic/units of both signs on one point; entry through h (row-wise), h2 / h3 "
        "(column lists); malformed: weights of wrong length, NaN with dropna=False. non-trivial = accepted, >=1 row in a cell "
        "and >=1 row missed or on an edge")
MODELLED = ("extract_nd_array / extract_and_concat_arrays row mask, to_numpy_bins_with_mask, the +inf bin, numpy.histogramdd's "
            "index rule (read from numpy 2.5 source), mask selection and missing = sum(w) - sum(cells), from_calculate_frequencies "
            "are modelled in coq/Model/CalcND.v; numpy.histogramdd itself is compared on every run, not verified")

def gen(rng, n, tier):
    import numpy as np
    for i in range(n):
        d = rng.choice([2, 2, 2, 3, 3, 4])
        axes, kinds, forms = [], [], []
        for k in range(d):
            nb = rng.randint(1, 5)
            g = rng.random() < 0.3
            reg = (not g) and rng.random() < 0.4
            b = C.gen_bins(rng, nb, gapped=g, regular=reg)
            if not g and nb > 1 and rng.random() < 0.15:       # near-touching bins: gap far below any tolerance
                j0 = rng.randrange(1, nb); eps = Fr(1, 2 ** rng.choice([30, 40, 44]))
                b = b[:j0] + [[x + eps, y + eps] for x, y in b[j0:]]; reg = False
            gapped = any(b[j][1] != b[j + 1][0] for j in range(nb - 1))
            if gapped: kind = "static"
            elif reg: kind = rng.choice(["fixed", "numpy", "static"])
            else: kind = rng.choice(["numpy", "static"])
            form = rng.choice(["object", "object", "pairs"] + ([] if gapped else ["edges"]))
            if form == "object": incl = {"numpy": rng.random() < 0.8, "fixed": False, "static": rng.random() < 0.5}[kind]
            else: incl = True          # arrays become StaticBinning(includes_right_edge=True)
            axes.append([b, "T" if incl else "F"]); kinds.append(kind); forms.append(form)
        if rng.random() < 0.15 and kinds[0] in ("static", "numpy"):      # twin axes: the same bins with the opposite right-edge declaration
            k = rng.randrange(1, d)
            axes[k] = [[list(x) for x in axes[0][0]], "F" if axes[0][1] == "T" else "T"]; kinds[k] = kinds[0]; forms[0] = forms[k] = "object"
        m = rng.choice([0, 1, 2, 3, 5, 8, 12, 20, 30])
        rows = []
        for _ in range(m):
            row = []
            for k in range(d):
                b = axes[k][0]
                pool = []
                for x in b: pool += [x[0], x[1], (x[0] + x[1]) / 2]
                pool += [b[-1][1]] * 2
                for j in range(len(b) - 1):
                    if b[j][1] < b[j + 1][0]: pool.append((b[j][1] + b[j + 1][0]) / 2)
                pool += [b[0][0] - 1, b[-1][1] + 1]
                r = rng.random()
                if r < 0.04: row.append("nan")
                elif r < 0.12:
                    e = rng.choice([x for bb in b for x in bb])
                    row.append(Fr(float(np.nextafter(float(e), rng.choice([-math.inf, math.inf])))))
                else: row.append(rng.choice(pool))
            rows.append(row)
        wkind = rng.choice(["none", "none", "int", "float", "float"])
        weights = "none"
        if wkind == "int": weights = [rng.randint(0, 5) for _ in range(m)]
        if wkind == "float": weights = [Fr(rng.randint(0, 40), 8) for _ in range(m)]
        if wkind == "float" and rng.random() < 0.4:      # signed weights: rows that fall into no cell may weigh less than nothing
            def outside(row):
                for x, (b, incl) in zip(row, axes):
                    if x == "nan": return False
                    if not any((lo <= x < hi) for lo, hi in b) and not (incl == "T" and x == b[-1][1]): return True
                return False
            weights = [(-w if outside(r) else w) for w, r in zip(weights, rows)]
        if m >= 1 and rng.random() < 0.08:
            # unit weights of both signs on the same point: +1, +1, -1 (the cell keeps 1, its squared error is 3)
            k = rng.randrange(m)
            rows = rows + [list(rows[k]), list(rows[k])]
            base = [rng.choice([0, 1, 1]) for _ in range(m)]; base[k] = 1
            weights = base + [1, -1]; wkind = "int"; m = len(rows)
        wlen_ok = "T"
        if weights != "none" and m > 1 and rng.random() < 0.04: weights = weights[:-1]; wlen_ok = "F"
        dropna = "T" if rng.random() < 0.9 else "F"
        entry = "h"
        if d == 2 and rng.random() < 0.5: entry = "h2"
        if d == 3 and rng.random() < 0.5: entry = "h3cols"
        yield [["bucket", "%dd/%s/w%s/%s" % (d, entry, wkind, "+".join(sorted(set(kinds))))], ["data", rows], ["weights", weights],
               ["wkind", wkind], ["axes", axes], ["dropna", dropna], ["wlen_ok", wlen_ok], ["kinds", kinds], ["forms", forms], ["entry", entry]]

def impl(case):
    import numpy as np, physt
    d = sx.rec(case)
    nd = len(d["axes"])
    data = np.array([[sx.fl(x) for x in r] for r in d["data"]], dtype=float).reshape(-1, nd)
    bins = []
    for (b, incl), kind, form in zip(d["axes"], d["kinds"], d["forms"]):
        pairs = np.array([[float(x), float(y)] for x, y in b])
        if form == "object": bins.append(C.mk_binning(b, kind, incl == "T"))
        elif form == "pairs": bins.append(pairs)
        else: bins.append(np.concatenate([pairs[:1, 0], pairs[:, 1]]))
    kw = {}
    if d["weights"] != "none":
        kw["weights"] = np.array([float(x) for x in d["weights"]], dtype=(np.int64 if d["wkind"] == "int" else np.float64))
    kw["dropna"] = d["dropna"] == "T"
    try:
        if d["entry"] == "h2": h = physt.h2(data[:, 0], data[:, 1], bins, **kw)
        elif d["entry"] == "h3cols": h = physt.h3([data[:, 0], data[:, 1], data[:, 2]], bins, **kw)
        else: h = physt.h(data, bins, **kw)
    except Exception as e:
        return ["refused"]
    return ["ok", h.frequencies.ravel().tolist(), h.errors2.ravel().tolist(), h.missed, h.total]

def nontrivial(case, obs):
    if not obs or obs[0] != "ok": return False
    return obs[4] > 0 and (obs[3] > 0 or any(any(v in [e for b in ax[0] for e in b] for v in r if v != "nan")
                                             for r in sx.rec(case)["data"] for ax in [sx.rec(case)["axes"][0]]))

def shrink(case):
    d = sx.rec(case)
    n = len(d["data"])
    for i in range(n):
        d2 = dict(d); d2["data"] = d["data"][:i] + d["data"][i + 1:]
        if d["weights"] != "none":
            if d["wlen_ok"] != "T": continue
            d2["weights"] = d["weights"][:i] + d["weights"][i + 1:]
        yield [[k, v] for k, v in d2.items()]
