"""C06 Scaling, division and normalisation are exactly linear."""
from fractions import Fraction as Fr
import math
from harness import sx, common as C

N_QUICK, N_THOROUGH = 2000, 60000
RULE = ("1-D/2-D/3-D histograms of every dtype with missed values, custom errors2 and statistics x chains of 1..5 operations "
        "(h*c, c*h, h*=c, h/c, h/=c, normalize(inplace, percent), partial_normalize(axis, inplace)) with python and numpy "
        "int/float scalars; exact family (powers of two: compared exactly) and general family (tolerance 1e-11 relative, eps "
        "recorded per case); refusals: h*h, h/h, c/h, array operand, negative factor. non-trivial = >=1 accepted scaling with "
        "factor != 1 on a non-empty histogram")
MODELLED = ("__mul__/__imul__/__rmul__/__truediv__/__itruediv__, normalize, Histogram2D.partial_normalize, Statistics.__mul__, "
            "_coerce_dtype are modelled in coq/Model/ScaleCases.v; float rounding of non-dyadic factors is covered by the stated "
            "tolerance, not modelled")
KINDS = ["pyint", "pyfloat", "np.int64", "np.int32", "np.int16", "np.float64", "np.float32", "np.float128"]

def pow2(c):
    c = Fr(c)
    return c > 0 and (c.numerator & (c.numerator - 1)) == 0 and (c.denominator & (c.denominator - 1)) == 0

def gen(rng, n, tier):
    for i in range(n):
        nd = rng.choice([1, 1, 2, 2, 3])
        exact = rng.random() < 0.5
        dtype = rng.choice(C.DTYPES if exact else ["int16", "int32", "int64", "float64", "float128"])
        axes = [C.gen_axisd(rng, maxbins=4) for _ in range(nd)]
        h = C.gen_ah(rng, axes, dtype=dtype, maxval=6)
        if not exact and dtype.startswith("float") and rng.random() < 0.15:      # tiny contents (exactly representable)
            hd = sx.rec(h); tiny = Fr(1, 2 ** rng.choice([30, 40, 60]))
            for key in ("freq", "missed"): hd[key] = [x * tiny for x in hd[key]]
            hd["err2"] = [x * tiny * tiny for x in hd["err2"]]
            h = [[k, v] for k, v in hd.items()]
        if rng.random() < 0.15:      # tracking of missed values switched off (integer histograms divided afterwards: C06-m8)
            hd = sx.rec(h); hd["keep"] = "F"; hd["missed"] = [0 for _ in hd["missed"]]
            h = [[k, v] for k, v in hd.items()]
        zero_neg = rng.random() < 0.05
        if zero_neg:      # nothing in the bins (but something missed): a negative factor must be refused all the same
            hd = sx.rec(h); hd["freq"] = [0 for _ in hd["freq"]]; hd["err2"] = [0 for _ in hd["err2"]]
            h = [[k, v] for k, v in hd.items()]
        ops = []
        for _ in range(rng.choice([1, 1, 2, 3, 5])):
            r = rng.random()
            if r < 0.5:
                kind = rng.choice(KINDS)
                if "int" in kind: c = Fr(rng.choice([1, 2, 3, 4, 5, 8] if not exact else [1, 2, 4, 8]))
                else: c = Fr(rng.choice([1, 2, 4, 8, 16]), rng.choice([1, 2, 4, 8])) if exact else Fr(rng.choice([3, 5, 7, 10, 25, 3]), rng.choice([2, 4, 8, 10, 3]))
                # a factor whose square does not fit the scalar's own type (np.int16(256)**2, np.int32(65536)**2 wrap to 0)
                if kind in ("np.int16", "np.int32") and dtype in ("int64", "float64", "float128") and len(ops) == 0 and rng.random() < 0.5:
                    c = Fr(256 if kind == "np.int16" else 65536)
                if not exact and "float" in kind:
                    import numpy as np
                    c = Fr(float(np.float32(float(c)))) if kind == "np.float32" else Fr(float(c))
                if rng.random() < 0.08 or (zero_neg and len(ops) == 0): c = -c
                # numpy integers of the histogram's own narrow type keep it narrow: chains whose squared errors would leave that type
                # wrap around inside numpy (outside the property) - such a factor is given as a python int instead, which widens
                if dtype in ("int16", "int32") and kind in ("np.int16", "np.int32"):
                    grown = max([abs(x) for x in sx.rec(h)["err2"]] + [abs(x) for x in sx.rec(h)["freq"]] + [abs(x) for x in sx.rec(h)["missed"] if x != "nan"] + [1])
                    for o_ in ops:
                        if o_[0] == "mul": grown *= abs(o_[1]) ** 2
                    if grown * abs(c) ** 2 >= 2 ** 14: kind = "pyint"
                if rng.random() < 0.6:
                    form = rng.choice(["copy", "copy", "rev", "inplace"])
                    if form == "rev" and kind.startswith("np.") and rng.random() < 0.85: form = "copy"
                    ops.append(["mul", c, kind, form])
                else: ops.append(["div", c, kind, rng.choice(["copy", "inplace"])])
            elif r < 0.7 and not exact and any(x != 0 for x in sx.rec(h)["freq"]):
                ops.append(["normalize", rng.choice(["T", "F"]), rng.choice(["T", "F"])])
            elif r < 0.85 and not exact:
                ops.append(["partial", rng.choice([0, 1]), rng.choice(["T", "F"])])
            elif r < 0.93:
                ops.append(["bad", rng.choice(["h*h", "h/h", "c/h", "array", "h*=h", "h*h/free", "h/h/free", "h*=h/free", "h/=h/free"])])
            else:
                kind = rng.choice(["pyint", "pyfloat"]); ops.append(["mul", Fr(2), kind, "rev"])
        if exact: eps = Fr(0)
        elif any(o[0] in ("mul", "div") and o[2] == "np.float32" for o in ops): eps = Fr(1, 10 ** 6)   # float32 scalar arithmetic (NEP 50)
        else: eps = Fr(1, 10 ** 11)
        yield [["bucket", "%s/%dd/%s" % ("exact" if exact else "approx", nd, dtype)], ["hist", h], ["ops", ops], ["eps", eps]]

def _scalar(c, kind):
    import numpy as np
    c = Fr(c)
    if kind == "pyint": return int(c)
    if kind == "pyfloat": return float(c)
    return getattr(np, kind[3:].replace("float128", "longdouble"))(float(c) if "float" in kind else int(c))

def impl(case):
    import numpy as np, warnings
    d = sx.rec(case)
    h = C.mk_ah(d["hist"])
    out = []
    for op in d["ops"]:
        before = C.snap_ah(h)
        inplace = False
        try:
            with warnings.catch_warnings():
                warnings.simplefilter("ignore")
                if op[0] == "mul":
                    c = _scalar(op[1], op[2])
                    if op[3] == "copy": r = h * c
                    elif op[3] == "rev": r = c * h
                    else:
                        inplace = True; r = h; r *= c
                elif op[0] == "div":
                    c = _scalar(op[1], op[2])
                    if op[3] == "copy": r = h / c
                    else:
                        inplace = True; r = h; r /= c
                elif op[0] == "normalize":
                    inplace = op[1] == "T"; r = h.normalize(inplace=inplace, percent=op[2] == "T")
                elif op[0] == "partial":
                    inplace = op[2] == "T"; r = h.partial_normalize(op[1], inplace=inplace)
                else:
                    w = op[1]
                    if w.endswith("/free"):      # two histograms are never multiplied or divided, free arithmetics or not
                        from physt.config import config
                        with config.enable_free_arithmetics():
                            if w == "h*h/free": r = h * h.copy()
                            elif w == "h/h/free": r = h / h.copy()
                            elif w == "h*=h/free":
                                r = h; r *= h.copy()
                            else:
                                r = h; r /= h.copy()
                    elif w == "h*h": r = h * h
                    elif w == "h/h": r = h / h
                    elif w == "c/h": r = 2 / h
                    elif w == "h*=h":
                        r = h; r *= h.copy()
                    else: r = h * np.ones(h.shape)
        except Exception as e:
            if not C.same_snap(before, C.snap_ah(h)) and not (op[0] in ("mul", "div")):
                out.append(["refused-but-modified"]); continue
            out.append(["refused"]); continue
        if not hasattr(r, "frequencies"):
            out.append(["not-a-histogram"]); continue
        if inplace: untouched = r is h
        else: untouched = (r is not h) and C.same_snap(before, C.snap_ah(h))
        out.append(["ok"] + C.snap_ah(r) + [untouched])
        h = r
    return out

def _num(v):
    if v == "nan": return float("nan")
    if v in ("inf", "-inf"): return float(v)
    return float(v)

def corr_equal(case, a, b):
    """tolerant comparison for the general family"""
    d = sx.rec(case)
    if all(x == 0 for x in sx.rec(d["hist"])["freq"]) and any(o[0] == "normalize" for o in d["ops"]): return True
    eps = float(sx.rec(case)["eps"])
    if eps == 0: return sx.norm(a) == sx.norm(b)
    def eq(x, y):
        if isinstance(x, list) and isinstance(y, list): return len(x) == len(y) and all(eq(p, q) for p, q in zip(x, y))
        if isinstance(x, str) or isinstance(y, str): return x == y
        fx, fy = float(x), float(y)
        return abs(fx - fy) <= 8 * eps * max(1.0, abs(fx))
    return eq(a, b)

def nontrivial(case, obs):
    d = sx.rec(case)
    return any(o and o[0] == "ok" for o in obs) and any(x != 0 for x in sx.rec(d["hist"])["freq"]) and \
        any(op[0] in ("mul", "div") and op[1] != 1 for op in d["ops"])

def classify(case, obs, model, verdict, corr, detail=None):
    d = sx.rec(case)
    bad = [i for i, (o, op) in enumerate(zip(obs, d["ops"])) if o == ["not-a-histogram"]]
    if bad and all(d["ops"][i][0] == "mul" and d["ops"][i][3] == "rev" and d["ops"][i][2].startswith("np.") for i in bad):
        # every other step must agree with the faithful model
        pass      # F20b (numpy_scalar * h returned a bare ndarray) was repaired in /repo: a return of it is a violation again
    return None

def shrink(case):
    d = sx.rec(case)
    ops = d["ops"]
    for i in range(len(ops)):
        d2 = dict(d); d2["ops"] = ops[:i] + ops[i + 1:]
        yield [[k, v] for k, v in d2.items()]
