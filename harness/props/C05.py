"""C05 Adding histograms equals histogramming the combined data."""
from fractions import Fraction as Fr
from harness import sx, common as C

N_QUICK, N_THOROUGH = 1500, 50000
RULE = ("2-5 operand histograms (1-D/2-D, every dtype, missed values, valid or invalid statistics) over identical bins, "
        "allclose-equal bins, or adaptive fixed-width grids with disjoint / overlapping / nested / empty ranges; combined by "
        "random expression trees of +, left and right folds and sum(); incompatible cases: different widths, shifts, dimension, "
        "non-adaptive different bins, scalar / list / ndarray operands. non-trivial = accepted sum of >=2 operands where the "
        "result differs from every operand, or a refusal")
MODELLED = ("HistogramBase.__add__/__radd__/__iadd__ (same-bins and adaptive branches), has_same_bins, FixedWidthBinning._adapt/"
            "_force_new_min_max, _change_binning/_reshape_data/_apply_bin_map, Statistics.__add__, _coerce_dtype are modelled in "
            "coq/Model/Arith.v; numpy promote_types is a table validated exhaustively by the C13 harness")

def rand_tree(rng, idx):
    if len(idx) == 1: return idx[0]
    k = rng.randint(1, len(idx) - 1)
    return ["+", rand_tree(rng, idx[:k]), rand_tree(rng, idx[k:])]

def gen(rng, n, tier):
    for i in range(n):
        nd = rng.choice([1, 1, 1, 2])
        k = rng.choice([2, 2, 3, 3, 4, 5])
        mode = rng.choice(["same", "same", "adaptive", "adaptive", "adaptive", "close", "incompatible", "nothist"])
        ops = []
        if mode in ("same", "close", "nothist"):
            axes = [C.gen_axisd(rng) for _ in range(nd)]
            for j in range(k):
                ax = axes
                if mode == "close" and j > 0:
                    ax = [(["static", [[x + Fr(1, 2 ** 40), y + Fr(1, 2 ** 40)] for x, y in a[1]], a[2]] if a[0] == "static" else a) for a in axes]
                ops.append(C.gen_ah(rng, ax))
        elif mode == "adaptive":
            params = [(Fr(rng.choice([1, 2, 4, 3]), rng.choice([1, 2, 4])), Fr(rng.choice([0, 0, 1, 3]), 8)) for _ in range(nd)]
            first_ad = rng.random() < 0.85
            for j in range(k):
                ax = [C.gen_axisd(rng, "fixed", w=w, shift=sh, adaptive=(first_ad if j == 0 else rng.random() < 0.7),
                                  allow_empty=rng.random() < 0.15) for (w, sh) in params]
                ops.append(C.gen_ah(rng, ax, missed=(j == 0 or rng.random() < 0.1)))
        else:
            empty_first = rng.random() < 0.3      # an accumulator that has no bins yet is no excuse for another width or shift
            axes = [C.gen_axisd(rng, "fixed", adaptive=True) for _ in range(nd)]
            if empty_first: axes = [a[:4] + [0] + a[5:] for a in axes]
            ops.append(C.gen_ah(rng, axes, missed=not empty_first))
            kind = rng.choice(["width", "shift", "ndim", "static"])
            for j in range(1, k):
                if kind == "width": ax = [C.gen_axisd(rng, "fixed", w=a[1] * 2, shift=a[2], adaptive=True) for a in axes]
                elif kind == "shift": ax = [C.gen_axisd(rng, "fixed", w=a[1], shift=a[2] + Fr(1, 16), adaptive=True) for a in axes]
                elif kind == "ndim": ax = [C.gen_axisd(rng, "fixed", adaptive=True) for _ in range(3 - nd)]
                else: ax = [C.gen_axisd(rng, "static") for _ in range(nd)]
                ops.append(C.gen_ah(rng, ax, missed=False))
        idx = list(range(k)); rng.shuffle(idx)
        shape = rng.choice(["tree", "left", "right", "sum", "sumtree"])
        if shape == "tree": e = rand_tree(rng, idx)
        elif shape == "left":
            e = idx[0]
            for j in idx[1:]: e = ["+", e, j]
        elif shape == "right":
            e = idx[-1]
            for j in reversed(idx[:-1]): e = ["+", j, e]
        elif shape == "sum": e = ["sum"] + idx
        else:
            h = max(1, len(idx) // 2); e = ["sum", rand_tree(rng, idx[:h])] + idx[h:]
        nh = "none"
        if mode == "nothist":
            nh = rng.choice(["scalar", "list", "array"])
            e = ["+", e, "nothist"] if rng.random() < 0.6 else ["+", "nothist", e]
        via = "T" if (mode == "same" and nd == 1 and shape == "sum" and rng.random() < 0.6) else "F"
        yield [["bucket", "%s/%dd/%s%s" % (mode, nd, shape, "/collection" if via == "T" else "")], ["operands", ops], ["expr", e], ["nothist", nh], ["via_collection", via]]

def impl(case):
    import numpy as np
    d = sx.rec(case)
    hs = [C.mk_ah(o) for o in d["operands"]]
    before = [C.snap_ah(h) for h in hs]
    nshape = hs[0].shape
    nothist = {"scalar": 4, "list": [1] * int(np.prod(nshape)), "array": np.ones(nshape), "none": None}[d["nothist"]]
    def ev(e):
        if isinstance(e, int): return hs[e]
        if e == "nothist": return nothist
        if e[0] == "+": return ev(e[1]) + ev(e[2])
        if d.get("via_collection") == "T" and e is d["expr"]:      # the same sum asked of a HistogramCollection
            from physt.histogram_collection import HistogramCollection
            return HistogramCollection(*[ev(x) for x in e[1:]]).sum()
        return sum(ev(x) for x in e[1:])
    if d["nothist"] != "none":
        # "outside free-arithmetics mode": an earlier block that enabled it and was left by an exception is over
        from physt.config import config
        try:
            with config.enable_free_arithmetics():
                raise KeyError("left the block early")
        except KeyError: pass
    try:
        r = ev(d["expr"])
        if not hasattr(r, "frequencies"): return ["not-a-histogram"]
    except Exception as e:
        return ["refused"]
    unchanged = all(C.same_snap(b, C.snap_ah(h)) for b, h in zip(before, hs))
    return ["ok"] + C.snap_ah(r) + [unchanged]

def nontrivial(case, obs):
    return obs[0] == "refused" or (obs[0] == "ok" and len(sx.rec(case)["operands"]) >= 2)

def classify(case, obs, model, verdict, corr, detail=None):
    d = sx.rec(case)
    return None      # F20 (ndarray + h returned a bare ndarray) was repaired in /repo: a return of it is a violation again

def shrink(case):
    d = sx.rec(case)
    return []
