"""C15 Transformed histograms bin points by their true coordinates."""
from fractions import Fraction as Fr
import math
from harness import sx

N_QUICK, N_THOROUGH = 700, 20000
RULE = ("kind=points (92%): 1..12 Cartesian points per case in all quadrants / octants, on the axes, on the +-z axis, at the origin, "
        "with signed zeros, at scales 1e-6..1e6 (and 1e160 / 1e-170, whose squares overflow / underflow), for each of the 7 classes (Radial from 2-D and 3-D sources); bins: explicit "
        "irregular radial / rho / z edges that leave some points outside, angular edges over the full or a partial range; every "
        "entry path is exercised on the same points: Class.transform (array and single), find_bin, find_bin(transformed=True), "
        "fill, fill(transformed=True), fill_n, fill_n(transformed=True) (a third of the batches as columns=True), the facade and the facade with transformed=True, and "
        "every projection onto a proper subset of the axes. kind=wrongdim (8%): inputs of dimension 1..4 to transform / find_bin / "
        "fill / fill_n. non-trivial = >=3 points with >=1 inside the bins and >=1 on an axis or at the origin")
MODELLED = ("the arithmetic of the transform (numpy hypot / arctan2 / %) is not re-implemented: the coordinates physt returns are "
            "judged by the inverse formulas over exact rationals (cos / sin of the returned angles from numpy, 1e-9 relative); "
            "bin placement of coordinates is the find-bin specification of coq/Model/Fill.v; projections by Project.marginal")

CLASSES = ["PolarHistogram", "RadialHistogram", "RadialHistogram3", "AzimuthalHistogram", "SphericalHistogram", "SphericalSurfaceHistogram",
           "CylindricalHistogram", "CylindricalSurfaceHistogram"]
SRC = {"PolarHistogram": 2, "RadialHistogram": 2, "RadialHistogram3": 3, "AzimuthalHistogram": 2}

def fl(x): return Fr(float(x))

def gen_point(rng, dim, s):
    k = rng.random()
    if k < 0.08: return [Fr(0)] * dim, ["F"] * dim
    if k < 0.3:      # on an axis / in a coordinate plane
        p = [fl(rng.uniform(-3, 3) * s) if rng.random() < 0.45 else Fr(0) for _ in range(dim)]
    else:
        p = [fl(rng.choice([-1, 1]) * rng.uniform(0.01, 3) * s) for _ in range(dim)]
    if rng.random() < 0.1: p = [fl(rng.randint(-3, 3) * s) for _ in range(dim)]
    nz = ["T" if (x == 0 and rng.random() < 0.5) else "F" for x in p]
    return p, nz

def edges(rng, lo, hi, n, irregular=True):
    xs = sorted({fl(lo + (hi - lo) * rng.random()) for _ in range(n - 1)}) if irregular else [fl(lo + (hi - lo) * k / n) for k in range(1, n)]
    return [fl(lo)] + [x for x in xs if fl(lo) < x < fl(hi)] + [fl(hi)]

def gen(rng, n, tier):
    for i in range(n):
        if rng.random() < 0.08:
            yield [["bucket", "wrongdim"], ["kind", "wrongdim"], ["cls", rng.choice(CLASSES).replace("3", "")], ["dim", rng.randint(1, 4)]]
            continue
        name = rng.choice(CLASSES)
        cls = name.replace("3", "")
        dim = SRC.get(name, 3)
        s = float(rng.choice([1e-6, 1e-3, 1, 1, 1, 10, 1e3, 1e6] * 2 + [1e160, 1e-170]))      # squares of the last two leave the float range
        pts = [gen_point(rng, dim, s) for _ in range(rng.choice([1, 2, 3, 5, 8, 12]))]
        two_pi = 2 * math.pi
        def ang(full, top):
            if rng.random() < 0.7: return edges(rng, 0.0, top, rng.randint(1, 6), irregular=rng.random() < 0.5)
            a = rng.uniform(0, top / 2); return edges(rng, a, rng.uniform(a + 0.2, top), rng.randint(1, 4))
        rad = edges(rng, 0.0 if rng.random() < 0.7 else 0.3 * s, rng.uniform(1, 4) * s, rng.randint(1, 5))
        zed = edges(rng, -rng.uniform(0.5, 3) * s, rng.uniform(0.5, 3) * s, rng.randint(1, 4))
        bins = {"PolarHistogram": [rad, ang(1, two_pi)], "RadialHistogram": [rad], "AzimuthalHistogram": [ang(1, two_pi)],
                "SphericalHistogram": [rad, ang(1, math.pi), ang(1, two_pi)], "SphericalSurfaceHistogram": [ang(1, math.pi), ang(1, two_pi)],
                "CylindricalHistogram": [rad, ang(1, two_pi), zed], "CylindricalSurfaceHistogram": [ang(1, two_pi), zed]}[cls]
        other = rng.choice(["none", "float32", "list", "float32"])
        if s > 1e30 or s < 1e-30: other = rng.choice(["none", "list"])      # outside the float32 range
        if other == "float32":
            import struct
            pts = [([Fr(struct.unpack("f", struct.pack("f", float(x)))[0]) for x in p], z) for p, z in pts]
        yield [["bucket", "points/" + name], ["kind", "points"], ["cls", cls], ["points", [p for p, z in pts]], ["negzero", [z for p, z in pts]], ["bins", bins], ["other_input", other], ["columns", rng.choice(["T", "F", "F"])]]

def _pts(d):
    import numpy as np
    return np.array([[(-0.0 if z == "T" else float(x)) for x, z in zip(p, nz)] for p, nz in zip(d["points"], d["negzero"])], dtype=float)

def _enc(r):
    if r is None: return "none"
    if isinstance(r, tuple): return [int(x) for x in r]
    return int(r)

def _facade(cls, data, bins, transformed):
    import numpy as np
    from physt import special_histograms as sp
    b = [np.array([float(x) for x in e]) for e in bins]
    kw = dict(transformed=True) if transformed else {}
    if cls == "PolarHistogram": return sp.polar(data[:, 0], data[:, 1], radial_bins=b[0], phi_bins=b[1], **kw)
    if cls == "RadialHistogram":
        if transformed: return sp.radial(data, bins=b[0], transformed=True)
        return sp.radial(data[:, 0], data[:, 1], bins=b[0]) if data.shape[1] == 2 else sp.radial(data, bins=b[0])
    if cls == "AzimuthalHistogram":
        if transformed: return sp.azimuthal(data, bins=b[0], transformed=True)
        return sp.azimuthal(data[:, 0], data[:, 1], bins=b[0])
    if cls == "SphericalHistogram": return sp.spherical(data, radial_bins=b[0], theta_bins=b[1], phi_bins=b[2], **kw)
    if cls == "SphericalSurfaceHistogram": return sp.spherical_surface(data, theta_bins=b[0], phi_bins=b[1], **kw)
    if cls == "CylindricalHistogram": return sp.cylindrical(data, rho_bins=b[0], phi_bins=b[1], z_bins=b[2], **kw)
    if cls == "CylindricalSurfaceHistogram": return sp.cylindrical_surface(data, phi_bins=b[0], z_bins=b[1], **kw)
    raise KeyError(cls)

def impl(case):
    import numpy as np, warnings, itertools
    from physt import special_histograms as sp
    d = sx.rec(case)
    K = getattr(sp, d["cls"])
    with warnings.catch_warnings():
        warnings.simplefilter("ignore")
        if d["kind"] == "wrongdim":
            n = d["dim"]
            p = np.arange(1.0, n + 1)
            nd = {"RadialHistogram": 1, "AzimuthalHistogram": 1, "PolarHistogram": 2, "SphericalSurfaceHistogram": 2, "CylindricalSurfaceHistogram": 2}.get(d["cls"], 3)
            edges = [np.array([0.0, 1, 2, 7])] * nd
            h = K(edges[0]) if nd == 1 else K(edges)
            def tryf(f):
                try: f(); return "accepted"
                except (ValueError, TypeError, IndexError): return "refused"
            return [tryf(lambda: K.transform(p)), tryf(lambda: h.find_bin(p)), tryf(lambda: h.copy().fill(p)), tryf(lambda: h.copy().fill_n(np.array([p, p])))]
        pts = _pts(d)
        bins = d["bins"]
        fac = _facade(d["cls"], pts, bins, False)
        h0 = fac.copy(); h0._frequencies = np.zeros_like(h0._frequencies); h0._errors2 = np.zeros_like(h0._errors2); h0._missed = np.zeros_like(h0._missed)
        coords = K.transform(pts)
        single = [K.transform(p) for p in pts]
        def rows(a): return [[float(x) for x in np.atleast_1d(r)] for r in a]
        co = np.asarray(coords, dtype=float).reshape(len(pts), -1)
        cls = d["cls"]
        trig = []; aux = []
        for p, c in zip(pts, co):
            if cls in ("PolarHistogram",): trig.append([math.cos(c[1]), math.sin(c[1])])
            elif cls == "AzimuthalHistogram": trig.append([math.cos(c[0]), math.sin(c[0])])
            elif cls == "RadialHistogram": trig.append([])
            elif cls == "SphericalHistogram": trig.append([math.cos(c[1]), math.sin(c[1]), math.cos(c[2]), math.sin(c[2])])
            elif cls == "SphericalSurfaceHistogram": trig.append([math.cos(c[0]), math.sin(c[0]), math.cos(c[1]), math.sin(c[1])])
            elif cls == "CylindricalHistogram": trig.append([math.cos(c[1]), math.sin(c[1])])
            else: trig.append([math.cos(c[0]), math.sin(c[0])])
            aux.append(float(np.hypot(np.hypot(p[0], p[1]), p[2])) if cls == "SphericalSurfaceHistogram" else 0.0)
        one_d = co.shape[1] == 1 and cls in ("RadialHistogram", "AzimuthalHistogram")
        def tval(c): return float(c[0]) if one_d else c
        out = [["pi", math.pi], ["axes", [[[[float(a), float(b)] for a, b in bb.bins.tolist()], "T" if bb.includes_right_edge else "F"] for bb in h0._binnings]],
               ["coords", rows(co)], ["coords_single", rows(np.asarray(single, dtype=float).reshape(len(pts), -1))], ["trig", trig], ["aux", aux]]
        if d.get("other_input", "none") == "float32":
            out.append(["coords_other_input", rows(np.asarray(K.transform(pts.astype(np.float32)), dtype=float).reshape(len(pts), -1))])
            p32 = pts.astype(np.float32)
            h = h0.copy(); h.fill_n(p32); f32 = [float(x) for x in np.asarray(h.frequencies, dtype=float).ravel()]
        elif d.get("other_input") == "list":
            out.append(["coords_other_input", rows(np.asarray(K.transform(pts.tolist()), dtype=float).reshape(len(pts), -1))])
        out.append(["find", [_enc(h0.find_bin(p)) for p in pts]])
        out.append(["find_t", [_enc(h0.find_bin(tval(c), transformed=True)) for c in co]])
        def flat(h): return [float(x) for x in np.asarray(h.frequencies, dtype=float).ravel()]
        h = h0.copy(); out.append(["fill_ret", [_enc(h.fill(p)) for p in pts]]); out.append(["freq_fill", flat(h)])
        h = h0.copy(); out.append(["fill_t_ret", [_enc(h.fill(tval(c), transformed=True)) for c in co]]); out.append(["freq_fill_t", flat(h)])
        cols = d.get("columns", "F") == "T" and len(h0._binnings) > 1      # the batch handed over as one array per coordinate
        h = h0.copy(); (h.fill_n(pts.T, columns=True) if cols else h.fill_n(pts)); out.append(["freq_fill_n", flat(h)])
        h = h0.copy(); (h.fill_n(co.T, transformed=True, columns=True) if cols else h.fill_n(co[:, 0] if one_d else co, transformed=True)); out.append(["freq_fill_n_t", flat(h)])
        out.append(["freq_facade", flat(fac)])
        ft = _facade(cls, (co[:, 0] if one_d else co), bins, True); out.append(["freq_facade_t", flat(ft)])
        proj = []
        nd = len(h0._binnings)
        if nd > 1:
            for k in range(1, nd):
                for kept in itertools.combinations(range(nd), k):
                    p = fac.projection(*kept)
                    proj.append([list(kept), type(p).__name__, flat(p)])
        out.append(["proj", proj])
        return out

def corr_view(case, obs):
    d = sx.rec(case)
    if d["kind"] != "points" or not isinstance(obs, list) or not obs or not isinstance(obs[0], list): return obs
    o = sx.rec(obs)
    return [o.get("find"), o.get("freq_facade")]

def nontrivial(case, obs):
    d = sx.rec(case)
    if d["kind"] != "points": return True
    if not isinstance(obs, list) or not obs or not isinstance(obs[0], list): return False
    o = sx.rec(obs)
    return len(d["points"]) >= 3 and any(f != "none" and f != -1 for f in o.get("find", [])) and any(any(x == 0 for x in p) for p in d["points"])
