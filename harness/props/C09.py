"""C09 Projections are exact marginals."""
from fractions import Fraction as Fr
from harness import sx, common as C

N_QUICK, N_THOROUGH = 1500, 50000
RULE = ("2-4 dimensional histograms with asymmetric shapes (size-1 axes included), arbitrary contents and custom errors2; chains of "
        "1-3 operations: projection onto any non-empty axis list given by index, by name or mixed, in any order; T; accumulate; "
        "invalid: unknown name, out-of-range / negative index, duplicates, empty list, T on non-2D; data bucket: histogram built by "
        "h(...) from rows inside all bins, projection compared with direct construction from the kept columns. non-trivial = an "
        "accepted projection that really drops an axis of size > 1")
MODELLED = ("HistogramND.projection/_get_projection_axes/_reduce_dimension, accumulate, Histogram2D.T, _get_axis are modelled in "
            "coq/Model/Project.v by tabulation of their pointwise meaning; numpy sum/cumsum/T are compared on every run")

def gen(rng, n, tier):
    for i in range(n):
        nd = rng.choice([2, 2, 3, 3, 4])
        data = "none"
        if rng.random() < 0.25:
            # rows strictly inside the bins of consecutive axes
            h = C.gen_hist(rng, ndim=nd, maxbins=4, gapped=0.0, weights="int", missed=False)
            d = sx.rec(h)
            m = rng.randint(0, 25)
            rows = []
            for _ in range(m):
                rows.append([rng.choice([(b[0] + b[1]) / 2 for b in bins] + [bins[0][0]]) for bins in d["bins"]])
            shape = [len(b) for b in d["bins"]]
            size = 1
            for s in shape: size *= s
            freq = [0] * size
            for r in rows:
                pos = 0
                for k, bins in enumerate(d["bins"]):
                    j = [t for t, b in enumerate(bins) if b[0] <= r[k] < b[1]][0]
                    pos = pos * shape[k] + j
                freq[pos] += 1
            d["freq"] = freq; d["err2"] = list(freq); d["missed"] = [0]
            h = [[k, v] for k, v in d.items()]
            data = rows
        else:
            h = C.gen_hist(rng, ndim=nd, maxbins=4, gapped=0.2, weights=rng.choice(["int", "float"]))
            if rng.random() < 0.2:      # narrow integer dtype with contents close to its limit: marginals exceed it
                hd = sx.rec(h); dt = rng.choice(["int16", "int32"]); top = 32767 if dt == "int16" else 2 ** 31 - 1
                hd["freq"] = [rng.choice([0, top, top // 2, rng.randint(0, top)]) for _ in hd["freq"]]
                hd["err2"] = list(hd["freq"]); hd["dtype"] = dt
                h = [[k, v] for k, v in hd.items()]
        d = sx.rec(h)
        if rng.random() < 0.2:
            # axis names that look like the generated defaults (axis0, axis1, ...) but sit at other positions - as they do in
            # any projection of an unnamed histogram
            nm = ["axis%d" % k for k in range(nd)]
            while nd > 1 and nm == ["axis%d" % k for k in range(nd)]: rng.shuffle(nm)
            d["names"] = nm; h = [[k, v] for k, v in d.items()]
        names = list(d["names"])
        ops, args = [], []
        cur = list(range(nd))          # original axis ids still present
        for _ in range(rng.choice([1, 1, 2, 3])):
            k = len(cur)
            if k < 2: break
            r = rng.random()
            if r < 0.72:
                cnt = rng.randint(1, k - 1) if rng.random() < 0.9 else k
                sel = rng.sample(range(k), cnt)
                bad = rng.random() < 0.15
                a, res = [], []
                for j in sel:
                    if rng.random() < 0.5: a.append(names[cur[j]]); res.append(j)
                    else: a.append(j); res.append(j)
                if bad:
                    w = rng.choice(["name", "range", "neg", "dup", "empty"])
                    if w == "name": a.append("nope"); res.append(-1)
                    elif w == "range": a.append(k); res.append(k)
                    elif w == "neg": a.append(-1); res.append(-1)
                    elif w == "dup":       # the same axis once more, half of the time spelled the other way (index vs name)
                        other = names[cur[res[0]]] if not isinstance(a[0], str) else res[0]
                        a.append(other if rng.random() < 0.5 else a[0]); res.append(res[0])
                    else: a, res = [], []
                a = [(["np.int64", x] if isinstance(x, int) and not bad and rng.random() < 0.25 else x) for x in a]   # an index as it comes out of np.arange / np.argmax
                ops.append(["project", res]); args.append(a)
                if not bad: cur = [cur[j] for j in sorted(sel)]
            elif r < 0.86:
                ops.append(["T"]); args.append([])
                if k == 2: cur = cur[::-1]
            else:
                ax = rng.randrange(k)
                ops.append(["accumulate", ax]); args.append([names[cur[ax]] if rng.random() < 0.5 else ax])
        if not ops: continue
        special = "none"
        if data == "none" and nd in (2, 3) and all(o[0] != "T" for o in ops) and rng.random() < 0.25:
            # the same bins and contents held by a coordinate-system histogram (its axes carry the case's own names)
            special = rng.choice(["PolarHistogram"] if nd == 2 else ["SphericalHistogram", "CylindricalHistogram"])
        yield [["bucket", "%dd/%s/%s%s" % (nd, "data" if data != "none" else "direct", "+".join(o[0] for o in ops), "" if special == "none" else "/" + special)],
               ["hist", h], ["names", names], ["ops", ops], ["args", args], ["data", data], ["special", special]]

def _obs(h):
    import numpy as np
    m = [float(h.underflow), float(h.overflow), float(h.inner_missed)] if h.ndim == 1 else [float(h.missed)]
    return ["ok", C.snap_bins(h), np.asarray(h.frequencies).ravel().tolist(), np.asarray(h.errors2).ravel().tolist(),
            list(h.axis_names), h.total, m]

def impl(case):
    import numpy as np, physt
    d = sx.rec(case); hd = sx.rec(d["hist"])
    h = C.mk_hist(hd)
    if d.get("special", "none") != "none":
        from physt import special_histograms as sp
        h = getattr(sp, d["special"])(h._binnings, h.frequencies, errors2=h.errors2, axis_names=list(h.axis_names), missed=float(h.missed), dtype=h.dtype)
    flags = "nodata"
    if d["data"] != "none":
        rows = np.array([[float(x) for x in r] for r in d["data"]], dtype=float).reshape(-1, h.ndim)
        g = physt.h(rows, [b.copy() for b in h._binnings], axis_names=list(h.axis_names))
        built = C.same_snap(C.snap(g)[:3], C.snap(h)[:3])
        h = g
    steps = []
    cur = h
    kept_cols = list(range(h.ndim))
    for op, a in zip(d["ops"], d["args"]):
        a = [(np.int64(x[1]) if isinstance(x, list) else x) for x in a]
        try:
            if op[0] == "project":
                r = cur.projection(*a)
                ids = sorted(set(cur._get_axis(x) for x in a)); kept_cols = [kept_cols[j] for j in ids]
            elif op[0] == "T":
                r = cur.T; kept_cols = kept_cols[::-1]
            else: r = cur.accumulate(a[0])
        except Exception as e:
            steps.append(["refused"]); continue
        steps.append(_obs(r)); cur = r
        # what was derived stays what it is when its source is made adaptive afterwards and grows (and the other way round)
        if op[0] == "project" and len(steps) == 1 and d.get("special", "none") == "none" and all(getattr(b, "adaptive_allowed", False) and not b.includes_right_edge for b in h._binnings):
            import copy as _copy
            keep = _copy.deepcopy(steps[0])
            try:
                src = h.copy(); rr = src.projection(*a)
                src.set_adaptive(True)
                far = [float(src.get_bin_right_edges(i)[-1]) + 3.5 * float(src.get_bin_widths(i)[-1]) for i in range(src.ndim)]
                src.fill(far)
                if sx.enc(_obs(rr)) != sx.enc(keep): steps[0] = ["projection-changed-when-its-source-grew"]
                rr2 = src.projection(*a); rr2.set_adaptive(True)
                before_src = sx.enc(_obs(src))
                rr2.fill(float(rr2.bin_right_edges[-1]) + 9.25 if rr2.ndim == 1 else [float(rr2.get_bin_right_edges(i)[-1]) + 9.25 for i in range(rr2.ndim)])
                if sx.enc(_obs(src)) != before_src: steps[0] = ["source-changed-when-its-projection-grew"]
            except (OverflowError, MemoryError):
                pass      # contents at the limits of a narrow integer type: growth itself is not this check's business
    if d["data"] != "none":
        direct_ok = True
        if all(o[0] == "project" for o in d["ops"]) and cur is not h and all(s[0] == "ok" for s in steps):
            cols = rows[:, kept_cols]
            bs = [b.copy() for b in cur._binnings] if cur.ndim > 1 else cur._binning.copy()
            dd = physt.h(cols, bs) if cur.ndim > 1 else physt.h1(cols[:, 0], bs)
            direct_ok = (np.asarray(dd.frequencies).tolist() == np.asarray(cur.frequencies).tolist()
                         and np.asarray(dd.errors2).tolist() == np.asarray(cur.errors2).tolist())
        flags = [built, direct_ok]
    return [steps, flags]

def corr_view(case, obs): return obs[0]

def nontrivial(case, obs):
    d = sx.rec(case); shape = [len(b) for b in sx.rec(d["hist"])["bins"]]
    return any(s[0] == "ok" for s in obs[0]) and any(o[0] == "project" for o in d["ops"]) and max(shape) > 1

def shrink(case):
    d = sx.rec(case)
    for i in range(len(d["ops"])):
        if len(d["ops"]) > 1 and i == len(d["ops"]) - 1:
            d2 = dict(d); d2["ops"] = d["ops"][:i]; d2["args"] = d["args"][:i]
            yield [[k, v] for k, v in d2.items()]
