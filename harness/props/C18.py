"""C18 Histograms stay well-formed; failed operations change nothing."""
from fractions import Fraction as Fr
from harness import sx, common as C
from harness.props import C13

N_QUICK, N_THOROUGH = 1500, 50000
RULE = ("histories of 1..12 public in-place operations on 1-D/2-D histograms (adaptive or fixed, every dtype) with ~35% invalid "
        "calls injected at any position: operands with other bins / dimension, non-histogram operands, over-subtraction, negative "
        "or non-numeric factors, dtype changes that must be refused, merges across gaps / with amount 0 / non-integral / on all "
        "axes with one bad axis, fill / fill_n with wrong shapes, weights, types, wrong axis names. Before and after every call a "
        "snapshot keyed by bin interval (contents, errors2), the missed counters and the shape invariants are read. non-trivial "
        "= >=1 refused call after >=1 accepted call")
MODELLED = ("the validation / mutation order of __iadd__, __isub__, __imul__, __itruediv__, set_dtype, merge_bins, fill, fill_n is "
            "modelled by DtypeCases.dstep (shared with C13); calls outside that model are 'opaque': the property (per-interval "
            "contents, errors2, missed unchanged on failure; shapes/sign invariants always) is checked directly on the observation")

OPAQUE_SAFE = ["add_scalar", "add_list", "mul_hist", "div_hist", "fill_str_weight", "fill_wrong_dim", "dtype_complex", "set_freq_wrong_shape", "set_freq_negative", "set_err_negative", "sub_scalar"]
OPAQUE = ["add_scalar", "add_list", "mul_hist", "div_hist", "mul_list", "merge_zero", "merge_half", "merge_all_gap",
          "fill_str_weight", "fill_wrong_dim", "fill_n_wrong_weights", "fill_n_wrong_cols", "fill_n_strings", "dtype_complex",
          "bad_axis_merge", "set_freq_wrong_shape", "set_freq_negative", "set_err_negative", "sub_scalar", "normalize_bad_axis", "derive_then_grow", "sub_more_unsigned", "iadd_then_grow"]

def gen(rng, n, tier):
    for i in range(n):
        nd = rng.choice([1, 1, 2])
        adaptive = rng.random() < 0.3
        if adaptive:
            params = [(Fr(rng.choice([1, 2, 4, 3]), rng.choice([1, 2, 4])), Fr(0)) for _ in range(nd)]
            axes = [C.gen_axisd(rng, "fixed", w=w, shift=sh, adaptive=True, maxbins=4) for (w, sh) in params]
        else:
            axes = [C.gen_axisd(rng, rng.choice(["static", "fixed"]), adaptive=False, maxbins=4) for _ in range(nd)]
        if nd == 2 and not adaptive and rng.random() < 0.25:       # all-axes merge with one unmergeable axis
            b0 = C.gen_bins(rng, rng.randint(2, 4)); b1 = C.gen_bins(rng, rng.randint(2, 4), gapped=False)
            k = rng.randrange(0, len(b1) - 1); b1 = b1[:k + 1] + [[x + Fr(1, 2), y + Fr(1, 2)] for x, y in b1[k + 1:]] if k % 2 == 0 else [[b1[0][0], b1[0][1]]] + [[x + Fr(1, 2), y + Fr(1, 2)] for x, y in b1[1:]]
            axes = [["static", b0, "F"], ["static", b1, "F"]]
        gapped = any(a[0] == "static" and any(a[1][j][1] != a[1][j + 1][0] for j in range(len(a[1]) - 1)) for a in axes)
        big = (not adaptive and rng.random() < 0.2)
        h = C13.gen_dh(rng, axes, big=big)
        size = len(sx.rec(h)["freq"])
        ops = []
        opaque_seen = False
        def operand(ax):
            o = C13.gen_dh(rng, ax)
            if nd == 1 and rng.random() < 0.25:      # unknown (NaN) missed counts, as inconsecutive bins produce them
                od = sx.rec(o); od["missed"] = ["nan", "nan", 0]; o = [[k, v] for k, v in od.items()]
            return o
        if nd == 2 and gapped and not big and rng.random() < 0.6: ops.append(["opaque", "merge_all_gap"]); opaque_seen = True
        for _ in range(rng.choice([1, 2, 3, 5, 8, 12])):
            r = rng.random()
            if big: r = rng.choice([0.1, 0.52, 0.52, 0.52])      # contents at the dtype limits: only refusable calls and dtype changes (no numpy overflow)
            if r < 0.22:
                ops.append(["opaque", rng.choice(OPAQUE_SAFE if big else OPAQUE)]); opaque_seen = True
            elif r < 0.32:      # incompatible histogram operand
                k = rng.random()
                if k < 0.5: ax2 = [C.gen_axisd(rng, "static", maxbins=4) for _ in range(nd)]
                else: ax2 = [C.gen_axisd(rng, "static", maxbins=3) for _ in range(3 - nd)]
                ops.append([rng.choice(["add", "sub"]), C13.gen_dh(rng, ax2)])
            elif r < 0.4:
                big = sx.rec(C13.gen_dh(rng, axes)); big["freq"] = [x + 50 for x in big["freq"]]; big["err2"] = list(big["freq"])
                ops.append(["sub", [[k, v] for k, v in big.items()]])
            elif r < 0.46: ops.append(["mul", Fr(-rng.choice([1, 2])), rng.choice(["pyint", "pyfloat"])])
            elif r < 0.5: ops.append(["mul", Fr(2), "bool"])
            elif r < 0.56: ops.append(["set", rng.choice(C.DTYPES)])
            elif r < 0.62 and not adaptive: ops.append(["merge", rng.randint(1, 3)])
            elif r < 0.72 and not adaptive: ops.append(["add", operand(axes)])
            elif r < 0.8:
                k = rng.choice(C13.KINDS); w = Fr(rng.randint(0, 5)) if "int" in k else Fr(rng.randint(0, 20), 4)
                if not (adaptive and opaque_seen): ops.append(["fill", rng.randrange(size), w, k])
            elif r < 0.9:
                k = rng.choice(C13.KINDS); c = Fr(rng.choice([1, 2, 3])) if "int" in k else Fr(rng.choice([1, 2, 3, 5]), rng.choice([1, 2, 4]))
                ops.append(["mul", c, k])
            else: ops.append(["div", Fr(rng.choice([1, 2, 4])), rng.choice(C13.KINDS)])
            if ops and ops[-1][0] == "merge":
                a = ops[-1][1]; n0 = C.axisd_len(axes[0]); size = size // n0 * ((n0 + a - 1) // a)
                axes = [["static", [[Fr(j), Fr(j + 1)] for j in range((n0 + a - 1) // a)], "F"]] + axes[1:]
                break      # operand bins are unknown to the generator afterwards
        if not ops: continue
        if nd == 1 and not big and rng.random() < (0.25 if adaptive else 0.05) and ops[-1][0] != "merge":
            ops.append(["opaque", "collection_create_sibling"])      # a member of a collection while a sibling is created / filled
        yield [["bucket", "%dd/%s/%s" % (nd, "adaptive" if adaptive else ("gapped" if gapped else "fixed"), sx.rec(h)["dtype"])],
               ["hist", h], ["ops", ops]]

def _cells(h):
    import numpy as np, itertools
    bb = C.snap_bins(h)
    fr = np.asarray(h.frequencies); e2 = np.asarray(h.errors2)
    out = []
    for idx in itertools.product(*[range(len(b)) for b in bb]):
        out.append([[bb[k][i] for k, i in enumerate(idx)], float(fr[idx]), float(e2[idx])])
    return out

def _shapes_ok(h):
    import numpy as np
    shape = tuple(b.bin_count for b in h._binnings)
    return (np.asarray(h.frequencies).shape == shape and np.asarray(h.errors2).shape == shape and
            all(b.bins.shape == (b.bin_count, 2) for b in h._binnings))

def _opaque(h, name):
    import numpy as np
    if name == "add_scalar": h += 5
    elif name == "sub_scalar": h -= 5
    elif name == "add_list": h += [1] * int(np.prod(h.shape))
    elif name == "mul_hist": h *= h.copy()
    elif name == "div_hist": h /= h.copy()
    elif name == "mul_list": h *= [2] * int(np.prod(h.shape))
    elif name == "merge_zero": h.merge_bins(0, inplace=True)
    elif name == "merge_half": h.merge_bins(1.5, inplace=True)
    elif name == "merge_all_gap":
        if h.ndim < 2: raise ValueError("n/a")
        h.merge_bins(2, inplace=True)
    elif name == "fill_str_weight": h.fill(0.5 if h.ndim == 1 else [0.5] * h.ndim, "heavy")
    elif name == "fill_wrong_dim": h.fill([0.5] * (h.ndim + 1))
    elif name == "fill_n_wrong_weights":
        data = np.zeros((3, h.ndim)) if h.ndim > 1 else np.zeros(3)
        if h.is_adaptive() and all(h.shape):      # values that would need new bins: a refusal must not leave the bins grown
            far = [float(h.get_bin_right_edges(i)[-1]) + 4.25 * float(h.get_bin_widths(i)[-1]) for i in range(h.ndim)] if h.ndim > 1 \
                else float(h.bin_right_edges[-1]) + 4.25 * float(h.bin_widths[-1])
            data = data + 0.25 + (np.array(far) if h.ndim > 1 else far)
            h.fill_n(data, weights=[1, 2])
        else:
            h.fill_n(data + 0.25, weights=[1, 2])
    elif name == "fill_n_wrong_cols": h.fill_n(np.zeros((2, h.ndim + 1)) + 0.25)
    elif name == "fill_n_strings": h.fill_n(["a", "b"] if h.ndim == 1 else [["a"] * h.ndim])
    elif name == "dtype_complex": h.dtype = np.complex128
    elif name == "bad_axis_merge": h.merge_bins(2, axis="no-such-axis", inplace=True)
    elif name == "set_freq_wrong_shape": h.frequencies = np.zeros(tuple(s + 1 for s in h.shape))
    elif name == "set_freq_negative": h.frequencies = -np.ones(h.shape)
    elif name == "set_err_negative": h.errors2 = -np.ones(h.shape)
    elif name == "collection_create_sibling":
        from physt.histogram_collection import HistogramCollection
        c = HistogramCollection(h)
        far = float(h.bin_right_edges[-1]) + 3.25 * float(h.bin_widths[-1]) if h.bin_count else 7.5
        c.create("sibling", [far, far + 0.25])
    elif name == "derive_then_grow":
        # both a histogram and what was derived from it stay well-formed when either grows afterwards (adaptive bins)
        if h.ndim < 2 or not h.is_adaptive(): raise ValueError("n/a")
        p = h.projection(0); q = h.select(1, 0); t = h.projection(1)
        far = [float(h.get_bin_right_edges(i)[-1]) + 2.25 * float(h.get_bin_widths(i)[-1]) if h.shape[i] else 7.5 for i in range(h.ndim)]
        t.fill(far[1] + 3.0)
        h.fill(far)
        if not (_shapes_ok(p) and _shapes_ok(q) and _shapes_ok(t) and _shapes_ok(h)):
            raise AssertionError("a derived histogram (or its source) no longer matches its bins")
    elif name == "iadd_then_grow":
        # the right operand of an adaptive += is left alone, also when the sum grows afterwards
        if not h.is_adaptive() or not all(h.shape): raise ValueError("n/a")
        b = h.copy()
        left = [float(h.get_bin_left_edges(i)[0]) - 3.25 * float(h.get_bin_widths(i)[0]) for i in range(h.ndim)] if h.ndim > 1 \
            else float(h.bin_left_edges[0]) - 3.25 * float(h.bin_widths[0])
        b.fill(left)
        h += b
        right = [float(h.get_bin_right_edges(i)[-1]) + 5.25 * float(h.get_bin_widths(i)[-1]) for i in range(h.ndim)] if h.ndim > 1 \
            else float(h.bin_right_edges[-1]) + 5.25 * float(h.bin_widths[-1])
        h.fill(right)
        return _shapes_ok(b) and _shapes_ok(h)
    elif name == "sub_more_unsigned":
        # subtracting more than is there is refused whatever the content dtype - also where the difference would wrap instead of going negative
        from physt.histogram1d import Histogram1D
        from physt.histogram_nd import HistogramND
        ok = True
        for dt in (np.uint8, np.uint16, np.uint32, np.uint64):
            bs = [b.copy() for b in h._binnings]
            if not all(b.bin_count for b in bs): continue
            one = np.ones(tuple(b.bin_count for b in bs), dtype=dt)
            mk = (lambda arr: Histogram1D(bs[0].copy(), arr.copy(), dtype=dt)) if len(bs) == 1 else (lambda arr: HistogramND([b.copy() for b in bs], arr.copy(), dtype=dt))
            a, b2 = mk(one), mk(one * 2)
            before = np.asarray(a.frequencies).tolist()
            try:
                a -= b2
                ok = False      # accepted: recorded contents can only be wrong
            except Exception:
                ok = ok and np.asarray(a.frequencies).tolist() == before
        return ok
    elif name == "normalize_bad_axis":
        if h.ndim != 2: raise ValueError("n/a")
        h.partial_normalize(5, inplace=True)
    else: raise KeyError(name)

def impl(case):
    import numpy as np, warnings
    d = sx.rec(case)
    h = C.mk_ah(d["hist"])
    out = []
    with warnings.catch_warnings():
        warnings.simplefilter("ignore")
        for op in d["ops"]:
            before = _cells(h); mb = [float(x) for x in np.asarray(h._missed).tolist()]
            raised = False; aux = None
            try:
                k = op[0]
                if k == "opaque": aux = _opaque(h, op[1])
                elif k == "fill":
                    idx = np.unravel_index(op[1], h.shape)
                    v = [float(h.get_bin_centers(i)[j]) for i, j in enumerate(idx)] if h.ndim > 1 else float(h.bin_centers[idx[0]])
                    h.fill(v, C13._scalar(op[2], op[3]))
                elif k == "add": h += C.mk_ah(op[1])
                elif k == "sub": h -= C.mk_ah(op[1])
                elif k == "mul": h *= (True if op[2] == "bool" else C13._scalar(op[1], op[2]))
                elif k == "div": h /= C13._scalar(op[1], op[2])
                elif k == "merge": h.merge_bins(op[1], axis=0, inplace=True)
                elif k == "set": h.dtype = np.dtype(op[1] if op[1] != "float128" else "longdouble")
            except Exception as e:
                raised = True
            try: after = _cells(h)
            except (IndexError, ValueError): after = before      # arrays no longer match the bins: reported through the shape flag
            out.append([raised, before, after, mb, [float(x) for x in np.asarray(h._missed).tolist()], _shapes_ok(h) and aux is not False])
    return out

def corr_view(case, obs): return [o[0] for o in obs]
def corr_equal(case, a, b):
    return all(y == "?" or x == y for x, y in zip(a, b)) and len(a) == len(b)

def classify(case, obs, model, verdict, corr, detail=""):
    """F15: the only malformed state is the one right after a sibling of an ADAPTIVE collection member was created"""
    d = sx.rec(case); ops = d["ops"]
    if verdict != "bad" or not ops or ops[-1] != ["opaque", "collection_create_sibling"]: return None
    if "adaptive" not in d["bucket"]: return None
    flags = [o[5] for o in obs]
    ok = lambda f: f is True or f == "T"
    if all(ok(f) for f in flags[:-1]) and not ok(flags[-1]): return "F15"
    return None

def nontrivial(case, obs):
    flags = [o[0] for o in obs]
    return "T" in flags and "F" in flags[:max(1, len(flags) - 1)] if False else (any(f == "T" or f is True for f in flags))

def shrink(case):
    d = sx.rec(case); ops = d["ops"]
    for i in range(len(ops)):
        d2 = dict(d); d2["ops"] = ops[:i] + ops[i + 1:]
        yield [[k, v] for k, v in d2.items()]
