"""C20 Plots show exactly the histogram's data and never modify it."""
from fractions import Fraction as Fr
import math
from harness import sx

N_QUICK, N_THOROUGH = 900, 8000
CASE_TIMEOUT = 60
RULE = ("what=plot1 (55%): 1-D histograms (1..7 irregular consecutive bins, int / float contents with zeros, custom errors2, name / "
        "title / axis name) x kind in matplotlib bar / scatter / line / fill / step, plotly bar / scatter / line x density x "
        "cumulative x errors x show_values x ticks (none / center / edge) x title / xlabel / ylabel overrides; what=plot2 (25%): 2-D "
        "histograms x matplotlib map (show_zero on/off, colour map Greys / viridis / default, density) / image (regular and "
        "irregular bins) / bar3d / polar_map of PolarHistograms / plotly map; what=ticks (8%): TimeTickHandler with levels sec / min / hour / day x multipliers over "
        "ranges with negative and fractional bounds, and edge / center; what=refusal (7%): wrong dimension for every kind of every "
        "backend, unknown backend, unknown kind; what=ascii (5%): hbar widths 10..120 with / without values. non-trivial = plot with "
        "density or cumulative or errors, or any 2-D plot")
MODELLED = ("get_data / get_err_data, the mark positions of each plot kind, the image layout, the colour normalisation and the tick "
            "rule are the model (coq/Model/Plot.v); matplotlib / plotly are not modelled: the artists and traces they were handed are "
            "read back (rectangles, offsets, line data, polygon vertices, error-bar segments, texts, image array and extent, face "
            "colours mapped back onto the colour map, trace x / y / width / z)")

def fl(x): return Fr(float(x))
KINDS1 = ["bar", "scatter", "line", "fill", "step", "plotly_bar", "plotly_scatter", "plotly_line"]

def gen_h1(rng):
    nb = rng.randint(1, 7)
    s = rng.choice([1, 1, 0.01, 100])
    x = fl(rng.uniform(-5, 5) * s); bins = []
    for _ in range(nb):
        y = fl(float(x) + rng.uniform(0.2, 3) * s); bins.append([x, y]); x = y
    ints = rng.random() < 0.5
    freq = [rng.choice([0, 1, 2, 5, 17, 100]) if ints else fl(rng.choice([0.0, rng.random() * 10, rng.random() * 1000])) for _ in range(nb)]
    if all(f == 0 for f in freq) and rng.random() < 0.8: freq[0] = 3 if ints else fl(2.5)
    err2 = list(freq) if rng.random() < 0.5 else [rng.randint(0, 30) if ints else fl(rng.random() * 20) for _ in range(nb)]
    return bins, freq, err2, ints

def gen(rng, n, tier):
    # a fixed sweep first: every helper name of every backend module must be refused as a plot kind (picks 1..13 avoid the
    # made-up names, which sit at the multiples of 4 ... except 4, 8, 12 - covered by the random stream below)
    for be in ("matplotlib", "plotly", "ascii"):
        for pick in (1, 2, 3, 5, 6, 7, 9, 10, 11, 13, 14, 15, 17):
            yield [["bucket", "refusal/unknown_kind"], ["what", "refusal"], ["why", "unknown_kind"], ["backend", be], ["ndim", 1 + pick % 2], ["pick", pick]]
    for i in range(n):
        r = rng.random()
        if r < 0.55:
            bins, freq, err2, ints = gen_h1(rng)
            kind = rng.choice(KINDS1)
            dens = rng.random() < 0.4; cum = rng.random() < 0.3
            errs = rng.random() < 0.4 and kind in ("bar", "scatter", "line")
            meta = {"name": rng.choice(["none", "nm"]), "title": rng.choice(["none", "A title"]), "axis_name": rng.choice(["none", "x [cm]"])}
            over = {"title": rng.choice(["none", "none", "T2"]), "xlabel": rng.choice(["none", "none", "X2"]), "ylabel": rng.choice(["none", "none", "Y2"])}
            want = [over["title"] if over["title"] != "none" else (meta["title"] if meta["title"] != "none" else (meta["name"] if meta["name"] != "none" else "")),
                    over["xlabel"] if over["xlabel"] != "none" else (meta["axis_name"] if meta["axis_name"] != "none" else "axis0"),
                    over["ylabel"] if over["ylabel"] != "none" else ""]
            ticks = rng.choice(["none", "none", "center", "edge"]) if not kind.startswith("plotly") or True else "none"
            if not kind.startswith("plotly") and rng.random() < 0.12:
                # time ticks on an axis whose limits are not the histogram's own range
                unit = rng.choice([1, 2, 5])
                lo_b, hi_b = float(bins[0][0]), float(bins[-1][1])
                ticks = ["time", unit, fl(math.floor(lo_b) - rng.choice([0.5, 3, 7.25])), fl(math.ceil(hi_b) + rng.choice([0.5, 4, 9.75]))]
            coll = "none"
            if kind in ("bar", "scatter", "line", "step", "plotly_bar", "plotly_scatter", "plotly_line") and rng.random() < 0.2 and not errs:
                coll = [rng.choice([0, 1, 2, 5, 17]) if ints else fl(rng.random() * 10) for _ in bins]
                if all(x == 0 for x in coll): coll[0] = 1 if ints else fl(1.5)
                want[0] = over["title"] if over["title"] != "none" else "The collection"
            yield [["bucket", "plot1/" + kind + ("/collection" if coll != "none" else "")], ["what", "plot1"], ["kind", kind], ["bins", bins], ["freq", freq], ["err2", err2], ["ints", "T" if ints else "F"], ["freq2", coll],
                   ["density", "T" if dens else "F"], ["cumulative", "T" if cum else "F"], ["errors", "T" if errs else "F"],
                   ["show_values", rng.choice("TF") if kind in ("bar", "scatter", "line", "step") else "F"], ["ticks", ticks],
                   ["meta", [[k, v] for k, v in meta.items()]], ["over", [[k, v] for k, v in over.items()]],
                   ["want_labels", want if not kind.startswith("plotly") else "n/a"]]
        elif r < 0.8:
            kind = rng.choice(["map", "map", "image", "plotly_map", "polar_map", "bar3d"])
            regular = kind == "image" and rng.random() < 0.6
            mixed = kind == "image" and not regular and rng.random() < 0.6
            reg_axis = rng.randint(0, 1)
            axes = []
            for a in range(2):
                nb = rng.randint(1, 5) if not (mixed and a != reg_axis) else rng.randint(3, 5); x = fl(rng.uniform(-3, 3)); b = []
                w0 = rng.choice([0.5, 1.0, 2.0])
                for k in range(nb):
                    isreg = regular or (mixed and a == reg_axis)
                    y = fl(float(x) + (w0 if isreg else (rng.uniform(0.2, 2) if not mixed else (0.5 if k else 1.75)))); b.append([x, y]); x = y
                axes.append(b)
            if kind == "polar_map":
                x = fl(rng.choice([0.0, 0.5])); r = []
                for _ in range(rng.randint(1, 4)):
                    y = fl(float(x) + rng.uniform(0.3, 2)); r.append([x, y]); x = y
                k = rng.randint(1, 5); e = [fl(2 * math.pi * j / k) for j in range(k + 1)]
                axes = [r, [[e[j], e[j + 1]] for j in range(k)]]
            size = len(axes[0]) * len(axes[1])
            ints = rng.random() < 0.5
            freq = [rng.choice([0, 0, 1, 2, 5, 17]) if ints else fl(rng.choice([0.0, rng.random() * 10])) for _ in range(size)]
            if all(f == 0 for f in freq): freq[0] = 2 if ints else fl(1.5)
            meta = {"title": rng.choice(["none", "T"]), "names": rng.choice(["none", ["xx", "yy"]])}
            want = [meta["title"] if meta["title"] != "none" else "", "axis0" if meta["names"] == "none" else "xx", "axis1" if meta["names"] == "none" else "yy"]
            if kind == "polar_map": want = "n/a"
            if kind == "polar_map" and meta["names"] == "none": pass
            co = rng.choice(["none", "min", "min", "log", ["minval", rng.choice(freq) if freq else 0]]) if kind == "map" else "none"
            yield [["bucket", "plot2/" + kind + ("/regular" if regular else "")], ["what", "plot2"], ["kind", kind], ["axes", axes], ["freq", freq], ["ints", "T" if ints else "F"],
                   ["density", rng.choice("TF") if kind != "plotly_map" else "F"], ["show_zero", rng.choice("TF") if co == "none" else rng.choice("TFFF")], ["cmap", rng.choice(["none", "Greys", "viridis", "coolwarm"])],
                   ["meta", [[k, v] for k, v in meta.items()]], ["want_labels", want if kind != "plotly_map" else "n/a"],
                   ["layout", rng.choice(["C", "C", "F"] + (["T", "T"] if meta["names"] != "none" else ["F"]))],
                   ["cmap_opt", co]]
        elif r < 0.88:
            level = rng.choice(["sec", "min", "hour", "day", "edge", "center"])
            mult = rng.choice([1, 1, 2, 5, 10, 15, 30, 0.5]) if level in ("sec", "day") else rng.choice([1, 1, 2, 5, 10, 15, 30])
            unit = {"sec": 1, "min": 60, "hour": 3600, "day": 86400}.get(level, 1) * mult
            lo = fl(rng.choice([0, -3.5, 10, 59, 60.0, -120, 3599.9]) * rng.choice([1, 1, 60, 3600]))
            hi = fl(float(lo) + float(unit) * rng.uniform(0.5, 9))
            yield [["bucket", "ticks/" + level], ["what", "ticks"], ["level", level], ["mult", fl(mult) if isinstance(mult, float) else mult], ["unit", fl(unit)], ["lo", lo], ["hi", hi]]
        elif r < 0.955:
            k = rng.choice(["wrong_dim", "wrong_dim", "unknown_backend", "unknown_kind", "unknown_kind"])
            yield [["bucket", "refusal/" + k], ["what", "refusal"], ["why", k], ["backend", rng.choice(["matplotlib", "plotly", "ascii"])], ["ndim", rng.choice([1, 2, 3])],
                   ["pick", rng.randint(0, 60)]]
        else:
            bins, freq, err2, ints = gen_h1(rng)
            if all(f == 0 for f in freq): freq[0] = 1
            yield [["bucket", "ascii"], ["what", "ascii"], ["bins", bins], ["freq", freq], ["ints", "T" if ints else "F"], ["width", rng.choice([10, 40, 80, 120])], ["show_values", rng.choice("TF")]]

def _h1(d):
    import numpy as np
    from physt.histogram1d import Histogram1D
    from physt.binnings import StaticBinning
    ints = d["ints"] == "T"
    conv = int if ints else float
    kw = {}
    m = dict(d.get("meta", []))
    if m.get("name", "none") != "none": kw["name"] = m["name"]
    if m.get("title", "none") != "none": kw["title"] = m["title"]
    if m.get("axis_name", "none") != "none": kw["axis_name"] = m["axis_name"]
    e2 = d.get("err2", d["freq"])
    return Histogram1D(StaticBinning(np.array([[float(a), float(b)] for a, b in d["bins"]])), np.array([conv(x) for x in d["freq"]]),
                       errors2=np.array([conv(x) for x in e2]), **kw)

def _snap(h):
    import numpy as np
    return [[b.bins.tolist() for b in h._binnings], np.asarray(h.frequencies).tolist(), np.asarray(h.errors2).tolist(), np.asarray(h._missed).tolist(),
            str(h.dtype), sorted((str(k), str(v)) for k, v in h.meta_data.items())]

def impl(case):
    import numpy as np, warnings, io, contextlib
    import matplotlib
    matplotlib.use("Agg")
    import matplotlib.pyplot as plt
    d = sx.rec(case)
    def f(a): return [float(x) for x in np.asarray(a, dtype=float).ravel()]
    with warnings.catch_warnings():
        warnings.simplefilter("ignore")
        try:
            if d["what"] == "plot1": return _plot1(d, f)
            if d["what"] == "plot2": return _plot2(d, f)
            if d["what"] == "ticks": return _ticks(d, f)
            if d["what"] == "refusal": return _refusal(d)
            if d["what"] == "ascii":
                h = _h1(d); buf = io.StringIO()
                with contextlib.redirect_stdout(buf):
                    h.plot("hbar", backend="ascii", width=d["width"], show_values=d["show_values"] == "T")
                lines = buf.getvalue().split("\n")[:h.bin_count]
                lens = [len(l.split(" ")[0]) if l.startswith("#") else 0 for l in lines]
                vals = "n/a"
                if d["show_values"] == "T": vals = [float(l.split(" ")[-1]) for l in lines]
                return [["freq", f(h.frequencies)], ["lengths", lens], ["values", vals]]
        finally:
            plt.close("all")
    raise KeyError(d["what"])

def _plot1(d, f):
    import numpy as np
    import matplotlib.pyplot as plt
    h = _h1(d); before = _snap(h)
    kind = d["kind"]
    target = h; h2m = None
    if d.get("freq2", "none") != "none":
        from physt.histogram_collection import HistogramCollection
        d2 = dict(d); d2["freq"] = d["freq2"]; d2["err2"] = d["freq2"]
        h2m = _h1(d2); h2m._binning = h._binning; h2m._binnings = h._binnings
        target = HistogramCollection(h, h2m, title="The collection")
    kw = {}
    if d["density"] == "T": kw["density"] = True
    if d["cumulative"] == "T": kw["cumulative"] = True
    plotly = kind.startswith("plotly_")
    if not plotly:
        if d["errors"] == "T": kw["errors"] = True
        if d["show_values"] == "T": kw["show_values"] = True
        for k, v in d["over"]:
            if v != "none": kw[k] = v
    if isinstance(d["ticks"], list):
        from physt.plotting.common import TimeTickHandler
        kw["tick_handler"] = TimeTickHandler("%ds" % int(d["ticks"][1])); kw["xlim"] = (float(d["ticks"][2]), float(d["ticks"][3]))
    elif d["ticks"] != "none": kw["ticks"] = d["ticks"]
    out = [["bins", [[float(a), float(b)] for a, b in h.bins.tolist()]], ["freq", f(h.frequencies)], ["err2", f(h.errors2)]]
    try:
        if plotly: fig = target.plot(kind[7:], backend="plotly", **kw)
        else: ax = target.plot(kind, backend="matplotlib", **kw)
    except (ValueError, TypeError, ZeroDivisionError) as e:
        return out + [["refused", type(e).__name__]]
    marks = []; errbars = "n/a"; texts = "n/a"; xticks = []
    if plotly:
        t = fig.data[0]
        if kind == "plotly_bar": marks = [[float(x), float(w), float(y)] for x, w, y in zip(t.x, t.width, t.y)]
        else: marks = [[float(x), float(y)] for x, y in zip(t.x, t.y)]
        tv = fig.layout.xaxis.tickvals
        xticks = [] if tv is None else [float(x) for x in tv]
        labels = "n/a"
    else:
        from matplotlib.container import ErrorbarContainer
        ebs = [c for c in ax.containers if isinstance(c, ErrorbarContainer)]
        if kind == "bar":
            marks = [[float(p.get_x()), float(p.get_width()), float(p.get_height())] for p in ax.patches]
        elif kind == "scatter":
            marks = [[float(x), float(y)] for x, y in ax.collections[-1].get_offsets()]
        elif kind == "line":
            ln = ebs[0].lines[0] if ebs else ax.lines[0]
            marks = [[float(x), float(y)] for x, y in ln.get_xydata()]
        elif kind == "step":
            marks = [[float(x), float(y)] for x, y in ax.lines[0].get_xydata()]
        elif kind == "fill":
            marks = [[float(x), float(y)] for x, y in ax.collections[0].get_paths()[0].vertices]
        if ebs:
            segs = ebs[0].lines[2][0].get_segments()
            errbars = [[float(s[0][0]), float(s[0][1]), float(s[1][1])] for s in segs]
        if d["show_values"] == "T" and kind in ("bar", "scatter", "line", "step"):
            texts = [[float(t.get_position()[0]), float(t.get_position()[1])] for t in ax.texts]
        labels = [ax.get_title(), ax.get_xlabel(), ax.get_ylabel()]
        xticks = [float(x) for x in ax.get_xticks()]
    if h2m is not None:
        n = len(d["bins"])
        if plotly:
            t = fig.data[1]
            marks2 = [[float(x), float(w), float(y)] for x, w, y in zip(t.x, t.width, t.y)] if kind == "plotly_bar" else [[float(x), float(y)] for x, y in zip(t.x, t.y)]
        elif kind == "bar": marks2 = marks[n:]; marks = marks[:n]
        elif kind == "scatter": marks2 = marks; marks = [[float(x), float(y)] for x, y in ax.collections[0].get_offsets()]
        elif kind in ("line", "step"): marks2 = [[float(x), float(y)] for x, y in ax.lines[1].get_xydata()]
        if texts != "n/a": texts = texts[:n]
        out += [["freq2", f(h2m.frequencies)], ["marks2", marks2]]
    out += [["marks", marks], ["errbars", errbars], ["texts", texts], ["labels", labels], ["xticks", xticks], ["unchanged", "T" if _snap(h) == before else "F"]]
    return out

def _plot2(d, f):
    import numpy as np
    import matplotlib.pyplot as plt
    from physt.histogram_nd import Histogram2D
    from physt.binnings import StaticBinning
    ints = d["ints"] == "T"; conv = int if ints else float
    bs = [StaticBinning(np.array([[float(a), float(b)] for a, b in ax])) for ax in d["axes"]]
    shape = tuple(len(a) for a in d["axes"])
    m = dict(d["meta"]); kw0 = {}
    if m["title"] != "none": kw0["title"] = m["title"]
    if m["names"] != "none": kw0["axis_names"] = m["names"]
    if d["kind"] == "polar_map":
        from physt.special_histograms import PolarHistogram
        h = PolarHistogram(bs, np.array([conv(x) for x in d["freq"]]).reshape(shape), **kw0)
    else:
        arr = np.array([conv(x) for x in d["freq"]]).reshape(shape)
        lay = d.get("layout", "C")
        if lay == "F": h = Histogram2D(bs, np.asfortranarray(arr), **kw0)      # contents that are not C-ordered in memory
        elif lay == "T":      # the same histogram obtained as the transpose of its transpose
            kwt = dict(kw0)
            if "axis_names" in kwt: kwt["axis_names"] = list(kwt["axis_names"])[::-1]
            h = Histogram2D(bs[::-1], np.ascontiguousarray(arr.T), **kwt).T
        else: h = Histogram2D(bs, arr, **kw0)
    before = _snap(h)
    kind = d["kind"]; kw = {}
    if d["density"] == "T": kw["density"] = True
    if d["cmap"] != "none" and kind != "plotly_map": kw["cmap"] = d["cmap"]
    co = d.get("cmap_opt", "none")      # options of the colour scale: they change colours, never which cells are drawn
    if kind == "map" and co != "none":
        vals = [float(x) for x in d["freq"]]
        if co == "log" and min(vals) > 0: kw["cmap_normalize"] = "log"
        elif co == "min": kw["cmap_min"] = "min"
        elif isinstance(co, list):      # a lower end inside the range of what is drawn (a scale whose ends coincide is refused, rightly)
            shown = np.asarray(h.densities if d["density"] == "T" else h.frequencies, dtype=float).ravel()
            if shown.max() > shown.min(): kw["cmap_min"] = float(shown.min() + 0.4 * (shown.max() - shown.min()))
    out = [["axes", [[[float(a), float(b)] for a, b in bb.bins.tolist()] for bb in h._binnings]], ["freq", f(h.frequencies)]]
    try:
        boxes = []
        if kind == "plotly_map": fig = h.plot("map", backend="plotly")
        elif kind == "polar_map": ax = h.plot("polar_map", backend="matplotlib", show_zero=d["show_zero"] == "T", **kw)
        elif kind == "bar3d":
            from mpl_toolkits.mplot3d import Axes3D
            orig = Axes3D.bar3d
            def rec(self, x, y, z, dx, dy, dz, *a, **k):
                boxes.extend([[float(a_) for a_ in t] for t in zip(*(np.broadcast_arrays(x, y, z, dx, dy, dz)))])
                return orig(self, x, y, z, dx, dy, dz, *a, **k)
            Axes3D.bar3d = rec
            try: ax = h.plot("bar3d", backend="matplotlib", **{k: v for k, v in kw.items() if k != "cmap"})
            finally: Axes3D.bar3d = orig
        elif kind == "map": ax = h.plot("map", backend="matplotlib", show_zero=d["show_zero"] == "T", **kw)
        else: ax = h.plot("image", backend="matplotlib", **kw)
    except (ValueError, TypeError) as e:
        return out + [["refused", type(e).__name__]]
    if kind == "plotly_map":
        t = fig.data[0]
        out += [["z", f(np.asarray(t.z))], ["zx", f(t.x)], ["zy", f(t.y)], ["labels", "n/a"]]
    elif kind == "bar3d":
        out += [["boxes", boxes], ["labels", [ax.get_title(), ax.get_xlabel(), ax.get_ylabel()]]]
    elif kind in ("map", "polar_map"):
        from matplotlib import patches as mp, colors as mc
        main = ax  # the colourbar lives in another axes
        cmap = plt.get_cmap(d["cmap"]) if d["cmap"] != "none" else None
        rects = [p for p in main.patches if isinstance(p, mp.Rectangle)]
        if cmap is None:
            from physt.plotting import matplotlib as pm
            cmap = plt.get_cmap(pm.default_cmap) if isinstance(pm.default_cmap, str) else pm.default_cmap
        table = cmap(np.linspace(0, 1, 256))
        def tof(c):
            c = np.asarray(mc.to_rgba(c)); return float(np.argmin(((table - c) ** 2).sum(axis=1))) / 255.0
        out += [["rects", [[float(p.get_x()), float(p.get_y()), float(p.get_width()), float(p.get_height()), tof(p.get_facecolor())] for p in rects]],
                ["labels", [main.get_title(), main.get_xlabel(), main.get_ylabel()] if kind == "map" else "n/a"]]
    else:
        im = ax.images[0]
        out += [["image", f(np.asarray(im.get_array()))], ["extent", [float(x) for x in im.get_extent()]], ["labels", [ax.get_title(), ax.get_xlabel(), ax.get_ylabel()]]]
    out.append(["unchanged", "T" if _snap(h) == before else "F"])
    return out

def _ticks(d, f):
    import numpy as np
    from physt.plotting.common import TimeTickHandler
    from physt import h1
    h = h1([1.0, 2.0, 3.5], [0.0, 1.0, 2.5, 4.0])
    level = d["level"]; mult = d["mult"]
    if level in ("edge", "center"):
        th = TimeTickHandler(level)
        ticks, labels = th(h, float(d["lo"]), float(d["hi"]))
        want = h.numpy_bins.tolist() if level == "edge" else list(h.bin_centers)
        return [["ticks", [float(x) for x in ticks]], ["nlabels", len(labels)], ["reference", [float(x) for x in want]]]
    spec = {"sec": "%ss", "min": "%sm", "hour": "%sh", "day": "%sd"}[level] % (("%g" % float(mult)) if float(mult) != 1 else "")
    th = TimeTickHandler(spec)
    ticks, labels = th(h, float(d["lo"]), float(d["hi"]))
    return [["ticks", [float(x) for x in ticks]], ["nlabels", len(labels)]]

def _refusal(d):
    import numpy as np
    from physt import h1, h2, h3
    import physt.plotting as pp
    hs = {1: h1([1.0, 2, 3], [0.0, 2, 4]), 2: h2([1.0, 2, 3], [1.0, 2, 3], [[0.0, 2, 4], [0.0, 2, 4]]), 3: h3(np.array([[1.0, 1, 1], [2, 3, 3]]), [[0.0, 2, 4]] * 3)}
    why = d["why"]
    try:
        if why == "unknown_backend": hs[1].plot("bar", backend="gnuplot_" + str(d["pick"]))
        elif why == "unknown_kind":
            # made-up names and names of things that live in the backend module but are no plot kinds
            helpers = ["get_data", "get_err_data", "get_value_format", "check_ndim", "register", "pop_many", "pop_kwargs_with_prefix", "types", "dims", "np", "HistogramCollection", "TimeTickHandler", "__name__"]
            name = "pie_%d" % d["pick"] if d["pick"] % 4 == 0 else helpers[d["pick"] % len(helpers)]
            hs[d["ndim"]].plot(name, backend=d["backend"])
        else:
            be = pp.backends[d["backend"]]
            kinds = [k for k in be.types if d["ndim"] not in be.dims[k]]
            if not kinds: return "refused"
            k = kinds[d["pick"] % len(kinds)]
            import io, contextlib
            with contextlib.redirect_stdout(io.StringIO()):
                hs[d["ndim"]].plot(k, backend=d["backend"])
        return "accepted"
    except (TypeError, ValueError, RuntimeError, NotImplementedError, KeyError):
        return "refused"

def corr_view(case, obs): return "-"
def corr_equal(case, a, b): return True

def nontrivial(case, obs):
    d = sx.rec(case)
    if d["what"] == "plot1": return "T" in (d["density"], d["cumulative"], d["errors"])
    return d["what"] in ("plot2", "ticks")
