"""C03 Incremental filling (fill / fill_n) equals batch construction."""
from fractions import Fraction as Fr
import math
from harness import sx, common as C

N_QUICK, N_THOROUGH = 1500, 60000
RULE = ("histories of 1..25 calls mixing fill / << / fill_n (empty batches, NaN rows, weights, wrong weight length) on 1-D and "
        "2-D/3-D histograms (all binning kinds, gapped, includes_right_edge on/off, keep_missed on/off, empty or pre-filled), "
        "values on every edge incl. the last; after every call: returned index, find_bin of the same value before the call, "
        "state unchanged by find_bin, contents, errors2, missed; at the end one-shot construction over the same bins. "
        "non-trivial = >=2 calls, >=1 fill and >=1 fill_n, something landed in a bin and something was missed/on an edge")
MODELLED = ("Histogram1D/HistogramND.find_bin, fill, fill_n and __lshift__ are modelled in coq/Model/Fill.v on top of the C01/C02 "
            "models; dtype coercion on fill is C13's subject (weights are chosen so that no rounding happens)")

def _pool(b):
    pool = []
    for x in b: pool += [x[0], x[1], (x[0] + x[1]) / 2]
    pool += [b[-1][1]] * 2 + [b[0][0]]
    for j in range(len(b) - 1):
        if b[j][1] < b[j + 1][0]: pool.append((b[j][1] + b[j + 1][0]) / 2)
    pool += [b[0][0] - 1, b[-1][1] + 1, b[0][0] - Fr(1, 8), b[-1][1] + Fr(1, 8)]
    return pool

def gen(rng, n, tier):
    for i in range(n):
        nd = rng.choice([1, 1, 1, 2, 2, 3])
        float_w = rng.random() < 0.5
        h = C.gen_hist(rng, ndim=nd, maxbins=5, gapped=0.3, weights=("float" if float_w else "int"), missed=True)
        d = sx.rec(h)
        prefilled = rng.random() < 0.4
        size = len(d["freq"])
        emptied = (not prefilled) and rng.random() < 0.3     # start from filled.copy(include_frequencies=False)
        pre = [d["freq"], d["err2"]]
        if not prefilled:
            d["freq"] = [0] * size; d["err2"] = [0] * size; d["missed"] = [0] * len(d["missed"])
        keep = "T" if rng.random() < 0.75 else "F"
        if keep == "F": d["missed"] = [0] * len(d["missed"])
        axes = [[b, "T" if C.b2(i) else "F"] for b, i in zip(d["bins"], d["incl"])]
        pools = [_pool(b) for b in d["bins"]]
        def val():
            return [("nan" if rng.random() < 0.008 else rng.choice(p)) for p in pools]
        def wt():
            return Fr(rng.randint(0, 24), 8) if (float_w or rng.random() < 0.25) else rng.choice([0, 1, 2, 3, 4, 16])
        ops = []
        for _ in range(rng.choice([1, 2, 3, 4, 6, 10, 25])):
            r = rng.random()
            if r < 0.45:
                ops.append(["fill", val(), rng.choice([1, wt()])])
            elif r < 0.5:
                ops.append(["lshift", val(), 1])
            else:
                m = rng.choice([0, 1, 2, 3, 5, 9])
                rows = [val() for _ in range(m)]
                if rng.random() < 0.5: ws, ok = "none", "T"
                else:
                    ws = [wt() for _ in range(m)]; ok = "T"
                    if m > 1 and rng.random() < 0.06: ws = ws[:-1]; ok = "F"
                ops.append(["fill_n", rows, ws, ok])
        init = [["axes", axes], ["freq", d["freq"]], ["err2", d["err2"]], ["missed", d["missed"]], ["keep_missed", keep]]
        mops = [(["fill", o[1], o[2]] if o[0] == "lshift" else o) for o in ops]
        yield [["bucket", "%dd/%s/%s" % (nd, "pre" if prefilled else "empty", "keep" if keep == "T" else "nokeep")],
               ["init", init], ["ops", mops], ["hist", [[k, v] for k, v in d.items()]],
               # impl-side only: how the call is spelled (a numpy integer scalar as the weight of fill), where the histogram comes from
               ["calls", [(o[0] + ":" + rng.choice(["int8", "int16", "int32"]) if o[0] == "fill" and isinstance(o[2], int) and o[2] != 1 and rng.random() < 0.4
                           else o[0]) for o in ops]],
               ["emptied", ["T"] + pre if emptied else ["F"]],
               ["premerged", "T" if (nd == 1 and not emptied and rng.random() < 0.25) else "F"],
               ["batch", "F" if prefilled else "T"]]

def _state(h):
    import numpy as np
    if h.ndim == 1: m = [float(h.underflow), float(h.overflow), float(h.inner_missed)]
    else: m = [float(h.missed)]
    return [np.asarray(h.frequencies).ravel().tolist(), np.asarray(h.errors2).ravel().tolist(), m]

def _ret(r):
    if r is None: return "none"
    if isinstance(r, tuple): return [int(x) for x in r]
    return [int(r)]

def impl(case):
    import numpy as np, physt
    d = sx.rec(case); hd = sx.rec(d["hist"]); init = sx.rec(d["init"])
    hd["keep_missed"] = init["keep_missed"]
    em = d.get("emptied", ["F"])
    if em[0] == "T":
        hd2 = dict(hd); hd2["freq"] = em[1]; hd2["err2"] = em[2]
        h = C.mk_hist(hd2).copy(include_frequencies=False)
        h.keep_missed = init["keep_missed"] == "T"
    elif d.get("premerged", "F") == "T" and len(hd["bins"]) == 1:
        # the same histogram reached by a history: twice as many bins, some look-ups (caches), then merge_bins(2, inplace=True) on all axes
        b0 = hd["bins"][0]
        fine = []
        for lo_, hi_ in b0: fine += [[lo_, (lo_ + hi_) / 2], [(lo_ + hi_) / 2, hi_]]
        hd2 = dict(hd); hd2["bins"] = [fine]; hd2["kinds"] = ["static"]
        hd2["freq"] = [x for c_ in hd["freq"] for x in (c_, 0)]; hd2["err2"] = [x for c_ in hd["err2"] for x in (c_, 0)]
        h = C.mk_hist(hd2)
        for lo_, hi_ in fine[:3]: h.find_bin(float((lo_ + hi_) / 2))
        h.find_bin(float(fine[-1][1]) + 1.0)
        h.merge_bins(2, inplace=True)
    else:
        h = C.mk_hist(hd)
    nd = h.ndim
    raw = lambda: repr([float(x) for x in np.atleast_1d(h.to_dict()["missed"])])
    steps = []
    allv, allw, valid = [], [], True
    def stats_of():
        st = getattr(h, "_stats", None)
        return None if st is None else repr([float(x) for x in (st.sum, st.sum2, st.min, st.max, st.weight)])
    def all_outside(op):      # every value of the call lies in no bin (NaN rows aside)
        vals = [op[1]] if op[0] == "fill" else op[1]
        for r in vals:
            x = [sx.fl(t) for t in r]
            if any(t != t for t in x): continue
            fb = h.find_bin(x[0] if nd == 1 else x)
            if fb is not None and fb != -1 and fb != (h.bin_count if nd == 1 else None): return False
        return True
    for op, call in zip(d["ops"], d["calls"]):
        raw0 = raw()
        st0 = stats_of(); out0 = (not h.keep_missed) and nd == 1 and not h.is_adaptive() and all_outside(op)
        call, _, npk = call.partition(":")
        if op[0] == "fill":
            v = [sx.fl(x) for x in op[1]]; w = op[2]
            w = float(w) if isinstance(w, Fr) and w.denominator != 1 else int(w)
            arg = v[0] if nd == 1 else v
            before = _state(h)
            try: fb = h.find_bin(arg)
            except Exception as e: fb = "exc:" + type(e).__name__
            if not C.same_snap(before, _state(h)): steps.append(["find_bin-modified-state"]); continue
            try:
                if call == "lshift":
                    r = h << arg; r = fb      # the alias returns nothing; the index is taken from find_bin
                else:
                    r = h.fill(arg, getattr(np, npk)(w) if npk else w) if w != 1 else h.fill(arg)
                ret = _ret(r)
                if _ret(fb) != ret: ret = "find_bin-disagrees"
            except Exception as e:
                ret = "refused"
            allv.append(v); allw.append(w)
        else:
            rows = np.array([[sx.fl(x) for x in r] for r in op[1]], dtype=float).reshape(-1, nd)
            arg = rows[:, 0] if nd == 1 else rows
            ws = None if op[2] == "none" else np.array([float(x) for x in op[2]])
            if ws is not None and all(float(x).is_integer() for x in ws) and str(h.dtype).startswith("int"): ws = ws.astype(np.int64)
            try:
                r = h.fill_n(arg, weights=ws) if ws is not None else h.fill_n(arg)
                ret = "void"
                for k, row in enumerate(rows.tolist()):
                    allv.append(row); allw.append(1 if ws is None else ws[k].item())
            except Exception as e:
                ret = "refused"
        if not h.keep_missed and raw() != raw0: steps.append(["untracked-missed-counters-changed", raw0, raw()]); continue
        if out0 and ret != "refused" and stats_of() != st0: steps.append(["untracked-values-changed-the-statistics", st0, stats_of()]); continue
        steps.append([ret] + _state(h))
    batch = "skip"
    if d["batch"] == "T" and allv:
        arr = np.array(allv, dtype=float).reshape(-1, nd); wa = np.array(allw)
        binnings = [b.copy() for b in h._binnings]
        try:
            if nd == 1: g = physt.h1(arr[:, 0], binnings[0], weights=wa, keep_missed=h.keep_missed)
            else: g = physt.h(arr, binnings, weights=wa)
            batch = _state(g)
            if nd > 1 and not h.keep_missed: batch[2] = [float("nan")]
        except Exception as e:
            batch = ["batch-refused", type(e).__name__]
    return [steps, batch]

def corr_view(case, obs):
    return obs[0]

def nontrivial(case, obs):
    d = sx.rec(case)
    calls = [c.partition(":")[0] for c in d["calls"]]
    return len(calls) >= 2 and "fill_n" in calls and ("fill" in calls or "lshift" in calls) and any(
        isinstance(s, list) and len(s) == 4 and sum(s[1]) > 0 for s in obs[0])

def classify(case, obs, model, verdict, corr, detail=None):
    return None      # F19 (fill(NaN) counted as overflow) was repaired in /repo (f3711c2): a return of it is a violation again

def shrink(case):
    d = sx.rec(case)
    ops, calls = d["ops"], d["calls"]
    for i in range(len(ops)):
        d2 = dict(d); d2["ops"] = ops[:i] + ops[i + 1:]; d2["calls"] = calls[:i] + calls[i + 1:]
        yield [[k, v] for k, v in d2.items()]
    for i, o in enumerate(ops):
        if o[0] == "fill_n" and len(o[1]) > 0 and o[3] == "T":
            for j in range(len(o[1])):
                o2 = ["fill_n", o[1][:j] + o[1][j + 1:], (o[2] if o[2] == "none" else o[2][:j] + o[2][j + 1:]), "T"]
                d2 = dict(d); d2["ops"] = ops[:i] + [o2] + ops[i + 1:]
                yield [[k, v] for k, v in d2.items()]
