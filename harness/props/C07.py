"""C07 Every binning schema is well-formed, covers its data and obeys its rule."""
from fractions import Fraction as Fr
import math
from harness import sx

N_QUICK, N_THOROUGH = 1500, 50000
RULE = ("kind=repr (35%): StaticBinning (consecutive, gapped, integer edges), NumpyBinning, FixedWidthBinning (shifted, with/without "
        "right edge), ExponentialBinning at scales 1e-7..1e7 with offsets up to 1e6 x scale: bins, numpy_bins, numpy_bins_with_mask, "
        "bin_count, first/last edge, is_consecutive, is_regular, copy, ==, as_static and 4 slices each are read. kind=rule (40%): "
        "numpy (count, range), fixed_width (width, range, right edge, shift, align), integer (width 1/2, range), pretty (count or "
        "ideal count, range), quantile (count or q list, qrange), exponential (count, range), static, astropy's scott / freedman / blocks, and the bin-count method names "
        "through calculate_1d_bins; data of 2..60 distinct doubles over 14 orders of magnitude and offsets; requests that cannot be "
        "served (one value, non-positive data for exponential) must be refused. kind=count (12%): n in 0..1e7 incl. perfect powers "
        "+-1 for sturges / sqrt / rice / default, random samples for doane. kind=refuse (13%): pairs / edges that are valid, "
        "unsorted, overlapping, zero-width or wrongly shaped. non-trivial = repr with >=3 bins, rule served, count with n>32, "
        "refuse always")
MODELLED = ("to_numpy_bins / make_bin_array / to_numpy_bins_with_mask / is_rising / is_consecutive / is_regular / slicing / __eq__ are "
            "modelled exactly over the observed pairs (coq/Model/Binning.v); the factories are NOT re-implemented: their rules are "
            "decidable predicates over exact rationals applied to the observed binning (grid alignment and geometric / quantile edges "
            "within 1e-9 relative, coverage and integer centring exact, numpy edges bit-identical to numpy.histogram_bin_edges)")

SCALES = [Fr(10) ** k for k in range(-7, 8)]

def fl(x): return Fr(float(x))

def gen_data(rng, n=None, positive=False):
    n = n or rng.choice([2, 3, 5, 8, 20, 60])
    s = rng.choice(SCALES)
    off = 0 if positive or rng.random() < 0.5 else rng.choice([1, -1]) * rng.choice([1, 10, 1000, 10 ** 6])
    out = set()
    while len(out) < n:
        v = (off + (rng.random() if not positive else 0.01 + rng.random()) * rng.choice([1, 1, 10])) * float(s)
        out.add(float(v))
    out = list(out); rng.shuffle(out)
    return [Fr(v) for v in out]

def gen_pairs(rng, n, gapped=False, ints=False, scale=Fr(1), off=Fr(0)):
    x = off * scale; out = []
    for i in range(n):
        if ints: w = rng.randint(1, 3)
        else: w = fl(float(scale) * rng.uniform(0.1, 2))
        if gapped and i and rng.random() < 0.4: x = (x + rng.randint(1, 2)) if ints else fl(float(x) + float(scale) * rng.uniform(0.1, 1))
        y = x + w if ints else fl(float(x) + float(w))
        out.append([x, y]); x = y
    return out

def gen(rng, n, tier):
    for i in range(n):
        r = rng.random()
        if r < 0.35:
            cls = rng.choice(["static", "static_gapped", "static_int", "numpy", "fixed", "fixed", "exp"])
            nb = rng.choice([1, 2, 3, 3, 4, 6, 9])
            s = rng.choice(SCALES); off = Fr(rng.choice([0, 0, 1, -3, 1000, -10 ** 6]))
            if cls.startswith("static"):
                spec = ["static", gen_pairs(rng, nb, gapped=cls == "static_gapped", ints=cls == "static_int", scale=s if cls != "static_int" else Fr(1), off=off), rng.choice("TF")]
                if rng.random() < 0.25 and cls == "static":      # regular
                    w = fl(float(s) * rng.uniform(0.1, 2)); x0 = fl(float(off * s))
                    spec[1] = [[fl(float(x0) + k * float(w)), fl(float(x0) + (k + 1) * float(w))] for k in range(nb)]
                    spec[1] = [[a, spec[1][k + 1][0] if k + 1 < nb else b] for k, (a, b) in enumerate(spec[1])]
            elif cls == "numpy":
                p = gen_pairs(rng, nb, scale=s, off=off); spec = ["numpy", [p[0][0]] + [b for a, b in p], rng.choice("TF")]
            elif cls == "fixed":
                spec = ["fixed", fl(float(s) * rng.choice([1, 0.5, 0.1, 0.25, 3])), nb, rng.randint(-50, 50), rng.choice([Fr(0), fl(float(s) * 0.05), Fr(0)]), rng.choice("TF")]
            else:
                spec = ["exp", fl(rng.uniform(-6, 6)), fl(rng.uniform(0.05, 1.5)), nb]
            sl = [[a, b] for a, b in ((rng.randint(0, nb), rng.randint(0, nb + 1)) for _ in range(4)) if a <= b]
            yield [["bucket", "repr/" + cls], ["kind", "repr"], ["spec", spec], ["slice_args", sl], ["perturb", rng.choice([0, 0, 1, 2])]]
        elif r < 0.75:
            if rng.random() < 0.06:
                # the grid given by its start: FixedWidthBinning(bin_width=w, bin_count=k, min=m) with decimal widths and starts
                # that are multiples of the width as written (1.7 with 0.1, 2.1 with 0.7 ...)
                w = rng.choice([0.1, 0.2, 0.3, 0.7, 0.05, 0.6, 1e-3, 2.5, 1.0, 0.25])
                mnv = fl(round(rng.randint(-60, 60) * w, 10)) if rng.random() < 0.8 else fl(rng.uniform(-5, 5))
                yield [["bucket", "rule/fixed_min"], ["kind", "rule"], ["method", "fixed_min"], ["data", []], ["range", "none"], ["must_refuse", "F"],
                       ["bin_width", fl(w)], ["bin_count", rng.randint(1, 12)], ["min", mnv], ["via", "factory"]]
                continue
            meth = rng.choice(["numpy", "numpy", "fixed_width", "fixed_width", "integer", "pretty", "pretty", "quantile", "exponential", "static", "countname", "scott", "freedman", "blocks"])
            data = gen_data(rng, positive=meth == "exponential", n=(rng.choice([8, 20, 60]) if meth in ("scott", "freedman", "blocks") else None))
            if meth in ("pretty", "fixed_width") and rng.random() < 0.3:
                # round data: the extremes are multiples of every candidate width (10^k * {1, 2, 2.5, 5}), so the maximum sits
                # exactly on a grid line and needs a bin of its own when the right edge is excluded
                sc = Fr(rng.choice([1, 1, 10, 100, 1000])) / rng.choice([1, 1, 2, 4])
                top = rng.choice([10, 20, 50, 100, 100, 200, 1000])
                data = [sc * rng.randint(0, top) for _ in range(rng.choice([3, 10, 30]))] + [sc * top, sc * 0 if rng.random() < 0.7 else sc * rng.randint(1, top // 2)]
            mn, mx = min(data), max(data)
            rngarg = "none"
            if rng.random() < 0.3 and meth not in ("quantile", "static", "countname", "scott", "freedman", "blocks"):
                lo = fl(float(mn) - float(mx - mn) * rng.uniform(0, 0.5)); hi = fl(float(mx) + float(mx - mn) * rng.uniform(0, 0.5))
                if meth == "exponential" and lo <= 0: lo = mn
                if meth == "integer": lo, hi = Fr(math.floor(mn)), Fr(math.ceil(mx) + 1)
                rngarg = [lo, hi]
            c = [["bucket", "rule/" + meth], ["kind", "rule"], ["method", meth], ["data", data], ["range", rngarg], ["must_refuse", "F"]]
            span = float(mx - mn)
            if meth in ("numpy", "exponential", "countname"):
                c.append(["bin_count", rng.choice([1, 2, 3, 5, 10, 17])])
                if meth == "countname": c[2] = ["method", "numpy"]; c.append(["countname", rng.choice(["sturges", "sqrt", "rice", "doane", "default"])])
                if rng.random() < 0.08:          # cannot be served
                    k = rng.choice(["one", "equal"] + (["nonpositive"] if meth == "exponential" else []))
                    if k == "one": data = data[:1]
                    elif k == "equal": data = [data[0]] * 3
                    else: data = [-abs(data[0])] + data[1:]
                    c[3] = ["data", data]; c[4] = ["range", "none"]; c[5] = ["must_refuse", "T"]
            elif meth == "fixed_width":
                w = fl(span / rng.choice([1.5, 3, 7, 20]) if rng.random() < 0.6 else float(rng.choice(SCALES)) * rng.choice([1, 0.5, 0.1, 2]))
                if span / float(w) > 400: w = fl(span / 20)
                c.append(["bin_width", w]); c.append(["incl", rng.choice("TF")])
                k = rng.random()
                if k < 0.6: c += [["shift_arg", "none"], ["align", "T"], ["want_shift", Fr(0)]]
                elif k < 0.85:
                    sh = fl(float(w) * rng.uniform(0.05, 0.95)); c += [["shift_arg", sh], ["align", "T"], ["want_shift", sh]]
                else: c += [["shift_arg", "none"], ["align", "F"], ["want_shift", "none"]]
            elif meth == "integer":
                data = [Fr(round(float(x) / float(max(1, abs(mx)) / 50 if abs(mx) > 50 else 1))) if rng.random() < 0.7 else fl(float(x) % 40) for x in data]
                data = list(dict.fromkeys(data)) or [Fr(0)]
                c[3] = ["data", data]; mn, mx = min(data), max(data)
                if rngarg != "none": c[4] = ["range", [Fr(math.floor(mn)), Fr(math.ceil(mx) + 1)]]
                c.append(["bin_width", Fr(rng.choice([1, 1, 1, 2]))])
            elif meth == "pretty":
                c.append(["bin_count", rng.choice(["none", 1, 3, 7, 10, 25])])
            elif meth == "quantile":
                nb = rng.randint(1, max(1, min(6, len(data) - 1)))
                if rng.random() < 0.5:
                    qr = rng.choice(["none", [Fr(1, 10), Fr(9, 10)], [Fr(0), Fr(1, 2)]])
                    lo, hi = (Fr(0), Fr(1)) if qr == "none" else qr
                    c += [["bin_count", nb], ["q_arg", "none"], ["qrange", qr], ["q", [fl(float(lo) + (float(hi) - float(lo)) * k / nb) for k in range(nb + 1)]]]
                else:
                    qs = sorted({fl(rng.random()) for _ in range(nb + 1)})
                    if len(qs) < 2: qs = [Fr(0), Fr(1)]
                    c += [["bin_count", "none"], ["q_arg", qs], ["qrange", "none"], ["q", qs]]
                c.append(["sorted", sorted(data)])
            elif meth == "static":
                p = gen_pairs(rng, rng.randint(1, 5), gapped=rng.random() < 0.4, scale=rng.choice(SCALES))
                c.append(["given", p]); c.append(["as_edges", "T" if all(p[k][1] == p[k + 1][0] for k in range(len(p) - 1)) and rng.random() < 0.5 else "F"])
            if meth in ("scott", "freedman", "blocks"): c.append(["sorted", sorted(data)])
            c.append(["via", rng.choice(["factory", "calculate_1d_bins"] + (["h2", "h2"] if meth == "fixed_width" and rngarg == "none" and len(data) >= 2 else []))])
            yield c
            if meth == "numpy" and rng.random() < 0.25:
                # a range too narrow for the bins: values a few representable numbers apart
                import numpy as np
                k = rng.choice([3, 5, 10, 17])
                base = float(rng.choice(data)) or 1.0
                steps = sorted(rng.sample(range(1, k), rng.randint(1, min(3, k - 1))))
                vals, cur, done = [Fr(base)], base, 0
                for st in steps:
                    for _ in range(st - done): cur = float(np.nextafter(cur, math.inf))
                    done = st; vals.append(Fr(cur))
                rng.shuffle(vals)
                yield [["bucket", "rule/numpy_narrow"], ["kind", "rule"], ["method", "numpy_narrow"], ["data", vals], ["range", "none"], ["must_refuse", "F"],
                       ["bin_count", k], ["via", rng.choice(["factory", "calculate_1d_bins"])]]
        elif r < 0.87:
            m = rng.choice(["sturges", "sqrt", "rice", "default", "doane"])
            if m == "doane":
                data = gen_data(rng, n=rng.choice([1, 2, 3, 5, 30, 200, 1000]))
                if rng.random() < 0.5: data = [fl(float(x) ** 2 / float(max(map(abs, data)))) for x in data]      # skewed
                yield [["bucket", "count/doane"], ["kind", "count"], ["method", m], ["n", len(data)], ["data", data]]
            else:
                base = rng.choice([rng.randint(0, 70), 2 ** rng.randint(1, 23), rng.randint(1, 215) ** 3, rng.randint(1, 3000) ** 2, rng.randint(1, 10 ** 7)])
                nn = max(0, base + rng.choice([-1, 0, 0, 1]))
                yield [["bucket", "count/" + m], ["kind", "count"], ["method", m], ["n", nn]]
        else:
            k = rng.choice(["valid", "unsorted", "overlap", "zero", "shape", "edges_valid", "edges_unsorted", "edges_equal"])
            s = rng.choice(SCALES)
            if k.startswith("edges") and rng.random() < 0.35:
                # small whole numbers handed over in a narrow or unsigned integer array (differences of unsigned numbers never go negative)
                e = sorted(rng.sample(range(0, 120), rng.randint(3, 6)))
                if k == "edges_unsorted": j = rng.randrange(len(e) - 1); e[j], e[j + 1] = e[j + 1], e[j]
                if k == "edges_equal": j = rng.randrange(len(e) - 1); e[j + 1] = e[j]
                yield [["bucket", "refuse/" + k + "/intarray"], ["kind", "refuse"], ["edges", [Fr(x) for x in e]], ["ctor", rng.choice(["NumpyBinning", "StaticBinning", "as_binning", "static_binning"])],
                       ["array_dtype", rng.choice(["uint8", "uint16", "uint32", "uint64", "int8", "int16"])]]
                continue
            if k.startswith("edges"):
                p = gen_pairs(rng, rng.randint(2, 5), scale=s); e = [p[0][0]] + [b for a, b in p]
                if k == "edges_unsorted": j = rng.randrange(len(e) - 1); e[j], e[j + 1] = e[j + 1], e[j]
                if k == "edges_equal": j = rng.randrange(len(e) - 1); e[j + 1] = e[j]
                yield [["bucket", "refuse/" + k], ["kind", "refuse"], ["edges", e], ["ctor", rng.choice(["NumpyBinning", "StaticBinning", "as_binning", "static_binning"])]]
            elif k == "shape":
                yield [["bucket", "refuse/shape"], ["kind", "refuse"], ["shape", rng.choice(["n3", "3d", "scalar"])], ["ctor", rng.choice(["StaticBinning", "as_binning", "static_binning"])]]
            else:
                p = gen_pairs(rng, rng.randint(2, 5), gapped=rng.random() < 0.5, scale=s)
                if k == "unsorted": j = rng.randrange(len(p) - 1); p[j], p[j + 1] = p[j + 1], p[j]
                if k == "overlap": j = rng.randrange(len(p) - 1); p[j + 1][0] = fl((float(p[j][0]) + float(p[j][1])) / 2)
                if k == "zero": j = rng.randrange(len(p)); p[j][1] = p[j][0]
                yield [["bucket", "refuse/" + k], ["kind", "refuse"], ["pairs", p], ["ctor", rng.choice(["StaticBinning", "as_binning", "static_binning"])]]

# ------------------------------------------------------------------ physt side
def _arr(v):
    import numpy as np
    ints = all(isinstance(x, int) for row in v for x in (row if isinstance(row, list) else [row]))
    return np.array([[x if ints else float(x) for x in row] if isinstance(row, list) else (row if ints else float(row)) for row in v])

def build(spec):
    from physt import binnings as B
    k = spec[0]
    if k == "static": return B.StaticBinning(_arr(spec[1]), includes_right_edge=spec[2] == "T")
    if k == "numpy": return B.NumpyBinning(_arr(spec[1]), includes_right_edge=spec[2] == "T")
    if k == "fixed": return B.FixedWidthBinning(bin_width=float(spec[1]), bin_count=spec[2], bin_times_min=spec[3], bin_shift=float(spec[4]), includes_right_edge=spec[5] == "T")
    if k == "exp": return B.ExponentialBinning(float(spec[1]), float(spec[2]), spec[3])
    raise KeyError(k)

def rng_pick(d): return len(d["data"]) % 2
def _tf(b): return "T" if b else "F"
def _try(f):
    try: return f()
    except Exception as e: return "error"

def bins_of(b):
    import numpy as np
    return [[float(x), float(y)] for x, y in np.asarray(b.bins, dtype=float).reshape(-1, 2).tolist()]

def afw(b):
    try: f = b.as_fixed_width()
    except ValueError: return "refused"
    except Exception as e: return "error:" + type(e).__name__
    return [int(f.bin_count), float(f.bin_width), float(f.first_edge)]

def slice_obs(s):
    return [bins_of(s), _try(lambda: [float(x) for x in s.numpy_bins]), int(s.bin_count), _try(lambda: float(s.first_edge)), _try(lambda: float(s.last_edge))]

def impl(case):
    import numpy as np, warnings
    from physt import binnings as B
    from physt._construction import calculate_1d_bins
    d = sx.rec(case)
    with warnings.catch_warnings():
        warnings.simplefilter("ignore")
        if d["kind"] == "repr":
            try: b = build(d["spec"])
            except ValueError: return "refused"
            bins = bins_of(b)
            c = b.copy()
            other = b.copy(); same = True
            if d["perturb"] == 1 and type(b).__name__ in ("StaticBinning", "NumpyBinning"):
                arr = np.array(b.bins, dtype=float); arr[-1, 1] = np.nextafter(arr[-1, 1], np.inf)
                other = B.StaticBinning(arr) if type(b).__name__ == "StaticBinning" else B.NumpyBinning(np.concatenate([arr[:1, 0], arr[:, 1]]))
                same = False
            if d["perturb"] == 2 and type(b).__name__ == "StaticBinning" and b.bin_count >= 2:
                # the same bins with a hair-line gap / a real gap in front of the last bin
                arr = np.array(b.bins, dtype=float)
                arr[-1, 0] = np.nextafter(arr[-1, 0], np.inf) if d["slice_args"] and len(d["slice_args"]) % 2 else (arr[-1, 0] + arr[-1, 1]) / 2
                other = B.StaticBinning(arr); same = False
            def eq_both():       # == in both directions, after the edge representations of b have been read (and cached)
                try: r1, r2 = bool(b == other), bool(other == b)
                except Exception: return not same
                return (r1 and r2) if same else (r1 or r2)
            def self_consistent():
                # agreement of a binning with itself beyond ==: the consecutiveness question asked with and without a tolerance
                # in either order (fresh objects: answers may be cached), one bin by integer, no selection that is not a binning
                ok = bool(b == b)
                exact = b.is_consecutive()
                for first in ("tolerant", "exact"):
                    z = build(d["spec"])
                    if first == "tolerant": t = z.is_consecutive(rtol=0.0, atol=1e300); e = z.is_consecutive()
                    else: e = z.is_consecutive(); t = z.is_consecutive(rtol=0.0, atol=1e300)
                    ok = ok and bool(t) and bool(e) == bool(exact)
                if b.bin_count >= 1:
                    ok = ok and [float(x) for x in np.asarray(b[0], dtype=float).ravel()] == bins[0]
                if b.bin_count >= 2:
                    try: b[::-1]; ok = False
                    except ValueError: pass
                return ok
            def mask():
                e, m = b.numpy_bins_with_mask
                return [[float(x) for x in e], [int(x) for x in m]]
            return [["cls", type(b).__name__], ["incl", _tf(b.includes_right_edge)], ["bins", bins],
                    ["bin_count", int(b.bin_count)], ["first_edge", _try(lambda: float(b.first_edge))], ["last_edge", _try(lambda: float(b.last_edge))],
                    ["numpy_bins", _try(lambda: [float(x) for x in b.numpy_bins])], ["mask", _try(mask)],
                    ["is_consecutive", _tf(b.is_consecutive())], ["is_regular", _try(lambda: _tf(b.is_regular()))],
                    ["slices", [_try(lambda a=a, e=e: slice_obs(b[a:e])) for a, e in d["slice_args"]]],
                    ["copy_bins", bins_of(c)], ["copy_eq", _tf(c == b and c is not b)], ["eq_self", _tf(_try(self_consistent) is True)],
                    ["as_static_bins", bins_of(b.as_static())], ["as_fixed_width", afw(b)], ["eq_other", _tf(eq_both())], ["other_same", _tf(same)]]
        if d["kind"] == "rule":
            data = np.array([float(x) for x in d["data"]])
            meth = d["method"]; kw = {}
            if d["range"] != "none": kw["range"] = (float(d["range"][0]), float(d["range"][1]))
            via = d["via"]
            extra = []
            try:
                if meth == "numpy":
                    k = d["bin_count"]
                    if "countname" in d:
                        b = calculate_1d_bins(data, d["countname"]); k = B.ideal_bin_count(data, d["countname"])
                    else:
                        b = B.numpy_binning(data, k, **kw) if via == "factory" else calculate_1d_bins(data, k, **kw)
                    dd = data if "range" not in kw else data[(data >= kw["range"][0]) & (data <= kw["range"][1])]
                    extra = [["ref", [float(x) for x in np.histogram_bin_edges(dd, k, **kw)]], ["k", int(k)]]
                elif meth == "numpy_narrow":
                    k = d["bin_count"]
                    b = B.numpy_binning(data, k) if via == "factory" else calculate_1d_bins(data, k)
                elif meth == "fixed_width":
                    kw2 = dict(kw, bin_width=float(d["bin_width"]), includes_right_edge=d["incl"] == "T")
                    if d["shift_arg"] != "none": kw2["bin_shift"] = float(d["shift_arg"])
                    if d["align"] == "F": kw2["align"] = False
                    if via == "h2":      # the same request through the N-d entry point: each axis gets what the 1-d factory gives
                        import physt
                        b = physt.h2(data, data, "fixed_width", **kw2)._binnings[rng_pick(d)]
                    else:
                        b = B.fixed_width_binning(data, **kw2) if via == "factory" else calculate_1d_bins(data, "fixed_width", **kw2)
                elif meth == "fixed_min":
                    b = B.FixedWidthBinning(bin_width=float(d["bin_width"]), bin_count=d["bin_count"], min=float(d["min"]))
                elif meth == "integer":
                    kw2 = dict(kw)
                    if d["bin_width"] != 1: kw2["bin_width"] = int(d["bin_width"])
                    b = B.integer_binning(data, **kw2) if via == "factory" else calculate_1d_bins(data, "integer", **kw2)
                elif meth == "pretty":
                    k = None if d["bin_count"] == "none" else d["bin_count"]
                    b = B.pretty_binning(data, k, **kw) if via == "factory" else calculate_1d_bins(data, "pretty", bin_count=k, **kw)
                    extra = [["used_bin_count", int(k if k is not None else B.ideal_bin_count(data))]]
                elif meth == "quantile":
                    kw2 = {}
                    if d["bin_count"] != "none": kw2["bin_count"] = d["bin_count"]
                    if d["q_arg"] != "none": kw2["q"] = [float(x) for x in d["q_arg"]]
                    if d["qrange"] != "none": kw2["qrange"] = (float(d["qrange"][0]), float(d["qrange"][1]))
                    b = B.quantile_binning(data, **kw2) if via == "factory" else calculate_1d_bins(data, "quantile", **kw2)
                elif meth == "exponential":
                    b = B.exponential_binning(data, d["bin_count"], **kw) if via == "factory" else calculate_1d_bins(data, "exponential", bin_count=d["bin_count"], **kw)
                elif meth in ("scott", "freedman", "blocks"):
                    b = B.binning_methods[meth](data) if via == "factory" else calculate_1d_bins(data, meth)
                    from astropy.stats import scott_bin_width, freedman_bin_width, bayesian_blocks
                    ref = {"scott": lambda: scott_bin_width(data, True)[1], "freedman": lambda: freedman_bin_width(data, True)[1], "blocks": lambda: bayesian_blocks(data)}[meth]()
                    extra = [["ref", [float(x) for x in ref]]]
                elif meth == "static":
                    g = _arr(d["given"])
                    if d["as_edges"] == "T": g = np.concatenate([g[:1, 0], g[:, 1]])
                    b = B.static_binning(data, bins=g) if via == "factory" else calculate_1d_bins(data, g)
                else: raise KeyError(meth)
            except ValueError:
                return "refused"
            if not np.all(np.isfinite(np.asarray(b.bins, dtype=float))):
                return [["cls", type(b).__name__], ["nonfinite", "T"]]
            out = [["cls", type(b).__name__], ["incl", _tf(b.includes_right_edge)], ["bins", bins_of(b)]] + extra
            if type(b).__name__ == "FixedWidthBinning":
                out += [["width", float(b._bin_width)], ["shift", float(b._shift)], ["tmin", int(b._times_min)]]
            return out
        if d["kind"] == "count":
            data = np.array([float(x) for x in d["data"]]) if "data" in d else np.zeros(d["n"])
            return int(B.ideal_bin_count(data, d["method"]))
        if d["kind"] == "refuse":
            if "pairs" in d: arg = _arr(d["pairs"])
            elif "edges" in d: arg = _arr(d["edges"])
            else: arg = {"n3": np.array([[0., 1, 2], [2, 3, 4]]), "3d": np.zeros((2, 2, 2)) + np.arange(2), "scalar": np.float64(3.0)}[d["shape"]]
            if "array_dtype" in d: arg = arg.astype(d["array_dtype"])
            try:
                f = {"StaticBinning": lambda: B.StaticBinning(arg), "NumpyBinning": lambda: B.NumpyBinning(arg), "as_binning": lambda: B.as_binning(arg),
                     "static_binning": lambda: B.static_binning(None, bins=arg)}[d["ctor"]]
                b = f(); b.bins
                return "accepted"
            except (ValueError, TypeError, IndexError):
                return "refused"
    raise KeyError(d["kind"])

def corr_view(case, obs):
    d = sx.rec(case)
    if d["kind"] == "repr" and isinstance(obs, list):
        o = sx.rec(obs)
        return [[k, o[k]] for k in ("bin_count", "first_edge", "last_edge", "numpy_bins", "mask", "is_consecutive", "is_regular", "slices") if k in o]
    if d["kind"] == "rule": return "refused" if obs == "refused" else "served"
    return obs

def corr_equal(case, a, b):
    d = sx.rec(case)
    if d["kind"] == "repr" and isinstance(a, list) and isinstance(b, list):
        bb = dict((k, v) for k, v in b)
        return all(sx.norm(v) == sx.norm(bb.get(k)) or bb.get(k) == "?" for k, v in a)
    if d["kind"] == "count": return True
    return sx.norm(a) == sx.norm(b)

def nontrivial(case, obs):
    d = sx.rec(case)
    if d["kind"] == "repr": return isinstance(obs, list) and sx.rec(obs).get("bin_count", 0) >= 3
    if d["kind"] == "rule": return obs != "refused"
    if d["kind"] == "count": return d["n"] > 32
    return True
