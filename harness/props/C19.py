"""C19 Free-arithmetics switch is scoped, restored and isolated per context."""
import os, sys, subprocess, atexit
from harness import sx

N_QUICK, N_THOROUGH = 600, 20000
RULE = ("schedules of 3..40 actions over up to 6 execution contexts (main asyncio task, asyncio tasks created by tasks or from "
        "threads, threads created by tasks or threads), forced into the generated interleaving: assignment of the option, "
        "__enter__/__exit__ of enable_free_arithmetics nested up to depth 4 with both values, an exception unwinding every open "
        "block, spawns inside open blocks, and reads that report config.free_arithmetics and whether a guarded operation "
        "(h+array, h+=array, list+h, h-array, h*array, h*=list, h/array, negative frequencies assignment (also beside NaN, 2-D), h*(-1), h-5h) is "
        "accepted; each schedule runs in a process started with PHYST_FREE_ARITHMETICS unset / '1' / '0' / 'true' / '' / '2'. "
        "non-trivial = >=2 contexts, >=1 read after another context changed its value, >=1 block closed")
MODELLED = ("physt.config._Config (ContextVar default from the environment, _set_value, _change_value with token reset in finally) "
            "and the five guards in histogram_base are modelled by coq/Model/Ctx.v as per-context binding + token stack; CPython's "
            "contextvars / asyncio / threading semantics (copy at task creation, empty context in a new thread) are the model's "
            "spawn rules and are exercised, not verified")

ENVS = ["none", "none", "none", "1", "1", "0", "true", "", "2"]
PROBES = ["add", "iadd", "radd", "sub", "mul", "imul", "div", "neg", "negnan", "negnd", "negmul", "negsub"]

def gen_schedule(rng, length, maxctx):
    alive = [0]; kind = {0: "task"}; depth = {0: 0}
    sched = []
    for _ in range(length):
        c = rng.choice(alive)
        r = rng.random()
        if r < 0.12 and len(alive) < maxctx:
            ch = len(alive)
            a = [rng.choice(["spawn_task", "spawn_thread"]), ch]
            alive.append(ch); depth[ch] = 0
        elif r < 0.24: a = ["set", rng.choice("TF")]
        elif r < 0.42 and depth[c] < 4: a = ["enter", rng.choice("TF")]; depth[c] += 1
        elif r < 0.56 and depth[c] > 0: a = ["exit"]; depth[c] -= 1
        elif r < 0.62 and depth[c] > 0: a = ["raise"]; depth[c] = 0
        else: a = ["read", rng.choice(PROBES)]
        sched.append([c, a])
    for c in alive:                      # every context reports what it sees at the end, then after leaving its blocks
        sched.append([c, ["read", rng.choice(PROBES)]])
    for c in alive:
        if depth[c] > 0:
            if rng.random() < 0.5:
                sched.append([c, ["raise"]])
            else:
                for _ in range(depth[c]): sched.append([c, ["exit"]])
            sched.append([c, ["read", rng.choice(PROBES)]])
    return sched

def gen(rng, n, tier):
    for i in range(n):
        if rng.random() < 0.05:
            # nested re-entry of ONE manager object: @config.enable_free_arithmetics(b) on a recursive function, left normally or by an
            # exception at the deepest level; the schedule is what the model sees
            depth = rng.randint(1, 4); b = rng.choice("TF"); rz = rng.choice("TF"); pk = rng.choice(["add", "neg", "imul", "negmul"])
            sched = []
            for _ in range(depth + 1): sched += [[0, ["enter", b]], [0, ["read", pk]]]
            sched += [[0, ["raise"]]] if rz == "T" else [[0, ["exit"]] for _ in range(depth + 1)]
            sched.append([0, ["read", pk]])
            yield [["bucket", "decorator/depth%d" % depth], ["env", "none"], ["schedule", sched], ["decorator", [depth, b, rz, pk]]]
            continue
        env = rng.choice(ENVS)
        length = rng.choice([3, 6, 10, 16, 25, 40])
        maxctx = rng.choice([1, 2, 3, 4, 6])
        sched = gen_schedule(rng, length, maxctx)
        nctx = 1 + sum(1 for c, a in sched if a[0].startswith("spawn"))
        yield [["bucket", "env=%s/ctx=%d" % (env if env != "" else "empty", nctx)], ["env", env], ["schedule", sched]]

_children = {}
def _child(env):
    p = _children.get(env)
    if p is None or p.poll() is not None:
        e = dict(os.environ)
        e.pop("PHYST_FREE_ARITHMETICS", None)
        if env != "none": e["PHYST_FREE_ARITHMETICS"] = env
        p = subprocess.Popen([sys.executable, "-m", "harness.ctxserver"], stdin=subprocess.PIPE, stdout=subprocess.PIPE, env=e, text=True, bufsize=1)
        _children[env] = p
    return p

@atexit.register
def _close():
    for p in _children.values():
        try: p.stdin.close(); p.wait(timeout=5)
        except Exception: p.kill()

def _decorated(d):
    """the same nesting spelled with the manager as a decorator of a recursive function (one manager object, re-entered)"""
    import os
    from physt.config import config
    from harness.ctxserver import probe
    assert os.environ.get("PHYST_FREE_ARITHMETICS") is None
    depth, b, rz, pk = d["decorator"]
    obs = []
    def read(): return [bool(config.free_arithmetics), probe(pk)]
    @config.enable_free_arithmetics(b == "T")
    def rec(n):
        obs.append("-"); obs.append(read())
        if n > 0:
            rec(n - 1)
        elif rz == "T":
            obs.append("-"); raise KeyError("leave every level")
        obs.append("-")
    try: rec(depth)
    except KeyError: pass
    obs.append(read())
    return obs

def impl(case):
    d = sx.rec(case)
    if "decorator" in d: return _decorated(d)
    p = _child(d["env"])
    try:
        p.stdin.write(sx.dumps(d["schedule"]) + "\n"); p.stdin.flush()
        line = p.stdout.readline()
        if not line: raise RuntimeError("context server died")
        return sx.loads(line)
    except BaseException:
        p.kill(); _children.pop(d["env"], None)
        raise

def nontrivial(case, obs):
    d = sx.rec(case); s = d["schedule"]
    ctxs = {c for c, a in s}
    return len(ctxs) >= 2 and any(a[0] in ("exit", "raise") for c, a in s) and any(a[0] in ("set", "enter") for c, a in s)

def shrink(case):
    d = sx.rec(case); s = d["schedule"]
    for i in range(len(s) - 1, -1, -1):
        t = s[:i] + s[i + 1:]
        yield [["bucket", d["bucket"]], ["env", d["env"]], ["schedule", t]]
