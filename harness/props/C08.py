"""C08 JSON round trip reproduces the histogram exactly."""
from fractions import Fraction as Fr
import math, struct
from harness import sx

N_QUICK, N_THOROUGH = 1200, 40000
RULE = ("kind=hist (70%): histograms of every class (Histogram1D/2D/ND 3-4 axes, Radial, Azimuthal, Polar, SphericalSurface, "
        "Spherical, Cylindrical) x binning type per axis (Static incl. gapped and integer edges, Numpy, FixedWidth incl. adaptive "
        "and empty, Exponential) x dtype (int16/32/64, float16/32/64; float128 as a separate stream; 4%: int8 / uint8..64, judged on dtype names and values only) x keep_missed x missed counts "
        "(zero, non-zero, NaN markers) x errors2 (equal to contents, different, within 1e-9 of contents) x metadata (name, title, "
        "axis names incl. None, nested custom JSON values, radius) built directly from constructors, or through the facade "
        "(h1/h2/h3/special, every binning method name) followed by fills of adaptive histograms / scaling / merges; values are "
        "arbitrary doubles (not only dyadic), subnormal and huge magnitudes, 2^62-size ints. kind=doc (15%): documents written by "
        "hand with optional keys removed or damaged. kind=version (10%): running and required versions from release / pre / post "
        "/ dev / epoch grammar and non-versions. kind=collection (5%): 0..4 members over the same bins, adaptive or not member by member. non-trivial = hist with non-zero missed or "
        "custom metadata or >=2 axes; doc/version/collection always")
MODELLED = ("to_dict/_update_dict of every histogram and binning class, save_json stamps, create_from_dict, from_dict, "
            "_kwargs_from_dict and the constructors' handling of frequencies/errors2/missed/keep_missed/meta/axis names are modelled "
            "(coq/Model/Json.v); json.dumps/json.loads (float repr round trip, NaN/Infinity tokens), numpy tolist/asarray and "
            "packaging.version parsing are exercised, not verified; bin edges computed from FixedWidth/Exponential parameters "
            "are compared bit for bit on the objects, not modelled")

CLASSES_1D = ["Histogram1D", "Histogram1D", "RadialHistogram", "AzimuthalHistogram"]
CLASSES_ND = {2: ["Histogram2D", "Histogram2D", "HistogramND", "PolarHistogram", "SphericalSurfaceHistogram"],
              3: ["HistogramND", "SphericalHistogram", "CylindricalHistogram"], 4: ["HistogramND"]}
DTYPES = ["int64", "int64", "int32", "int16", "float64", "float64", "float32", "float16"]
DT_MAX = {"int16": 2 ** 15 - 1, "int32": 2 ** 31 - 1, "int64": 2 ** 63 - 1}

def _f(x): return Fr(float(x))
def _round(dtype, v):
    import numpy as np
    return Fr(float(np.dtype(dtype).type(float(v))))

def gen_float(rng):
    r = rng.random()
    if r < 0.3: return Fr(rng.randint(0, 400), 8)
    if r < 0.7: return _f(rng.random() * 10 ** rng.randint(-3, 6))
    if r < 0.8: return _f(rng.choice([0.1, 0.2, 0.3, 1 / 3, 2 / 3, 1e-7, 123456.789]))
    if r < 0.9: return _f(rng.random() * 1e-300)
    return _f(rng.random() * 1e300)

def gen_axis(rng, allow_adaptive=True):
    k = rng.choice(["static", "static", "numpy", "fixed", "fixed", "exp"])
    n = rng.randint(1, 4)
    if k == "static":
        ints = rng.random() < 0.3
        x = rng.randint(-5, 5) if ints else _f(rng.uniform(-10, 10)); bins = []
        for _ in range(n):
            w = rng.randint(1, 3) if ints else _f(rng.uniform(0.1, 3))
            if bins and rng.random() < 0.3: x = x + (rng.randint(1, 2) if ints else _f(rng.uniform(0.1, 1)))
            bins.append([x, _f(float(x) + float(w)) if not ints else x + w]); x = bins[-1][1]
        return ["static", bins]
    if k == "numpy":
        ints = rng.random() < 0.2
        x = rng.randint(-5, 5) if ints else _f(rng.uniform(-10, 10)); e = [x]
        for _ in range(n):
            x = x + rng.randint(1, 3) if ints else _f(float(x) + rng.uniform(0.1, 3)); e.append(x)
        return ["numpy", e]
    if k == "fixed":
        ad = allow_adaptive and rng.random() < 0.4
        w = rng.choice([_f(rng.uniform(0.05, 3)), Fr(1, 2), Fr(1), _f(0.1)])
        if ad and rng.random() < 0.3: return ["fixed", 0, w, rng.choice([_f(0.0), _f(0.25)]) if False else _f(0.0), "none", "T"]
        shift = rng.choice([_f(0.0), _f(0.0), _f(float(w) * rng.random()), 0])
        return ["fixed", n, w, shift, rng.randint(-6, 6), "T" if ad else "F"]
    return ["exp", rng.choice([_f(rng.uniform(-2, 2)), rng.randint(-2, 2)]), rng.choice([_f(rng.uniform(0.1, 1)), 1]), n]

def axis_len(a):
    return len(a[1]) if a[0] == "static" else len(a[1]) - 1 if a[0] == "numpy" else a[1] if a[0] == "fixed" else a[3]

def gen_json_value(rng, depth=0):
    r = rng.random()
    if r < 0.2: return rng.randint(-10 ** 6, 10 ** 6)
    if r < 0.35: return float(gen_float(rng))
    if r < 0.55: return "".join(rng.choice("abcXYZ _-/éα") for _ in range(rng.randint(0, 6)))
    if r < 0.62: return None
    if r < 0.7: return rng.random() < 0.5
    if depth > 1: return 0
    if r < 0.85: return [gen_json_value(rng, depth + 1) for _ in range(rng.randint(0, 3))]
    return {rng.choice(["a", "b", "k1", "zeta", "B"]): gen_json_value(rng, depth + 1) for _ in range(rng.randint(0, 3))}

def gen_spec(rng, ndim=None, cls=None, f128=False):
    ndim = ndim or rng.choice([1, 1, 1, 2, 2, 3, 4])
    cls = cls or rng.choice(CLASSES_1D if ndim == 1 else CLASSES_ND[ndim])
    axes = [gen_axis(rng) for _ in range(ndim)]
    size = 1
    for a in axes: size *= axis_len(a)
    dtype = "float128" if f128 else rng.choice(DTYPES)
    isint = dtype.startswith("int")
    def val():
        if isint:
            r = rng.random()
            return rng.randint(0, 9) if r < 0.8 else rng.randint(0, DT_MAX[dtype]) if r < 0.9 else DT_MAX[dtype] >> rng.randint(0, 3)
        v = gen_float(rng)
        if dtype == "float16": v = Fr(rng.randint(0, 2000), rng.choice([1, 2, 8, 64]))
        if dtype == "float32" and v > 10 ** 30: v = Fr(3, 2) * 10 ** 30
        if dtype == "float128" and rng.random() < 0.4: return Fr(rng.randint(1, 10 ** 6), rng.choice([3, 7, 10, 1000003]))      # needs all 64 mantissa bits
        return _round(dtype, v) if dtype != "float128" else v
    freq = [val() for _ in range(size)]
    r = rng.random()
    if r < 0.5: err2 = list(freq)
    elif r < 0.8 or isint: err2 = [val() for _ in range(size)]
    else: err2 = [_round(dtype, float(x) * (1 + 1e-10)) if dtype != "float128" else x for x in freq]
    nm = 3 if ndim == 1 else 1
    r = rng.random()
    if r < 0.3: missed = [0] * nm
    elif r < 0.85 or ndim > 1: missed = [val() if isint else _round(dtype, rng.randint(0, 40)) if dtype != "float128" else rng.randint(0, 9) for _ in range(nm)]
    else: missed = ["nan", "nan", 0]
    keep = rng.random() < 0.8
    meta = {}
    if rng.random() < 0.6: meta["name"] = rng.choice([None, "n", "my hist", "été"])
    if rng.random() < 0.6: meta["title"] = rng.choice([None, "t", "A title: 100%"])
    for _ in range(rng.choice([0, 0, 1, 2])):
        meta[rng.choice(["custom", "unit", "run", "tags", "cfg"])] = gen_json_value(rng)
    if rng.random() < 0.3: meta["radius"] = rng.choice([1, 2, 2.5])
    names = "none" if rng.random() < 0.4 else [rng.choice(["x", "y", "pt", "eta", None, "a b"]) for _ in range(ndim)]
    return dict(cls=cls, axes=axes, dtype=dtype, freq=freq, err2=err2, missed=missed, keep=keep, meta=meta, names=names)

def spec_sx(s):
    return [["cls", s["cls"]], ["axes", s["axes"]], ["dtype", s["dtype"]], ["freq", s["freq"]], ["err2", s["err2"]], ["missed", s["missed"]],
            ["keep", "T" if s["keep"] else "F"], ["meta", canon(s["meta"])], ["names", s["names"] if s["names"] == "none" else canon(s["names"])]]

# ------------------------------------------------------------------ canonical JSON <-> sx
def canon(v, key=None):
    if v is None: return "null"
    if v is True: return "T"
    if v is False: return "F"
    if isinstance(v, int): return int(v)
    if isinstance(v, float):
        if math.isnan(v): return "nan"
        if math.isinf(v): return "inf" if v > 0 else "-inf"
        return Fr(v)
    if isinstance(v, Fr): return v
    if isinstance(v, str): return ["s", v]
    if isinstance(v, dict): return ["o"] + [[k, canon(v[k], k)] for k in sorted(v)]
    if isinstance(v, (list, tuple)):
        if key in ("frequencies", "errors2"):
            shape = []; x = v
            while isinstance(x, list):
                shape.append(len(x)); x = x[0] if x else None
            flat = [v]
            for _ in shape: flat = [y for x in flat for y in x]
            return ["nd", shape, [canon(x) for x in flat]]
        return ["a"] + [canon(x) for x in v]
    raise TypeError(type(v))

def uncanon(s, key=None):
    if s == "null": return None
    if s == "T": return True
    if s == "F": return False
    if s == "nan": return float("nan")
    if s == "inf": return float("inf")
    if s == "-inf": return float("-inf")
    if isinstance(s, int): return s
    if isinstance(s, Fr): return float(s)
    if isinstance(s, list):
        if s and s[0] == "s": return s[1]
        if s and s[0] == "o": return {k: uncanon(v) for k, v in s[1:]}
        if s and s[0] == "a": return [uncanon(x) for x in s[1:]]
        if s and s[0] == "nd":
            return _nest([uncanon(x) for x in s[2]], s[1])
    raise TypeError(repr(s)[:80])

def _nest(flat, shape):
    if len(shape) <= 1: return list(flat)
    step = 1
    for n in shape[1:]: step *= n
    return [_nest(flat[i * step:(i + 1) * step], shape[1:]) for i in range(shape[0])]

def spec_doc(s):
    """the document the schema prescribes for a spec (written by hand, not by physt)"""
    def num(x, isint):
        if x == "nan": return float("nan")
        return int(x) if isint else float(x)
    isint = s["dtype"].startswith("int")
    bs = []
    for a in s["axes"]:
        if a[0] == "static": bs.append({"adaptive": False, "binning_type": "StaticBinning", "bins": [[uncanon(canon(x)) for x in b] for b in a[1]]})
        elif a[0] == "numpy": bs.append({"adaptive": False, "binning_type": "NumpyBinning", "numpy_bins": [uncanon(canon(x)) for x in a[1]]})
        elif a[0] == "fixed": bs.append({"adaptive": a[5] == "T", "binning_type": "FixedWidthBinning", "bin_count": a[1], "bin_width": float(a[2]),
                                        "bin_shift": uncanon(canon(a[3])), "bin_times_min": None if a[4] == "none" else a[4]})
        else: bs.append({"adaptive": False, "binning_type": "ExponentialBinning", "log_min": uncanon(canon(a[1])), "log_width": uncanon(canon(a[2])), "bin_count": a[3]})
    shape = [axis_len(a) for a in s["axes"]]
    def nest(flat): return _nest(flat, shape)
    md = dict(s["meta"])
    if s["names"] != "none": md["axis_names"] = list(s["names"])
    mfloat = (not isint) or any(x == "nan" for x in s["missed"])
    return {"histogram_type": s["cls"], "binnings": bs, "frequencies": nest([num(x, isint) for x in s["freq"]]), "dtype": s["dtype"],
            "errors2": nest([num(x, isint) for x in s["err2"]]), "meta_data": md, "missed": [num(x, not mfloat) for x in s["missed"]],
            "missed_keep": s["keep"], "physt_version": "0.8.4", "physt_compatible": "0.3.20"}

MUTATIONS = ["drop:missed", "drop:missed_keep", "drop:meta_data", "drop:errors2", "drop:frequencies", "null:frequencies", "drop:binning_type",
             "drop:adaptive", "drop:bin_shift", "drop:bin_times_min", "bad:histogram_type", "bad:shape", "bad:negative", "bad:dimension",
             "bad:dtype", "drop:dtype", "bad:binning_type", "bad:names_len", "none", "none"]

def mutate(rng, d, m):
    k, _, w = m.partition(":")
    if k == "drop" and w in d: del d[w]
    elif k == "null": d[w] = None
    elif k == "drop":
        for b in d["binnings"]:
            if w == "bin_times_min" and b.get("bin_count", 0) != 0: continue      # a binning with bins needs its first edge
            b.pop(w, None)
    elif m == "bad:histogram_type": d["histogram_type"] = rng.choice(["Histogram3D", "histogram1d", "HistogramBase", ""])
    elif m == "bad:shape" and isinstance(d.get("frequencies"), list) and len(d["frequencies"]) > 0:
        d["frequencies"] = d["frequencies"] + [d["frequencies"][0]]
    elif m == "bad:negative" and isinstance(d.get("frequencies"), list) and d["frequencies"] and not isinstance(d["frequencies"][0], list):
        d["frequencies"][0] = -1; d.pop("errors2", None)
    elif m == "bad:dimension" and d["histogram_type"] not in ("Histogram1D", "RadialHistogram", "AzimuthalHistogram"):
        d["binnings"] = d["binnings"] + [d["binnings"][0]]      # (a 1-D class silently reads the first binning only: unspecified, not generated)
    elif m == "bad:dtype": d["dtype"] = rng.choice(["complex128", "str", "datetime64", "U3"])
    elif m == "bad:binning_type": d["binnings"][0]["binning_type"] = rng.choice(["Binning", "staticbinning"])
    elif m == "bad:names_len": d.setdefault("meta_data", {})["axis_names"] = ["q"] * (len(d["binnings"]) + 1)
    return d

VERSIONS = ["0.8.4", "0.3.20", "0.4.5", "0.8.5", "0.8.3", "0.9", "0.10", "0.10.0", "1.0", "1", "1.0.0", "0.8.4.0", "0.8.4.1", "0.8.4rc1", "0.8.4.dev1",
            "0.8.4.post1", "0.8.4a2", "0.8.4b1", "0.8.4rc2", "0.8.40", "0.80", "0.8", "1!0.1", "0.8.4.post1.dev2", "0.8.4a1.dev3", "0.08.04", "v0.8.4",
            "0.8.5.dev0", "0.8.5rc1", "0.9.0a1", "10.0", "2.0.0rc1"]
NONVERSIONS = ["", "abc", "0.8.x", "0..8", "1.0-", "latest"]

def ver_parts(s):
    from packaging.version import Version, InvalidVersion
    try: v = Version(s)
    except InvalidVersion: return "none"
    if v.local is not None: return "none"
    kind = {"a": 0, "b": 1, "rc": 2}
    return [["epoch", v.epoch], ["release", list(v.release)], ["pre", "none" if v.pre is None else [kind[v.pre[0]], v.pre[1]]],
            ["post", "none" if v.post is None else v.post], ["dev", "none" if v.dev is None else v.dev]]

def gen_version(rng):
    if rng.random() < 0.6: return rng.choice(VERSIONS)
    if rng.random() < 0.1: return rng.choice(NONVERSIONS)
    s = ".".join(str(rng.choice([0, 0, 1, 2, 8, 9, 10, 11, 20])) for _ in range(rng.randint(1, 4)))
    if rng.random() < 0.3: s += rng.choice(["a", "b", "rc"]) + str(rng.randint(0, 3))
    if rng.random() < 0.15: s += ".post" + str(rng.randint(0, 3))
    if rng.random() < 0.2: s += ".dev" + str(rng.randint(0, 3))
    return s

def gen(rng, n, tier):
    for i in range(n):
        r = rng.random()
        if rng.random() < 0.01:
            yield [["bucket", "late_class"], ["kind", "late_class"], ["n", rng.randint(0, 10 ** 6)]]
            continue
        if rng.random() < 0.04:
            # legal content dtypes outside the modelled enumeration: int8 and the unsigned integers (errors2 = contents)
            dt = rng.choice(["int8", "uint8", "uint16", "uint32", "uint64"])
            top = {"int8": 127, "uint8": 255, "uint16": 65535, "uint32": 2 ** 32 - 1, "uint64": 2 ** 63 - 1}[dt]
            nd = rng.choice([1, 1, 2]); nb = rng.randint(1, 4) * (2 if nd == 2 else 1)
            yield [["bucket", "narrow/" + dt], ["kind", "narrow"], ["dtype", dt], ["nd", nd],
                   ["freq", [rng.choice([0, 1, 7, top, top // 2]) for _ in range(nb)]], ["under", rng.choice([0, 1, 5])], ["over", rng.choice([0, 2])]]
            continue
        if r < 0.07:
            s = gen_spec(rng, f128=True)
            yield [["bucket", "hist/float128"], ["kind", "hist"], ["how", "direct"], ["spec", spec_sx(s)]]
        elif r < 0.5:
            s = gen_spec(rng)
            yield [["bucket", "hist/direct/%s" % s["cls"]], ["kind", "hist"], ["how", "direct"], ["spec", spec_sx(s)]]
        elif r < 0.7:
            route = rng.choice(ROUTES)
            yield [["bucket", "hist/route/" + route], ["kind", "hist"], ["how", "route"], ["route", route], ["seed", rng.randint(0, 10 ** 6)]]
        elif r < 0.85:
            s = gen_spec(rng, ndim=rng.choice([1, 1, 2, 3]))
            if s["dtype"] == "float16" or any(x == "nan" for x in s["missed"]): s["missed"] = [0] * len(s["missed"])
            m = rng.choice(MUTATIONS)
            d = mutate(rng, spec_doc(s), m)
            yield [["bucket", "doc/" + m], ["kind", "doc"], ["doc", canon(d)]]
        elif r < 0.95:
            cur, comp = gen_version(rng), gen_version(rng)
            yield [["bucket", "version"], ["kind", "version"], ["cur_s", cur], ["comp_s", comp], ["current", ver_parts(cur)], ["compatible", ver_parts(comp)]]
        else:
            k = rng.choice([0, 1, 2, 3, 4])
            ax = gen_axis(rng, allow_adaptive=False)
            ms = []
            mcls = rng.choice(["Histogram1D", "Histogram1D", "RadialHistogram", "AzimuthalHistogram"])      # members of one (sub)class
            for j in range(k):
                s = gen_spec(rng, ndim=1, cls=mcls); s["axes"] = [ax]
                if ax[0] == "fixed" and ax[1] > 0 and rng.random() < 0.5:      # members over the same bins may differ in adaptivity
                    s["axes"] = [ax[:5] + ["T"]]
                nb = axis_len(ax); s["freq"] = [rng.randint(0, 9) for _ in range(nb)]; s["err2"] = list(s["freq"])
                if any(x == "nan" for x in s["missed"]): s["missed"] = [0, 0, 0]
                ms.append(spec_sx(s))
            yield [["bucket", "collection/%d" % k], ["kind", "collection"], ["axis", ax], ["members", ms],
                   ["name", canon(rng.choice([None, "c", "coll 1"]))], ["title", canon(rng.choice([None, "T", "c"]))]]

ROUTES = ["h1_int", "h1_edges", "h1_fixed", "h1_fixed_adaptive_fill", "h1_exponential", "h1_quantile", "h1_pretty", "h1_integer", "h1_weights",
          "h1_gapped", "h1_nokeep", "h2_int", "h2_mixed", "h2_adaptive_fill", "h3", "polar", "radial", "azimuthal", "spherical", "spherical_surface",
          "cylindrical", "h1_scaled", "h1_normalized", "h1_merged", "h2_projection", "h1_f32_weights", "h1_empty_adaptive", "h2_empty_adaptive"]

# ------------------------------------------------------------------ physt side
def build_axis(a):
    import numpy as np
    from physt import binnings as B
    if a[0] == "static":
        ints = all(isinstance(x, int) for b in a[1] for x in b)
        return B.StaticBinning(np.array([[x if ints else float(x) for x in b] for b in a[1]]))
    if a[0] == "numpy":
        ints = all(isinstance(x, int) for x in a[1])
        return B.NumpyBinning(np.array([x if ints else float(x) for x in a[1]]))
    if a[0] == "fixed":
        return B.FixedWidthBinning(bin_width=float(a[2]), bin_count=a[1], bin_times_min=None if a[4] == "none" else a[4],
                                   bin_shift=(a[3] if isinstance(a[3], int) else float(a[3])), adaptive=a[5] == "T")
    return B.ExponentialBinning(a[1] if isinstance(a[1], int) else float(a[1]), a[2] if isinstance(a[2], int) else float(a[2]), a[3])

def build(spec):
    import numpy as np, physt
    from physt import special_histograms as sp
    from physt.histogram1d import Histogram1D
    from physt.histogram_nd import HistogramND, Histogram2D
    s = sx.rec(spec)
    cls = {"Histogram1D": Histogram1D, "Histogram2D": Histogram2D, "HistogramND": HistogramND}.get(s["cls"]) or getattr(sp, s["cls"])
    dt = np.dtype(s["dtype"] if s["dtype"] != "float128" else "longdouble")
    bs = [build_axis(a) for a in s["axes"]]
    shape = tuple(b.bin_count for b in bs)
    conv = (lambda x: int(x)) if dt.kind == "i" else (lambda x: sx.fl(x))
    if dt == np.longdouble:
        conv = lambda x: (np.longdouble(x.numerator) / np.longdouble(x.denominator)) if isinstance(x, Fr) else np.longdouble(sx.fl(x))
    freq = np.array([conv(x) for x in s["freq"]], dtype=dt).reshape(shape)
    err2 = np.array([conv(x) for x in s["err2"]], dtype=dt).reshape(shape)
    meta = uncanon(s["meta"])
    kw = dict(meta)
    if s["names"] != "none": kw["axis_names"] = tuple(uncanon(s["names"]))
    keep = s["keep"] == "T"
    missed = [sx.fl(x) if (x == "nan" or dt.kind == "f") else int(x) for x in s["missed"]]
    if len(bs) == 1 and issubclass(cls, Histogram1D):
        h = cls(bs[0], freq, errors2=err2, dtype=dt, keep_missed=keep, underflow=missed[0], overflow=missed[1], inner_missed=missed[2], **kw)
    else:
        h = cls(bs, freq, errors2=err2, dtype=dt, keep_missed=keep, missed=missed[0], **kw)
    return h

def route(name, seed):
    import numpy as np, random
    from physt import h1, h2, h3, special_histograms as sp
    rng = random.Random(seed); nr = np.random.RandomState(seed)
    n = rng.choice([0, 1, 5, 40]) if not name.startswith(("h1_quantile", "h1_pretty", "h1_exponential", "h1_int", "h2_int", "h1_integer", "h1_fixed", "h2_adaptive")) else rng.choice([5, 40])
    x = nr.normal(3, 2, n); y = nr.exponential(2, n) + 0.1; z = nr.uniform(-1, 1, n)
    if name == "h1_int": return h1(x, rng.randint(1, 6), name="route")
    if name == "h1_edges": return h1(x, [0, 1, 2.5, 4, 8])
    if name == "h1_fixed": return h1(x, "fixed_width", bin_width=rng.choice([0.5, 0.1, 2]))
    if name == "h1_fixed_adaptive_fill":
        h = h1(x, "fixed_width", bin_width=rng.choice([0.5, 0.3, 2]), adaptive=True)
        for v in nr.normal(0, 5, rng.randint(1, 6)): h.fill(v, weight=rng.choice([1, 1, 0.5]))
        return h
    if name == "h1_exponential": return h1(y, "exponential", bin_count=rng.randint(1, 5))
    if name == "h1_quantile": return h1(x, "quantile", bin_count=rng.randint(1, 4))
    if name == "h1_pretty": return h1(x, "pretty")
    if name == "h1_integer": return h1(np.round(x), "integer")
    if name == "h1_weights": return h1(x, [0, 2, 4, 6], weights=nr.uniform(0, 3, n))
    if name == "h1_gapped": return h1(x, [[0, 1], [1, 2], [3, 4.5]], dtype=rng.choice([None, float]))
    if name == "h1_nokeep": return h1(x, [0, 2, 4], keep_missed=False)
    if name == "h2_int": return h2(x, y, rng.randint(1, 4), axis_names=["x", "y"])
    if name == "h2_mixed": return h2(x, y, [[0, 2, 4], "fixed_width"], bin_width=1.5) if n else h2(x, y, [[0, 2, 4], [0, 1, 2]])
    if name == "h2_adaptive_fill":
        h = h2(x, y, "fixed_width", bin_width=rng.choice([1, 0.5, 0.3]), adaptive=True)
        for _ in range(rng.randint(1, 4)): h.fill([nr.normal(0, 4), nr.normal(0, 4)])
        return h
    if name == "h3": return h3(np.stack([x, y, z], axis=1), [[0, 2, 4], [0, 1, 3], [-1, 0, 1]], title="3d")
    if name == "polar": return sp.polar(x, y, radial_bins=[0, 1, 3, 10], phi_bins=rng.randint(2, 5))
    if name == "radial": return sp.radial(x, y, bins=[0, 1, 3, 10])
    if name == "azimuthal": return sp.azimuthal(x, y, bins=rng.randint(2, 6))
    d3 = np.stack([x, y, z], axis=1)
    if name == "spherical": return sp.spherical(d3, radial_bins=[0, 2, 5], theta_bins=2, phi_bins=3)
    if name == "spherical_surface": return sp.spherical_surface(d3, theta_bins=2, phi_bins=3)
    if name == "cylindrical": return sp.cylindrical(d3, rho_bins=[0, 2, 5], phi_bins=3, z_bins=[-1, 0, 1])
    if name == "h1_scaled": return h1(x, [0, 2, 4, 6]) * rng.choice([2, 0.5, 3])
    if name == "h1_normalized": return h1(np.append(x, 1.0), [0, 2, 4, 6]).normalize()
    if name == "h1_merged": return h1(x, [0, 1, 2, 3, 4]).merge_bins(2)
    if name == "h2_projection": return h2(x, y, [[0, 2, 4], [0, 1, 3]]).projection(rng.choice([0, 1]))
    if name == "h1_f32_weights": return h1(x, [0, 2, 4, 6], weights=nr.uniform(0, 3, n), dtype="float32")
    if name == "h1_empty_adaptive": return h1(None, "fixed_width", bin_width=rng.choice([1, 0.1]), adaptive=True)
    if name == "h2_empty_adaptive": return h2(None, None, "fixed_width", bin_width=1, adaptive=True)
    raise KeyError(name)

def snap_axis(b):
    t = type(b).__name__
    ad = "T" if b.is_adaptive() else "F"
    def nums(a): return [canon(x) for x in a.tolist()]
    if t == "StaticBinning": return [["type", t], ["adaptive", ad], ["bins", nums(b.bins.ravel())]]
    if t == "NumpyBinning": return [["type", t], ["adaptive", ad], ["edges", nums(b.numpy_bins)]]
    if t == "FixedWidthBinning":
        tm = b._times_min
        return [["type", t], ["adaptive", ad], ["count", int(b._bin_count)], ["width", canon(float(b._bin_width))], ["shift", canon(_py(b._shift))],
                ["tmin", "null" if tm is None else int(tm)]]
    if t == "ExponentialBinning":
        return [["type", t], ["adaptive", ad], ["count", canon(_py(b._bin_count))], ["lmin", canon(_py(b._log_min))], ["lwidth", canon(_py(b._log_width))]]
    return [["type", t], ["adaptive", ad]]

def _py(v):
    import numpy as np
    if isinstance(v, np.generic): return v.item()
    return v

def snapshot(h):
    import numpy as np
    from harness import common as C
    md = {k: v for k, v in h.meta_data.items() if k != "axis_names"}
    def arr(a):
        a = np.asarray(a)
        if a.dtype == np.longdouble: return [(canon(float(x)) if not np.isfinite(x) else Fr(*x.as_integer_ratio())) for x in a.ravel()]
        return [canon(x) for x in a.ravel().tolist()]
    m = [["cls", type(h).__name__], ["axes", [snap_axis(b) for b in h._binnings]], ["dtype", C.dtype_name(h.dtype)],
         ["freq", arr(h.frequencies)], ["err2", arr(h.errors2)], ["missed", arr(h._missed)], ["missed_float", "T" if np.asarray(h._missed).dtype.kind == "f" else "F"],
         ["keep", "T" if h.keep_missed else "F"], ["meta", [[k, canon(md[k])] for k in sorted(md)]], ["names", [canon(x) for x in h.axis_names]]]
    p = [["bins", [[canon(x) for x in np.asarray(b.bins, dtype=float).ravel().tolist()] for b in h._binnings]],
         ["array_dtypes", [C.dtype_name(h.frequencies.dtype), C.dtype_name(h.errors2.dtype)]], ["shape", list(h.shape)],
         ["adaptive", "T" if h.is_adaptive() else "F"]]
    if h.ndim == 1: p.append(["under_over_inner", [canon(float(h.underflow)), canon(float(h.overflow)), canon(float(h.inner_missed))]])
    else: p.append(["missed", canon(float(h.missed))])
    return [["m", m], ["p", p]]

def _f128(d):
    """float128 contents travel as decimal strings (JSON numbers are binary64): read them as numbers again"""
    import numpy as np
    def conv(x):
        if isinstance(x, list): return [conv(y) for y in x]
        if isinstance(x, str):
            v = np.longdouble(x)
            return float(v) if not np.isfinite(v) else Fr(*v.as_integer_ratio())
        return x
    if isinstance(d, dict) and d.get("dtype") == "float128":
        d = dict(d)
        for k in ("frequencies", "errors2", "missed"):
            if k in d: d[k] = conv(d[k])
    return d

def _strip(d):
    d = _f128(d)
    d = dict(d); d.pop("physt_version", None); d.pop("physt_compatible", None)
    if "histograms" in d: d["histograms"] = [_strip(x) for x in d["histograms"]]
    return d

def impl(case):
    import json, os, tempfile, warnings
    import numpy as np
    from physt.io import parse_json, load_json
    d = sx.rec(case)
    with warnings.catch_warnings():
        warnings.simplefilter("ignore")
        if d["kind"] == "hist":
            h = build(d["spec"]) if d["how"] == "direct" else route(d["route"], d["seed"])
            out = [["before", snapshot(h)]]
            try:
                t = h.to_json()
            except Exception as e:
                return out + [["error", "to_json:" + type(e).__name__]]
            out.append(["doc1", canon(_strip(json.loads(t)))])
            try:
                g = parse_json(t)
            except Exception as e:
                return out + [["error", "parse_json:" + type(e).__name__]]
            out += [["after", snapshot(g)], ["doc2", canon(_strip(json.loads(g.to_json())))], ["eq", "T" if h == g else "F"], ["cls_same", "T" if type(g) is type(h) else "F"]]
            fd, path = tempfile.mkstemp(suffix=".json", dir="/dev/shm" if os.path.isdir("/dev/shm") else None); os.close(fd)
            try:
                h.to_json(path=path); out.append(["file", snapshot(load_json(path))])
            except Exception as e:
                out.append(["file", "error:" + type(e).__name__])
            finally:
                os.unlink(path)
            return out
        if d["kind"] == "late_class":
            from physt.histogram1d import Histogram1D
            from physt.binnings import StaticBinning
            parse_json(Histogram1D([0, 1, 2], [1, 2]).to_json())      # the reader has been used before the classes below exist
            Late = type("LateHistogram%d" % d["n"], (Histogram1D,), {})
            LateB = type("LateBinning%d" % d["n"], (StaticBinning,), {})
            h = Late(LateB(np.array([[0.0, 1.0], [1.0, 2.5]])), [d["n"] % 7, 3])
            try:
                g = parse_json(h.to_json())
                return [["same_class", "T" if type(g) is Late else "F"], ["eq", "T" if g == h else "F"], ["binning_class", "T" if type(g.binning) is LateB else "F"]]
            except Exception as e:
                return [["error", type(e).__name__]]
        if d["kind"] == "narrow":
            from physt.histogram1d import Histogram1D
            from physt.histogram_nd import Histogram2D
            dt = np.dtype(d["dtype"]); f = np.array(d["freq"], dtype=dt)
            if d["nd"] == 1: h = Histogram1D(list(range(len(f) + 1)), f, dtype=dt, underflow=d["under"], overflow=d["over"])
            else: h = Histogram2D([list(range(len(f) // 2 + 1)), [0, 1, 2]], f.reshape(-1, 2), dtype=dt, missed=d["under"])
            try:
                g = parse_json(h.to_json())
                doc2 = json.loads(g.to_json())
            except Exception as e:
                return [["error", type(e).__name__]]
            mis = (lambda x: [float(x.underflow), float(x.overflow)] if d["nd"] == 1 else [float(x.missed)])
            return [["dtypes_after", [str(g.dtype), str(g.frequencies.dtype), str(g.errors2.dtype), str(doc2["dtype"])]],
                    ["freq_after", [int(x) for x in g.frequencies.ravel()]], ["err2_after", [int(x) for x in g.errors2.ravel()]],
                    ["missed_before", mis(h)], ["missed_after", mis(g)]]
        if d["kind"] == "doc":
            doc = uncanon(d["doc"])
            # arrays are written as nested lists again
            try: g = parse_json(json.dumps(doc))
            except Exception as e: return "refused"
            return sx.rec(snapshot(g))["m"]
        if d["kind"] == "version":
            import physt.io.version as V
            from physt import h1
            t = json.loads(h1([1, 2], [0, 1, 2]).to_json()); t["physt_compatible"] = d["comp_s"]
            old = V.CURRENT_VERSION; V.CURRENT_VERSION = d["cur_s"]
            try:
                parse_json(json.dumps(t)); return "accepted"
            except Exception as e:
                return "refused"
            finally:
                V.CURRENT_VERSION = old
        if d["kind"] == "collection":
            from physt.histogram_collection import HistogramCollection
            ms = [build(m) for m in d["members"]]
            name, title = uncanon(d["name"]), uncanon(d["title"])
            if ms:
                c = HistogramCollection(*ms, name=name, title=title)
            else:
                c = HistogramCollection(binning=build_axis(d["axis"]), name=name, title=title)
            def csnap(c): return [[snapshot(m) for m in c.histograms], snap_axis(c.binning), canon(c.name), canon(c.title)]
            out = [["before", csnap(c)]]
            try:
                t = c.to_json(); out.append(["doc1", canon(_strip(json.loads(t)))])
                g = parse_json(t)
                out += [["after", csnap(g)], ["doc2", canon(_strip(json.loads(g.to_json())))]]
            except Exception as e:
                out.append(["error", type(e).__name__])
            return out
    raise KeyError(d["kind"])

def _rec(v):
    try: return sx.rec(v)
    except Exception: return {}

def corr_view(case, obs):
    d = sx.rec(case)
    if d["kind"] == "hist":
        o = _rec(obs)
        if "after" not in o: return ["?", "?"]
        return [o["doc1"], sx.rec(o["after"])["m"]]
    if d["kind"] == "collection":
        o = _rec(obs)
        if "after" not in o: return "?"
        a = o["after"]
        return [[sx.rec(m)["m"] for m in a[0]], a[1], a[2], a[3]]
    if d["kind"] in ("narrow", "late_class"): return d["kind"]      # no model run for dtypes outside the enumeration: the judge decides alone
    return obs

def classify(case, obs, model, verdict, corr, detail=""):
    return None      # F27 (float128 could not be serialised) was repaired in /repo: a return of it is a violation again

def nontrivial(case, obs):
    d = sx.rec(case)
    if d["kind"] != "hist": return True
    o = _rec(obs)
    if "before" not in o: return False
    m = sx.rec(sx.rec(o["before"])["m"])
    return any(x != 0 for x in m["missed"]) or len(m["meta"]) > 2 or len(m["axes"]) >= 2
