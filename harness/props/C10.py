"""C10 merge_bins conserves content and bin boundaries."""
from fractions import Fraction as Fr
from harness import sx, common as C

N_QUICK, N_THOROUGH = 1500, 40000
RULE = ("random 1-3D histograms (irregular/gapped bins, dyadic contents) x amount in 1..n+3 / non-integral amount / "
        "min_frequency thresholds near prefix sums x axis by index, name or None x inplace; non-trivial = "
        "accepted merge that really joins at least two bins, or a refusal across a gap")
MODELLED = ("merge_bins bin-map construction, BinningBase.apply_bin_map, _reshape_data/_apply_bin_map are modelled in "
            "coq/Model/Merge.v; numpy slicing/+= and copy() are observed, not verified")

def gen(rng, n, tier):
    for i in range(n):
        h = C.gen_hist(rng, maxbins=7, gapped=0.3, weights=rng.choice(["int", "float"]))
        if rng.random() < 0.15:      # bins far from zero: a gap of 1 is below numpy.allclose's relative tolerance there
            off = Fr(2) ** rng.choice([20, 23, 30]) * rng.choice([1, -1])
            hd = sx.rec(h); hd["bins"] = [[[a + off, b + off] for a, b in ax] for ax in hd["bins"]]
            h = [[k, v] for k, v in hd.items()]
        if rng.random() < 0.1:
            # fixed-width bins with a decimal width (0.1, 0.3, 0.7 ...): the merged bins must reuse the old edges bit for bit,
            # recomputing them from a merged width differs in the last place.  The case records the edges physt computes.
            from physt.binnings import FixedWidthBinning
            w = rng.choice([0.1, 0.3, 0.7, 0.05, 0.6]); nb = rng.randint(4, 14); start = round(rng.randint(-30, 30) * w, 10)
            fb = FixedWidthBinning(bin_width=w, bin_count=nb, min=start)
            hd = sx.rec(C.gen_hist(rng, ndim=1, maxbins=nb, minbins=nb, gapped=0.0, weights=rng.choice(["int", "float"])))
            hd["bins"] = [[[Fr(float(a)), Fr(float(b))] for a, b in fb.bins]]; hd["kinds"] = ["fixed"]; hd["incl"] = [False]
            hd["fixed_args"] = [[Fr(w), nb, Fr(start)]]
            h = [[k, v] for k, v in hd.items()]
        heavy = False
        if rng.random() < 0.06:
            # contents of widely different magnitude: the first two bins hold multiples of 2^60, the others small numbers; merging by 1 or 2
            # keeps every run's sum exactly representable, while sums across runs (prefix sums) are not
            hd = sx.rec(C.gen_hist(rng, ndim=1, maxbins=7, minbins=4, gapped=0.0, weights="float"))
            nb = len(hd["bins"][0])
            hd["freq"] = [Fr(2 ** 60) * rng.randint(1, 3), Fr(2 ** 60) * rng.randint(1, 3)] + [Fr(rng.randint(1, 40), 8) for _ in range(nb - 2)]
            hd["err2"] = [Fr(2 ** 100) * rng.randint(1, 3), Fr(2 ** 100) * rng.randint(1, 3)] + [Fr(rng.randint(1, 40), 8) for _ in range(nb - 2)]
            hd["missed"] = [0, 0, 0]
            h = [[k, v] for k, v in hd.items()]; heavy = True
        setter = "F"
        if sx.rec(h)["dtype"] == "int64" and rng.random() < 0.3:      # fractional squared errors put on integer contents through the errors2 setter
            hd = sx.rec(h); hd["err2"] = [Fr(rng.randint(0, 40), 8) for _ in hd["err2"]]; setter = "T"
            h = [[k, v] for k, v in hd.items()]
        d = sx.rec(h); ndim = len(d["bins"])
        axis = rng.choice(["none"] + list(range(ndim)) * 2)
        axes = list(range(ndim)) if axis == "none" else [axis]
        nmax = max(len(b) for b in d["bins"])
        integral = "T"
        if heavy or rng.random() < 0.65:
            a = rng.randint(1, nmax + 3) if not heavy else rng.choice([1, 2])
            if rng.random() < 0.06: integral = "F"
            op = ["amount", a]; bucket = "amount"
        else:
            # thresholds around prefix sums of the (first) merged axis' marginal, incl. negative and zero
            tot = sum(d["freq"])
            thr = rng.choice([Fr(0), Fr(-1), Fr(rng.randint(0, 8 * max(1, int(tot))), 8), Fr(rng.randint(0, 40), 4), tot, tot + 1])
            op = ["minfreq", thr]; bucket = "minfreq"
        by_name = "T" if (axis != "none" and rng.random() < 0.4) else "F"
        yield [["bucket", bucket + ("-%dd" % ndim)], ["hist", h], ["op", op], ["axes", axes], ["integral", integral],
               ["err2_setter", setter], ["heavy", "T" if heavy else "F"], ["inplace", rng.choice(["T", "F"])], ["axis_none", "T" if axis == "none" else "F"], ["by_name", by_name]]

def impl(case):
    d = sx.rec(case); hd = sx.rec(d["hist"])
    if d.get("err2_setter") == "T":
        import numpy as np
        hd0 = dict(hd); hd0["err2"] = [0] * len(hd["err2"])
        h = C.mk_hist(hd0)
        h.errors2 = np.array([float(x) for x in hd["err2"]]).reshape(h.shape)
    else:
        h = C.mk_hist(hd)
    before = C.snap(h)
    kw = {}
    if d["op"][0] == "amount":
        amount = d["op"][1]
        if d["integral"] == "F": amount = amount + 0.5
        kw["amount"] = amount
    else:
        kw["min_frequency"] = float(d["op"][1])
    if d["axis_none"] == "F":
        k = d["axes"][0]
        kw["axis"] = hd["names"][k] if d["by_name"] == "T" else k
    inplace = d["inplace"] == "T"
    try:
        r = h.merge_bins(inplace=inplace, **kw)
    except Exception as e:
        return ["refused"]
    after = C.snap(h)
    if inplace:
        untouched = (r is h)
    else:
        untouched = (r is not h) and C.same_snap(before, after)
    sn = C.snap(r)
    if d.get("heavy") == "T":      # 2^60 beside 1: the total is not a float; read it as the exact sum of the contents shown
        sn[4] = sum((Fr(float(x)) for x in sn[1]), Fr(0))
    return ["ok"] + sn + [untouched]

def nontrivial(case, obs):
    d = sx.rec(case)
    if obs and obs[0] == "ok":
        return any(len(nb) < len(ob) for nb, ob in zip(obs[1], sx.rec(d["hist"])["bins"]))
    return d["integral"] == "T"

def shrink(case):
    d = sx.rec(case); hd = sx.rec(d["hist"])
    if len(hd["bins"]) == 1 and len(hd["bins"][0]) > 1:
        for cut in (0, -1):
            h2 = dict(hd)
            h2["bins"] = [hd["bins"][0][1:] if cut == 0 else hd["bins"][0][:-1]]
            h2["freq"] = hd["freq"][1:] if cut == 0 else hd["freq"][:-1]
            h2["err2"] = hd["err2"][1:] if cut == 0 else hd["err2"][:-1]
            d2 = dict(d); d2["hist"] = [[k, v] for k, v in h2.items()]
            yield [[k, v] for k, v in d2.items()]
