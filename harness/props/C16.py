"""C16 Densities, bin geometry and cumulative values are consistent."""
from fractions import Fraction as Fr
import math
from harness import sx

N_QUICK, N_THOROUGH = 800, 25000
RULE = ("histograms of every class (Histogram1D incl. gapped bins, Histogram2D, HistogramND with 3 axes, Radial, Azimuthal, Polar, "
        "SphericalSurface, Spherical, CylindricalSurface, Cylindrical) with 1..5 irregular bins per axis at scales 1e-4..1e4, angular "
        "axes over partial or full ranges (full ranges with radial axes from 0 carry the closed form pi R^2, 4 pi, 4/3 pi R^3, pi R^2 H, "
        "2 pi H), int16 / int32 / int64 / float32 / float64 contents incl. zeros and values whose running sums leave the narrow types. Read: densities, bin_sizes, total_size / total_width, total, per-axis "
        "left / right / centre / width arrays and their mesh forms, cumulative_frequencies (1-D), and bin_sizes after merging "
        "pairs of adjacent bins along each axis. non-trivial = >=2 axes or >=3 bins")
MODELLED = ("the measure formulas of every class (width, product of widths, (r2^2-r1^2)/2 dphi, pi (r2^2-r1^2), (r2^3-r1^3)/3 (cos th1 - cos "
            "th2) dphi, ...) are the model (coq/Model/Geometry.v) over exact rationals; pi and the cosines of the theta edges are "
            "numpy's values passed with the observation; physt's arrays must agree within 1e-12 relative")

CLASSES = ["Histogram1D", "Histogram1D", "Histogram2D", "HistogramND", "RadialHistogram", "AzimuthalHistogram", "PolarHistogram",
           "SphericalSurfaceHistogram", "SphericalHistogram", "CylindricalSurfaceHistogram", "CylindricalHistogram"]

def fl(x): return Fr(float(x))
def edges(rng, lo, hi, n):
    xs = sorted({fl(lo + (hi - lo) * rng.random()) for _ in range(n - 1)})
    return [fl(lo)] + [x for x in xs if fl(lo) < x < fl(hi)] + [fl(hi)]

def gen(rng, n, tier):
    two_pi = 2 * math.pi
    for i in range(n):
        cls = rng.choice(CLASSES)
        s = float(rng.choice([1e-4, 1e-2, 1, 1, 1, 100, 1e4, 1e-9, 1e-12]))      # down to nanoseconds given in seconds
        full = rng.random() < 0.35
        R = rng.uniform(0.5, 5) * s
        def rad(): return edges(rng, 0.0 if full or rng.random() < 0.5 else 0.2 * s, R, rng.randint(1, 5))
        def ang(top):
            if full: return edges(rng, 0.0, top, rng.randint(1, 5))
            a = rng.uniform(0, top / 2); return edges(rng, a, rng.uniform(a + 0.1, top), rng.randint(1, 4))
        def lin(): return edges(rng, rng.uniform(-3, 0) * s, rng.uniform(0.1, 3) * s, rng.randint(1, 5))
        closed = "none"
        if cls == "Histogram1D":
            ax = [lin()]
            gap = rng.random() < 0.3
            pairs = [[ax[0][k], ax[0][k + 1]] for k in range(len(ax[0]) - 1)]
            if gap and len(pairs) > 1: pairs = [[a, fl(float(a) + (float(b) - float(a)) * 0.7)] if rng.random() < 0.5 else [a, b] for a, b in pairs]
            if gap and rng.random() < 0.5:      # far from zero: the gaps are tiny relative to the edge values (time stamps, rings at large radii)
                off = float(rng.choice([1e6, 1e7, 1e9])) * s
                pairs = [[fl(float(a) + off), fl(float(b) + off)] for a, b in pairs]
                pairs = [p_ for p_ in pairs if p_[0] < p_[1]]
                pairs = [p_ for k_, p_ in enumerate(pairs) if k_ == 0 or pairs[k_ - 1][1] <= p_[0]] or [[fl(off), fl(off + s)]]
            axes = [pairs]
        else:
            e = {"Histogram2D": lambda: [lin(), lin()], "HistogramND": lambda: [lin(), lin(), lin()], "RadialHistogram": lambda: [rad()],
                 "AzimuthalHistogram": lambda: [ang(two_pi)], "PolarHistogram": lambda: [rad(), ang(two_pi)],
                 "SphericalSurfaceHistogram": lambda: [ang(math.pi), ang(two_pi)], "SphericalHistogram": lambda: [rad(), ang(math.pi), ang(two_pi)],
                 "CylindricalSurfaceHistogram": lambda: [ang(two_pi), lin()], "CylindricalHistogram": lambda: [rad(), ang(two_pi), lin()]}[cls]()
            axes = [[[a[k], a[k + 1]] for k in range(len(a) - 1)] for a in e]
            if full:
                H = None
                if cls in ("CylindricalHistogram", "CylindricalSurfaceHistogram"): z = e[-1]; H = z[-1] - z[0]
                closed = {"PolarHistogram": ["disc", e[0][-1], 0], "SphericalSurfaceHistogram": ["sphere", 0, 0],
                          "SphericalHistogram": ["ball", e[0][-1], 0], "CylindricalHistogram": ["cylinder", e[0][-1], H],
                          "CylindricalSurfaceHistogram": ["mantle", 0, H]}.get(cls, "none")
        size = 1
        for a in axes: size *= len(a)
        ints = rng.random() < 0.5
        dtype = rng.choice(["int64", "int64", "int32", "int16"]) if ints else rng.choice(["float64", "float64", "float32"])
        big = {"int64": 10 ** 6, "int32": 2 ** 30, "int16": 30000}.get(dtype, 0)
        freq = [rng.choice([0, 0, 1, 3, 10, big]) if ints else fl(rng.choice([0.0, rng.random() * 100, rng.random() * 1e-3, rng.random() * 1e8])) for _ in range(size)]
        if dtype == "float32":
            import struct
            freq = [Fr(struct.unpack("f", struct.pack("f", float(x)))[0]) for x in freq]
        sub = []
        for a in axes:
            lo = rng.randint(0, len(a) - 1); sub.append([lo, rng.randint(lo + 1, len(a))])
        yield [["bucket", cls + ("/full" if closed != "none" else "")], ["cls", cls], ["axes", axes], ["freq", freq], ["ints", "T" if ints else "F"], ["closed_form", closed], ["sub", sub], ["dtype", dtype], ["radius", rng.choice(["none", "none", Fr(2), Fr(1, 2), Fr(7)])], ["sumtol", Fr(1, 10 ** 6) if dtype == "float32" else Fr(1, 10 ** 12)]]

def impl(case):
    import numpy as np, warnings
    from physt import special_histograms as sp
    from physt.histogram1d import Histogram1D
    from physt.histogram_nd import HistogramND, Histogram2D
    from physt.binnings import StaticBinning
    d = sx.rec(case)
    K = {"Histogram1D": Histogram1D, "Histogram2D": Histogram2D, "HistogramND": HistogramND}.get(d["cls"]) or getattr(sp, d["cls"])
    with warnings.catch_warnings():
        warnings.simplefilter("ignore")
        bs = [StaticBinning(np.array([[float(a), float(b)] for a, b in ax])) for ax in d["axes"]]
        shape = tuple(len(ax) for ax in d["axes"])
        fr = np.array([int(x) if d["ints"] == "T" else float(x) for x in d["freq"]], dtype=np.dtype(d.get("dtype", "int64" if d["ints"] == "T" else "float64"))).reshape(shape)
        kwr = {}
        if d.get("radius", "none") != "none" and d["cls"] in ("SphericalSurfaceHistogram", "CylindricalSurfaceHistogram"):
            kwr["radius"] = float(d["radius"])      # the measure is the one of the angular / (phi, z) coordinates, whatever the radius says
        h = K(bs[0], fr) if len(bs) == 1 and issubclass(K, Histogram1D) else K(bs, fr, **kwr)
        nd = h.ndim; broken_twin = False
        if d["cls"] == "Histogram1D" and len(d["axes"][0]) >= 1:
            # geometry stays consistent with the contents after a refused call as well: an adaptive twin over the first bin's width is
            # asked to take values beyond its bins together with weights of the wrong length
            import physt
            w0 = float(d["axes"][0][0][1]) - float(d["axes"][0][0][0]); x0 = float(d["axes"][0][0][0])
            tw = physt.h1(np.array([x0 + 0.5 * w0, x0 + 1.5 * w0]), "fixed_width", bin_width=w0, adaptive=True)
            try: tw.fill_n(np.array([x0 + 7.5 * w0, x0 + 9.5 * w0, x0 - 4.5 * w0]), weights=np.array([1.0, 2.0]))
            except Exception: pass
            try:
                ok_tw = len(tw.frequencies) == tw.bin_count == len(tw.bin_sizes) == len(tw.densities) and np.allclose(tw.densities * tw.bin_sizes, tw.frequencies)
            except Exception: ok_tw = False
            broken_twin = not ok_tw
        def f(a): return [float(x) for x in np.asarray(a, dtype=float).ravel()]
        one = nd == 1
        axes = [[[float(a), float(b)] for a, b in bb.bins.tolist()] for bb in h._binnings]
        out = [["cls", type(h).__name__], ["pi", math.pi], ["axes", axes], ["cos", [[[math.cos(a), math.cos(b)] for a, b in ax] for ax in axes]],
               ["freq", f(h.frequencies)], ["dens", f(h.densities) if not broken_twin else []], ["sizes", f(h.bin_sizes)], ["total", float(h.total)]]      # (a broken twin shows as missing densities)
        if one:
            out += [["left", [f(h.bin_left_edges)]], ["right", [f(h.bin_right_edges)]], ["centers", [f(h.bin_centers)]], ["widths", [f(h.bin_widths)]],
                    ["mesh", []], ["total_size", float(np.sum(h.bin_sizes))], ["total_width", float(h.total_width)], ["cumulative", f(h.cumulative_frequencies)]]
        else:
            out += [["left", [f(h.get_bin_left_edges(i)) for i in range(nd)]], ["right", [f(h.get_bin_right_edges(i)) for i in range(nd)]],
                    ["centers", [f(h.get_bin_centers(i)) for i in range(nd)]], ["widths", [f(h.get_bin_widths(i)) for i in range(nd)]],
                    ["mesh", [[f(a) for a in h.get_bin_left_edges()], [f(a) for a in h.get_bin_right_edges()], [f(a) for a in h.get_bin_centers()], [f(a) for a in h.get_bin_widths()]]],
                    ["total_size", float(h.total_size)], ["total_width", "n/a"], ["cumulative", "n/a"]]
        merged = []
        for k in range(nd):
            if shape[k] >= 2:
                try: m = h.merge_bins(2, axis=k)
                except (ValueError, OverflowError): continue      # gapped bins / merged contents beyond a narrow integer dtype
                merged.append([k, f(m.bin_sizes)])
        out.append(["merged", merged])
        def edges_of(g, i):
            try: return f(g.edges) if g.ndim == 1 else f(g.get_bin_edges(i))
            except ValueError: return "error"
        out.append(["edges", [edges_of(h, i) for i in range(nd)]])
        sl = tuple(slice(a, b) for a, b in d["sub"])
        try: g = h[sl[0]] if one else h[sl]
        except OverflowError:
            return out + [["sub_left", "n/a"]]
        if one:
            out += [["sub_left", [f(g.bin_left_edges)]], ["sub_right", [f(g.bin_right_edges)]]]
        else:
            out += [["sub_left", [f(g.get_bin_left_edges(i)) for i in range(nd)]], ["sub_right", [f(g.get_bin_right_edges(i)) for i in range(nd)]]]
        out += [["sub_edges", [edges_of(g, i) for i in range(nd)]], ["sub_sizes", f(g.bin_sizes)]]
        return out

def corr_view(case, obs):
    if isinstance(obs, list) and obs and isinstance(obs[0], list): return sx.rec(obs).get("sizes")
    return obs
def corr_equal(case, a, b):
    if not isinstance(a, list) or not isinstance(b, list) or len(a) != len(b): return False
    return all(abs(float(x) - float(y)) <= 1e-11 * max(abs(float(x)), abs(float(y)), max(map(lambda t: abs(float(t)), b))) for x, y in zip(a, b))

def nontrivial(case, obs):
    d = sx.rec(case)
    return len(d["axes"]) >= 2 or len(d["axes"][0]) >= 3
