"""Helpers shared by the property modules: generators of exact (dyadic) data and
histograms, construction of physt objects from cases, canonical snapshots."""
from fractions import Fraction as Fr
import math
from harness import sx

# ---------------------------------------------------------------- generators (pure python, no physt)
def dy(rng, lo=-64, hi=64, den=8):
    return Fr(rng.randint(lo * den, hi * den), den)

def gen_bins(rng, n, gapped=False, regular=False, lo=None):
    """n rising bins as [[lo,hi],...] of dyadic Fractions"""
    x = dy(rng, -20, 20) if lo is None else lo
    out = []
    w0 = Fr(rng.randint(1, 24), 8)
    for i in range(n):
        w = w0 if regular else Fr(rng.randint(1, 24), 8)
        if gapped and i > 0 and rng.random() < 0.4:
            x += Fr(rng.randint(1, 16), 8)
        out.append([x, x + w]); x += w
    return out

def gen_hist(rng, ndim=None, maxbins=6, gapped=0.25, weights="int", missed=True, regular=0.3, minbins=1):
    """a histogram case record (as python-sx assoc list)"""
    if ndim is None: ndim = rng.choice([1, 1, 2, 2, 3])
    bins, kinds, incl = [], [], []
    for _ in range(ndim):
        n = rng.randint(minbins, maxbins)
        g = rng.random() < gapped
        r = (not g) and rng.random() < regular
        b = gen_bins(rng, n, gapped=g, regular=r)
        is_gapped = any(b[i][1] != b[i + 1][0] for i in range(n - 1))
        kind = "static" if is_gapped else rng.choice(["static", "numpy", "fixed"] if r else ["static", "numpy"])
        bins.append(b); kinds.append(kind)
        incl.append({"numpy": True, "fixed": False, "static": rng.random() < 0.5}[kind])
    size = 1
    for b in bins: size *= len(b)
    if weights == "int":
        freq = [rng.choice([0, 0, 1, 2, 3, 5, 8, 13]) for _ in range(size)]
        err2 = list(freq) if rng.random() < 0.6 else [rng.randint(0, 20) for _ in range(size)]
        dtype = "int64"
    else:
        freq = [Fr(rng.randint(0, 80), 8) for _ in range(size)]
        err2 = [Fr(rng.randint(0, 160), 8) for _ in range(size)]
        dtype = "float64"
    if missed:
        m = [rng.randint(0, 4) for _ in range(3 if ndim == 1 else 1)]
    else:
        m = [0] * (3 if ndim == 1 else 1)
    names = ["ax%s%d" % (rng.choice("xyzuv"), i) for i in range(ndim)]
    return [["bins", bins], ["incl", incl], ["freq", freq], ["err2", err2], ["missed", m],
            ["kinds", kinds], ["dtype", dtype], ["names", names]]

# ---------------------------------------------------------------- physt side
def refusal(e):
    k = type(e).__name__
    return ["refused", {"ValueError": "Value", "TypeError": "Type", "IndexError": "Index", "KeyError": "Key",
                        "RuntimeError": "Runtime", "NotImplementedError": "NotImplemented",
                        "ZeroDivisionError": "ZeroDiv", "AttributeError": "Attribute"}.get(k, k)]

def mk_binning(bins, kind, incl, adaptive=False):
    import numpy as np
    from physt import binnings as B
    arr = np.array([[float(a), float(b)] for a, b in bins], dtype=float).reshape(-1, 2)
    if kind == "numpy":
        edges = np.concatenate([arr[:1, 0], arr[:, 1]])
        return B.NumpyBinning(edges, includes_right_edge=bool(incl))
    if kind == "fixed":
        w = arr[0, 1] - arr[0, 0]
        return B.FixedWidthBinning(bin_width=w, bin_count=len(arr), min=arr[0, 0], adaptive=adaptive,
                                   includes_right_edge=bool(incl))
    return B.StaticBinning(arr, includes_right_edge=bool(incl))

def b2(v): return v == "T" or v is True

def mk_hist(hc, **extra):
    """physt histogram from a case record"""
    import numpy as np
    from physt.histogram1d import Histogram1D
    from physt.histogram_nd import HistogramND, Histogram2D
    d = sx.rec(hc) if not isinstance(hc, dict) else hc
    bins = d["bins"]; ndim = len(bins)
    kinds = d.get("kinds", ["static"] * ndim)
    binnings = [mk_binning(b, k, b2(i), adaptive=b2(d.get("adaptive", "F"))) for b, k, i in zip(bins, kinds, d["incl"])]
    for k, fa in enumerate(d.get("fixed_args", [])):      # a FixedWidthBinning given by (width, count, start) as written
        if fa != "none":
            from physt import binnings as B
            binnings[k] = B.FixedWidthBinning(bin_width=float(fa[0]), bin_count=int(fa[1]), min=float(fa[2]), adaptive=b2(d.get("adaptive", "F")))
    dtype = np.dtype(d.get("dtype", "float64"))
    shape = [len(b) for b in bins]
    freq = np.array([float(x) for x in d["freq"]]).astype(dtype).reshape(shape)
    err2 = np.array([float(x) for x in d["err2"]]).astype(dtype).reshape(shape)
    names = d.get("names")
    kw = dict(extra)
    if "keep_missed" in d: kw["keep_missed"] = b2(d["keep_missed"])
    m = [sx.fl(x) for x in d["missed"]]
    if ndim == 1:
        h = Histogram1D(binnings[0], freq, errors2=err2, underflow=m[0], overflow=m[1], inner_missed=m[2],
                        axis_name=names[0] if names else None, dtype=dtype, **kw)
    else:
        cls = Histogram2D if ndim == 2 else HistogramND
        h = cls(binnings, freq, errors2=err2, missed=m[0], axis_names=names, dtype=dtype, **kw)
    return h

def snap_bins(h):
    bb = h.bins if h.ndim > 1 else [h.bins]
    return [[[x[0], x[1]] for x in b.tolist()] for b in bb]

def snap(h):
    """[bins per axis, freq flat, err2 flat, missed, total]"""
    import numpy as np
    m = [float(x) for x in np.asarray(h._missed).tolist()]
    return [snap_bins(h), [x for x in np.asarray(h.frequencies).ravel().tolist()],
            [x for x in np.asarray(h.errors2).ravel().tolist()], m, h.total]

def same_snap(a, b):
    return sx.norm(sx.enc(a)) == sx.norm(sx.enc(b))

# ---------------------------------------------------------------- arithmetic cases ("ah" records)
DTYPES = ["int16", "int32", "int64", "float16", "float32", "float64", "float128"]

def gen_axisd(rng, kind=None, w=None, shift=None, adaptive=None, maxbins=5, allow_empty=False):
    kind = kind or rng.choice(["static", "fixed", "fixed"])
    if kind == "static":
        n = rng.randint(1, maxbins)
        b = gen_bins(rng, n, gapped=rng.random() < 0.25)
        return ["static", b, "T" if rng.random() < 0.5 else "F"]
    w = w or Fr(rng.choice([1, 2, 4, 8, 3, 12]), rng.choice([1, 2, 4, 8]))
    shift = Fr(0) if shift is None else shift
    n = rng.randint(0 if allow_empty else 1, maxbins)
    ad = (rng.random() < 0.5) if adaptive is None else adaptive
    incl = "F" if ad else ("T" if rng.random() < 0.3 else "F")
    return ["fixed", w, shift, rng.randint(-6, 6), n, incl, "T" if ad else "F"]

def axisd_len(a):
    return len(a[1]) if a[0] == "static" else a[4]

def gen_stats(rng, valid=True):
    if not valid: return ["nan"] * 6
    mn = dy(rng, -10, 10); mx = mn + Fr(rng.randint(0, 40), 4)
    return [dy(rng, -50, 50), Fr(rng.randint(0, 4000), 8), mn, mx, Fr(rng.randint(1, 80), 4), rng.choice(["nan", dy(rng, -5, 5)])]

def gen_ah(rng, axes, dtype=None, missed=True, stats=None, maxval=9):
    nd = len(axes)
    size = 1
    for a in axes: size *= axisd_len(a)
    dtype = dtype or rng.choice(DTYPES)
    if dtype.startswith("int"):
        freq = [rng.choice([0, 0, 1, 2, 3, 5, maxval]) for _ in range(size)]
        err2 = list(freq) if rng.random() < 0.5 else [rng.randint(0, 12) for _ in range(size)]
        m = [rng.randint(0, 3) if missed else 0 for _ in range(3 if nd == 1 else 1)]
    else:
        freq = [Fr(rng.randint(0, 8 * maxval), 8) for _ in range(size)]
        err2 = [Fr(rng.randint(0, 64), 8) for _ in range(size)]
        m = [Fr(rng.randint(0, 24), 8) if missed else 0 for _ in range(3 if nd == 1 else 1)]
    if stats is None:
        stats = "none" if nd > 1 else gen_stats(rng, valid=rng.random() < 0.8)
    return [["axes", axes], ["freq", freq], ["err2", err2], ["missed", m], ["dtype", dtype], ["stats", stats],
            ["keep", "T"], ["names", ["ax%d" % i for i in range(nd)]]]

def mk_axis_binning(a):
    import numpy as np
    from physt import binnings as B
    if a[0] == "static":
        arr = np.array([[float(x), float(y)] for x, y in a[1]], dtype=float).reshape(-1, 2)
        return B.StaticBinning(arr, includes_right_edge=b2(a[2]))
    _, w, sh, tmin, n, incl, ad = a
    kw = dict(bin_width=float(w), bin_count=n, adaptive=b2(ad), includes_right_edge=b2(incl))
    if n > 0: kw.update(bin_times_min=int(tmin), bin_shift=float(sh))
    elif sh != 0: kw.update(bin_shift=float(sh))
    return B.FixedWidthBinning(**kw)

def mk_ah(hc):
    import numpy as np
    from physt.histogram1d import Histogram1D
    from physt.histogram_nd import HistogramND, Histogram2D
    from physt.statistics import Statistics
    d = sx.rec(hc)
    axes = d["axes"]; nd = len(axes)
    binnings = [mk_axis_binning(a) for a in axes]
    dtype = np.dtype("longdouble" if d["dtype"] == "float128" else d["dtype"])
    shape = [axisd_len(a) for a in axes]
    freq = np.array([float(x) for x in d["freq"]]).astype(dtype).reshape(shape)
    err2 = np.array([float(x) for x in d["err2"]]).astype(dtype).reshape(shape)
    m = [sx.fl(x) for x in d["missed"]]
    names = d.get("names")
    if nd == 1:
        st = d["stats"]
        stats = None
        if st != "none":
            v = [sx.fl(x) for x in st]
            stats = Statistics(sum=v[0], sum2=v[1], min=v[2], max=v[3], weight=v[4], median=v[5])
        return Histogram1D(binnings[0], freq, errors2=err2, underflow=m[0], overflow=m[1], inner_missed=m[2],
                           stats=stats, dtype=dtype, keep_missed=b2(d.get("keep", "T")), axis_name=names[0] if names else None)
    cls = Histogram2D if nd == 2 else HistogramND
    return cls(binnings, freq, errors2=err2, missed=m[0], dtype=dtype, axis_names=names)

def dtype_name(dt):
    s = str(dt)
    return "float128" if s in ("float128", "longdouble") else s

def snap_ah(h):
    """[bins per axis, freq, err2, missed, dtype, stats]"""
    import numpy as np
    m = [float(x) for x in np.asarray(h._missed).tolist()]
    st = "none"
    if hasattr(h, "_stats") and h._stats is not None:
        s = h._stats
        st = [float(s.sum), float(s.sum2), float(s.min), float(s.max), float(s.weight), float(s.median)]
    fr = np.asarray(h.frequencies); e2 = np.asarray(h.errors2)
    return [snap_bins(h), [float(x) for x in fr.ravel().tolist()], [float(x) for x in e2.ravel().tolist()], m,
            dtype_name(fr.dtype if dtype_name(fr.dtype) == dtype_name(h.dtype) else "MISMATCH:%s/%s" % (h.dtype, fr.dtype)), st]
