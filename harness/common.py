"""Helpers shared by the property modules: generators of exact (dyadic) data and
histograms, construction of physt objects from cases, canonical snapshots."""
from fractions import Fraction as Fr
import math
from harness import sx

# ---------------------------------------------------------------- generators (pure python, no physt)
def dy(rng, lo=-64, hi=64, den=8):
    return Fr(rng.randint(lo * den, hi * den), den)

def gen_bins(rng, n, gapped=False, regular=False, lo=None):
    """n rising bins as [[lo,hi],...] of dyadic Fractions"""
    x = dy(rng, -20, 20) if lo is None else lo
    out = []
    w0 = Fr(rng.randint(1, 24), 8)
    for i in range(n):
        w = w0 if regular else Fr(rng.randint(1, 24), 8)
        if gapped and i > 0 and rng.random() < 0.4:
            x += Fr(rng.randint(1, 16), 8)
        out.append([x, x + w]); x += w
    return out

def gen_hist(rng, ndim=None, maxbins=6, gapped=0.25, weights="int", missed=True, regular=0.3, minbins=1):
    """a histogram case record (as python-sx assoc list)"""
    if ndim is None: ndim = rng.choice([1, 1, 2, 2, 3])
    bins, kinds, incl = [], [], []
    for _ in range(ndim):
        n = rng.randint(minbins, maxbins)
        g = rng.random() < gapped
        r = (not g) and rng.random() < regular
        b = gen_bins(rng, n, gapped=g, regular=r)
        is_gapped = any(b[i][1] != b[i + 1][0] for i in range(n - 1))
        kind = "static" if is_gapped else rng.choice(["static", "numpy", "fixed"] if r else ["static", "numpy"])
        bins.append(b); kinds.append(kind)
        incl.append({"numpy": True, "fixed": False, "static": rng.random() < 0.5}[kind])
    size = 1
    for b in bins: size *= len(b)
    if weights == "int":
        freq = [rng.choice([0, 0, 1, 2, 3, 5, 8, 13]) for _ in range(size)]
        err2 = list(freq) if rng.random() < 0.6 else [rng.randint(0, 20) for _ in range(size)]
        dtype = "int64"
    else:
        freq = [Fr(rng.randint(0, 80), 8) for _ in range(size)]
        err2 = [Fr(rng.randint(0, 160), 8) for _ in range(size)]
        dtype = "float64"
    if missed:
        m = [rng.randint(0, 4) for _ in range(3 if ndim == 1 else 1)]
    else:
        m = [0] * (3 if ndim == 1 else 1)
    names = ["ax%s%d" % (rng.choice("xyzuv"), i) for i in range(ndim)]
    return [["bins", bins], ["incl", incl], ["freq", freq], ["err2", err2], ["missed", m],
            ["kinds", kinds], ["dtype", dtype], ["names", names]]

# ---------------------------------------------------------------- physt side
def refusal(e):
    k = type(e).__name__
    return ["refused", {"ValueError": "Value", "TypeError": "Type", "IndexError": "Index", "KeyError": "Key",
                        "RuntimeError": "Runtime", "NotImplementedError": "NotImplemented",
                        "ZeroDivisionError": "ZeroDiv", "AttributeError": "Attribute"}.get(k, k)]

def mk_binning(bins, kind, incl, adaptive=False):
    import numpy as np
    from physt import binnings as B
    arr = np.array([[float(a), float(b)] for a, b in bins], dtype=float).reshape(-1, 2)
    if kind == "numpy":
        edges = np.concatenate([arr[:1, 0], arr[:, 1]])
        return B.NumpyBinning(edges, includes_right_edge=bool(incl))
    if kind == "fixed":
        w = arr[0, 1] - arr[0, 0]
        return B.FixedWidthBinning(bin_width=w, bin_count=len(arr), min=arr[0, 0], adaptive=adaptive,
                                   includes_right_edge=bool(incl))
    return B.StaticBinning(arr, includes_right_edge=bool(incl))

def b2(v): return v == "T" or v is True

def mk_hist(hc, **extra):
    """physt histogram from a case record"""
    import numpy as np
    from physt.histogram1d import Histogram1D
    from physt.histogram_nd import HistogramND, Histogram2D
    d = sx.rec(hc) if not isinstance(hc, dict) else hc
    bins = d["bins"]; ndim = len(bins)
    kinds = d.get("kinds", ["static"] * ndim)
    binnings = [mk_binning(b, k, b2(i), adaptive=b2(d.get("adaptive", "F"))) for b, k, i in zip(bins, kinds, d["incl"])]
    dtype = np.dtype(d.get("dtype", "float64"))
    shape = [len(b) for b in bins]
    freq = np.array([float(x) for x in d["freq"]]).astype(dtype).reshape(shape)
    err2 = np.array([float(x) for x in d["err2"]]).astype(dtype).reshape(shape)
    names = d.get("names")
    kw = dict(extra)
    if "keep_missed" in d: kw["keep_missed"] = b2(d["keep_missed"])
    m = [sx.fl(x) for x in d["missed"]]
    if ndim == 1:
        h = Histogram1D(binnings[0], freq, errors2=err2, underflow=m[0], overflow=m[1], inner_missed=m[2],
                        axis_name=names[0] if names else None, dtype=dtype, **kw)
    else:
        cls = Histogram2D if ndim == 2 else HistogramND
        h = cls(binnings, freq, errors2=err2, missed=m[0], axis_names=names, dtype=dtype, **kw)
    return h

def snap_bins(h):
    bb = h.bins if h.ndim > 1 else [h.bins]
    return [[[x[0], x[1]] for x in b.tolist()] for b in bb]

def snap(h):
    """[bins per axis, freq flat, err2 flat, missed, total]"""
    import numpy as np
    m = [float(x) for x in np.asarray(h._missed).tolist()]
    return [snap_bins(h), [x for x in np.asarray(h.frequencies).ravel().tolist()],
            [x for x in np.asarray(h.errors2).ravel().tolist()], m, h.total]

def same_snap(a, b):
    return sx.norm(sx.enc(a)) == sx.norm(sx.enc(b))
